package main

// Bit-level evaluation of integer terms (used by C16): every bit of a term is a
// small boolean formula over the bits of the function's parameters. Formulas
// are kept in a simplified form in which "this output bit is exactly that input
// bit" is syntactically visible. The evaluation is an identity of expressions:
// it holds for every input value, nothing is ever tried.

import (
	"fmt"
	"sort"
	"strings"
)

type bexp struct {
	k    int    // 0 zero, 1 one, 2 variable, 3 compound
	p    string // variable: parameter
	i    int    // variable: bit index
	op   string // compound: not/and/or/xor
	args []bexp
	key  string
}

var (
	b0 = bexp{k: 0, key: "0"}
	b1 = bexp{k: 1, key: "1"}
)

func bvar(p string, i int) bexp { return bexp{k: 2, p: p, i: i, key: fmt.Sprintf("%s.%d", p, i)} }

func bcomp(op string, args ...bexp) bexp {
	if op != "not" {
		sort.Slice(args, func(i, j int) bool { return args[i].key < args[j].key })
	}
	var ks []string
	for _, a := range args {
		ks = append(ks, a.key)
	}
	return bexp{k: 3, op: op, args: args, key: op + "(" + strings.Join(ks, ",") + ")"}
}

func bnot(a bexp) bexp {
	switch {
	case a.k == 0:
		return b1
	case a.k == 1:
		return b0
	case a.k == 3 && a.op == "not":
		return a.args[0]
	}
	return bcomp("not", a)
}

func band(a, b bexp) bexp {
	switch {
	case a.k == 0 || b.k == 0:
		return b0
	case a.k == 1:
		return b
	case b.k == 1:
		return a
	case a.key == b.key:
		return a
	case bnot(a).key == b.key:
		return b0
	}
	// absorption: a & (a | x) = a
	for _, pair := range [][2]bexp{{a, b}, {b, a}} {
		if pair[1].k == 3 && pair[1].op == "or" {
			for _, x := range pair[1].args {
				if x.key == pair[0].key {
					return pair[0]
				}
			}
		}
	}
	return bcomp("and", a, b)
}

func bor(a, b bexp) bexp {
	switch {
	case a.k == 1 || b.k == 1:
		return b1
	case a.k == 0:
		return b
	case b.k == 0:
		return a
	case a.key == b.key:
		return a
	case bnot(a).key == b.key:
		return b1
	}
	return bcomp("or", a, b)
}

func bxor(a, b bexp) bexp {
	switch {
	case a.k == 0:
		return b
	case b.k == 0:
		return a
	case a.k == 1:
		return bnot(b)
	case b.k == 1:
		return bnot(a)
	case a.key == b.key:
		return b0
	}
	return bcomp("xor", a, b)
}

func bite(c, a, b bexp) bexp {
	switch {
	case c.k == 1:
		return a
	case c.k == 0:
		return b
	case a.key == b.key:
		return a
	}
	// c ? a : b  =  (c & a) | (!c & b)
	return bor(band(c, a), band(bnot(c), b))
}

func borAll(v []bexp) bexp {
	r := b0
	for _, x := range v {
		r = bor(r, x)
	}
	return r
}

// bitvec evaluates an integer term to its bits (least significant first).
// paramWidth gives the width of each parameter by name.
type bvMemo struct {
	v   []bexp
	typ string
	err error
}

var bvCache = map[string]bvMemo{}

func bitvec(t *Term, paramType map[string]string) ([]bexp, string, error) {
	k := t.Key()
	if m, ok := bvCache[k]; ok {
		return m.v, m.typ, m.err
	}
	v, typ, err := bitvec1(t, paramType)
	bvCache[k] = bvMemo{v, typ, err}
	return v, typ, err
}

func bitvec1(t *Term, paramType map[string]string) ([]bexp, string, error) {
	typOf := func(s string) string {
		// "int32,c" -> "int32"
		if i := strings.Index(s, ","); i >= 0 {
			return s[:i]
		}
		return s
	}
	if v, typ, ok := t.constInt(); ok {
		w, okw := intWidth[typ]
		if !okw {
			return nil, "", fmt.Errorf("constant of type %q", typ)
		}
		out := make([]bexp, w)
		for i := 0; i < w; i++ {
			if (uint64(v)>>uint(i))&1 == 1 {
				out[i] = b1
			} else {
				out[i] = b0
			}
		}
		return out, typ, nil
	}
	switch t.Op {
	case "param":
		typ := paramType[t.S]
		w, ok := intWidth[typ]
		if !ok {
			return nil, "", fmt.Errorf("parameter %s of type %q", t.S, typ)
		}
		out := make([]bexp, w)
		for i := range out {
			out[i] = bvar(t.S, i)
		}
		return out, typ, nil
	case "conv":
		// S = "to<from"
		parts := strings.SplitN(t.S, "<", 2)
		if len(parts) != 2 {
			return nil, "", fmt.Errorf("conversion %q", t.S)
		}
		to, from := parts[0], parts[1]
		x, _, err := bitvec(t.Args[0], paramType)
		if err != nil {
			return nil, "", err
		}
		wt, ok1 := intWidth[to]
		wf, ok2 := intWidth[from]
		if !ok1 || !ok2 || len(x) != wf {
			return nil, "", fmt.Errorf("conversion %q", t.S)
		}
		out := make([]bexp, wt)
		for i := range out {
			switch {
			case i < wf:
				out[i] = x[i]
			case isSignedName(from):
				out[i] = x[wf-1]
			default:
				out[i] = b0
			}
		}
		return out, to, nil
	case "and", "or", "xor":
		x, tx, err := bitvec(t.Args[0], paramType)
		if err != nil {
			return nil, "", err
		}
		y, _, err := bitvec(t.Args[1], paramType)
		if err != nil {
			return nil, "", err
		}
		// an untyped constant operand takes the width of the operation
		if w, ok := intWidth[typOf(t.S)]; ok && len(x) != len(y) {
			fit := func(v []bexp, c *Term) []bexp {
				if _, _, isC := c.constInt(); !isC || len(v) == w {
					return v
				}
				out := make([]bexp, w)
				for i := range out {
					if i < len(v) {
						out[i] = v[i]
					} else {
						out[i] = v[len(v)-1]
					}
				}
				return out
			}
			x, y = fit(x, t.Args[0]), fit(y, t.Args[1])
			tx = typOf(t.S)
		}
		if len(x) != len(y) {
			return nil, "", fmt.Errorf("%s over different widths (%d, %d): %s", t.Op, len(x), len(y), clip(t.Pretty(), 120))
		}
		out := make([]bexp, len(x))
		for i := range x {
			switch t.Op {
			case "and":
				out[i] = band(x[i], y[i])
			case "or":
				out[i] = bor(x[i], y[i])
			default:
				out[i] = bxor(x[i], y[i])
			}
		}
		return out, tx, nil
	case "shl", "shr":
		x, tx, err := bitvec(t.Args[0], paramType)
		if err != nil {
			return nil, "", err
		}
		n, _, ok := t.Args[1].constInt()
		if !ok || n < 0 {
			return nil, "", fmt.Errorf("shift by a non-constant count")
		}
		w := len(x)
		out := make([]bexp, w)
		for i := range out {
			if t.Op == "shl" {
				if j := i - int(n); j >= 0 {
					out[i] = x[j]
				} else {
					out[i] = b0
				}
			} else {
				if j := i + int(n); j < w {
					out[i] = x[j]
				} else if isSignedName(typOf(tx)) {
					out[i] = x[w-1]
				} else {
					out[i] = b0
				}
			}
		}
		return out, tx, nil
	case "ite":
		c, err := boolOf(t.Args[0], paramType)
		if err != nil {
			return nil, "", err
		}
		x, tx, err := bitvec(t.Args[1], paramType)
		if err != nil {
			return nil, "", err
		}
		y, _, err := bitvec(t.Args[2], paramType)
		if err != nil {
			return nil, "", err
		}
		if len(x) != len(y) {
			return nil, "", fmt.Errorf("ite over different widths")
		}
		out := make([]bexp, len(x))
		for i := range x {
			out[i] = bite(c, x[i], y[i])
		}
		return out, tx, nil
	}
	return nil, "", fmt.Errorf("operator %s is outside the bit-level fragment: %s", t.Op, clip(t.Pretty(), 160))
}

// boolOf evaluates a comparison of an integer term with zero (or of two terms for eq/ne).
func boolOf(t *Term, paramType map[string]string) (bexp, error) {
	switch t.Op {
	case "not":
		x, err := boolOf(t.Args[0], paramType)
		return bnot(x), err
	case "ne", "eq", "gt", "lt", "ge", "le":
		x, tx, err := bitvec(t.Args[0], paramType)
		if err != nil {
			return b0, err
		}
		y, _, err := bitvec(t.Args[1], paramType)
		if err != nil {
			return b0, err
		}
		if len(x) != len(y) {
			return b0, fmt.Errorf("comparison over different widths")
		}
		zero := func(v []bexp) bool {
			for _, b := range v {
				if b.k != 0 {
					return false
				}
			}
			return true
		}
		switch t.Op {
		case "ne", "eq":
			d := make([]bexp, len(x))
			for i := range x {
				d[i] = bxor(x[i], y[i])
			}
			nz := borAll(d)
			if t.Op == "ne" {
				return nz, nil
			}
			return bnot(nz), nil
		}
		// orderings only against zero, signed
		signed := isSignedName(strings.SplitN(tx, ",", 2)[0])
		var v []bexp
		op := t.Op
		switch {
		case zero(y):
			v = x
		case zero(x):
			v = y
			op = map[string]string{"gt": "lt", "lt": "gt", "ge": "le", "le": "ge"}[op]
		default:
			return b0, fmt.Errorf("ordering of two non-constant terms")
		}
		nz := borAll(v)
		sign := b0
		if signed {
			sign = v[len(v)-1]
		}
		switch op {
		case "gt":
			return band(bnot(sign), nz), nil
		case "lt":
			return sign, nil
		case "ge":
			return bnot(sign), nil
		default: // le
			return bor(sign, bnot(nz)), nil
		}
	}
	return b0, fmt.Errorf("condition %s is outside the bit-level fragment", t.Op)
}
