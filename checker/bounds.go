package main

// E-BOUNDS: trap discharge by a zone (difference-bound) analysis over typed
// syntax. For one function it walks the statements flow-sensitively, keeps
// constraints  a - b <= c  between integer locals, len(x) symbols and 0, plus
// disequalities, and at every operation that can panic (index, slice, integer
// division, explicit panic, single-result type assertion) tries to prove the
// operation safe from the constraints that hold there. Loops are handled by
// forgetting everything assigned in them (a sound over-approximation).

import (
	"fmt"
	"go/ast"
	"go/constant"
	"go/token"
	"go/types"
	"sort"
	"strings"

	"golang.org/x/tools/go/packages"
	"golang.org/x/tools/go/types/typeutil"
)

type trapSite struct {
	kind   string // index, slice, div, panic, assert, nilmap, shift
	pos    token.Pos
	desc   string // position-free discriminator
	proved bool
	why    string
	upper  bool // index/slice: the upper bound alone is proved
	lower  bool
	target string // rendering of the indexed operand
	write  bool   // the site is an assignment target
}

type zone struct {
	bound map[[2]string]int // a-b <= c
	diseq map[[2]string]map[int]bool
	// provenance
	idxOf    map[string]idxProv // v = strings.Index*(x, needle)
	lastChar map[string]byte    // x ends with this byte (HasSuffix)
	errFrom  map[string]errProv // err = validateArgs-like(n, xs)
	dead     bool
}

type idxProv struct {
	x      string
	needle string // single character when len==1
}
type errProv struct {
	xs string
	n  int
}

func newZone() *zone {
	return &zone{bound: map[[2]string]int{}, diseq: map[[2]string]map[int]bool{}, idxOf: map[string]idxProv{}, lastChar: map[string]byte{}, errFrom: map[string]errProv{}}
}

func (z *zone) clone() *zone {
	n := newZone()
	n.dead = z.dead
	for k, v := range z.bound {
		n.bound[k] = v
	}
	for k, v := range z.diseq {
		m := map[int]bool{}
		for c := range v {
			m[c] = true
		}
		n.diseq[k] = m
	}
	for k, v := range z.idxOf {
		n.idxOf[k] = v
	}
	for k, v := range z.lastChar {
		n.lastChar[k] = v
	}
	for k, v := range z.errFrom {
		n.errFrom[k] = v
	}
	return n
}

func (z *zone) addLE(a, b string, c int) { // a - b <= c
	if a == b {
		return
	}
	k := [2]string{a, b}
	if old, ok := z.bound[k]; !ok || c < old {
		z.bound[k] = c
	}
}

func (z *zone) addNE(a, b string, c int) { // a - b != c
	k := [2]string{a, b}
	if z.diseq[k] == nil {
		z.diseq[k] = map[int]bool{}
	}
	z.diseq[k][c] = true
}

func (z *zone) forget(sym string) {
	bare := "<" + strings.TrimPrefix(strings.TrimPrefix(sym, "v:"), "len:") + ">"
	hit := func(s string) bool {
		return s == sym || (strings.HasPrefix(s, "e:") && strings.Contains(s, bare))
	}
	for k := range z.bound {
		if hit(k[0]) || hit(k[1]) {
			delete(z.bound, k)
		}
	}
	for k := range z.diseq {
		if hit(k[0]) || hit(k[1]) {
			delete(z.diseq, k)
		}
	}
	delete(z.idxOf, sym)
	delete(z.errFrom, sym)
	for v, p := range z.idxOf {
		if "len:"+p.x == sym {
			delete(z.idxOf, v)
		}
	}
}

func (z *zone) forgetLen(x string) {
	z.forget("len:" + x)
	delete(z.lastChar, x)
	for v, p := range z.errFrom {
		if p.xs == x {
			delete(z.errFrom, v)
		}
	}
}

// closure computes all-pairs tightest bounds, applying disequalities.
func (z *zone) closure() map[[2]string]int {
	syms := map[string]bool{"0": true}
	for k := range z.bound {
		syms[k[0]] = true
		syms[k[1]] = true
	}
	for k := range z.diseq {
		syms[k[0]] = true
		syms[k[1]] = true
	}
	var ss []string
	for s := range syms {
		ss = append(ss, s)
	}
	sort.Strings(ss)
	d := map[[2]string]int{}
	for k, v := range z.bound {
		d[k] = v
	}
	for _, s := range ss {
		if strings.HasPrefix(s, "len:") {
			k := [2]string{"0", s} // 0 - len <= 0
			if old, ok := d[k]; !ok || 0 < old {
				d[k] = 0
			}
		}
	}
	for round := 0; round < 6; round++ {
		for _, k := range ss {
			for _, i := range ss {
				ik, ok1 := d[[2]string{i, k}]
				if !ok1 {
					continue
				}
				for _, j := range ss {
					if i == j {
						continue
					}
					kj, ok2 := d[[2]string{k, j}]
					if !ok2 {
						continue
					}
					if old, ok := d[[2]string{i, j}]; !ok || ik+kj < old {
						d[[2]string{i, j}] = ik + kj
					}
				}
			}
		}
		changed := false
		for k, cs := range z.diseq {
			a, b := k[0], k[1]
			for c := range cs {
				if up, ok := d[[2]string{a, b}]; ok && up == c { // a-b <= c and != c
					d[[2]string{a, b}] = c - 1
					changed = true
				}
				if lo, ok := d[[2]string{b, a}]; ok && lo == -c { // b-a <= -c  i.e. a-b >= c
					d[[2]string{b, a}] = -c - 1
					changed = true
				}
			}
		}
		if !changed {
			break
		}
	}
	return d
}

type lin struct {
	sym string
	c   int
	ok  bool
}

// proveLE proves e1 <= e2.
func (z *zone) proveLE(e1, e2 lin) bool {
	if !e1.ok || !e2.ok {
		return false
	}
	if e1.sym == e2.sym {
		return e1.c <= e2.c
	}
	d := z.closure()
	if up, ok := d[[2]string{e1.sym, e2.sym}]; ok {
		return up <= e2.c-e1.c
	}
	return false
}

func joinZones(a, b *zone) *zone {
	if a == nil || a.dead {
		return b
	}
	if b == nil || b.dead {
		return a
	}
	da, db := a.closure(), b.closure()
	n := newZone()
	for k, va := range da {
		if vb, ok := db[k]; ok {
			if vb > va {
				va = vb
			}
			n.bound[k] = va
		}
	}
	for k, cs := range a.diseq {
		for c := range cs {
			// keep a disequality when the other side implies it
			if b.diseq[k][c] {
				n.addNE(k[0], k[1], c)
				continue
			}
			up, ok1 := db[[2]string{k[0], k[1]}]
			lo, ok2 := db[[2]string{k[1], k[0]}]
			if (ok1 && up < c) || (ok2 && -lo > c) {
				n.addNE(k[0], k[1], c)
			}
		}
	}
	for k, cs := range b.diseq {
		for c := range cs {
			up, ok1 := da[[2]string{k[0], k[1]}]
			lo, ok2 := da[[2]string{k[1], k[0]}]
			if (ok1 && up < c) || (ok2 && -lo > c) {
				n.addNE(k[0], k[1], c)
			}
		}
	}
	for k, v := range a.idxOf {
		if w, ok := b.idxOf[k]; ok && w == v {
			n.idxOf[k] = v
		}
	}
	for k, v := range a.lastChar {
		if w, ok := b.lastChar[k]; ok && w == v {
			n.lastChar[k] = v
		}
	}
	for k, v := range a.errFrom {
		if w, ok := b.errFrom[k]; ok && w == v {
			n.errFrom[k] = v
		}
	}
	return n
}

// ---------------------------------------------------------------------------

type boundsAnalyser struct {
	w     *World
	pkg   *packages.Package
	info  *types.Info
	sites []*trapSite
	fn    string
	// lenSummaries: functions f(n, xs, ...) error whose nil result implies len(xs)==n,
	// derived from their bodies (see deriveLenSummary)
	lenSummary   map[*types.Func][2]int // param index of n, of xs
	count        map[string]int
	enclosing    *ast.FuncDecl
	enclosingLit *ast.FuncLit
	commaOk      map[*ast.TypeAssertExpr]bool
}

func symOf(obj types.Object) string {
	return fmt.Sprintf("%s@%d", obj.Name(), obj.Pos())
}

func (b *boundsAnalyser) objOf(e ast.Expr) types.Object {
	if id, ok := ast.Unparen(e).(*ast.Ident); ok {
		if o := b.info.Uses[id]; o != nil {
			return o
		}
		return b.info.Defs[id]
	}
	return nil
}

// chainSym names an operand that is a variable or a pure field-selection
// chain (u.ctx.Memory); the chain is assumed stable within the function unless
// it is assigned (assignments forget it).
func (b *boundsAnalyser) chainSym(e ast.Expr) (string, bool) {
	e = ast.Unparen(e)
	if o, ok := b.objOf(e).(*types.Var); ok {
		return symOf(o), true
	}
	if sel, ok := e.(*ast.SelectorExpr); ok {
		x := ast.Expr(sel)
		for {
			s2, ok := ast.Unparen(x).(*ast.SelectorExpr)
			if !ok {
				break
			}
			if sl := b.info.Selections[s2]; sl == nil || sl.Kind() != types.FieldVal {
				return "", false
			}
			x = s2.X
		}
		if _, ok := ast.Unparen(x).(*ast.Ident); ok {
			return "sel:" + types.ExprString(sel), true
		}
	}
	return "", false
}

func (b *boundsAnalyser) isInt(e ast.Expr) bool {
	t := b.info.TypeOf(e)
	if t == nil {
		return false
	}
	bt, ok := t.Underlying().(*types.Basic)
	return ok && bt.Info()&types.IsInteger != 0
}

// linear converts an integer expression into sym+c.
func (b *boundsAnalyser) linear(e ast.Expr) lin {
	e = ast.Unparen(e)
	if tv, ok := b.info.Types[e]; ok && tv.Value != nil && tv.Value.Kind() == constant.Int {
		if v, ok := constant.Int64Val(tv.Value); ok {
			return lin{"0", int(v), true}
		}
	}
	switch x := e.(type) {
	case *ast.Ident:
		if o, ok := b.objOf(x).(*types.Var); ok && b.isInt(x) {
			return lin{"v:" + symOf(o), 0, true}
		}
	case *ast.CallExpr:
		if id, ok := ast.Unparen(x.Fun).(*ast.Ident); ok && id.Name == "len" && len(x.Args) == 1 {
			if _, isB := b.info.Uses[id].(*types.Builtin); isB {
				if k, ok := b.chainSym(x.Args[0]); ok {
					return lin{"len:" + k, 0, true}
				}
			}
		}
		// value-preserving conversion of an int expression
		if tv, ok := b.info.Types[x.Fun]; ok && tv.IsType() && len(x.Args) == 1 && b.isInt(x.Args[0]) {
			if bt, ok := tv.Type.Underlying().(*types.Basic); ok && (bt.Kind() == types.Int || bt.Kind() == types.Int64) {
				return b.linear(x.Args[0])
			}
			// a conversion between named/unnamed 32-bit signed types keeps the value
			if bt, ok := tv.Type.Underlying().(*types.Basic); ok && bt.Kind() == types.Int32 {
				if at, ok := b.info.TypeOf(x.Args[0]).Underlying().(*types.Basic); ok && at.Kind() == types.Int32 {
					return b.linear(x.Args[0])
				}
			}
		}
	case *ast.BinaryExpr:
		if x.Op == token.ADD || x.Op == token.SUB {
			l, r := b.linear(x.X), b.linear(x.Y)
			if l.ok && r.ok && r.sym == "0" {
				if x.Op == token.ADD {
					return lin{l.sym, l.c + r.c, true}
				}
				return lin{l.sym, l.c - r.c, true}
			}
			if l.ok && r.ok && l.sym == "0" && x.Op == token.ADD {
				return lin{r.sym, l.c + r.c, true}
			}
		}
	}
	// any other pure integer expression is a symbol of its own: two
	// occurrences of the same expression over unassigned variables are equal
	if b.isInt(e) {
		if k, ok := b.exprSym(e); ok {
			return lin{"e:" + k, 0, true}
		}
	}
	return lin{}
}

func (b *boundsAnalyser) exprSym(e ast.Expr) (string, bool) {
	e = ast.Unparen(e)
	if tv, ok := b.info.Types[e]; ok && tv.Value != nil {
		return tv.Value.ExactString(), true
	}
	switch x := e.(type) {
	case *ast.Ident:
		if o, ok := b.objOf(x).(*types.Var); ok {
			return "<" + symOf(o) + ">", true
		}
	case *ast.SelectorExpr:
		if k, ok := b.chainSym(x); ok {
			return "<" + k + ">", true
		}
	case *ast.BinaryExpr:
		switch x.Op {
		case token.ADD, token.SUB, token.MUL:
			l, ok1 := b.exprSym(x.X)
			r, ok2 := b.exprSym(x.Y)
			if ok1 && ok2 {
				return "(" + l + x.Op.String() + r + ")", true
			}
		}
	case *ast.CallExpr:
		if tv, ok := b.info.Types[x.Fun]; ok && tv.IsType() && len(x.Args) == 1 {
			// widening or same-width integer conversions keep the value
			to, ok1 := tv.Type.Underlying().(*types.Basic)
			from, ok2 := b.info.TypeOf(x.Args[0]).Underlying().(*types.Basic)
			if ok1 && ok2 && to.Info()&types.IsInteger != 0 && from.Info()&types.IsInteger != 0 {
				wt, wf := intWidth[typeName(to)], intWidth[typeName(from)]
				if wt >= wf && (to.Info()&types.IsUnsigned == 0) {
					return b.exprSym(x.Args[0])
				}
			}
		}
		if id, ok := ast.Unparen(x.Fun).(*ast.Ident); ok && id.Name == "len" && len(x.Args) == 1 {
			if k, ok := b.chainSym(x.Args[0]); ok {
				return "<len:" + k + ">", true
			}
		}
	}
	return "", false
}

func (b *boundsAnalyser) site(kind string, pos token.Pos, desc string, proved bool, why string) {
	if b.count == nil {
		b.count = map[string]int{}
	}
	key := b.fn + ":" + kind + ":" + desc
	b.count[key]++
	if n := b.count[key]; n > 1 {
		desc = fmt.Sprintf("%s#%d", desc, n)
	}
	b.sites = append(b.sites, &trapSite{kind: kind, pos: pos, desc: b.fn + ":" + kind + ":" + desc, proved: proved, why: why})
}

// assume refines z with cond == truth.
func (b *boundsAnalyser) assume(z *zone, cond ast.Expr, truth bool) *zone {
	if z == nil || z.dead {
		return z
	}
	cond = ast.Unparen(cond)
	switch c := cond.(type) {
	case *ast.UnaryExpr:
		if c.Op == token.NOT {
			return b.assume(z, c.X, !truth)
		}
	case *ast.BinaryExpr:
		switch c.Op {
		case token.LAND:
			if truth {
				return b.assume(b.assume(z, c.X, true), c.Y, true)
			}
			return joinZones(b.assume(z.clone(), c.X, false), b.assume(b.assume(z.clone(), c.X, true), c.Y, false))
		case token.LOR:
			if !truth {
				return b.assume(b.assume(z, c.X, false), c.Y, false)
			}
			return joinZones(b.assume(z.clone(), c.X, true), b.assume(b.assume(z.clone(), c.X, false), c.Y, true))
		case token.EQL, token.NEQ, token.LSS, token.LEQ, token.GTR, token.GEQ:
			// err != nil from a length validator
			if c.Op == token.EQL || c.Op == token.NEQ {
				for i := 0; i < 2; i++ {
					x, y := c.X, c.Y
					if i == 1 {
						x, y = y, x
					}
					if id, ok := ast.Unparen(y).(*ast.Ident); ok && id.Name == "nil" {
						if o := b.objOf(x); o != nil {
							if p, ok := z.errFrom["v:"+symOf(o)]; ok {
								isNil := (c.Op == token.EQL) == truth
								if isNil {
									n := z.clone()
									n.addLE("len:"+p.xs, "0", p.n)
									n.addLE("0", "len:"+p.xs, -p.n)
									return n
								}
							}
						}
						return z
					}
				}
			}
			l, r := b.linear(c.X), b.linear(c.Y)
			if !l.ok || !r.ok {
				return z
			}
			op := c.Op
			if !truth {
				switch op {
				case token.EQL:
					op = token.NEQ
				case token.NEQ:
					op = token.EQL
				case token.LSS:
					op = token.GEQ
				case token.LEQ:
					op = token.GTR
				case token.GTR:
					op = token.LEQ
				case token.GEQ:
					op = token.LSS
				}
			}
			n := z.clone()
			// l.sym + l.c  op  r.sym + r.c
			switch op {
			case token.LEQ:
				n.addLE(l.sym, r.sym, r.c-l.c)
			case token.LSS:
				n.addLE(l.sym, r.sym, r.c-l.c-1)
			case token.GEQ:
				n.addLE(r.sym, l.sym, l.c-r.c)
			case token.GTR:
				n.addLE(r.sym, l.sym, l.c-r.c-1)
			case token.EQL:
				n.addLE(l.sym, r.sym, r.c-l.c)
				n.addLE(r.sym, l.sym, l.c-r.c)
			case token.NEQ:
				if l.sym == r.sym {
					if l.c == r.c {
						n.dead = true
					}
				} else {
					n.addNE(l.sym, r.sym, r.c-l.c)
				}
			}
			return n
		}
	case *ast.CallExpr:
		if f, ok := typeutil.Callee(b.info, c).(*types.Func); ok && f.FullName() == "strings.HasSuffix" && truth && len(c.Args) == 2 {
			if o, ok := b.objOf(c.Args[0]).(*types.Var); ok {
				if tv, ok := b.info.Types[c.Args[1]]; ok && tv.Value != nil && tv.Value.Kind() == constant.String {
					suf := constant.StringVal(tv.Value)
					if len(suf) > 0 {
						n := z.clone()
						x := symOf(o)
						n.addLE("0", "len:"+x, -len(suf)) // len >= len(suf)
						n.lastChar[x] = suf[len(suf)-1]
						b.applyLastChar(n)
						return n
					}
				}
			}
		}
	}
	return z
}

// applyLastChar: v = Index*(x, ch) and x ends with another byte  =>  v != len(x)-1.
func (b *boundsAnalyser) applyLastChar(z *zone) {
	for v, p := range z.idxOf {
		if lc, ok := z.lastChar[p.x]; ok && len(p.needle) == 1 && p.needle[0] != lc {
			z.addNE(v, "len:"+p.x, -1)
		}
	}
}

func terminates(stmts []ast.Stmt) bool {
	if len(stmts) == 0 {
		return false
	}
	switch s := stmts[len(stmts)-1].(type) {
	case *ast.ReturnStmt:
		return true
	case *ast.BranchStmt:
		return s.Tok == token.CONTINUE || s.Tok == token.BREAK || s.Tok == token.GOTO
	case *ast.ExprStmt:
		if call, ok := s.X.(*ast.CallExpr); ok {
			if id, ok := call.Fun.(*ast.Ident); ok && id.Name == "panic" {
				return true
			}
		}
	case *ast.BlockStmt:
		return terminates(s.List)
	case *ast.IfStmt:
		if s.Else == nil {
			return false
		}
		eb, ok := s.Else.(*ast.BlockStmt)
		if ok {
			return terminates(s.Body.List) && terminates(eb.List)
		}
		if ei, ok := s.Else.(*ast.IfStmt); ok {
			return terminates(s.Body.List) && terminates([]ast.Stmt{ei})
		}
	}
	return false
}

func assignedIn(n ast.Node, info *types.Info) map[types.Object]bool {
	out := map[types.Object]bool{}
	ast.Inspect(n, func(m ast.Node) bool {
		switch s := m.(type) {
		case *ast.AssignStmt:
			for _, l := range s.Lhs {
				if id, ok := ast.Unparen(l).(*ast.Ident); ok {
					if o := info.Uses[id]; o != nil {
						out[o] = true
					}
					if o := info.Defs[id]; o != nil {
						out[o] = true
					}
				}
			}
		case *ast.IncDecStmt:
			if id, ok := ast.Unparen(s.X).(*ast.Ident); ok {
				if o := info.Uses[id]; o != nil {
					out[o] = true
				}
			}
		case *ast.RangeStmt:
			for _, e := range []ast.Expr{s.Key, s.Value} {
				if id, ok := e.(*ast.Ident); ok {
					if o := info.Defs[id]; o != nil {
						out[o] = true
					}
					if o := info.Uses[id]; o != nil {
						out[o] = true
					}
				}
			}
		}
		return true
	})
	return out
}

func (b *boundsAnalyser) havoc(z *zone, objs map[types.Object]bool) {
	for o := range objs {
		z.forget("v:" + symOf(o))
		z.forgetLen(symOf(o))
	}
}

func (b *boundsAnalyser) block(stmts []ast.Stmt, z *zone) *zone {
	for _, s := range stmts {
		if z == nil || z.dead {
			return z
		}
		z = b.stmt(s, z)
	}
	return z
}

func deadZone() *zone { z := newZone(); z.dead = true; return z }

func (b *boundsAnalyser) stmt(s ast.Stmt, z *zone) *zone {
	switch s := s.(type) {
	case *ast.BlockStmt:
		return b.block(s.List, z)
	case *ast.ExprStmt:
		b.expr(s.X, z)
		if call, ok := s.X.(*ast.CallExpr); ok {
			if id, ok := call.Fun.(*ast.Ident); ok && id.Name == "panic" {
				return deadZone()
			}
		}
		return z
	case *ast.DeclStmt:
		if gd, ok := s.Decl.(*ast.GenDecl); ok {
			for _, sp := range gd.Specs {
				if vs, ok := sp.(*ast.ValueSpec); ok {
					for i, n := range vs.Names {
						var rhs ast.Expr
						if i < len(vs.Values) {
							rhs = vs.Values[i]
							b.expr(rhs, z)
						}
						z = b.assignVar(z, b.info.Defs[n], rhs, true)
					}
				}
			}
		}
		return z
	case *ast.AssignStmt:
		for _, r := range s.Rhs {
			b.expr(r, z)
		}
		for _, l := range s.Lhs {
			if _, ok := ast.Unparen(l).(*ast.Ident); !ok {
				b.lvalue(l, z)
			}
		}
		z = z.clone()
		if len(s.Lhs) == len(s.Rhs) {
			for i, l := range s.Lhs {
				if id, ok := ast.Unparen(l).(*ast.Ident); ok && id.Name != "_" {
					o := b.info.Defs[id]
					if o == nil {
						o = b.info.Uses[id]
					}
					if s.Tok == token.ASSIGN || s.Tok == token.DEFINE {
						z = b.assignVar(z, o, s.Rhs[i], false)
					} else if o != nil {
						// compound assignment: v += c
						cur := lin{"v:" + symOf(o), 0, true}
						r := b.linear(s.Rhs[i])
						if r.ok && r.sym == "0" && (s.Tok == token.ADD_ASSIGN || s.Tok == token.SUB_ASSIGN) && b.isInt(l) {
							d := r.c
							if s.Tok == token.SUB_ASSIGN {
								d = -d
							}
							z = b.shift(z, cur.sym, d)
						} else {
							z.forget(cur.sym)
							z.forgetLen(symOf(o))
						}
					}
				}
			}
		} else if len(s.Rhs) == 1 {
			// multi-value: v, err := f(...)
			for i, l := range s.Lhs {
				if id, ok := ast.Unparen(l).(*ast.Ident); ok && id.Name != "_" {
					o := b.info.Defs[id]
					if o == nil {
						o = b.info.Uses[id]
					}
					if o != nil {
						z.forget("v:" + symOf(o))
						z.forgetLen(symOf(o))
					}
					_ = i
				}
			}
		}
		return z
	case *ast.IncDecStmt:
		b.expr(s.X, z)
		if id, ok := ast.Unparen(s.X).(*ast.Ident); ok {
			if o := b.info.Uses[id]; o != nil {
				d := 1
				if s.Tok == token.DEC {
					d = -1
				}
				return b.shift(z.clone(), "v:"+symOf(o), d)
			}
		}
		return z
	case *ast.ReturnStmt:
		for _, r := range s.Results {
			b.expr(r, z)
		}
		return deadZone()
	case *ast.BranchStmt:
		return deadZone()
	case *ast.IfStmt:
		if s.Init != nil {
			z = b.stmt(s.Init, z)
		}
		b.expr(s.Cond, z)
		zt := b.block(s.Body.List, b.assume(z.clone(), s.Cond, true))
		ze := b.assume(z.clone(), s.Cond, false)
		if s.Else != nil {
			ze = b.stmt(s.Else, ze)
		}
		return joinZones(zt, ze)
	case *ast.SwitchStmt:
		if s.Init != nil {
			z = b.stmt(s.Init, z)
		}
		if s.Tag != nil {
			b.expr(s.Tag, z)
		}
		var out *zone
		hasDefault := false
		for _, c := range s.Body.List {
			cc := c.(*ast.CaseClause)
			if cc.List == nil {
				hasDefault = true
			}
			zi := z.clone()
			for _, e := range cc.List {
				b.expr(e, zi)
			}
			zo := b.block(cc.Body, zi)
			out = joinZones(out, zo)
		}
		if !hasDefault {
			out = joinZones(out, z)
		}
		if out == nil {
			return deadZone()
		}
		return out
	case *ast.ForStmt:
		if s.Init != nil {
			z = b.stmt(s.Init, z)
		}
		zl := z.clone()
		b.havoc(zl, assignedIn(s, b.info))
		if s.Cond != nil {
			b.expr(s.Cond, zl)
			zb := b.assume(zl.clone(), s.Cond, true)
			zb = b.block(s.Body.List, zb)
			if s.Post != nil && zb != nil && !zb.dead {
				b.stmt(s.Post, zb)
			}
			return b.assume(zl, s.Cond, false)
		}
		b.block(s.Body.List, zl.clone())
		return zl
	case *ast.RangeStmt:
		b.expr(s.X, z)
		zl := z.clone()
		b.havoc(zl, assignedIn(s, b.info))
		zb := zl.clone()
		// for i := range x / for i, _ := range x over a slice or string variable: 0 <= i < len(x)
		if s.Key != nil {
			if kid, ok := s.Key.(*ast.Ident); ok && kid.Name != "_" {
				ko := b.info.Defs[kid]
				if ko == nil {
					ko = b.info.Uses[kid]
				}
				if xo, ok := b.objOf(s.X).(*types.Var); ok && ko != nil {
					switch b.info.TypeOf(s.X).Underlying().(type) {
					case *types.Slice, *types.Array:
						zb.addLE("0", "v:"+symOf(ko), 0)
						zb.addLE("v:"+symOf(ko), "len:"+symOf(xo), -1)
					}
				}
			}
		}
		b.block(s.Body.List, zb)
		return zl
	case *ast.LabeledStmt:
		return b.stmt(s.Stmt, z)
	case *ast.GoStmt, *ast.DeferStmt:
		return z
	case *ast.EmptyStmt:
		return z
	case *ast.SendStmt:
		b.expr(s.Value, z)
		return z
	}
	return z
}

// shift applies v := v + d.
func (b *boundsAnalyser) shift(z *zone, v string, d int) *zone {
	n := z.clone()
	for k, c := range z.bound {
		if k[0] == v {
			n.bound[k] = c + d
		} else if k[1] == v {
			n.bound[k] = c - d
		}
	}
	nd := map[[2]string]map[int]bool{}
	for k, cs := range z.diseq {
		m := map[int]bool{}
		for c := range cs {
			if k[0] == v {
				m[c+d] = true
			} else if k[1] == v {
				m[c-d] = true
			} else {
				m[c] = true
			}
		}
		nd[k] = m
	}
	n.diseq = nd
	delete(n.idxOf, v)
	return n
}

func (b *boundsAnalyser) assignVar(z *zone, o types.Object, rhs ast.Expr, decl bool) *zone {
	if o == nil {
		return z
	}
	z = z.clone()
	sym := symOf(o)
	// evaluate rhs before forgetting (v = v+1 handled by shift in IncDec)
	var r lin
	if rhs != nil {
		r = b.linear(rhs)
	}
	selfRef := r.ok && r.sym == "v:"+sym
	if selfRef {
		return b.shift(z, "v:"+sym, r.c)
	}
	z.forget("v:" + sym)
	z.forgetLen(sym)
	if rhs == nil {
		if bt, ok := o.Type().Underlying().(*types.Basic); ok && bt.Info()&types.IsInteger != 0 {
			z.addLE("v:"+sym, "0", 0)
			z.addLE("0", "v:"+sym, 0)
		}
		return z
	}
	if r.ok {
		z.addLE("v:"+sym, r.sym, r.c)
		z.addLE(r.sym, "v:"+sym, -r.c)
		if p, ok := z.idxOf[r.sym]; ok && r.c == 0 {
			z.idxOf["v:"+sym] = p
		}
		return z
	}
	if call, ok := ast.Unparen(rhs).(*ast.CallExpr); ok {
		if f, ok := typeutil.Callee(b.info, call).(*types.Func); ok {
			switch f.FullName() {
			case "strings.Index", "strings.IndexRune", "strings.IndexByte", "strings.LastIndex", "strings.LastIndexByte", "strings.IndexAny":
				if xo, ok := b.objOf(call.Args[0]).(*types.Var); ok {
					x := symOf(xo)
					z.addLE("0", "v:"+sym, 1) // v >= -1
					needle := ""
					if tv, ok := b.info.Types[call.Args[1]]; ok && tv.Value != nil {
						switch tv.Value.Kind() {
						case constant.String:
							needle = constant.StringVal(tv.Value)
						case constant.Int:
							if c, ok := constant.Int64Val(tv.Value); ok && c > 0 && c < 128 {
								needle = string(rune(c))
							}
						}
					}
					if needle != "" {
						z.addLE("v:"+sym, "len:"+x, -len(needle))
					} else {
						z.addLE("v:"+sym, "len:"+x, 0)
					}
					z.idxOf["v:"+sym] = idxProv{x, needle}
					b.applyLastChar(z)
				}
			default:
				if ps, ok := b.lenSummary[f.Origin()]; ok && len(call.Args) > ps[0] && len(call.Args) > ps[1] {
					n := b.linear(call.Args[ps[0]])
					if xo, ok := b.objOf(call.Args[ps[1]]).(*types.Var); ok && n.ok && n.sym == "0" {
						z.errFrom["v:"+sym] = errProv{symOf(xo), n.c}
					}
				}
			}
		}
		// x := y[a:b] : nothing known beyond len >= 0
	}
	return z
}

func (b *boundsAnalyser) lvalue(e ast.Expr, z *zone) {
	switch x := ast.Unparen(e).(type) {
	case *ast.IndexExpr:
		if t := b.info.TypeOf(x.X); t != nil {
			if _, isMap := t.Underlying().(*types.Map); isMap {
				b.expr(x.X, z)
				b.expr(x.Index, z)
				// nil-map store: the map must come from make on every path
				ok := false
				why := "map is not a local initialised by make"
				if o, isV := b.objOf(x.X).(*types.Var); isV {
					ok, why = b.madeByMake(o)
				}
				b.site("nilmap", x.Pos(), exprKey(x.X), ok, why)
				return
			}
		}
		n := len(b.sites)
		b.expr(e, z)
		if len(b.sites) > n {
			b.sites[len(b.sites)-1].write = true
		}
	default:
		b.expr(e, z)
	}
}

var madeCache = map[types.Object][2]string{}

// madeByMake: every assignment to the variable in its function is make(...) or a composite literal.
func (b *boundsAnalyser) madeByMake(o *types.Var) (bool, string) {
	fd := b.enclosing
	if fd == nil {
		return false, "no enclosing function"
	}
	found, bad := 0, 0
	ast.Inspect(fd, func(n ast.Node) bool {
		switch s := n.(type) {
		case *ast.AssignStmt:
			for i, l := range s.Lhs {
				id, ok := ast.Unparen(l).(*ast.Ident)
				if !ok {
					continue
				}
				obj := b.info.Defs[id]
				if obj == nil {
					obj = b.info.Uses[id]
				}
				if obj != o {
					continue
				}
				if len(s.Rhs) == len(s.Lhs) {
					r := ast.Unparen(s.Rhs[i])
					if c, ok := r.(*ast.CallExpr); ok {
						if fid, ok := c.Fun.(*ast.Ident); ok && fid.Name == "make" {
							found++
							continue
						}
					}
					if _, ok := r.(*ast.CompositeLit); ok {
						found++
						continue
					}
				}
				bad++
			}
		case *ast.ValueSpec:
			for i, n := range s.Names {
				if b.info.Defs[n] == o {
					if i < len(s.Values) {
						if c, ok := ast.Unparen(s.Values[i]).(*ast.CallExpr); ok {
							if fid, ok := c.Fun.(*ast.Ident); ok && fid.Name == "make" {
								found++
								continue
							}
						}
					}
					bad++
				}
			}
		}
		return true
	})
	if found > 0 && bad == 0 {
		return true, "every definition is make(...)"
	}
	return false, "a definition of the map is not make(...)"
}

var exprKeyInfo *types.Info

func exprKey(e ast.Expr) string {
	if exprKeyInfo != nil {
		return canonExpr(exprKeyInfo, e)
	}
	return types.ExprString(e)
}

// expr visits an expression in state z, recording trap sites.
func (b *boundsAnalyser) expr(e ast.Expr, z *zone) {
	if e == nil || z == nil {
		return
	}
	switch x := e.(type) {
	case *ast.ParenExpr:
		b.expr(x.X, z)
	case *ast.BinaryExpr:
		switch x.Op {
		case token.LAND:
			b.expr(x.X, z)
			b.expr(x.Y, b.assume(z.clone(), x.X, true))
			return
		case token.LOR:
			b.expr(x.X, z)
			b.expr(x.Y, b.assume(z.clone(), x.X, false))
			return
		case token.QUO, token.REM:
			b.expr(x.X, z)
			b.expr(x.Y, z)
			if b.isInt(x.X) {
				d := b.linear(x.Y)
				ok := false
				why := "divisor not proved non-zero"
				if d.ok && d.sym == "0" && d.c != 0 {
					ok, why = true, "constant non-zero divisor"
				} else if d.ok {
					if z.proveLE(lin{"0", 1, true}, d) || z.proveLE(d, lin{"0", -1, true}) {
						ok, why = true, "divisor bounded away from zero"
					} else {
						zc := z.closure()
						_ = zc
						if z.diseq[[2]string{d.sym, "0"}][-d.c] {
							ok, why = true, "divisor tested against zero on this path"
						}
					}
				}
				b.site("div", x.Pos(), exprKey(x), ok, why)
			}
			return
		case token.SHL, token.SHR:
			b.expr(x.X, z)
			b.expr(x.Y, z)
			if t := b.info.TypeOf(x.Y); t != nil {
				if bt, ok := t.Underlying().(*types.Basic); ok && bt.Info()&types.IsUnsigned == 0 && bt.Info()&types.IsInteger != 0 {
					if tv, ok := b.info.Types[x.Y]; !ok || tv.Value == nil {
						d := b.linear(x.Y)
						ok := d.ok && z.proveLE(lin{"0", 0, true}, d)
						b.site("shift", x.Pos(), exprKey(x), ok, "signed shift count must be proved non-negative")
					}
				}
			}
			return
		}
		b.expr(x.X, z)
		b.expr(x.Y, z)
	case *ast.UnaryExpr:
		b.expr(x.X, z)
	case *ast.StarExpr:
		b.expr(x.X, z)
	case *ast.SelectorExpr:
		b.expr(x.X, z)
	case *ast.KeyValueExpr:
		b.expr(x.Key, z)
		b.expr(x.Value, z)
	case *ast.CompositeLit:
		for _, el := range x.Elts {
			if kv, ok := el.(*ast.KeyValueExpr); ok {
				if _, isIdent := kv.Key.(*ast.Ident); !isIdent {
					b.expr(kv.Key, z)
				}
				b.expr(kv.Value, z)
			} else {
				b.expr(el, z)
			}
		}
	case *ast.CallExpr:
		if id, ok := ast.Unparen(x.Fun).(*ast.Ident); ok && id.Name == "panic" {
			if _, isB := b.info.Uses[id].(*types.Builtin); isB {
				b.site("panic", x.Pos(), "panic", z.dead, "explicit panic reachable")
			}
		}
		b.expr(x.Fun, z)
		for _, a := range x.Args {
			b.expr(a, z)
		}
	case *ast.FuncLit:
		saved := b.enclosingLit
		b.enclosingLit = x
		zl := z.clone()
		b.havoc(zl, assignedIn(x.Body, b.info))
		b.block(x.Body.List, zl)
		b.enclosingLit = saved
	case *ast.TypeAssertExpr:
		b.expr(x.X, z)
		if x.Type != nil && !b.commaOk[x] {
			b.site("assert", x.Pos(), exprKey(x), false, "single-result type assertion can panic")
		}
	case *ast.IndexExpr:
		b.expr(x.X, z)
		b.expr(x.Index, z)
		t := b.info.TypeOf(x.X)
		if t == nil {
			return
		}
		switch u := t.Underlying().(type) {
		case *types.Map:
			return
		case *types.Signature:
			return
		case *types.Array:
			i := b.linear(x.Index)
			ok := i.ok && i.sym == "0" && i.c >= 0 && int64(i.c) < u.Len()
			if !ok && i.ok {
				ok = z.proveLE(lin{"0", 0, true}, i) && z.proveLE(i, lin{"0", int(u.Len()) - 1, true})
			}
			b.site("index", x.Pos(), exprKey(x), ok, "array index within bounds")
			return
		case *types.Pointer:
			_ = u
		}
		if tv, ok := b.info.Types[x.X]; ok && tv.IsType() {
			return // generic instantiation
		}
		xk, isVar := b.chainSym(x.X)
		i := b.linear(x.Index)
		ok := false
		why := "index not proved within [0,len)"
		lo, up := false, false
		if isVar && i.ok {
			L := lin{"len:" + xk, -1, true}
			lo = z.proveLE(lin{"0", 0, true}, i)
			up = z.proveLE(i, L)
			if lo && up {
				ok, why = true, "0 <= index <= len-1 from dominating guards"
			}
		}
		b.site("index", x.Pos(), exprKey(x), ok, why)
		b.sites[len(b.sites)-1].lower, b.sites[len(b.sites)-1].upper, b.sites[len(b.sites)-1].target = lo, up, types.ExprString(x.X)
	case *ast.SliceExpr:
		b.expr(x.X, z)
		b.expr(x.Low, z)
		b.expr(x.High, z)
		xk, isVar := b.chainSym(x.X)
		ok := false
		why := "slice bounds not proved"
		if isVar {
			L := lin{"len:" + xk, 0, true}
			lo := lin{"0", 0, true}
			if x.Low != nil {
				lo = b.linear(x.Low)
			}
			hi := L
			if x.High != nil {
				hi = b.linear(x.High)
			}
			if z.proveLE(lin{"0", 0, true}, lo) && z.proveLE(lo, hi) && z.proveLE(hi, L) {
				ok, why = true, "0 <= low <= high <= len from dominating guards"
			}
			b.site("slice", x.Pos(), exprKey(x), ok, why)
			b.sites[len(b.sites)-1].lower = z.proveLE(lin{"0", 0, true}, lo)
			b.sites[len(b.sites)-1].upper = z.proveLE(lo, hi) && z.proveLE(hi, L)
			b.sites[len(b.sites)-1].target = types.ExprString(x.X)
			return
		}
		b.site("slice", x.Pos(), exprKey(x), ok, why)
	}
}

// analyseFunc runs the analysis over one function declaration.
func (b *boundsAnalyser) analyseFunc(fd *ast.FuncDecl, pkg *packages.Package, name string) {
	b.pkg, b.info, b.fn, b.enclosing = pkg, pkg.TypesInfo, name, fd
	exprKeyInfo = pkg.TypesInfo
	b.commaOk = map[*ast.TypeAssertExpr]bool{}
	ast.Inspect(fd, func(n ast.Node) bool {
		switch s := n.(type) {
		case *ast.AssignStmt:
			if len(s.Lhs) == 2 && len(s.Rhs) == 1 {
				if ta, ok := ast.Unparen(s.Rhs[0]).(*ast.TypeAssertExpr); ok {
					b.commaOk[ta] = true
				}
			}
		case *ast.ValueSpec:
			if len(s.Names) == 2 && len(s.Values) == 1 {
				if ta, ok := ast.Unparen(s.Values[0]).(*ast.TypeAssertExpr); ok {
					b.commaOk[ta] = true
				}
			}
		case *ast.TypeSwitchStmt:
			ast.Inspect(s.Assign, func(m ast.Node) bool {
				if ta, ok := m.(*ast.TypeAssertExpr); ok {
					b.commaOk[ta] = true
				}
				return true
			})
		}
		return true
	})
	if fd.Body != nil {
		b.block(fd.Body.List, newZone())
	}
}

// deriveLenSummary recognises f(n int, xs []T, ...) error { if len(xs) != n { return err }; return nil }
// from the function's term: nil result implies len(xs) == n.
func deriveLenSummary(w *World, fd *ast.FuncDecl, pkg *packages.Package) (nIdx, xsIdx int, ok bool) {
	// candidates: small functions returning exactly one error
	if fd.Body == nil || len(fd.Body.List) > 4 || fd.Type.Results == nil || len(fd.Type.Results.List) != 1 {
		return 0, 0, false
	}
	if id, isId := fd.Type.Results.List[0].Type.(*ast.Ident); !isId || id.Name != "error" {
		return 0, 0, false
	}
	hasLoop := false
	ast.Inspect(fd.Body, func(n ast.Node) bool {
		switch n.(type) {
		case *ast.ForStmt, *ast.RangeStmt, *ast.SwitchStmt:
			hasLoop = true
		}
		return true
	})
	if hasLoop {
		return 0, 0, false
	}
	t, err := newInterp(w).FuncTerm(fd, pkg)
	if err != nil {
		return 0, 0, false
	}
	t = hoistAll(t)
	// ite(ne(len(pX), pN), out(error...), out(nil))
	if t.Op != "ite" {
		return 0, 0, false
	}
	c := t.Args[0]
	nilSide := t.Args[2]
	if c.Op == "eq" {
		nilSide = t.Args[1]
	} else if c.Op != "ne" {
		return 0, 0, false
	}
	if !(nilSide.Op == "out" && len(nilSide.Args[0].Args) == 1 && nilSide.Args[0].Args[0].Op == "nil") {
		return 0, 0, false
	}
	for i := 0; i < 2; i++ {
		l, n := c.Args[i], c.Args[1-i]
		if l.Op == "len" && l.Args[0].Op == "param" && n.Op == "param" {
			fmt.Sscanf(l.Args[0].S, "p%d", &xsIdx)
			fmt.Sscanf(n.S, "p%d", &nIdx)
			return nIdx, xsIdx, true
		}
	}
	return 0, 0, false
}
