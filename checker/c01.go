package main

// C01 — every processor variant computes the sequential architectural result.
// C01 is the conjunction the other properties decompose; it gets the rules that
// belong to no narrower property. The equivalence itself is not decided.

import (
	"fmt"
	"go/ast"
	"go/token"
	"go/types"
	"strings"

	"golang.org/x/tools/go/types/typeutil"
)

func init() {
	register(&propSpec{
		ID:          "C01",
		Level:       "other",
		Run:         runC01,
		Explanation: "Umbrella necessary conditions, per variant: R01.1 every normal return of Run is preceded by the fold of speculative register state that matches how the write unit writes (Commit() iff it uses TransactionWriteRegister; RATCommit() then RATFlush(), with InitRAT() before the main loop, iff it uses TransactionRATWrite) and by the cache write-back (R05.1); R01.2 style consistency (NewContext's rename flag is true iff the write unit uses TransactionRATWrite and branch resolution uses RATRollback/RATCommit; no variant mixes direct, transaction and rename-table writes); R01.3 sibling agreement of the architectural step among the 13 interpreters of Execution (register write under RegisterChange, else memory write under MemoryChange; PcChange ? NextPc : pc+4; instructions fetched under pc/4 < len; Run is fed the bytes at MemoryRead's addresses, never nil; Run contains no direct store to architectural state and no goto); R01.4 branch/memory classification tables equal the sets derived from the opcode implementations and declared register sets are exact; R01.5 Context() returns the context the units were built with; R01.6 nothing past a ret is decoded; R01.7 every write-unit commit is behind the sequence filter with a strict comparison (the instruction that caused a flush is itself written); R01.8 taken -> rollback with the branch's own id, not taken -> commit; R01.10 the jump-resolution notification redirects the fetch unconditionally; R01.11 an inner flush replaces the pending restart pc; R01.13 the control unit neither loses nor duplicates an instruction (taken from the bus and not dispatched -> queued; read from the queue and dispatched -> removed, only then); R01.12 the stepping primitive all units of MVP-6.x..8.0 are written with (common/coroutine) equals its reference model; R01.9 the transactional register state and the rename table equal the reference model operation by operation. Does not decide the equivalence of final state with sequential execution (a value/schedule property of the whole machine). R01.14 every path to the run step of an instruction that reads memory first assigns the field handed to Run as its memory bytes. R01.15 every per-line table of the memory system is keyed through the alignment function of its own line size; R01.16 Forward(f) of every instruction stores f unconditionally in the slot its register reads consult; R01.17 the control unit's dispatch decision equals its reference model as a decision procedure (polarity of every guard). R01.18 the program-order tag given at decode is strictly increasing in decode order (the rename table, the write-unit filter and the rollbacks order by it). R01.19 the function that dispatches an instruction answers true after it did and false when it left before (a wrong answer dispatches the instruction twice or loses it).",
		Assumptions: []string{"the other properties' rules (C02-C16) cover the narrower clauses"},
		Trusted:     []string{"go/types", "role resolution"},
	})
}

func runC01(r *Run) {
	w := r.W
	r.floor("R01.1", 12)
	r.floor("R01.2", 9)
	r.floor("R01.3", 42)
	r.floor("R01.4", 94)
	r.floor("R01.5", 12)
	r.floor("R01.6", 7)
	for _, v := range variants(w) {
		if v.pkg == nil {
			continue
		}
		info := v.info
		c := v.rel + ".(CPU)"
		// which register-write style does the variant use?
		uses := map[string]bool{}
		for _, n := range []string{"WriteRegister", "TransactionWriteRegister", "TransactionRATWrite", "Commit", "Rollback", "RATCommit", "RATRollback", "RATFlush", "InitRAT"} {
			name := n
			for _, f := range v.pkg.Syntax {
				ast.Inspect(f, func(m ast.Node) bool {
					if call, ok := m.(*ast.CallExpr); ok {
						if fn, ok := typeutil.Callee(info, call).(*types.Func); ok && fn.Name() == name {
							if sig := fn.Type().(*types.Signature); sig.Recv() != nil && typeName(sig.Recv().Type()) == "*Context" {
								uses[name] = true
							}
						}
					}
					return true
				})
			}
		}
		style := "direct"
		if uses["TransactionRATWrite"] {
			style = "rename-table"
		} else if uses["TransactionWriteRegister"] {
			style = "transaction"
		}
		r.anchor(v.name+" register-write style", style)
		// R01.2 consistency
		mixed := 0
		for _, n := range []string{"WriteRegister", "TransactionWriteRegister", "TransactionRATWrite"} {
			if uses[n] {
				mixed++
			}
		}
		ratFlag := false
		for _, f := range v.pkg.Syntax {
			ast.Inspect(f, func(m ast.Node) bool {
				if call, ok := m.(*ast.CallExpr); ok && len(call.Args) == 3 {
					if fn, ok := typeutil.Callee(info, call).(*types.Func); ok && fn.Name() == "NewContext" {
						if tv := info.Types[call.Args[2]]; tv.Value != nil && tv.Value.String() == "true" {
							ratFlag = true
						}
					}
				}
				return true
			})
		}
		goodStyle := mixed == 1 && ratFlag == (style == "rename-table")
		switch style {
		case "rename-table":
			goodStyle = goodStyle && uses["RATRollback"] && uses["RATCommit"] && !uses["Rollback"] && !uses["Commit"]
		case "transaction":
			goodStyle = goodStyle && uses["Rollback"] && uses["Commit"] && !uses["RATRollback"]
		case "direct":
			goodStyle = goodStyle && !uses["Rollback"] && !uses["RATRollback"] && !uses["Commit"] && !uses["RATCommit"]
		}
		r.check(goodStyle, "R01.2", c+":register-write-style", v.run.Pos(), "the variant uses one register-write style (%s): NewContext's rename flag is %v, and branch resolution / epilogue use the matching commit and rollback (%v)", style, ratFlag, sortedKeys(uses))
		// R01.1 epilogue
		var tail []ast.Stmt
		var head []ast.Stmt
		if loop := v.mainLoop(); loop != nil {
			seen := false
			for _, s := range v.run.Body.List {
				if s == ast.Stmt(loop) {
					seen = true
					continue
				}
				if seen {
					tail = append(tail, s)
				} else {
					head = append(head, s)
				}
			}
		}
		callsIn := func(stmts []ast.Stmt, name string) token.Pos {
			var p token.Pos
			for _, s := range stmts {
				ast.Inspect(s, func(m ast.Node) bool {
					if _, isLit := m.(*ast.FuncLit); isLit {
						return false
					}
					if call, ok := m.(*ast.CallExpr); ok {
						if fn, ok := typeutil.Callee(info, call).(*types.Func); ok && fn.Name() == name && p == 0 {
							p = call.Pos()
						}
					}
					return true
				})
			}
			return p
		}
		switch style {
		case "direct":
			r.ok("R01.1", c+".Run:register-fold", v.run.Pos(), "registers are written architecturally at once: nothing to fold at the end")
		case "transaction":
			r.check(callsIn(tail, "Commit") != 0, "R01.1", c+".Run:register-fold", v.run.Pos(), "results written with TransactionWriteRegister are folded into the register file by Commit() after the main loop")
		case "rename-table":
			pc, pf, pi := callsIn(tail, "RATCommit"), callsIn(tail, "RATFlush"), callsIn(head, "InitRAT")
			r.check(pc != 0 && pf != 0 && pc < pf && pi != 0, "R01.1", c+".Run:register-fold", v.run.Pos(), "InitRAT() before the main loop (%v); RATCommit() and then RATFlush() after it (%v, %v, in that order %v): the rename tables are seeded from and folded back into the register file", pi != 0, pc != 0, pf != 0, pc < pf)
		}
		// R01.5
		if fd, _ := w.Method(v.rel, "CPU", "Context"); fd != nil && len(fd.Body.List) == 1 {
			good := false
			if rs, ok := fd.Body.List[0].(*ast.ReturnStmt); ok && len(rs.Results) == 1 {
				if f := v.cpuFieldOf(rs.Results[0]); f != nil && f.kind == "ctx" {
					good = true
				}
			}
			nctx := 0
			for _, f := range v.pkg.Syntax {
				ast.Inspect(f, func(m ast.Node) bool {
					if call, ok := m.(*ast.CallExpr); ok {
						if fn, ok := typeutil.Callee(info, call).(*types.Func); ok && fn.Name() == "NewContext" {
							nctx++
						}
					}
					return true
				})
			}
			r.check(good && nctx == 1, "R01.5", c+".Context", fd.Pos(), "Context() returns the CPU's context field, and the variant creates exactly one context (%d) that all units share", nctx)
		} else {
			r.undecided("R01.5", c+".Context", v.run.Pos(), "Context() not found or not a single return")
		}
		// R01.6
		if v.pipelined() && multiExec(v) {
			ruleRetUnits(r, v, "", "R01.6", true)
		}
		// R01.3 (Run-level parts)
		ruleArchStep(r, v)
	}
	ruleRunnerStep(r)
	// R01.7–R01.9: the parts of the speculation machinery whose failure changes the final
	// register file directly (shared with C03/C15, all discharged on the current tree)
	r.floor("R01.7", 7)
	ruleWriteUnitFilter(r, "R01.7")
	r.floor("R01.8", 5)
	ruleBranchResolution(r, "R01.8")
	r.floor("R01.13", 14)
	ruleDispatchConserves(r, "R01.13")
	r.floor("R01.14", 10)
	ruleLoadDataReachesRun(r, "R01.14")
	// shared with C05 and C04: the per-line tables are keyed through one alignment function; Forward(f)
	// of every instruction stores f in the slot its register reads consult
	r.floor("R01.15", 10)
	importRules(r, runC05, map[string]string{"R05.6": "R01.15"})
	r.floor("R01.16", 45)
	ruleForwardSetters(r, "R01.16")
	r.floor("R01.19", 6)
	ruleDispatchTruthful(r, "R01.19")
	r.floor("R01.18", 1)
	ruleTagMonotone(r, "R01.18")
	r.floor("R01.17", 7)
	ruleDispatchDecision(r, "R01.17")
	r.floor("R01.12", 10)
	ruleCoroutineConformance(r, "R01.12")
	r.floor("R01.9", 12)
	for _, m := range []string{"WriteRegister", "WriteMemory", "Commit", "Rollback", "TransactionWriteRegister", "RATCommit", "RATRollback", "RATFlush", "InitRAT", "TransactionRATWrite", "commitRAT", "isSuperseded"} {
		conform(r, "R01.9", "risc", "Context", m, "risc_state", nil)
	}
	conform(r, "R01.9", "risc", "", "registerRead", "risc_state", nil)
	for _, m := range []string{"Find", "FindValues", "Write", "Read", "WriteSorted"} {
		conform(r, "R01.9", "proc/comp", "RAT", m, "risc_state", nil)
	}
	// R01.10 / R01.11: control-flow corrections that decide which instructions execute at all
	r.floor("R01.10", 8)
	ruleJumpResolutionRedirects(r, "R01.10")
	r.floor("R01.11", 6)
	ruleInnerFlushOverrides(r, "R01.11")
	// R01.4
	ruleClassification(r, "R01.4")
	ruleDeclaredSets(r, "R01.4")
}

// ruleArchStep: the architectural step of one variant.
func ruleArchStep(r *Run, v *variant) {
	info := v.info
	w := r.W
	c := v.rel + ".(CPU).Run"
	// (e) no goto, no direct store to architectural state in Run
	gotos, stores := 0, 0
	ast.Inspect(v.run.Body, func(n ast.Node) bool {
		switch x := n.(type) {
		case *ast.BranchStmt:
			if x.Tok == token.GOTO {
				gotos++
			}
		case *ast.AssignStmt:
			for _, l := range x.Lhs {
				if ix, ok := ast.Unparen(l).(*ast.IndexExpr); ok && ctxFieldWritten(info, ix.X) != "" {
					stores++
				}
			}
		}
		return true
	})
	r.check(gotos == 0 && stores == 0, "R01.3", c+":no-reentry", v.run.Pos(), "Run does not re-enter the program with goto (%d) and does not store to architectural registers/memory directly (%d): running past the last instruction ends the run", gotos, stores)
	ruleFetchBounded(r, v, "R01.3")
	// (b) register write under RegisterChange, else memory write under MemoryChange
	stepSites := 0
	defer func() {
		r.check(stepSites > 0, "R01.3", v.rel+":step-present", v.run.Pos(), "the variant applies executions under a test of RegisterChange (%d sites)", stepSites)
	}()
	for _, f := range v.pkg.Syntax {
		for _, d := range f.Decls {
			fd, ok := d.(*ast.FuncDecl)
			if !ok || fd.Body == nil {
				continue
			}
			n := 0
			ast.Inspect(fd.Body, func(m ast.Node) bool {
				is, ok := m.(*ast.IfStmt)
				if !ok {
					return true
				}
				sel, ok := ast.Unparen(is.Cond).(*ast.SelectorExpr)
				if !ok || sel.Sel.Name != "MemoryChange" {
					return true
				}
				if w.reaches(info, is.Body, func(fn *types.Func) bool { return isArchWriter(fn) && fn.Name() != "WriteMemory" }) {
					n++
					r.bad("R01.3", fmt.Sprintf("%s.%s:memory-step#%d", v.rel, declName(fd), n), is.Pos(), "an execution with MemoryChange is applied as a register write")
				}
				return true
			})
		}
	}
	for _, f := range v.pkg.Syntax {
		for _, d := range f.Decls {
			fd, ok := d.(*ast.FuncDecl)
			if !ok || fd.Body == nil {
				continue
			}
			n := 0
			ast.Inspect(fd.Body, func(m ast.Node) bool {
				is, ok := m.(*ast.IfStmt)
				if !ok {
					return true
				}
				sel, ok := ast.Unparen(is.Cond).(*ast.SelectorExpr)
				if !ok || sel.Sel.Name != "RegisterChange" {
					return true
				}
				n++
				stepSites++
				regWrite := w.reaches(info, is.Body, func(fn *types.Func) bool {
					return isArchWriter(fn) && fn.Name() != "WriteMemory"
				})
				memInThen := w.reaches(info, is.Body, func(fn *types.Func) bool { return fn.Name() == "WriteMemory" })
				elseOK := true
				if is.Else != nil {
					if ei, ok := is.Else.(*ast.IfStmt); ok {
						if s2, ok := ast.Unparen(ei.Cond).(*ast.SelectorExpr); !ok || s2.Sel.Name != "MemoryChange" {
							elseOK = false
						}
						if w.reaches(info, ei.Body, func(fn *types.Func) bool { return isArchWriter(fn) && fn.Name() != "WriteMemory" }) {
							elseOK = false
						}
					}
				}
				r.check(regWrite && !memInThen && elseOK, "R01.3", fmt.Sprintf("%s.%s:step#%d", v.rel, declName(fd), n), is.Pos(), "an execution with RegisterChange is applied as a register write (%v) and nothing else (%v); otherwise MemoryChange selects the memory write (%v)", regWrite, !memInThen, elseOK)
				return true
			})
		}
	}
	// (d) Run is fed memory derived from MemoryRead, never the nil literal
	for _, f := range v.pkg.Syntax {
		for _, d := range f.Decls {
			fd, ok := d.(*ast.FuncDecl)
			if !ok || fd.Body == nil {
				continue
			}
			n := 0
			ast.Inspect(fd.Body, func(m ast.Node) bool {
				call, ok := m.(*ast.CallExpr)
				if !ok {
					return true
				}
				fn, ok := typeutil.Callee(info, call).(*types.Func)
				if !ok || fn.Name() != "Run" || len(call.Args) != 5 {
					return true
				}
				if sig := fn.Type().(*types.Signature); sig.Recv() == nil || typeName(sig.Recv().Type()) != "InstructionRunner" {
					return true
				}
				n++
				// the enclosing function (or its unit) calls MemoryRead somewhere: the memory argument is not a nil literal there
				isNil := types.ExprString(ast.Unparen(call.Args[3])) == "nil"
				r.check(!isNil, "R01.3", fmt.Sprintf("%s.%s:memory-argument#%d", v.rel, declName(fd), n), call.Pos(), "the instruction is run with the bytes read for it (argument %s), not with nil", types.ExprString(call.Args[3]))
				return true
			})
		}
	}
	// (c) unpipelined: pc update
	if !v.pipelined() {
		good := false
		ast.Inspect(v.run.Body, func(m ast.Node) bool {
			is, ok := m.(*ast.IfStmt)
			if !ok || is.Else == nil {
				return true
			}
			sel, ok := ast.Unparen(is.Cond).(*ast.SelectorExpr)
			if !ok || sel.Sel.Name != "PcChange" {
				return true
			}
			thenOK, elseOK := false, false
			if len(is.Body.List) == 1 {
				if as, ok := is.Body.List[0].(*ast.AssignStmt); ok && as.Tok == token.ASSIGN && strings.HasSuffix(types.ExprString(as.Rhs[0]), ".NextPc") {
					thenOK = true
				}
			}
			if eb, ok := is.Else.(*ast.BlockStmt); ok && len(eb.List) == 1 {
				if as, ok := eb.List[0].(*ast.AssignStmt); ok && as.Tok == token.ADD_ASSIGN {
					if c, ok := constInt64(info.Types[as.Rhs[0]]); ok && c == 4 {
						elseOK = true
					}
				}
			}
			if thenOK && elseOK {
				good = true
			}
			return true
		})
		r.check(good, "R01.3", c+":next-pc", v.run.Pos(), "the next instruction is at NextPc when PcChange is set and at pc+4 otherwise")
		r.check(returnEndsRun(info, v.run.Body), "R01.3", c+":return-ends-run", v.run.Pos(), "an execution with Return set ends the run")
	}
}

// ruleRunnerStep: the sequential reference runner of package risc.
func ruleRunnerStep(r *Run) {
	w := r.W
	fd, pkg := w.Method("risc", "Runner", "Run")
	if fd == nil {
		r.undecided("R01.3", "risc.(*Runner).Run", token.NoPos, "reference runner not found")
		return
	}
	info := pkg.TypesInfo
	nilMem, feeds := false, false
	ast.Inspect(fd.Body, func(m ast.Node) bool {
		call, ok := m.(*ast.CallExpr)
		if !ok {
			return true
		}
		fn, ok := typeutil.Callee(info, call).(*types.Func)
		if !ok {
			return true
		}
		if fn.Name() == "Run" && len(call.Args) == 5 {
			if types.ExprString(ast.Unparen(call.Args[3])) == "nil" {
				nilMem = true
			}
		}
		if fn.Name() == "MemoryRead" {
			feeds = true
		}
		return true
	})
	r.check(!nilMem && feeds, "R01.3", "risc.(*Runner).Run:memory-argument", fd.Pos(), "the sequential reference reads the bytes at MemoryRead's addresses (%v) and passes them to Run (nil literal: %v)", feeds, nilMem)
	r.check(returnEndsRun(info, fd.Body), "R01.3", "risc.(*Runner).Run:return-ends-run", fd.Pos(), "an execution with Return set ends the run (as in the twelve variants): ret in the middle of a program must not fall through to the next instruction")
	// the architectural step of the reference itself, with its polarity: register write under (positive)
	// RegisterChange, else memory write under (positive) MemoryChange; NextPc under PcChange, else pc+4;
	// an error of the instruction ends the run with that error
	step, nextPc, errOut := false, false, false
	ast.Inspect(fd.Body, func(m ast.Node) bool {
		is, ok := m.(*ast.IfStmt)
		if !ok {
			return true
		}
		switch c := ast.Unparen(is.Cond).(type) {
		case *ast.SelectorExpr:
			switch c.Sel.Name {
			case "RegisterChange":
				regWrite := w.reaches(info, is.Body, func(fn *types.Func) bool { return fn.Name() == "WriteRegister" })
				memInThen := w.reaches(info, is.Body, func(fn *types.Func) bool { return fn.Name() == "WriteMemory" })
				elseOK := false
				if ei, ok := is.Else.(*ast.IfStmt); ok {
					if s2, ok := ast.Unparen(ei.Cond).(*ast.SelectorExpr); ok && s2.Sel.Name == "MemoryChange" {
						elseOK = w.reaches(info, ei.Body, func(fn *types.Func) bool { return fn.Name() == "WriteMemory" }) &&
							!w.reaches(info, ei.Body, func(fn *types.Func) bool { return fn.Name() == "WriteRegister" })
					}
				}
				if regWrite && !memInThen && elseOK {
					step = true
				}
			case "PcChange":
				thenOK, elseOK := false, false
				if len(is.Body.List) == 1 {
					if as, ok := is.Body.List[0].(*ast.AssignStmt); ok && as.Tok == token.ASSIGN && strings.HasSuffix(types.ExprString(as.Rhs[0]), ".NextPc") {
						thenOK = true
					}
				}
				if eb, ok := is.Else.(*ast.BlockStmt); ok && len(eb.List) == 1 {
					if as, ok := eb.List[0].(*ast.AssignStmt); ok && as.Tok == token.ADD_ASSIGN {
						if c4, ok := constInt64(info.Types[as.Rhs[0]]); ok && c4 == 4 {
							elseOK = true
						}
					}
				}
				if thenOK && elseOK {
					nextPc = true
				}
			}
		case *ast.BinaryExpr:
			// if err != nil { return err }
			if c.Op == token.NEQ && info.Types[c.Y].IsNil() {
				if id, ok := ast.Unparen(c.X).(*ast.Ident); ok && typeName(info.TypeOf(id)) == "error" && len(is.Body.List) == 1 {
					if rs, ok := is.Body.List[0].(*ast.ReturnStmt); ok && len(rs.Results) == 1 {
						if rid, ok := ast.Unparen(rs.Results[0]).(*ast.Ident); ok && info.Uses[rid] == info.Uses[id] {
							errOut = true
						}
					}
				}
			}
		}
		return true
	})
	r.check(step, "R01.3", "risc.(*Runner).Run:step", fd.Pos(), "the sequential reference applies an execution as a register write under RegisterChange, else as a memory write under MemoryChange")
	r.check(nextPc, "R01.3", "risc.(*Runner).Run:next-pc", fd.Pos(), "the sequential reference continues at NextPc when PcChange is set and at pc+4 otherwise")
	r.check(errOut, "R01.3", "risc.(*Runner).Run:error", fd.Pos(), "the sequential reference ends the run with the instruction's error")
}

// returnEndsRun: the body tests the Return flag of an execution and leaves (return or break) when it is set.
func returnEndsRun(info *types.Info, body ast.Node) bool {
	found := false
	ast.Inspect(body, func(m ast.Node) bool {
		is, ok := m.(*ast.IfStmt)
		if !ok {
			return true
		}
		sel, ok := ast.Unparen(is.Cond).(*ast.SelectorExpr)
		if !ok || sel.Sel.Name != "Return" || typeName(info.TypeOf(sel.X)) != "Execution" {
			return true
		}
		if len(is.Body.List) > 0 {
			switch x := is.Body.List[len(is.Body.List)-1].(type) {
			case *ast.ReturnStmt:
				found = true
			case *ast.BranchStmt:
				if x.Tok == token.BREAK {
					found = true
				}
			}
		}
		return true
	})
	return found
}

// ruleFetchBounded: every fetch app.Instructions[x] of the variant is under a
// test of the index against the program length (in the function before the
// fetch, or in the condition of the loop that calls the function).
func ruleFetchBounded(r *Run, v *variant, rule string) {
	info := v.info
	// (a) every fetch of app.Instructions[x] is bounded
	for _, f := range v.pkg.Syntax {
		for _, d := range f.Decls {
			fd, ok := d.(*ast.FuncDecl)
			if !ok || fd.Body == nil {
				continue
			}
			n := 0
			ast.Inspect(fd.Body, func(m ast.Node) bool {
				ix, ok := m.(*ast.IndexExpr)
				if !ok {
					return true
				}
				sel, ok := ast.Unparen(ix.X).(*ast.SelectorExpr)
				if !ok || sel.Sel.Name != "Instructions" {
					return true
				}
				n++
				// a bound test against len(….Instructions) in this function before the fetch, or in the loop condition of the caller
				bounded := false
				// the comparison with its direction: mentionsLen(side) — which side holds len(….Instructions)
				mentionsLen := func(e ast.Expr) bool {
					t := types.ExprString(e)
					return strings.Contains(t, "len(") && strings.Contains(t, "Instructions")
				}
				// excludes(b): as a LEAVING guard, b is true for every index >= len  (idx >= len, len <= idx)
				excludes := func(b *ast.BinaryExpr) bool {
					return (b.Op == token.GEQ && mentionsLen(b.Y) && !mentionsLen(b.X)) || (b.Op == token.LEQ && mentionsLen(b.X) && !mentionsLen(b.Y))
				}
				// admits(b): as a CONTINUING condition, b is false for every index >= len  (idx < len, len > idx)
				admits := func(b *ast.BinaryExpr) bool {
					return (b.Op == token.LSS && mentionsLen(b.Y) && !mentionsLen(b.X)) || (b.Op == token.GTR && mentionsLen(b.X) && !mentionsLen(b.Y))
				}
				check := func(body ast.Node, before token.Pos) {
					ast.Inspect(body, func(k ast.Node) bool {
						switch x := k.(type) {
						case *ast.IfStmt:
							if before != 0 && x.End() > before {
								// an enclosing if: its condition admits the fetch if it is a positive conjunct
								if x.Body.Pos() <= before && before < x.Body.End() {
									for _, c := range conjuncts(x.Cond) {
										if b, ok := c.(*ast.BinaryExpr); ok && admits(b) {
											bounded = true
										}
									}
								}
								return true
							}
							// a guard before the fetch that leaves
							if b, ok := ast.Unparen(x.Cond).(*ast.BinaryExpr); ok && excludes(b) && terminates(x.Body.List) {
								bounded = true
							}
						case *ast.ForStmt:
							if x.Cond != nil && (before == 0 || (x.Body.Pos() <= before && before < x.Body.End())) {
								for _, c := range conjuncts(x.Cond) {
									if b, ok := c.(*ast.BinaryExpr); ok && admits(b) {
										bounded = true
									}
								}
							}
						}
						return true
					})
				}
				check(fd.Body, ix.Pos())
				if !bounded {
					// callers' loop conditions
					fobj, _ := info.Defs[fd.Name].(*types.Func)
					for _, f2 := range v.pkg.Syntax {
						ast.Inspect(f2, func(k ast.Node) bool {
							fs, ok := k.(*ast.ForStmt)
							if !ok || fs.Cond == nil {
								return true
							}
							callsIt := false
							ast.Inspect(fs.Body, func(q ast.Node) bool {
								if c2, ok := q.(*ast.CallExpr); ok {
									if fn, ok := typeutil.Callee(info, c2).(*types.Func); ok && fn == fobj {
										callsIt = true
									}
								}
								return true
							})
							if callsIt {
								for _, c := range conjuncts(fs.Cond) {
									if b, ok := c.(*ast.BinaryExpr); ok && admits(b) {
										bounded = true
									}
								}
							}
							return true
						})
					}
				}
				r.check(bounded, rule, fmt.Sprintf("%s.%s:fetch-bounded#%d", v.rel, declName(fd), n), ix.Pos(), "an instruction is fetched only where its index is known to be BELOW the program length (a leaving guard `idx >= len`, or a continuing condition `idx < len`)")
				return true
			})
		}
	}
}
