package main

// C02 — each instruction has RV32IM semantics on all operand values.

import (
	"fmt"
	"go/ast"
	"go/token"
	"go/types"
	"sort"
	"strings"
)

func init() {
	register(&propSpec{
		ID:          "C02",
		Level:       "other",
		Run:         runC02,
		Explanation: "Per-opcode conformance by term identity: for each of the InstructionRunner implementers the abstract interpreter (E-TERM) computes the normal-form term of Run/MemoryRead/MemoryWrite/ReadRegisters/WriteRegisters, rewrites receiver fields into assembly operands through the parser's binding, and compares it syntactically with the RV32IM row (operators carry Go operand types, so signedness, shift kind and 5-bit count masking are part of the term). A matched term is an identity of expressions over all 2^64 operand pairs, not a sample. Also: exact read/write sets, zero-register filter, purity (no write to ctx/globals/receiver), enumeration tables; R02.7 the word codec the loads and stores are built on is a little-endian bijection (the bit-level proof of C16); R02.8 the write units keep the result of the instruction that causes a flush (strict sequence filter: the link register of a jal/jalr is written).",
		Assumptions: []string{
			"Go's specified semantics of integer operators and conversions",
			"the RV32IM table in spec_rv32im.go is a faithful transcription (division by zero is an error value by C07)",
			"bytes.I32FromBytes / BytesFromLowBits are the little-endian codec (decided by C16)",
			"registerRead(ctx, op.forward, r, seq) reads register r (its own term is checked by R04.5/R15.3)",
		},
		Trusted: []string{"go/types type checker", "majcheck term normaliser", "RV32IM transcription"},
	})
}

func newSpecBuilder(a *iscAnalysis) *specBuilder {
	obj := a.pkg.Types.Scope().Lookup("Execution")
	if obj == nil {
		return nil
	}
	st, _ := obj.Type().Underlying().(*types.Struct)
	if st == nil {
		return nil
	}
	return &specBuilder{in: newInterp(a.w), execT: obj.Type(), execSt: st}
}

func termSet(ts []*Term) string {
	var s []string
	seen := map[string]bool{}
	for _, t := range ts {
		if !seen[t.String()] {
			seen[t.String()] = true
			s = append(s, t.String())
		}
	}
	sort.Strings(s)
	return strings.Join(s, " ")
}

// readsOf collects the operands passed to registerRead in a term.
func readsOf(t *Term, into *[]*Term) {
	if t == nil {
		return
	}
	t.walk(func(x *Term) {
		if x.Op == "R" && len(x.Args) >= 1 {
			*into = append(*into, x.Args[0])
		}
	})
}

func declaredSet(t *Term) ([]*Term, bool) {
	// out:return(tuple(seq(...)|nil)) with no state change
	if t == nil || t.Op != "out" || t.S != "return" || len(t.Args[0].Args) != 1 {
		return nil, false
	}
	if !emptyState(t.Args[1]) {
		return nil, false
	}
	v := t.Args[0].Args[0]
	if v.Op == "nil" {
		return nil, true
	}
	if v.Op == "seq" {
		return v.Args, true
	}
	return nil, false
}

func emptyState(st *Term) bool {
	return st.Op == "st" && len(st.Args) == 2 && len(st.Args[0].Args) == 0 && len(st.Args[1].Args) == 0
}

// stateWrites lists writes and effects in an outcome term (any leaf).
func stateWrites(t *Term) []string {
	var out []string
	t.walk(func(x *Term) {
		if x.Op == "st" && len(x.Args) == 2 {
			for _, w := range x.Args[0].Args {
				out = append(out, w.Args[0].Pretty())
			}
			for _, e := range x.Args[1].Args {
				out = append(out, e.Pretty())
			}
		}
	})
	return out
}

func runC02(r *Run) {
	// R02.7: the word codec the loads and stores are built on is a little-endian bijection (C16's proof);
	// R02.8: the write units keep the result of the instruction that causes a flush (strict filter), so
	// the link register of a jal/jalr is written
	r.floor("R02.7", 12)
	importRules(r, runC16, map[string]string{"R16.2": "R02.7", "R16.3": "R02.7", "R16.4": "R02.7"})
	r.floor("R02.8", 7)
	ruleWriteUnitFilter(r, "R02.8")
	a := analyseISA(r.W)
	for _, p := range a.problems {
		r.undecided("R02.0", "anchor", token.NoPos, "%s", p)
	}
	sb := newSpecBuilder(a)
	if sb == nil {
		r.undecided("R02.0", "risc.Execution", token.NoPos, "struct risc.Execution not found")
		return
	}
	r.anchor("InstructionRunner implementers", fmt.Sprint(len(a.ops)))
	r.floor("R02.1", 45)
	r.floor("R02.2", 45)
	r.floor("R02.5", 45)
	r.floor("R02.6", 45*5)
	for _, op := range a.ops {
		c := "risc.(*" + op.typeName + ")"
		sp := sb.spec(op.mnemonic)
		// R02.5 — the mnemonic constant
		r.check(op.constVal >= 0 && a.enum[op.constVal] != "", "R02.5", c+".InstructionType", op.pos["Run"],
			"InstructionType() returns the constant %s (%d)", a.enum[op.constVal], op.constVal)
		if sp == nil {
			r.undecided("R02.1", c+".Run", op.pos["Run"], "no RV32IM row for mnemonic %q: the oracle does not know this instruction", op.mnemonic)
			continue
		}
		if op.pcase == nil {
			r.bad("R02.1", c+".Run", op.pos["Run"], "the parser has no case %q constructing %s: the instruction cannot be expressed over assembly operands", op.mnemonic, op.typeName)
			continue
		}
		// R02.1 — Run term
		if e, bad := op.errs["Run"]; bad {
			r.undecided("R02.1", c+".Run", op.pos["Run"], "Run is not in a recognised form: %s", e)
		} else {
			got := op.terms["Run"]
			ok := false
			why := ""
			for _, want := range sp.run {
				eq, diff := equivTrees(got, hoistAll(want))
				if eq {
					ok = true
					break
				}
				if why == "" {
					why = diff
				}
			}
			if ok {
				r.ok("R02.1", c+".Run", op.pos["Run"], "%s: effect term equals the RV32IM row for all operand values", op.mnemonic)
			} else {
				r.bad("R02.1", c+".Run", op.pos["Run"], "%s: effect differs from RV32IM %s\n      full code term: %s", op.mnemonic, why, got.Pretty())
			}
		}
		addressLists(r, "R02.4", c, op, sp)
		// R02.2 — declared sets are exact
		var used []*Term
		for _, m := range []string{"Run", "MemoryRead", "MemoryWrite"} {
			readsOf(op.terms[m], &used)
		}
		for _, m := range []string{"ReadRegisters", "WriteRegisters"} {
			if e, bad := op.errs[m]; bad {
				r.undecided("R02.2", c+"."+m, op.pos[m], "%s not in a recognised form: %s", m, e)
				continue
			}
			decl, ok := declaredSet(op.terms[m])
			if !ok {
				r.undecided("R02.2", c+"."+m, op.pos[m], "%s does not return a literal list: %s", m, op.terms[m].Pretty())
				continue
			}
			want := sp.reads
			what := "reads"
			if m == "WriteRegisters" {
				want = sp.writes
				what = "writes"
			}
			good := termSet(decl) == termSet(want)
			if m == "ReadRegisters" && good {
				good = termSet(used) == termSet(decl)
			}
			r.check(good, "R02.2", c+"."+m, op.pos[m], "%s: declared %s {%s}; RV32IM row {%s}; registerRead operands in Run/MemoryRead/MemoryWrite {%s}",
				op.mnemonic, what, termSet(decl), termSet(want), termSet(used))
		}
		// R02.6 — purity
		for _, m := range []string{"Run", "MemoryRead", "MemoryWrite", "ReadRegisters", "WriteRegisters"} {
			if _, bad := op.errs[m]; bad {
				r.undecided("R02.6", c+"."+m, op.pos[m], "%s not analysable: %s", m, op.errs[m])
				continue
			}
			ws := stateWrites(op.terms[m])
			r.check(len(ws) == 0, "R02.6", c+"."+m, op.pos[m], "%s writes nothing reachable from ctx, no global, no receiver field %v", m, ws)
		}
		// Forward may write only the forward slot
		if t := op.terms["Forward"]; t != nil {
			ws := stateWrites(t)
			okf := true
			for _, w := range ws {
				if !strings.Contains(w, "«forward»") {
					okf = false
				}
			}
			r.check(okf, "R02.6", c+".Forward", op.pos["Forward"], "Forward writes only the forward slot %v", ws)
		}
	}
	// R02.5 — constants pairwise distinct and covering the enumeration
	seen := map[int64]string{}
	for _, op := range a.ops {
		if op.constVal < 0 {
			continue
		}
		if prev, dup := seen[op.constVal]; dup {
			r.bad("R02.5", "distinct@"+op.typeName, op.pos["Run"], "%s and %s return the same InstructionType constant", prev, op.typeName)
		}
		seen[op.constVal] = op.typeName
	}
	var missing []string
	for v, n := range a.enum {
		if _, ok := seen[v]; !ok {
			missing = append(missing, n)
		}
	}
	sort.Strings(missing)
	r.check(len(missing) == 0, "R02.5", "enumeration-covered", token.NoPos, "every InstructionType constant has an implementer (missing: %v)", missing)
	// String()/Cycles() exhaustive
	for _, m := range []string{"String", "Cycles"} {
		fd, pk := r.W.Method("risc", "InstructionType", m)
		if fd == nil {
			r.undecided("R02.5", "InstructionType."+m, token.NoPos, "method not found")
			continue
		}
		var sw *ast.SwitchStmt
		ast.Inspect(fd.Body, func(n ast.Node) bool {
			if s, ok := n.(*ast.SwitchStmt); ok && sw == nil {
				sw = s
			}
			return true
		})
		if sw == nil {
			r.undecided("R02.5", "InstructionType."+m, fd.Pos(), "no switch found")
			continue
		}
		vals, _, _ := switchCases(pk.TypesInfo, sw)
		var miss []string
		for v, n := range a.enum {
			if !vals[v] {
				miss = append(miss, n)
			}
		}
		sort.Strings(miss)
		r.check(len(miss) == 0, "R02.5", "InstructionType."+m, fd.Pos(), "switch covers all %d constants (missing %v)", len(a.enum), miss)
	}
	// R02.3 — the zero-register filter itself
	if fd, pk := r.W.Func("risc", "IsRegisterChange"); fd != nil {
		in := newInterp(r.W)
		t, err := in.FuncTerm(fd, pk)
		if err != nil {
			r.undecided("R02.3", "risc.IsRegisterChange", fd.Pos(), "%v", err)
		} else {
			p0, p1 := &Term{Op: "param", S: "p0"}, &Term{Op: "param", S: "p1"}
			z := cInt(0, "uint64")
			want := T("ite", "", T("eq", "uint64", p0, z), outRet(z, i32(0)), outRet(p0, p1))
			eq, diff := equivTrees(hoistAll(t), hoistAll(want))
			r.check(eq, "R02.3", "risc.IsRegisterChange", fd.Pos(), "IsRegisterChange(reg,v) = (Zero,0) if reg==Zero else (reg,v) %s", diff)
		}
	} else {
		r.undecided("R02.3", "risc.IsRegisterChange", token.NoPos, "function not found")
	}
}

// addressLists: MemoryRead / MemoryWrite of one opcode return exactly the byte
// addresses of the RV32IM row (the addresses the variants probe, lock and route on).
func addressLists(r *Run, rule, c string, op *opcodeInfo, sp *rvSpec) {
	// R02.4 — MemoryRead / MemoryWrite
	for _, m := range []string{"MemoryRead", "MemoryWrite"} {
		want := sp.memRead
		if m == "MemoryWrite" {
			want = sp.memWrite
		}
		if want == nil {
			want = outRet(tNil)
		}
		if e, bad := op.errs[m]; bad {
			r.undecided(rule, c+"."+m, op.pos[m], "%s not in a recognised form: %s", m, e)
			continue
		}
		eq, diff := equivTrees(op.terms[m], hoistAll(want))
		r.check(eq, rule, c+"."+m, op.pos[m], "%s: %s address list agrees with the RV32IM row %s", op.mnemonic, m, diff)
	}
}

// ruleRunRows compares Run of the named mnemonics with their RV32IM rows (as R02.1) under another rule id.
func ruleRunRows(r *Run, rule string, mnemonics map[string]bool) {
	a := analyseISA(r.W)
	sb := newSpecBuilder(a)
	if sb == nil {
		r.undecided(rule, "risc.Execution", token.NoPos, "struct risc.Execution not found")
		return
	}
	for _, op := range a.ops {
		if !mnemonics[op.mnemonic] {
			continue
		}
		c := "risc.(*" + op.typeName + ")"
		sp := sb.spec(op.mnemonic)
		if sp == nil || op.pcase == nil {
			r.undecided(rule, c+".Run", op.pos["Run"], "no RV32IM row or no parser case for %q", op.mnemonic)
			continue
		}
		if e, bad := op.errs["Run"]; bad {
			r.undecided(rule, c+".Run", op.pos["Run"], "Run is not in a recognised form: %s", e)
			continue
		}
		got := op.terms["Run"]
		ok, why := false, ""
		for _, want := range sp.run {
			eq, diff := equivTrees(got, hoistAll(want))
			if eq {
				ok = true
				break
			}
			if why == "" {
				why = diff
			}
		}
		r.check(ok, rule, c+".Run", op.pos["Run"], "%s: byte k of the value goes to / comes from address+k (effect term equals the RV32IM row) %s", op.mnemonic, why)
	}
}
