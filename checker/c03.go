package main

// C03 — wrong-path (speculative) instructions leave no architectural trace.

import (
	"fmt"
	"go/ast"
	"go/token"
	"go/types"
	"golang.org/x/tools/go/packages"
	"sort"
	"strings"

	"golang.org/x/tools/go/types/typeutil"
)

func init() {
	register(&propSpec{
		ID:          "C03",
		Level:       "other",
		Run:         runC03,
		Explanation: "Structural rules over the pipelined variants: R03.1 who-may-write architectural state (Context.Registers/Memory are stored to only by non-scoreboard Context methods and by the variants' line write-back routines; Context writers are called only from write units, branch resolution and Run); R03.2 every write-unit commit is behind the sequence filter `execution.SequenceID > limit` with limit != -1, and from the variant where register results are renamed the write-unit step of a flush cycle receives the limit; R03.3 the pipeline flush reaches the flush/clean of every bus and unit (and bumps the sequence epoch where one is used); R03.4 before the flush, Run drains execute units holding older work with the limit installed and the execute unit's pre-step drops exactly the younger ones; R03.5 branch resolution: taken -> rollback with the branch's own id, not taken -> commit; R03.6 decode stalls after an unconditional jump until the target is reported; R03.7 stores reach a cache only sequence-guarded or gated on unresolved conditional branches; R03.8 the branch/memory classification tables agree with the opcode implementations; R03.10 the flush path contains no explicit panic; R03.11 every read of the memory image by a line fetch is bounded (a wrong-path load may fetch any address); R03.12 the branch unit never misses a flush (assert -> jump/conditionalBranch sets the flush flag whenever the resolved pc differs from the fetched one); R03.13 every dispatch path of the control unit maintains the flags that hold ret and stores behind an unresolved conditional branch; R03.21 every redirect of the fetch unit starts a new sequence epoch; R03.22 the pipeline is flushed to the proposed pc itself; R03.23 the execute unit arms the branch unit's check for the instruction it runs; R03.19 an inner flush proposed during the drain before a flush replaces the pending restart pc and limit; R03.20 the write-back of a line skips the bytes below address 0 and stops only past the end of the image; R03.18 when a jump's target is resolved the branch target buffer is updated and the fetch redirected unconditionally (a buffer hit is never verified elsewhere); R03.17 the one-line-per-access data path tests the sign of an address before it selects a line with a truncating remainder (a wrong-path load can carry a negative address); R03.16 the wholesale commit at the resolution of a not-taken conditional branch is safe only if conditional branches resolve one at a time (held while an older one is unresolved) or the commit is bounded by the branch's sequence id; R03.15 a variant that writes results into the register file directly dispatches in order or holds every instruction while a conditional branch is unresolved; R03.14 the squash restores register state: Context.Rollback/RATRollback, the transactional writes and the tag-bounded rename-table lookups equal the reference model (spec/risc_state.go.txt). Does not decide that sequence ids order instructions correctly across loop iterations and epochs (a value question). R03.24 the flush of a unit written as a suspendable coroutine returns it to its start; R03.25 a drain loop that ends on a local flag clears the flag wherever it finds a component busy; R03.26 a unit's flush empties every container of in-flight instructions it owns (or the step re-creates it every cycle). R03.27 a flag that a unit's emptiness predicate reads and the unit raises while it works is lowered by the unit's flush. R03.28 the control unit's dispatch decision equals its reference model as a decision procedure over the uninterpreted answers of its predicates (one branch per cycle, ret held behind the bus and an unresolved conditional branch, held-back dependences, no-hazard / forwarding / renaming, with their polarity). R03.29 the tag given to an instruction at decode is strictly larger than every tag given before (a decode counter; or a pc-with-stride tag together with a bound on the program length). R03.30 an error produced by an execute unit is not returned by Run unconditionally in the step that produces it (it may be the error of a wrong-path instruction). R03.31 a redirect of the fetch unit that asks for it removes the sequential pcs already pushed behind the jump (the flag guards a Clean of the output bus and is lowered there). R03.32 in the execute loop the sequence limit of a flush requested earlier in the same cycle is stored into each execute unit before it is stepped. R03.33 the control unit's loops honour the stop answer of the dispatch decision (nothing younger is looked at once an instruction is held for a reason that orders the ones behind it) and neither lose nor duplicate an instruction. R03.34 every loop of the CPU that waits for buses, coroutines or units runs while ANY of them is busy and steps each of them in its body, on the busy side of any guard (the drains before a flush and at the end of the run complete the older work).",
		Assumptions: []string{"sequence ids increase in program order within an epoch (not decided)"},
		Trusted:     []string{"go/types", "role resolution (evidence.anchors)", "E-TERM opcode terms for the derived classification"},
	})
}

func ctxFieldWritten(info *types.Info, e ast.Expr) string {
	// e is the target container: x.Registers / x.Memory of risc.Context
	sel, ok := ast.Unparen(e).(*ast.SelectorExpr)
	if !ok {
		return ""
	}
	s := info.Selections[sel]
	if s == nil || s.Kind() != types.FieldVal {
		return ""
	}
	if n := namedOf(s.Recv()); n == nil || n.Obj().Name() != "Context" || n.Obj().Pkg().Path() != modPath+"/risc" {
		return ""
	}
	if s.Obj().Name() == "Registers" || s.Obj().Name() == "Memory" {
		return s.Obj().Name()
	}
	return ""
}

// archWriteSites lists every store / delete / reassignment of Context.Registers and Context.Memory.
type archSite struct {
	rel   string
	fd    *ast.FuncDecl
	field string
	pos   token.Pos
	stmt  ast.Node
}

func archWriteSites(w *World) []archSite {
	var out []archSite
	var paths []string
	for p := range w.Pkgs {
		if strings.HasPrefix(p, modPath) {
			paths = append(paths, p)
		}
	}
	sort.Strings(paths)
	for _, path := range paths {
		p := w.Pkgs[path]
		rel := strings.TrimPrefix(path, modPath+"/")
		info := p.TypesInfo
		for _, f := range p.Syntax {
			for _, d := range f.Decls {
				fd, ok := d.(*ast.FuncDecl)
				if !ok || fd.Body == nil {
					continue
				}
				ast.Inspect(fd.Body, func(n ast.Node) bool {
					switch x := n.(type) {
					case *ast.AssignStmt:
						for _, l := range x.Lhs {
							if ix, ok := ast.Unparen(l).(*ast.IndexExpr); ok {
								if fl := ctxFieldWritten(info, ix.X); fl != "" {
									out = append(out, archSite{rel, fd, fl, x.Pos(), x})
								}
							}
							if fl := ctxFieldWritten(info, l); fl != "" {
								out = append(out, archSite{rel, fd, fl, x.Pos(), x})
							}
						}
					case *ast.IncDecStmt:
						if ix, ok := ast.Unparen(x.X).(*ast.IndexExpr); ok {
							if fl := ctxFieldWritten(info, ix.X); fl != "" {
								out = append(out, archSite{rel, fd, fl, x.Pos(), x})
							}
						}
					case *ast.CallExpr:
						if id, ok := x.Fun.(*ast.Ident); ok && id.Name == "delete" && len(x.Args) == 2 {
							if fl := ctxFieldWritten(info, x.Args[0]); fl != "" {
								out = append(out, archSite{rel, fd, fl, x.Pos(), x})
							}
						}
					}
					return true
				})
			}
		}
	}
	return out
}

// scoreboardMethods: Context methods that write PendingReadRegisters/PendingWriteRegisters.
func scoreboardMethods(w *World) map[string]bool {
	out := map[string]bool{}
	p := w.Pkg("risc")
	for _, f := range p.Syntax {
		for _, d := range f.Decls {
			fd, ok := d.(*ast.FuncDecl)
			if !ok || fd.Body == nil || fd.Recv == nil {
				continue
			}
			ast.Inspect(fd.Body, func(n ast.Node) bool {
				var target ast.Expr
				switch x := n.(type) {
				case *ast.IncDecStmt:
					target = x.X
				case *ast.AssignStmt:
					if len(x.Lhs) == 1 {
						target = x.Lhs[0]
					}
				case *ast.CallExpr:
					if id, ok := x.Fun.(*ast.Ident); ok && id.Name == "delete" && len(x.Args) == 2 {
						target = x.Args[0]
					}
				}
				if target == nil {
					return true
				}
				if ix, ok := ast.Unparen(target).(*ast.IndexExpr); ok {
					target = ix.X
				}
				if sel, ok := ast.Unparen(target).(*ast.SelectorExpr); ok {
					if s := p.TypesInfo.Selections[sel]; s != nil && strings.HasPrefix(s.Obj().Name(), "Pending") {
						out[fd.Name.Name] = true
					}
				}
				return true
			})
		}
	}
	return out
}

func ruleArchWriters(r *Run, rule string, pipelinedOnly bool) {
	w := r.W
	sb := scoreboardMethods(w)
	pipelined := map[string]bool{}
	for _, v := range variants(w) {
		if v.pipelined() {
			pipelined[v.rel] = true
		}
	}
	count := map[string]int{}
	for _, s := range archWriteSites(w) {
		if strings.HasPrefix(s.rel, "proc/mvp") && pipelinedOnly && !pipelined[s.rel] {
			continue
		}
		key := fmt.Sprintf("%s.%s:write(%s)", s.rel, declName(s.fd), s.field)
		count[key]++
		if count[key] > 1 {
			key = fmt.Sprintf("%s#%d", key, count[key])
		}
		switch {
		case s.rel == "risc" && s.fd.Recv != nil && strings.Contains(types.ExprString(s.fd.Recv.List[0].Type), "Context"):
			r.check(!sb[s.fd.Name.Name], rule, key, s.pos, "architectural state is written by a Context method that is not a scoreboard method (scoreboard methods: %v)", sortedKeys(sb))
		case strings.HasPrefix(s.rel, "proc/mvp") && s.field == "Memory":
			// a line write-back routine: the store is inside a range loop over a []int8 parameter and stores the ranged value
			good := false
			for _, fl := range s.fd.Type.Params.List {
				for _, nm := range fl.Names {
					ast.Inspect(s.fd.Body, func(n ast.Node) bool {
						rs, ok := n.(*ast.RangeStmt)
						if !ok {
							return true
						}
						if id, ok := ast.Unparen(rs.X).(*ast.Ident); ok && id.Name == nm.Name && rs.Pos() <= s.pos && s.pos <= rs.End() {
							if as, ok := s.stmt.(*ast.AssignStmt); ok && len(as.Rhs) == 1 {
								if v, ok := rs.Value.(*ast.Ident); ok && types.ExprString(as.Rhs[0]) == v.Name {
									good = true
								}
							}
						}
						return true
					})
				}
			}
			r.check(good, rule, key, s.pos, "a variant stores to Context.Memory only in a line write-back routine (copying the bytes of a line parameter to the line's address)")
		default:
			r.bad(rule, key, s.pos, "architectural state (%s) is written outside risc.Context's commit methods and the line write-back routines", s.field)
		}
	}
	// callers of the Context architectural writers
	for _, v := range variants(w) {
		if v.pkg == nil || !v.pipelined() {
			continue
		}
		for _, f := range v.pkg.Syntax {
			for _, d := range f.Decls {
				fd, ok := d.(*ast.FuncDecl)
				if !ok || fd.Body == nil {
					continue
				}
				n := 0
				ast.Inspect(fd.Body, func(m ast.Node) bool {
					call, ok := m.(*ast.CallExpr)
					if !ok {
						return true
					}
					cf, ok := typeutil.Callee(v.info, call).(*types.Func)
					if !ok || !isArchWriter(cf) {
						return true
					}
					n++
					key := fmt.Sprintf("%s.%s:call(%s)#%d", v.rel, declName(fd), cf.Name(), n)
					// the enclosing type must be a write-role unit
					okCaller := false
					if fd.Recv != nil {
						if nt := namedOf(v.info.TypeOf(fd.Recv.List[0].Type)); nt != nil {
							for _, fr := range v.fields {
								if fr.isUnit && fr.unitT == nt && fr.roles["write"] && !fr.roles["exec"] {
									okCaller = true
								}
							}
						}
					}
					r.check(okCaller, rule, key, call.Pos(), "%s is called from a write unit only (never from an execute, control, decode or fetch unit)", cf.Name())
					return true
				})
			}
		}
	}
}

// ---------------------------------------------------------------------------

func multiExec(v *variant) bool {
	for _, f := range v.fields {
		if f.kind == "units" && f.roles["exec"] {
			return true
		}
	}
	return false
}

func seqGuard(info *types.Info, is *ast.IfStmt) bool {
	// if limit != -1 && execution.SequenceID > limit { return } — the comparison is a POSITIVE conjunct of
	// the condition (not under a negation, not a disjunct)
	found := false
	var limit ast.Expr
	cs := conjuncts(is.Cond)
	for _, c := range cs {
		b, ok := c.(*ast.BinaryExpr)
		if !ok {
			continue
		}
		if b.Op == token.GTR {
			if sel, ok := ast.Unparen(b.X).(*ast.SelectorExpr); ok && sel.Sel.Name == "SequenceID" {
				found, limit = true, b.Y
			}
		}
		if b.Op == token.LSS {
			if sel, ok := ast.Unparen(b.Y).(*ast.SelectorExpr); ok && sel.Sel.Name == "SequenceID" {
				found, limit = true, b.X
			}
		}
	}
	if !found {
		return false
	}
	// the only other conjunct allowed is "a limit is set": limit != -1
	for _, c := range cs {
		b, ok := c.(*ast.BinaryExpr)
		if !ok {
			return false
		}
		if b.Op == token.GTR || b.Op == token.LSS {
			continue
		}
		if b.Op != token.NEQ {
			return false
		}
		x, y := ast.Unparen(b.X), ast.Unparen(b.Y)
		if v, ok := constInt64(info.Types[y]); ok && v == -1 && types.ExprString(x) == types.ExprString(ast.Unparen(limit)) {
			continue
		}
		if v, ok := constInt64(info.Types[x]); ok && v == -1 && types.ExprString(y) == types.ExprString(ast.Unparen(limit)) {
			continue
		}
		return false
	}
	return terminates(is.Body.List)
}

// conjuncts splits a condition on && (through parentheses); anything else is one conjunct.
func conjuncts(e ast.Expr) []ast.Expr {
	e = ast.Unparen(e)
	if b, ok := e.(*ast.BinaryExpr); ok && b.Op == token.LAND {
		return append(conjuncts(b.X), conjuncts(b.Y)...)
	}
	return []ast.Expr{e}
}

func ruleWriteUnitFilter(r *Run, rule string) {
	w := r.W
	for _, v := range variants(w) {
		if v.pkg == nil || !multiExec(v) {
			continue
		}
		for _, f := range v.fields {
			if !f.isUnit || !f.roles["write"] || f.roles["exec"] {
				continue
			}
			for i := 0; i < f.unitT.NumMethods(); i++ {
				fd, pk := w.FuncDecl(f.unitT.Method(i))
				if fd == nil || fd.Body == nil {
					continue
				}
				// the first commit (direct call or continuation) in the method
				var first token.Pos
				ast.Inspect(fd.Body, func(n ast.Node) bool {
					if call, ok := n.(*ast.CallExpr); ok {
						if cf, ok := typeutil.Callee(pk.TypesInfo, call).(*types.Func); ok && isArchWriter(cf) {
							if first == 0 || call.Pos() < first {
								first = call.Pos()
							}
						}
					}
					return true
				})
				if first == 0 {
					continue
				}
				guard := false
				for _, st := range fd.Body.List {
					if st.Pos() > first {
						break
					}
					if is, ok := st.(*ast.IfStmt); ok && seqGuard(pk.TypesInfo, is) {
						guard = true
					}
				}
				key := fmt.Sprintf("%s.(%s).%s:sequence-filter", v.rel, f.unitT.Obj().Name(), fd.Name.Name)
				r.check(guard, rule, key, fd.Pos(), "every commit of the write unit is preceded by `if limit != -1 && execution.SequenceID > limit { return }`: results younger than the flushing branch are dropped")
			}
		}
		// flush cycle receives the limit (renaming variants: the write unit writes through TransactionRATWrite)
		usesRAT := w.reaches(v.info, v.run, func(f *types.Func) bool { return f.Name() == "TransactionRATWrite" })
		if usesRAT {
			_, fl := v.retAndFlushBranches()
			loop := v.mainLoop()
			good := false
			if loop != nil && fl != nil {
				flagName := types.ExprString(fl.Cond)
				for _, st := range loop.Body.List {
					if st.Pos() >= fl.Pos() {
						break
					}
					ast.Inspect(st, func(n ast.Node) bool {
						is, ok := n.(*ast.IfStmt)
						if !ok || types.ExprString(is.Cond) != flagName {
							return true
						}
						// then-branch cycles a write unit with a non-constant limit; else with -1
						if v.cyclesRole(is.Body, "write") && !strings.Contains(exprsOf(is.Body), "-1") {
							good = true
						}
						return true
					})
				}
			}
			r.check(good, rule, v.rel+".(CPU).Run:flush-cycle-limit", v.run.Pos(), "in the cycle in which a flush is requested the write units receive the flush limit instead of -1 (results are written speculatively, so a younger result already on the write bus must be dropped)")
		}
	}
}

func exprsOf(n ast.Node) string {
	var sb strings.Builder
	ast.Inspect(n, func(m ast.Node) bool {
		if c, ok := m.(*ast.CallExpr); ok {
			sb.WriteString(types.ExprString(c))
			sb.WriteString(";")
		}
		return true
	})
	return sb.String()
}

// ---------------------------------------------------------------------------

func ruleFlushComplete(r *Run, rule string) {
	w := r.W
	for _, v := range variants(w) {
		if v.pkg == nil || !v.pipelined() {
			continue
		}
		if v.flush == nil {
			r.bad(rule, v.rel+".(CPU):flush", v.run.Pos(), "no pipeline-flush method found")
			continue
		}
		r.anchor(v.name+" pipeline flush", declName(v.flush))
		// direct calls m.<field>.<X>() and loops over slice fields in the flush body
		cleaned := map[*types.Var]bool{}
		ast.Inspect(v.flush.Body, func(n ast.Node) bool {
			switch x := n.(type) {
			case *ast.CallExpr:
				if sel, ok := x.Fun.(*ast.SelectorExpr); ok {
					ln := strings.ToLower(sel.Sel.Name)
					if ln == "clean" || ln == "flush" {
						if f := v.cpuFieldOf(sel.X); f != nil {
							cleaned[f.obj] = true
						}
					}
				}
			case *ast.RangeStmt:
				if f := v.cpuFieldOf(x.X); f != nil {
					ast.Inspect(x.Body, func(m ast.Node) bool {
						if c, ok := m.(*ast.CallExpr); ok {
							if sel, ok := c.Fun.(*ast.SelectorExpr); ok && strings.EqualFold(sel.Sel.Name, "flush") {
								cleaned[f.obj] = true
							}
						}
						return true
					})
				}
			}
			return true
		})
		for _, f := range v.fields {
			need := f.isBus
			if f.isUnit && hasDeclMethod(f.unitT, "flush") != nil {
				// a flush that returns a value is a final write-back, not a pipeline flush
				if sig := hasDeclMethod(f.unitT, "flush").Type().(*types.Signature); sig.Results().Len() == 0 {
					need = true
				}
			}
			if f.kind == "ctx" {
				need = true
			}
			if !need {
				continue
			}
			r.check(cleaned[f.obj], rule, v.rel+".(CPU)."+v.flush.Name.Name+":covers("+f.name+")", v.flush.Pos(), "the pipeline flush empties %s (%s)", f.name, f.kind)
		}
		// other flushable state reachable only transitively (cache controllers)
		for _, tn := range v.pkg.Types.Scope().Names() {
			named, ok := v.pkg.Types.Scope().Lookup(tn).Type().(*types.Named)
			if !ok || named == v.cpu {
				continue
			}
			m := hasDeclMethod(named, "flush")
			if m == nil || m.Type().(*types.Signature).Results().Len() != 0 || m.Type().(*types.Signature).Params().Len() != 0 {
				continue
			}
			isField := false
			for _, f := range v.fields {
				if f.unitT == named {
					isField = true
				}
			}
			if isField {
				continue
			}
			// is the type held (possibly in a slice) by the CPU or by a unit?
			held := false
			for _, f := range v.fields {
				if namedOf(f.obj.Type()) == named {
					held = true
				}
				if f.unitT != nil {
					if st, ok := f.unitT.Underlying().(*types.Struct); ok {
						for i := 0; i < st.NumFields(); i++ {
							if namedOf(st.Field(i).Type()) == named {
								held = true
							}
						}
					}
				}
			}
			if !held {
				continue
			}
			reached := w.reaches(v.info, v.flush.Body, func(f *types.Func) bool { return f.Origin() == m })
			r.check(reached, rule, v.rel+".(CPU)."+v.flush.Name.Name+":reaches("+tn+".flush)", v.flush.Pos(), "the pipeline flush reaches %s.flush (state held by a unit is abandoned with the unit)", tn)
		}
		// the sequence epoch
		usesEpoch := false
		for _, f := range v.pkg.Syntax {
			ast.Inspect(f, func(n ast.Node) bool {
				if sel, ok := n.(*ast.SelectorExpr); ok && sel.Sel.Name == "IncSequenceID" {
					usesEpoch = true
				}
				return true
			})
		}
		if tk, _, _ := tagKind(w); usesEpoch && tk == "counter" {
			r.ok(rule, v.rel+".(CPU)."+v.flush.Name.Name+":epoch", v.flush.Pos(), "tags are a decode counter: instructions refetched after the flush are younger without an epoch")
		} else if usesEpoch {
			reached := w.reaches(v.info, v.flush.Body, func(f *types.Func) bool { return f.Name() == "IncSequenceID" })
			r.check(reached, rule, v.rel+".(CPU)."+v.flush.Name.Name+":epoch", v.flush.Pos(), "the pipeline flush bumps the sequence epoch, so instructions refetched after the flush are younger than everything before it")
		}
	}
}

func hasDeclMethod(n *types.Named, name string) *types.Func {
	for i := 0; i < n.NumMethods(); i++ {
		if strings.EqualFold(n.Method(i).Name(), name) {
			return n.Method(i)
		}
	}
	return nil
}

// ---------------------------------------------------------------------------

func ruleOlderWorkSurvives(r *Run, rule string) {
	w := r.W
	for _, v := range variants(w) {
		if v.pkg == nil || !multiExec(v) || v.flush == nil {
			continue
		}
		_, fl := v.retAndFlushBranches()
		key := v.rel + ".(CPU).Run:drain-before-flush"
		if fl == nil {
			r.undecided(rule, key, v.run.Pos(), "the branch taken on the flush flag was not found")
			continue
		}
		// statements of the flush branch before the call of the pipeline flush
		var before []ast.Stmt
		for _, st := range fl.Body.List {
			callsFlush := false
			ast.Inspect(st, func(n ast.Node) bool {
				if c, ok := n.(*ast.CallExpr); ok {
					if f, ok := typeutil.Callee(v.info, c).(*types.Func); ok {
						if fd, _ := w.FuncDecl(f); fd == v.flush {
							callsFlush = true
						}
					}
				}
				return true
			})
			if callsFlush {
				break
			}
			before = append(before, st)
		}
		ev := v.drainEvents(before)
		hasExec := false
		for _, e := range ev {
			if e.role == "exec" {
				hasExec = true
			}
		}
		r.check(hasExec, rule, key, fl.Pos(), "before the pipeline flush, Run cycles the execute units that hold instructions not younger than the branch until they are empty (otherwise the flush kills older in-flight work)")
		// the execute unit's pre-step: drops exactly the younger ones
		for _, f := range v.fields {
			if !f.isUnit || !f.roles["exec"] {
				continue
			}
			pre := false
			for _, file := range v.pkg.Syntax {
				ast.Inspect(file, func(n ast.Node) bool {
					lit, ok := n.(*ast.FuncLit)
					if !ok {
						return true
					}
					ast.Inspect(lit.Body, func(m ast.Node) bool {
						is, ok := m.(*ast.IfStmt)
						if !ok {
							return true
						}
						if b, ok := ast.Unparen(is.Cond).(*ast.BinaryExpr); ok && b.Op == token.GTR {
							l, rr := types.ExprString(b.X), types.ExprString(b.Y)
							if strings.HasSuffix(l, "runner.SequenceID") && strings.HasSuffix(rr, "sequenceID") {
								callsFlush := false
								ast.Inspect(is.Body, func(k ast.Node) bool {
									if c, ok := k.(*ast.CallExpr); ok {
										if sel, ok := c.Fun.(*ast.SelectorExpr); ok && strings.EqualFold(sel.Sel.Name, "flush") {
											callsFlush = true
										}
									}
									return true
								})
								if callsFlush {
									pre = true
								}
							}
						}
						return true
					})
					return true
				})
			}
			if hasExec {
				r.check(pre, rule, v.rel+".("+f.unitT.Obj().Name()+"):pre-step", f.obj.Pos(), "the execute unit's pre-step abandons its instruction exactly when `runner.SequenceID > limit` (strictly younger than the branch)")
			}
		}
	}
}

// ---------------------------------------------------------------------------

func ruleBranchResolution(r *Run, rule string) {
	w := r.W
	for _, v := range variants(w) {
		if v.pkg == nil || !v.pipelined() {
			continue
		}
		isRollback := func(f *types.Func) bool { return f.Name() == "Rollback" || f.Name() == "RATRollback" }
		isCommit := func(f *types.Func) bool { return f.Name() == "Commit" || f.Name() == "RATCommit" }
		hasRollback := false
		for _, f := range v.fields {
			if f.isUnit && f.roles["exec"] {
				for i := 0; i < f.unitT.NumMethods(); i++ {
					fd, pk := w.FuncDecl(f.unitT.Method(i))
					if fd != nil && fd.Body != nil && w.reaches(pk.TypesInfo, fd.Body, isRollback) {
						hasRollback = true
					}
				}
			}
		}
		if !hasRollback {
			continue
		}
		for _, f := range v.fields {
			if !f.isUnit || !f.roles["exec"] {
				continue
			}
			n := 0
			for i := 0; i < f.unitT.NumMethods(); i++ {
				fd, pk := w.FuncDecl(f.unitT.Method(i))
				if fd == nil || fd.Body == nil {
					continue
				}
				ast.Inspect(fd.Body, func(m ast.Node) bool {
					is, ok := m.(*ast.IfStmt)
					if !ok || is.Else == nil {
						return true
					}
					sel, ok := ast.Unparen(is.Cond).(*ast.SelectorExpr)
					if !ok || sel.Sel.Name != "PcChange" {
						return true
					}
					tR := w.reaches(pk.TypesInfo, is.Body, isRollback)
					tC := w.reaches(pk.TypesInfo, is.Body, isCommit)
					eR := w.reaches(pk.TypesInfo, is.Else, isRollback)
					eC := w.reaches(pk.TypesInfo, is.Else, isCommit)
					if !tR && !tC && !eR && !eC {
						return true
					}
					n++
					// the rollback argument: the branch's own sequence id
					own := false
					ast.Inspect(is.Body, func(k ast.Node) bool {
						if c, ok := k.(*ast.CallExpr); ok {
							for _, a := range c.Args {
								if strings.HasSuffix(types.ExprString(a), "runner.SequenceID") {
									own = true
								}
							}
						}
						return true
					})
					key := fmt.Sprintf("%s.(%s).%s:resolution", v.rel, f.unitT.Obj().Name(), fd.Name.Name)
					r.check(tR && !tC && eC && !eR && own, rule, key, is.Pos(), "a taken conditional branch reaches Rollback/RATRollback with its own sequence id (%v, own id %v) and a not-taken one reaches Commit/RATCommit (%v); never the other way round (taken->commit %v, not-taken->rollback %v)", tR, own, eC, tC, eR)
					return true
				})
			}
			if n == 0 {
				r.bad(rule, fmt.Sprintf("%s.(%s):resolution", v.rel, f.unitT.Obj().Name()), f.obj.Pos(), "the execute unit reaches a rollback but not under a test of Execution.PcChange")
			}
		}
	}
}

// ---------------------------------------------------------------------------

func ruleDecodeStall(r *Run, rule string) {
	w := r.W
	for _, v := range variants(w) {
		if v.pkg == nil || !v.pipelined() {
			continue
		}
		for _, f := range v.fields {
			if !f.isUnit {
				continue
			}
			for i := 0; i < f.unitT.NumMethods(); i++ {
				fd, pk := w.FuncDecl(f.unitT.Method(i))
				if fd == nil || fd.Body == nil {
					continue
				}
				info := pk.TypesInfo
				// decode role: indexes app.Instructions
				decodes := false
				ast.Inspect(fd.Body, func(n ast.Node) bool {
					if ix, ok := n.(*ast.IndexExpr); ok {
						if sel, ok := ast.Unparen(ix.X).(*ast.SelectorExpr); ok && sel.Sel.Name == "Instructions" {
							decodes = true
						}
					}
					return true
				})
				if !decodes {
					continue
				}
				// a bool field set true under IsUnconditionalBranch()
				var flag *types.Var
				ast.Inspect(fd.Body, func(n ast.Node) bool {
					is, ok := n.(*ast.IfStmt)
					if !ok || !strings.Contains(types.ExprString(is.Cond), "IsUnconditionalBranch()") {
						return true
					}
					for _, st := range is.Body.List {
						if as, ok := st.(*ast.AssignStmt); ok && len(as.Lhs) == 1 {
							if sel, ok := as.Lhs[0].(*ast.SelectorExpr); ok {
								if s := info.Selections[sel]; s != nil {
									if tv := info.Types[as.Rhs[0]]; tv.Value != nil && tv.Value.String() == "true" {
										flag = s.Obj().(*types.Var)
									}
								}
							}
						}
					}
					return true
				})
				key := fmt.Sprintf("%s.(%s).%s:jump-stall", v.rel, f.unitT.Obj().Name(), fd.Name.Name)
				if flag == nil {
					// variants without a branch target buffer resolve jumps in execute and flush; the stall exists from the variant that predicts
					hasBTB := v.pkg.Types.Scope().Lookup("branchTargetBuffer") != nil
					if hasBTB {
						r.bad(rule, key, fd.Pos(), "the decode unit does not stall after decoding an unconditional jump")
					}
					continue
				}
				// early return on the flag at the top of the method
				top := false
				for _, st := range fd.Body.List {
					if _, isLoop := st.(*ast.ForStmt); isLoop {
						break
					}
					if is, ok := st.(*ast.IfStmt); ok {
						if sel, ok := ast.Unparen(is.Cond).(*ast.SelectorExpr); ok {
							if s := info.Selections[sel]; s != nil && s.Obj() == flag && terminates(is.Body.List) {
								top = true
							}
						}
					}
				}
				// cleared by another method (resolution notice) and by flush
				clearedBy := map[string]bool{}
				for j := 0; j < f.unitT.NumMethods(); j++ {
					fd2, pk2 := w.FuncDecl(f.unitT.Method(j))
					if fd2 == nil || fd2.Body == nil || fd2 == fd {
						continue
					}
					ast.Inspect(fd2.Body, func(m ast.Node) bool {
						if as, ok := m.(*ast.AssignStmt); ok && len(as.Lhs) == 1 {
							if sel, ok := as.Lhs[0].(*ast.SelectorExpr); ok {
								if s := pk2.TypesInfo.Selections[sel]; s != nil && s.Obj() == flag {
									if tv := pk2.TypesInfo.Types[as.Rhs[0]]; tv.Value != nil && tv.Value.String() == "false" {
										clearedBy[fd2.Name.Name] = true
									}
								}
							}
						}
						return true
					})
				}
				hasFlushClear := false
				for k := range clearedBy {
					if strings.EqualFold(k, "flush") {
						hasFlushClear = true
					}
				}
				r.check(top && len(clearedBy) >= 2 && hasFlushClear, rule, key, fd.Pos(), "after decoding an unconditional jump the unit sets %s, returns early while it is set (%v), and it is cleared by the resolution notice and by flush (%v)", flag.Name(), top, sortedKeys(clearedBy))
				// and nothing more is decoded in the SAME step: the decode loop is left after the jump was pushed
				// (units that decode one instruction per step have no loop to leave)
				inLoop := false
				ast.Inspect(fd.Body, func(n ast.Node) bool {
					var body *ast.BlockStmt
					switch x := n.(type) {
					case *ast.ForStmt:
						body = x.Body
					case *ast.RangeStmt:
						body = x.Body
					}
					if body != nil {
						ast.Inspect(body, func(k ast.Node) bool {
							if is, ok := k.(*ast.IfStmt); ok && strings.Contains(types.ExprString(is.Cond), "IsUnconditionalBranch()") {
								inLoop = true
							}
							return true
						})
					}
					return true
				})
				if !inLoop {
					continue
				}
				stops := false
				ast.Inspect(fd.Body, func(n ast.Node) bool {
					is, ok := n.(*ast.IfStmt)
					if !ok || !strings.Contains(types.ExprString(is.Cond), "IsUnconditionalBranch()") {
						return true
					}
					if terminates(is.Body.List) {
						stops = true
					}
					// locals raised in the branch
					raised := map[types.Object]bool{}
					for _, st := range is.Body.List {
						if as, ok := st.(*ast.AssignStmt); ok && len(as.Lhs) == 1 && len(as.Rhs) == 1 {
							if id, ok := as.Lhs[0].(*ast.Ident); ok {
								if tv := info.Types[as.Rhs[0]]; tv.Value != nil && tv.Value.String() == "true" {
									raised[info.Uses[id]] = true
								}
							}
						}
					}
					ast.Inspect(fd.Body, func(k ast.Node) bool {
						i2, ok := k.(*ast.IfStmt)
						if !ok || i2.Pos() <= is.Pos() {
							return true
						}
						guard := false
						switch c := ast.Unparen(i2.Cond).(type) {
						case *ast.Ident:
							guard = raised[info.Uses[c]]
						case *ast.SelectorExpr:
							if s := info.Selections[c]; s != nil && s.Obj() == flag {
								guard = true
							}
						}
						if guard && terminates(i2.Body.List) {
							stops = true
						}
						return true
					})
					return true
				})
				r.check(stops, rule, key+":same-step", fd.Pos(), "after an unconditional jump is pushed the decode loop is left in the same step (nothing behind the jump is decoded before its target is known)")
			}
		}
	}
}

// ---------------------------------------------------------------------------

func ruleClassification(r *Run, rule string) {
	w := r.W
	a := analyseISA(w)
	derived := map[string]map[int64]bool{"IsConditionalBranch": {}, "IsUnconditionalBranch": {}, "IsMemoryRead": {}, "IsMemoryWrite": {}}
	for _, op := range a.ops {
		if op.constVal < 0 {
			continue
		}
		if t := op.terms["Run"]; t != nil {
			taken, notTaken := false, false
			var leaves func(t *Term)
			leaves = func(t *Term) {
				if t.Op == "ite" {
					leaves(t.Args[1])
					leaves(t.Args[2])
					return
				}
				if t.Op != "out" || len(t.Args[0].Args) != 2 {
					return
				}
				if t.Args[0].Args[1].Op != "nil" { // error leaf
					return
				}
				pc := false
				t.Args[0].Args[0].walk(func(x *Term) {
					if x.Op == "fv" && x.Hint == "PcChange" {
						pc = true
					}
				})
				if pc {
					taken = true
				} else {
					notTaken = true
				}
			}
			leaves(t)
			if taken && notTaken {
				derived["IsConditionalBranch"][op.constVal] = true
			}
			if taken && !notTaken {
				derived["IsUnconditionalBranch"][op.constVal] = true
			}
		}
		nonNil := func(m string) bool {
			t := op.terms[m]
			return t != nil && t.Op == "out" && len(t.Args[0].Args) == 1 && t.Args[0].Args[0].Op != "nil"
		}
		if nonNil("MemoryRead") {
			derived["IsMemoryRead"][op.constVal] = true
		}
		if nonNil("MemoryWrite") {
			derived["IsMemoryWrite"][op.constVal] = true
		}
	}
	for _, m := range []string{"IsConditionalBranch", "IsUnconditionalBranch", "IsMemoryRead", "IsMemoryWrite"} {
		fd, pk := w.Method("risc", "InstructionType", m)
		if fd == nil {
			r.undecided(rule, "risc.(InstructionType)."+m, token.NoPos, "predicate not found")
			continue
		}
		var sw *ast.SwitchStmt
		ast.Inspect(fd.Body, func(n ast.Node) bool {
			if s, ok := n.(*ast.SwitchStmt); ok && sw == nil {
				sw = s
			}
			return true
		})
		if sw == nil {
			r.undecided(rule, "risc.(InstructionType)."+m, fd.Pos(), "predicate is not a switch over constants")
			continue
		}
		// constants whose case returns true
		got := map[int64]bool{}
		for _, c := range sw.Body.List {
			cc := c.(*ast.CaseClause)
			retTrue := false
			for _, st := range cc.Body {
				if rs, ok := st.(*ast.ReturnStmt); ok && len(rs.Results) == 1 {
					if tv := pk.TypesInfo.Types[rs.Results[0]]; tv.Value != nil && tv.Value.String() == "true" {
						retTrue = true
					}
				}
			}
			if !retTrue {
				continue
			}
			for _, e := range cc.List {
				if tv := pk.TypesInfo.Types[e]; tv.Value != nil {
					if v, ok := constInt64(tv); ok {
						got[v] = true
					}
				}
			}
		}
		var missing, extra []string
		for v := range derived[m] {
			if !got[v] {
				missing = append(missing, a.enum[v])
			}
		}
		for v := range got {
			if !derived[m][v] {
				extra = append(extra, a.enum[v])
			}
		}
		sort.Strings(missing)
		sort.Strings(extra)
		r.check(len(missing) == 0 && len(extra) == 0, rule, "risc.(InstructionType)."+m, fd.Pos(), "the hand-written table equals the set derived from the implementations (%d opcodes); missing %v, extra %v", len(derived[m]), missing, extra)
	}
}

func constInt64(tv types.TypeAndValue) (int64, bool) {
	if tv.Value == nil {
		return 0, false
	}
	s := tv.Value.ExactString()
	var v int64
	if _, err := fmt.Sscanf(s, "%d", &v); err != nil {
		return 0, false
	}
	return v, true
}

// ---------------------------------------------------------------------------

// R03.7 speculative stores; R03.10 panic on the flush path. (R03.9 of the first design, "a BTB hit on jalr is never verified",
// was dropped: the resolution notice redirects fetch to the resolved target, so the rule fired where behaviour is unaffected.)
func ruleSpeculativeStores(r *Run, rule string) {
	w := r.W
	for _, v := range variants(w) {
		if v.pkg == nil || !multiExec(v) {
			continue
		}
		// does an execute unit reach a cache write?
		reachesCacheWrite := false
		for _, f := range v.fields {
			if f.isUnit && f.roles["exec"] {
				for i := 0; i < f.unitT.NumMethods(); i++ {
					fd, pk := w.FuncDecl(f.unitT.Method(i))
					if fd != nil && fd.Body != nil && w.reaches(pk.TypesInfo, fd.Body, func(fn *types.Func) bool {
						sig := fn.Type().(*types.Signature)
						return fn.Name() == "Write" && sig.Recv() != nil && isCompType(sig.Recv().Type(), "LRUCache")
					}) {
						reachesCacheWrite = true
					}
				}
			}
		}
		if !reachesCacheWrite {
			continue
		}
		// gate: the control unit (reaches IsDataHazard*) holds memory writes while a conditional branch is unresolved
		gated := false
		for _, f := range v.fields {
			if !f.isUnit {
				continue
			}
			for i := 0; i < f.unitT.NumMethods(); i++ {
				fd, _ := w.FuncDecl(f.unitT.Method(i))
				if fd == nil || fd.Body == nil {
					continue
				}
				ast.Inspect(fd.Body, func(n ast.Node) bool {
					is, ok := n.(*ast.IfStmt)
					if !ok {
						return true
					}
					c := types.ExprString(is.Cond)
					if strings.Contains(c, "IsMemoryWrite()") && strings.Contains(strings.ToLower(c), "conditionalbranch") && terminates(is.Body.List) {
						gated = true
					}
					return true
				})
			}
		}
		// or: the execute unit's store path is sequence-guarded (compares a sequence id before the cache write)
		r.check(gated, rule, v.rel+":speculative-store", v.run.Pos(), "a store performed by an execute unit reaches the data cache (visible to later loads and to the final write-back) only if no older conditional branch is unresolved or behind a sequence filter; neither is present")
	}
}

func ruleFlushPathPanics(r *Run, rule string) {
	w := r.W
	for _, v := range variants(w) {
		if v.pkg == nil || !multiExec(v) {
			continue
		}
		// the pre-step closures: function literals that call a unit's flush
		for _, f := range v.pkg.Syntax {
			ast.Inspect(f, func(n ast.Node) bool {
				lit, ok := n.(*ast.FuncLit)
				if !ok {
					return true
				}
				callsFlush, panics := false, false
				ast.Inspect(lit.Body, func(m ast.Node) bool {
					if c, ok := m.(*ast.CallExpr); ok {
						if sel, ok := c.Fun.(*ast.SelectorExpr); ok && strings.EqualFold(sel.Sel.Name, "flush") {
							callsFlush = true
						}
						if id, ok := c.Fun.(*ast.Ident); ok && id.Name == "panic" {
							panics = true
						}
					}
					return true
				})
				if !callsFlush {
					return true
				}
				r.check(!panics, rule, v.rel+":pre-step:no-panic", lit.Pos(), "the execute unit's pre-step, which abandons a wrong-path instruction in whatever state it is, contains no explicit panic (a wrong-path instruction must never make the run fail)")
				return false
			})
		}
	}
}

func runC03(r *Run) {
	r.floor("R03.1", 20)
	r.floor("R03.2", 7)
	r.floor("R03.3", 40)
	r.floor("R03.4", 7)
	r.floor("R03.5", 5)
	r.floor("R03.6", 8)
	r.floor("R03.7", 7)
	r.floor("R03.8", 4)
	r.floor("R03.10", 6)
	ruleArchWriters(r, "R03.1", true)
	ruleWriteUnitFilter(r, "R03.2")
	ruleFlushComplete(r, "R03.3")
	ruleOlderWorkSurvives(r, "R03.4")
	ruleBranchResolution(r, "R03.5")
	ruleDecodeStall(r, "R03.6")
	ruleSpeculativeStores(r, "R03.7")
	ruleClassification(r, "R03.8")
	ruleFlushPathPanics(r, "R03.10")
	r.floor("R03.11", 9)
	ruleMemoryImageBounds(r, "R03.11")
	r.floor("R03.12", 9)
	ruleNeverMissesFlush(r, "R03.12")
	// the flags that hold ret and stores behind an unresolved conditional branch
	// are maintained on every dispatch path
	r.floor("R03.13", 7)
	ruleDispatchBookkeeping(r, "R03.13")
	r.floor("R03.15", 2)
	ruleDirectWritesInOrder(r, "R03.15")
	r.floor("R03.16", 5)
	ruleNestedSpeculation(r, "R03.16")
	r.floor("R03.17", 3)
	ruleNegativeAddresses(r, "R03.17")
	r.floor("R03.18", 8)
	ruleJumpResolutionRedirects(r, "R03.18")
	r.floor("R03.19", 6)
	ruleInnerFlushOverrides(r, "R03.19")
	r.floor("R03.34", 100)
	ruleWaitLoopsProgress(r, "R03.34")
	r.floor("R03.33", 20)
	ruleDispatchConserves(r, "R03.33")
	r.floor("R03.32", 6)
	ruleLimitInstalledPerUnit(r, "R03.32")
	r.floor("R03.31", 6)
	ruleFetchCleansAfterRedirect(r, "R03.31")
	r.floor("R03.30", 7)
	ruleErrorsNotSpeculative(r, "R03.30")
	r.floor("R03.29", 1)
	ruleTagMonotone(r, "R03.29")
	r.floor("R03.28", 7)
	ruleDispatchDecision(r, "R03.28")
	r.floor("R03.27", 7)
	ruleFlushResetsCompletionFlags(r, "R03.27")
	r.floor("R03.26", 20)
	ruleFlushEmptiesContainers(r, "R03.26")
	r.floor("R03.25", 15)
	ruleExitFlagCleared(r, "R03.25")
	r.floor("R03.24", 15)
	ruleFlushResetsCoroutines(r, "R03.24")
	r.floor("R03.21", 12)
	ruleEpochBumped(r, "R03.21")
	r.floor("R03.22", 7)
	ruleFlushTarget(r, "R03.22")
	r.floor("R03.23", 9)
	rulePredictionArmed(r, "R03.23")
	r.floor("R03.20", 7)
	ruleWriteBackBounds(r, "R03.20")
	// the squash restores the register state: rollback and the tag-bounded
	// rename-table lookups equal the reference model
	r.floor("R03.14", 6)
	conform(r, "R03.14", "risc", "Context", "Rollback", "risc_state", nil)
	conform(r, "R03.14", "risc", "Context", "RATRollback", "risc_state", nil)
	conform(r, "R03.14", "risc", "Context", "TransactionWriteRegister", "risc_state", nil)
	conform(r, "R03.14", "risc", "Context", "TransactionRATWrite", "risc_state", nil)
	conform(r, "R03.14", "risc", "Context", "commitRAT", "risc_state", nil)
	conform(r, "R03.14", "proc/comp", "RAT", "WriteSorted", "risc_state", nil)
	conform(r, "R03.14", "proc/comp", "RAT", "Find", "risc_state", nil)
	conform(r, "R03.14", "proc/comp", "RAT", "FindValues", "risc_state", nil)
}

// ruleMemoryImageBounds: a line fetch may be issued for any address (a
// wrong-path load is fetched before the branch resolves), so every read of the
// memory image by a variant's memory-management code must be guarded against
// running past the end of the image (out-of-range bytes read as 0).
func ruleMemoryImageBounds(r *Run, rule string) {
	w := r.W
	for _, v := range variants(w) {
		if v.pkg == nil || !v.pipelined() {
			continue
		}
		for _, f := range v.pkg.Syntax {
			for _, d := range f.Decls {
				fd, ok := d.(*ast.FuncDecl)
				if !ok || fd.Body == nil {
					continue
				}
				// only functions that read the image
				reads := false
				ast.Inspect(fd.Body, func(n ast.Node) bool {
					switch x := n.(type) {
					case *ast.IndexExpr:
						if ctxFieldWritten(v.info, x.X) == "Memory" {
							reads = true
						}
					case *ast.SliceExpr:
						if ctxFieldWritten(v.info, x.X) == "Memory" {
							reads = true
						}
					}
					return true
				})
				if !reads || !w.reachedFromRun(v, fd) {
					continue
				}
				ba := &boundsAnalyser{w: w, lenSummary: map[*types.Func][2]int{}}
				ba.analyseFunc(fd, v.pkg, declName(fd))
				for _, s := range ba.sites {
					if (s.kind != "index" && s.kind != "slice") || !strings.HasSuffix(s.target, ".Memory") || s.write {
						continue
					}
					r.check(s.upper && s.lower, rule, v.rel+"."+s.desc, s.pos, "a read of the memory image is guarded on both sides: a wrong-path load is fetched before its branch resolves and can carry any address, past the end of the image or negative (upper bound proved: %v; lower bound proved: %v)", s.upper, s.lower)
				}
			}
		}
	}
}

// reachedFromRun: is the function reachable from the variant's Run (dead helpers are not judged)?
func (w *World) reachedFromRun(v *variant, fd *ast.FuncDecl) bool {
	obj, _ := v.info.Defs[fd.Name].(*types.Func)
	if obj == nil {
		return false
	}
	// units are constructed in NewCPU and run through coroutines: search from every function of the package that Run reaches,
	// approximated by: referenced from any other function of the package
	for _, f := range v.pkg.Syntax {
		for _, d := range f.Decls {
			fd2, ok := d.(*ast.FuncDecl)
			if !ok || fd2.Body == nil || fd2 == fd {
				continue
			}
			found := false
			ast.Inspect(fd2.Body, func(n ast.Node) bool {
				if id, ok := n.(*ast.Ident); ok && v.info.Uses[id] == obj {
					found = true
				}
				return true
			})
			if found {
				return true
			}
		}
	}
	return false
}

// ruleBranchUnit: the prediction check of the branch unit equals its reference
// model (flush exactly when a checked branch resolves to an unexpected target).
func ruleBranchUnit(r *Run, rule string) {
	setup := func(in *Interp) {
		in.opaqueMethods = map[string]bool{"(*branchTargetBuffer).get": true, "(*fetchUnit).reset": true}
	}
	for _, v := range variants(r.W) {
		if v.pkg == nil || !v.pipelined() {
			continue
		}
		for _, tn := range []string{"btbBranchUnit", "simpleBranchUnit"} {
			if v.pkg.Types.Scope().Lookup(tn) == nil {
				continue
			}
			for _, m := range []string{"assert", "shouldFlushPipeline"} {
				conform(r, rule, v.rel, tn, m, "bu", setup)
			}
		}
	}
}

// ruleNeverMissesFlush: the flush decision may only answer "no flush" when the
// check is disarmed or the resolved target equals the expectation (flushing
// more often than needed costs cycles — C12 — but leaves no wrong-path trace).
func ruleNeverMissesFlush(r *Run, rule string) {
	w := r.W
	for _, v := range variants(w) {
		if v.pkg == nil || !v.pipelined() {
			continue
		}
		for _, tn := range []string{"btbBranchUnit", "simpleBranchUnit"} {
			if v.pkg.Types.Scope().Lookup(tn) == nil {
				continue
			}
			fd, pkg := w.Method(v.rel, tn, "shouldFlushPipeline")
			key := fmt.Sprintf("%s.(%s).shouldFlushPipeline:never-misses", v.rel, tn)
			if fd == nil {
				r.undecided(rule, key, token.NoPos, "the flush decision function was not found")
				continue
			}
			t, err := newInterp(w).FuncTerm(fd, pkg)
			if err != nil {
				r.undecided(rule, key, fd.Pos(), "%v", err)
				continue
			}
			t = hoistAll(t)
			good := true
			why := ""
			var walk func(t *Term, conds []condLit)
			walk = func(t *Term, conds []condLit) {
				if t.Op == "ite" {
					walk(t.Args[1], append(append([]condLit{}, conds...), condLit{t.Args[0], true}))
					walk(t.Args[2], append(append([]condLit{}, conds...), condLit{t.Args[0], false}))
					return
				}
				if t.Op != "out" || len(t.Args[0].Args) != 1 {
					return
				}
				res := t.Args[0].Args[0]
				b, isConst := res.constBool()
				if isConst && b {
					return // flush
				}
				// "no flush" (or a non-constant answer): needs a justifying condition on the path
				justified := false
				for _, c := range conds {
					// disarmed: the bool field read is false
					if c.c.Op == "fld" && strings.HasPrefix(c.c.S, "bool#") && !c.pos {
						justified = true
					}
					// resolved target equals the expectation
					if (c.c.Op == "ne" && !c.pos) || (c.c.Op == "eq" && c.pos) {
						if c.c.contains(func(x *Term) bool { return x.Op == "param" }) && c.c.contains(func(x *Term) bool { return x.Op == "fld" && strings.HasPrefix(x.S, "int32#") }) {
							justified = true
						}
					}
				}
				// the answer itself may be the comparison
				if !isConst && (res.Op == "ne") && res.contains(func(x *Term) bool { return x.Op == "param" }) {
					justified = true
				}
				if !justified {
					good = false
					why = "a path answers no-flush although the check is armed and the target was not compared with the expectation"
				}
			}
			walk(t, nil)
			r.check(good, rule, key, fd.Pos(), "the flush decision answers no-flush only when the check is disarmed or the resolved target equals the expectation %s", why)
		}
	}
}

// ruleDirectWritesInOrder (R03.15): a variant whose write unit stores results
// into the architectural register file directly (no transaction, no rename
// table) cannot undo a register write. With several execute units its control
// unit must therefore not let an instruction overtake an older conditional
// branch that is still held back or unresolved: either dispatch is in order
// (a held-back instruction stops the step) or it is gated on the
// unresolved-conditional-branch flag for every instruction, not only for ret.
func ruleDirectWritesInOrder(r *Run, rule string) {
	w := r.W
	retConst := w.Pkg("risc").Types.Scope().Lookup("Ret")
	for _, v := range variants(w) {
		if v.pkg == nil || !v.pipelined() || !multiExec(v) {
			continue
		}
		info := v.info
		// register-write style
		direct := true
		for _, f := range v.pkg.Syntax {
			ast.Inspect(f, func(n ast.Node) bool {
				if call, ok := n.(*ast.CallExpr); ok {
					if fn, ok := typeutil.Callee(info, call).(*types.Func); ok && (fn.Name() == "TransactionWriteRegister" || fn.Name() == "TransactionRATWrite") {
						direct = false
					}
				}
				return true
			})
		}
		if !direct {
			continue
		}
		for _, f := range v.fields {
			if !f.isUnit {
				continue
			}
			for i := 0; i < f.unitT.NumMethods(); i++ {
				fd, _ := w.FuncDecl(f.unitT.Method(i))
				if fd == nil || fd.Body == nil || fd.Type.Results == nil {
					continue
				}
				sig := f.unitT.Method(i).Type().(*types.Signature)
				if sig.Results().Len() != 2 || typeName(sig.Results().At(0).Type()) != "bool" || typeName(sig.Results().At(1).Type()) != "bool" {
					continue
				}
				if !w.reaches(info, fd.Body, func(fn *types.Func) bool { return fn.Name() == "IsDataHazard3" }) {
					continue
				}
				// out of order: some path reports (not pushed, do not stop)
				outOfOrder := false
				ast.Inspect(fd.Body, func(n ast.Node) bool {
					rs, ok := n.(*ast.ReturnStmt)
					if !ok || len(rs.Results) != 2 {
						return true
					}
					a, b := info.Types[rs.Results[0]], info.Types[rs.Results[1]]
					if a.Value != nil && b.Value != nil && a.Value.String() == "false" && b.Value.String() == "false" {
						outOfOrder = true
					}
					return true
				})
				// gate: if <flag> { return false, true } with a flag raised under IsConditionalBranch, not tied to ret
				gated := false
				ast.Inspect(fd.Body, func(n ast.Node) bool {
					is, ok := n.(*ast.IfStmt)
					if !ok || !terminates(is.Body.List) {
						return true
					}
					usesRet, usesFlag := false, false
					ast.Inspect(is.Cond, func(m ast.Node) bool {
						switch x := m.(type) {
						case *ast.Ident:
							if info.Uses[x] == retConst {
								usesRet = true
							}
						case *ast.SelectorExpr:
							if s := info.Selections[x]; s != nil && s.Kind() == types.FieldVal && typeName(s.Obj().Type()) == "bool" && raisedUnderConditionalBranch(w, v, s.Obj()) {
								usesFlag = true
							}
						}
						return true
					})
					if usesFlag && !usesRet {
						gated = true
					}
					return true
				})
				// with forwarding a dispatched branch can wait in its execute unit for an operand: in-order dispatch
				// alone does not keep younger instructions behind it
				forwarding := hasDeclMethod(f.unitT, "shouldUseForwarding") != nil
				if forwarding {
					outOfOrder = true
				}
				r.check(!outOfOrder || gated, rule, fmt.Sprintf("%s.(%s).%s:in-order-or-gated", v.rel, f.unitT.Obj().Name(), fd.Name.Name), fd.Pos(), "results are written to the register file directly (nothing can be undone): no instruction may overtake an unresolved conditional branch — dispatch is in order and a dispatched branch never waits for a forwarded operand (%v), or every instruction is held while a conditional branch is unresolved (%v)", !outOfOrder, gated)
			}
		}
	}
}

// raisedUnderConditionalBranch: the bool field is set to true in the variant under a
// test that calls IsConditionalBranch.
func raisedUnderConditionalBranch(w *World, v *variant, field types.Object) bool {
	found := false
	for _, f := range v.pkg.Syntax {
		ast.Inspect(f, func(n ast.Node) bool {
			is, ok := n.(*ast.IfStmt)
			if !ok {
				return true
			}
			direct := false
			ast.Inspect(is.Cond, func(m ast.Node) bool {
				if c, ok := m.(*ast.CallExpr); ok {
					if fn, ok := typeutil.Callee(v.info, c).(*types.Func); ok && fn.Name() == "IsConditionalBranch" {
						direct = true
					}
				}
				return true
			})
			if !direct {
				return true
			}
			for _, st := range is.Body.List {
				if as, ok := st.(*ast.AssignStmt); ok && len(as.Lhs) == 1 && len(as.Rhs) == 1 {
					if sel, ok := ast.Unparen(as.Lhs[0]).(*ast.SelectorExpr); ok {
						if s := v.info.Selections[sel]; s != nil && s.Obj() == field {
							if tv := v.info.Types[as.Rhs[0]]; tv.Value != nil && tv.Value.String() == "true" {
								found = true
							}
						}
					}
				}
			}
			return true
		})
	}
	return found
}

// ruleNestedSpeculation (R03.16): when a conditional branch resolves not taken the
// speculative register state is committed wholesale (Commit / RATCommit take no
// bound). That is only right when no OLDER conditional branch is still
// unresolved: otherwise the resolving branch may itself be in the shadow of the
// older one and its commit folds wrong-path writes into the committed state that
// the later rollback cannot undo. Necessary: either the control unit holds a
// conditional branch while another one is unresolved (a guard on the
// unresolved-branch flag for conditional branches, not only for ret), or the
// commit performed at resolution is bounded by the resolving branch's sequence id.
func ruleNestedSpeculation(r *Run, rule string) {
	w := r.W
	retConst := w.Pkg("risc").Types.Scope().Lookup("Ret")
	for _, v := range variants(w) {
		if v.pkg == nil || !v.pipelined() || !multiExec(v) {
			continue
		}
		info := v.info
		// does branch resolution commit without a bound?
		unbounded := false
		var pos token.Pos
		for _, f := range v.pkg.Syntax {
			ast.Inspect(f, func(n ast.Node) bool {
				call, ok := n.(*ast.CallExpr)
				if !ok {
					return true
				}
				fn, ok := typeutil.Callee(info, call).(*types.Func)
				if !ok || (fn.Name() != "Commit" && fn.Name() != "RATCommit") {
					return true
				}
				if sig := fn.Type().(*types.Signature); sig.Recv() == nil || typeName(sig.Recv().Type()) != "*Context" {
					return true
				}
				// inside a function reachable from the not-taken notification (not Run's epilogue)
				if od := enclosingDecl(v.pkg, call.Pos()); od != nil && od != v.run && len(call.Args) == 0 {
					unbounded = true
					if pos == 0 {
						pos = call.Pos()
					}
				}
				return true
			})
		}
		if !unbounded {
			continue
		}
		gated := false
		for _, f := range v.fields {
			if !f.isUnit {
				continue
			}
			for i := 0; i < f.unitT.NumMethods(); i++ {
				fd, _ := w.FuncDecl(f.unitT.Method(i))
				if fd == nil || fd.Body == nil {
					continue
				}
				if !w.reaches(info, fd.Body, func(fn *types.Func) bool { return fn.Name() == "IsDataHazard3" }) {
					continue
				}
				ast.Inspect(fd.Body, func(n ast.Node) bool {
					is, ok := n.(*ast.IfStmt)
					if !ok || !terminates(is.Body.List) {
						return true
					}
					usesRet, usesFlag, testsCond := false, false, false
					ast.Inspect(is.Cond, func(m ast.Node) bool {
						switch x := m.(type) {
						case *ast.Ident:
							if info.Uses[x] == retConst {
								usesRet = true
							}
						case *ast.SelectorExpr:
							if s := info.Selections[x]; s != nil && s.Kind() == types.FieldVal && typeName(s.Obj().Type()) == "bool" && raisedUnderConditionalBranch(w, v, s.Obj()) {
								usesFlag = true
							}
						case *ast.CallExpr:
							if fn, ok := typeutil.Callee(info, x).(*types.Func); ok && (fn.Name() == "IsConditionalBranch" || fn.Name() == "IsBranch") {
								testsCond = true
							}
						}
						return true
					})
					if usesFlag && !usesRet && (testsCond || true) {
						gated = true
					}
					return true
				})
			}
		}
		r.check(gated, rule, v.rel+":nested-conditional-branches", pos, "a conditional branch that resolves not taken commits the whole speculative register state; the control unit must then hold a conditional branch while an older one is unresolved, or the commit must be bounded by the resolving branch's sequence id (held: %v)", gated)
	}
}

func enclosingDecl(p *packages.Package, pos token.Pos) *ast.FuncDecl {
	for _, f := range p.Syntax {
		for _, d := range f.Decls {
			if fd, ok := d.(*ast.FuncDecl); ok && fd.Pos() <= pos && pos <= fd.End() {
				return fd
			}
		}
	}
	return nil
}

// ruleNegativeAddresses (R03.17): a wrong-path load is issued before the branch
// resolves and can carry ANY address, negative ones included. The coherent data
// path selects the line with  a - a%C , Go's truncating remainder, which maps a
// negative address to a line that does not contain it (-5 -> line 0); the byte is
// then looked up in that line and the run panics. Necessary: the path tests the
// sign of the address somewhere before it selects a line (reject, squash or use a
// floor alignment).
func ruleNegativeAddresses(r *Run, rule string) {
	w := r.W
	for _, v := range variants(w) {
		if v.pkg == nil || !v.pipelined() || !usesLineLocks(w, v) {
			continue
		}
		info := v.info
		pe := newProvEngine(w, v.pkg)
		aligns := 0
		signTests := 0
		var pos token.Pos
		for _, f := range v.pkg.Syntax {
			ast.Inspect(f, func(n ast.Node) bool {
				switch x := n.(type) {
				case *ast.FuncDecl:
					if fn, ok := info.Defs[x.Name].(*types.Func); ok {
						if _, ok := pe.alignmentFunc(fn); ok {
							aligns++
							if pos == 0 {
								pos = x.Pos()
							}
						} else if _, ok := pe.alignParam(fn); ok {
							aligns++
							if pos == 0 {
								pos = x.Pos()
							}
						}
					}
				case *ast.BinaryExpr:
					// a sign test of an address-typed value
					if x.Op == token.LSS || x.Op == token.GEQ || x.Op == token.GTR || x.Op == token.LEQ {
						for _, pair := range [][2]ast.Expr{{x.X, x.Y}, {x.Y, x.X}} {
							if c, ok := constInt64(info.Types[pair[1]]); ok && c == 0 {
								tn := typeName(info.TypeOf(pair[0]))
								if tn == "int32" || tn == "AlignedAddress" {
									if _, isConst := constInt64(info.Types[pair[0]]); !isConst {
										// counters are int; addresses int32/AlignedAddress
										signTests++
									}
								}
							}
						}
					}
				}
				return true
			})
		}
		if aligns == 0 {
			continue
		}
		r.check(signTests > 0, rule, v.rel+":negative-address", pos, "the data path selects lines with a truncating remainder (%d alignment functions); some site must test the sign of an address before a line is selected, because a wrong-path load can carry a negative address (sign tests found: %d)", aligns, signTests)
	}
}

// ruleJumpResolutionRedirects (R03.18 / R07.16): a jump predicted through the branch
// target buffer is never verified (a hit disarms the check), so the notification
// sent when the jump's target is resolved is the only correction: it must record
// the target and redirect the fetch unit UNCONDITIONALLY. A `jalr` whose target
// changes (a subroutine called from two sites) otherwise keeps returning to the
// first call site for ever.
func ruleJumpResolutionRedirects(r *Run, rule string) {
	w := r.W
	for _, v := range variants(w) {
		if v.pkg == nil || !v.pipelined() {
			continue
		}
		info := v.info
		for _, f := range v.pkg.Syntax {
			for _, d := range f.Decls {
				fd, ok := d.(*ast.FuncDecl)
				if !ok || fd.Body == nil || fd.Recv == nil || fd.Type.Params == nil {
					continue
				}
				// a method with two int32 parameters (pc, resolved target)
				var params []types.Object
				for _, fl := range fd.Type.Params.List {
					for _, nm := range fl.Names {
						if typeName(info.TypeOf(fl.Type)) == "int32" {
							params = append(params, info.Defs[nm])
						}
					}
				}
				if len(params) != 2 {
					continue
				}
				// calls in the body: reset(<target>, …) on a fetch unit and add(<pc>, <target>) on the buffer
				type site struct {
					top bool
					pos token.Pos
				}
				var resets, adds []site
				var visit func(n ast.Node, top bool)
				visit = func(n ast.Node, top bool) {
					ast.Inspect(n, func(m ast.Node) bool {
						if m == nil || m == n {
							return true
						}
						switch x := m.(type) {
						case *ast.IfStmt, *ast.ForStmt, *ast.RangeStmt, *ast.SwitchStmt, *ast.FuncLit:
							visit(x, false)
							return false
						case *ast.CallExpr:
							sel, ok := x.Fun.(*ast.SelectorExpr)
							if !ok || len(x.Args) == 0 {
								return true
							}
							usesTarget := false
							for _, a := range x.Args {
								if id, ok := ast.Unparen(a).(*ast.Ident); ok && info.Uses[id] == params[1] {
									usesTarget = true
								}
							}
							if !usesTarget {
								return true
							}
							switch sel.Sel.Name {
							case "reset":
								resets = append(resets, site{top, x.Pos()})
							case "add":
								adds = append(adds, site{top, x.Pos()})
							}
						}
						return true
					})
				}
				visit(fd.Body, true)
				// the notification of a resolved jump: a method of a branch unit with a target buffer (it has
				// an assert method and a buffer field) whose name or body identifies it
				recvT := namedOf(info.TypeOf(fd.Recv.List[0].Type))
				isNotify := recvT != nil && hasDeclMethod(recvT, "assert") != nil && strings.Contains(fd.Name.Name, "JumpAddressResolved")
				if !isNotify && (len(resets) == 0 || len(adds) == 0) {
					continue
				}
				if isNotify && (len(resets) == 0 || len(adds) == 0) {
					// simple branch units (no target buffer) have nothing to record
					hasBuffer := false
					if st := structOf(recvT); st != nil {
						for i := 0; i < st.NumFields(); i++ {
							if strings.Contains(strings.ToLower(typeName(st.Field(i).Type())), "branchtargetbuffer") {
								hasBuffer = true
							}
						}
					}
					if !hasBuffer {
						continue
					}
					r.bad(rule, fmt.Sprintf("%s.%s:unconditional-redirect", v.rel, declName(fd)), fd.Pos(), "when a jump's target is resolved the branch target buffer is updated (%d) and the fetch unit redirected to the resolved target (%d)", len(adds), len(resets))
					continue
				}
				good := true
				for _, s := range append(resets, adds...) {
					if !s.top {
						good = false
					}
				}
				r.check(good, rule, fmt.Sprintf("%s.%s:unconditional-redirect", v.rel, declName(fd)), fd.Pos(), "when a jump's target is resolved the branch target buffer is updated and the fetch unit redirected to the resolved target unconditionally (a buffer hit is never verified elsewhere)")
				// and the execute stage reports every resolved jump: the notification is called with
				// the executed instruction's NextPc as the target
				self, _ := info.Defs[fd.Name].(*types.Func)
				called := false
				for _, f2 := range v.pkg.Syntax {
					ast.Inspect(f2, func(m ast.Node) bool {
						call, ok := m.(*ast.CallExpr)
						if !ok || len(call.Args) != 2 {
							return true
						}
						if cf, ok := typeutil.Callee(info, call).(*types.Func); !ok || cf != self {
							return true
						}
						if sel, ok := ast.Unparen(call.Args[1]).(*ast.SelectorExpr); ok {
							if s2 := info.Selections[sel]; s2 != nil && s2.Kind() == types.FieldVal && s2.Obj().Name() == "NextPc" {
								called = true
							}
						}
						return true
					})
				}
				// … and the notification ends the decode stall: it reaches a method of a decoding unit that lowers a bool field
				ends := w.reaches(info, fd.Body, func(fn *types.Func) bool {
					fd3, pk3 := w.FuncDecl(fn)
					if fd3 == nil || fd3.Body == nil || fd3.Recv == nil {
						return false
					}
					rt := recvNamed(pk3.TypesInfo, fd3)
					if rt == nil {
						return false
					}
					decodes := false
					for i := 0; i < rt.NumMethods(); i++ {
						if mfd, _ := w.FuncDecl(rt.Method(i)); mfd != nil && mfd.Body != nil {
							ast.Inspect(mfd.Body, func(k ast.Node) bool {
								if ix, ok := k.(*ast.IndexExpr); ok {
									if sel, ok := ast.Unparen(ix.X).(*ast.SelectorExpr); ok && sel.Sel.Name == "Instructions" {
										decodes = true
									}
								}
								return true
							})
						}
					}
					if !decodes {
						return false
					}
					lowers := false
					for _, st := range fd3.Body.List {
						if as, ok := st.(*ast.AssignStmt); ok && len(as.Lhs) == 1 && len(as.Rhs) == 1 {
							if tv := pk3.TypesInfo.Types[as.Rhs[0]]; tv.Value != nil && tv.Value.String() == "false" {
								lowers = true
							}
						}
					}
					return lowers
				})
				hasStall := false
				for _, fr := range v.fields {
					if fr.isUnit && fr.unitT != nil {
						if st := structOf(fr.unitT); st != nil {
							for i := 0; i < st.NumFields(); i++ {
								if typeName(st.Field(i).Type()) == "bool" && strings.Contains(strings.ToLower(st.Field(i).Name()), "branchresolution") {
									hasStall = true
								}
							}
						}
					}
				}
				if hasStall {
					r.check(ends, rule, fmt.Sprintf("%s.%s:ends-decode-stall", v.rel, declName(fd)), fd.Pos(), "the jump-resolution notification ends the decode stall (it reaches the decode unit's method that lowers the stall flag)")
				}
				r.check(called, rule, fmt.Sprintf("%s.%s:reported", v.rel, declName(fd)), fd.Pos(), "the execute stage reports a resolved jump (with the executed instruction's next pc as the target): the decode stage stalls after a jump until it is told")
			}
		}
	}
}

// ruleInnerFlushOverrides (R03.19): while the older in-flight instructions are
// finished before a flush, one of them (older than the branch that asked for the
// flush) may itself resolve as mispredicted. Its flush replaces the pending one:
// restart pc and sequence limit are REPLACED by the inner proposal, not merged
// with the pending values (a `max` keeps the target of the younger, wrong-path
// instruction).
func ruleInnerFlushOverrides(r *Run, rule string) {
	w := r.W
	for _, v := range variants(w) {
		if v.pkg == nil || !v.pipelined() {
			continue
		}
		info := v.info
		_, flush := v.retAndFlushBranches()
		if flush == nil {
			continue
		}
		n := 0
		ast.Inspect(flush.Body, func(m ast.Node) bool {
			is, ok := m.(*ast.IfStmt)
			if !ok {
				return true
			}
			// condition: a bool field of a unit response (resp.flush)
			sel, ok := ast.Unparen(is.Cond).(*ast.SelectorExpr)
			if !ok {
				return true
			}
			s := info.Selections[sel]
			if s == nil || s.Kind() != types.FieldVal || typeName(s.Obj().Type()) != "bool" {
				return true
			}
			rid, ok := ast.Unparen(sel.X).(*ast.Ident)
			if !ok {
				return true
			}
			resp := info.Uses[rid]
			n++
			var merged []string
			for _, st := range is.Body.List {
				as, ok := st.(*ast.AssignStmt)
				if !ok {
					continue
				}
				for _, rhs := range as.Rhs {
					// accepted: a field of the same response
					if s2, ok := ast.Unparen(rhs).(*ast.SelectorExpr); ok {
						if id2, ok := ast.Unparen(s2.X).(*ast.Ident); ok && info.Uses[id2] == resp {
							continue
						}
					}
					merged = append(merged, types.ExprString(rhs))
				}
			}
			r.check(len(merged) == 0, rule, fmt.Sprintf("%s.(CPU).Run:inner-flush#%d", v.rel, n), is.Pos(), "an inner flush proposed while the older instructions are finished REPLACES the pending restart pc and sequence limit with its own (it comes from an older instruction); merged values: %v", merged)
			// completeness: every local of the main loop that the flush branch READS (the sequence limit
			// of the write units, the restart pc) and that the execute phase sets from a unit response
			// is replaced by the inner flush
			assigned := map[types.Object]bool{}
			for _, st := range is.Body.List {
				if as, ok := st.(*ast.AssignStmt); ok {
					for _, l := range as.Lhs {
						if id, ok := ast.Unparen(l).(*ast.Ident); ok {
							assigned[info.Uses[id]] = true
						}
					}
				}
			}
			var missing []string
			fsv := flushStateVars(v, flush)
			if len(fsv) < 2 {
				r.undecided(rule, fmt.Sprintf("%s.(CPU).Run:inner-flush#%d:complete", v.rel, n), is.Pos(), "the flush state (restart pc and sequence limit set from unit responses and read by the flush branch) was not recognised: %d variables", len(fsv))
				return true
			}
			for o := range fsv {
				if !assigned[o] {
					missing = append(missing, o.Name()+" "+typeName(o.Type()))
				}
			}
			sort.Strings(missing)
			// the flush decision itself comes from the units: the variable that guards the flush branch
			// is set from a unit response outside the branch
			if cid, ok := ast.Unparen(flush.Cond).(*ast.Ident); ok && n == 1 {
				cv, _ := info.Uses[cid].(*types.Var)
				r.check(cv != nil && flushDecisionFromResponse(v, flush, cv), rule, fmt.Sprintf("%s.(CPU).Run:flush-decision", v.rel), flush.Pos(), "the flag that guards the flush branch accumulates the flush request of every execute-unit response")
			}
			r.check(len(missing) == 0, rule, fmt.Sprintf("%s.(CPU).Run:inner-flush#%d:complete", v.rel, n), is.Pos(), "an inner flush replaces ALL of the flush state the drain and the restart read (restart pc, sequence limit); left at the younger flush's value: %v", missing)
			return true
		})
	}
}

// flushDecisionFromResponse: cv is assigned, outside the flush branch, from an expression that
// mentions a bool field of a unit response.
func flushDecisionFromResponse(v *variant, flush *ast.IfStmt, cv *types.Var) bool {
	info := v.info
	run := v.mainLoop()
	if run == nil {
		return false
	}
	found := false
	ast.Inspect(run, func(m ast.Node) bool {
		as, ok := m.(*ast.AssignStmt)
		if !ok || (flush.Body.Pos() <= as.Pos() && as.Pos() < flush.Body.End()) || len(as.Lhs) != len(as.Rhs) {
			return true
		}
		for i, l := range as.Lhs {
			id, ok := ast.Unparen(l).(*ast.Ident)
			if !ok || info.Uses[id] != cv {
				continue
			}
			ast.Inspect(as.Rhs[i], func(x ast.Node) bool {
				if sel, ok := x.(*ast.SelectorExpr); ok {
					if s := info.Selections[sel]; s != nil && s.Kind() == types.FieldVal && typeName(s.Obj().Type()) == "bool" {
						if n := namedOf(s.Recv()); n != nil && strings.HasSuffix(strings.ToLower(n.Obj().Name()), "resp") {
							found = true
						}
					}
				}
				return true
			})
		}
		return true
	})
	return found
}

// flushStateVars: the locals of the main loop that (a) are read inside the flush branch and
// (b) are assigned outside it from a field of a unit response.
func flushStateVars(v *variant, flush *ast.IfStmt) map[types.Object]bool {
	info := v.info
	out := map[types.Object]bool{}
	run := v.mainLoop()
	if run == nil {
		return out
	}
	inFlush := func(p token.Pos) bool { return flush.Body.Pos() <= p && p < flush.Body.End() }
	fromResp := map[types.Object]bool{}
	ast.Inspect(run, func(m ast.Node) bool {
		as, ok := m.(*ast.AssignStmt)
		if !ok || inFlush(as.Pos()) || len(as.Lhs) != len(as.Rhs) {
			return true
		}
		for i, l := range as.Lhs {
			id, ok := ast.Unparen(l).(*ast.Ident)
			if !ok {
				continue
			}
			o, _ := info.Uses[id].(*types.Var)
			if o == nil {
				continue
			}
			isResp := false
			ast.Inspect(as.Rhs[i], func(x ast.Node) bool {
				if sel, ok := x.(*ast.SelectorExpr); ok {
					if s := info.Selections[sel]; s != nil && s.Kind() == types.FieldVal {
						if n := namedOf(s.Recv()); n != nil && strings.HasSuffix(strings.ToLower(n.Obj().Name()), "resp") {
							isResp = true
						}
					}
				}
				return true
			})
			if isResp {
				fromResp[o] = true
			}
		}
		return true
	})
	// read in the flush branch: appears other than as the left side of an assignment
	lhs := map[*ast.Ident]bool{}
	ast.Inspect(flush.Body, func(m ast.Node) bool {
		if as, ok := m.(*ast.AssignStmt); ok {
			for _, l := range as.Lhs {
				if id, ok := ast.Unparen(l).(*ast.Ident); ok {
					lhs[id] = true
				}
			}
		}
		return true
	})
	ast.Inspect(flush.Body, func(m ast.Node) bool {
		if id, ok := m.(*ast.Ident); ok && !lhs[id] {
			if o, ok := info.Uses[id].(*types.Var); ok && fromResp[o] {
				out[o] = true
			}
		}
		return true
	})
	return out
}

// ruleWriteBackBounds (R03.20): a line can lie partly below address 0 (a squashed
// wrong-path load with a small negative address installs it). Its write-back must
// SKIP the bytes below 0 and may stop only past the end of the image; stopping at
// the first negative byte drops the valid rest of the line (a later correct-path
// store that hit the line is lost).
func ruleWriteBackBounds(r *Run, rule string) {
	w := r.W
	for _, v := range variants(w) {
		if v.pkg == nil || !v.pipelined() {
			continue
		}
		info := v.info
		for _, f := range v.pkg.Syntax {
			for _, d := range f.Decls {
				fd, ok := d.(*ast.FuncDecl)
				if !ok || fd.Body == nil {
					continue
				}
				// a loop that stores to the memory image
				n := 0
				ast.Inspect(fd.Body, func(m ast.Node) bool {
					var body *ast.BlockStmt
					switch x := m.(type) {
					case *ast.RangeStmt:
						body = x.Body
					case *ast.ForStmt:
						body = x.Body
					default:
						return true
					}
					stores := false
					ast.Inspect(body, func(k ast.Node) bool {
						if as, ok := k.(*ast.AssignStmt); ok {
							for _, l := range as.Lhs {
								if ix, ok := ast.Unparen(l).(*ast.IndexExpr); ok && ctxFieldWritten(info, ix.X) == "Memory" {
									stores = true
								}
							}
						}
						return true
					})
					if !stores {
						return true
					}
					n++
					// guards of the loop body that test a sign
					skipsNegative, stopsOnNegative := false, false
					for _, st := range body.List {
						is, ok := st.(*ast.IfStmt)
						if !ok || len(is.Body.List) == 0 {
							continue
						}
						signTest := false
						ast.Inspect(is.Cond, func(k ast.Node) bool {
							if b, ok := k.(*ast.BinaryExpr); ok && b.Op == token.LSS {
								if c, ok := constInt64(info.Types[b.Y]); ok && c == 0 {
									signTest = true
								}
							}
							return true
						})
						if !signTest {
							continue
						}
						switch x := is.Body.List[len(is.Body.List)-1].(type) {
						case *ast.BranchStmt:
							if x.Tok == token.CONTINUE {
								skipsNegative = true
							} else {
								stopsOnNegative = true
							}
						case *ast.ReturnStmt:
							stopsOnNegative = true
						}
					}
					r.check(skipsNegative && !stopsOnNegative, rule, fmt.Sprintf("%s.%s:write-back-loop#%d", v.rel, declName(fd), n), body.Pos(), "the write-back of a line skips the bytes below address 0 (continue: %v) and does not stop at them (stop: %v)", skipsNegative, stopsOnNegative)
					// the upper side: the loop is left (or the byte skipped) as soon as the byte's address is NOT BELOW the
					// length of the image: `a >= len(image)` / `len(image) <= a` (strict forms store at index len)
					upperOK, upperSeen := false, false
					for _, st := range body.List {
						is, ok := st.(*ast.IfStmt)
						if !ok || !terminatesOrContinues(is.Body.List) {
							continue
						}
						for _, c := range conjunctsOrDisjuncts(is.Cond) {
							b, ok := c.(*ast.BinaryExpr)
							if !ok {
								continue
							}
							isLen := func(e ast.Expr) bool {
								call, ok := ast.Unparen(e).(*ast.CallExpr)
								if !ok || len(call.Args) != 1 {
									return false
								}
								id, ok := call.Fun.(*ast.Ident)
								return ok && id.Name == "len" && ctxFieldWritten(info, call.Args[0]) == "Memory"
							}
							if isLen(b.Y) {
								upperSeen = true
								if b.Op == token.GEQ {
									upperOK = true
								}
							}
							if isLen(b.X) {
								upperSeen = true
								if b.Op == token.LEQ {
									upperOK = true
								}
							}
						}
					}
					r.check(upperSeen && upperOK, rule, fmt.Sprintf("%s.%s:write-back-loop#%d:upper", v.rel, declName(fd), n), body.Pos(), "the write-back of a line leaves (or skips) at the first byte whose address is not below the length of the image (test seen: %v, non-strict: %v)", upperSeen, upperOK)
					return true
				})
			}
		}
	}
}

func terminatesOrContinues(list []ast.Stmt) bool {
	if terminates(list) {
		return true
	}
	if len(list) > 0 {
		if b, ok := list[len(list)-1].(*ast.BranchStmt); ok && (b.Tok == token.CONTINUE || b.Tok == token.BREAK) {
			return true
		}
	}
	return false
}

// conjunctsOrDisjuncts splits a condition on && and || (through parentheses).
func conjunctsOrDisjuncts(e ast.Expr) []ast.Expr {
	e = ast.Unparen(e)
	if b, ok := e.(*ast.BinaryExpr); ok && (b.Op == token.LAND || b.Op == token.LOR) {
		return append(conjunctsOrDisjuncts(b.X), conjunctsOrDisjuncts(b.Y)...)
	}
	return []ast.Expr{e}
}
