package main

// C04 — register dependences are honoured: RAW, WAW and WAR give program-order values.

import (
	"fmt"
	"go/ast"
	"go/token"
	"go/types"
	"sort"
	"strings"

	"golang.org/x/tools/go/types/typeutil"
)

func init() {
	register(&propSpec{
		ID:          "C04",
		Level:       "other",
		Run:         runC04,
		Explanation: "Decides that the mechanisms of the hazard discipline are wired as it requires, on every variant: R04.1 the hazard classifiers equal the reference (RAW = reads∩pending writes, WAW = writes∩pending writes, WAR = writes∩pending reads, zero register skipped); R04.2 the control unit's dispatch predicates equal the reference (conflict with held-back instructions; forwarding only for exactly one RAW hazard with a producer dispatched in the previous cycle; renaming only for exactly one non-RAW hazard) and every dispatch is guarded by 'no hazard', the forwarding predicate or the renaming predicate; R04.3 the scoreboard is raised at dispatch and released after the architectural write, in the same block; R04.4 forwarding wiring (one channel of capacity 1 shared by producer and consumer, the forwarded register is the hazard's, the producer sends its result exactly when it has a forwarder, the consumer receives before it runs); R04.5 register read precedence; R04.6 declared read/write sets are exact; R04.7 the scoreboard touches only the scoreboard; R04.8 where renaming can put two writers of a register in flight, the forwarding predicate equals the renaming reference (forward only from the single writer dispatched in the previous cycle when no writer was dispatched in the current cycle); R04.14 a variant that renames registers on write-after-read bounds every register read by the reader's own sequence tag; R04.13 Forward(f) of every instruction stores f in the instruction itself (pointer receiver, the field every register read consults); R04.12 write-after-write under out-of-order completion: the uncommitted writes of a register are kept ordered by sequence id, a value is committed only over an older one, and a read prefers a committed younger value (reference model); R04.9 all register-reading calls of one variant pass the same sequence tag; R04.11 every path through the control unit's step rotates the previous-cycle set the forwarding predicate relies on; R04.10 wiring a forward writes only the producer's Forwarder, so an instruction that is the consumer of one forward and the producer of the next keeps the register it is waiting for. Does not decide that the discipline is sufficient under every dispatch interleaving (a schedule/value question). R04.15 the control unit neither loses nor duplicates an instruction and appends every held-back instruction to the list the hazard-with-held-back predicate consults; R04.16 the containers of in-flight instructions (pending queue, current/previous dispatch windows, held-back list) are emptied by the flush or re-created by every step. R04.17 the operand handed to a forwarded instruction is the value received on the forwarding channel, for the register recorded at dispatch. R04.18 the control unit's dispatch decision equals its reference model as a decision procedure over the (uninterpreted) answers of the predicates it consults: outcome, channel wiring and order of consultations agree on every combination of answers, which fixes the polarity of every guard. R04.19 the program-order tag given at decode is strictly increasing in decode order (the rename table, the write-unit filter and the rollbacks order by it). R04.20 MVP-4/5: the execute unit leaves the step while a register the instruction reads has a pending write (positive test, before the addresses are computed and the instruction runs). R04.21 the scoreboard entries raised at dispatch are released for every kind of execution the write unit accepts (register result, store, nothing to write) and for a store the execute unit performs in place. R04.22 the write unit's sequence filter is strict: the result of the instruction that caused the flush is written (its consumers on the correct path read it). R04.23 the folds of the rename table into the committed table (one value per register) at branch resolution take older in-flight readers into account (known: they do not). R04.24 the function that dispatches an instruction answers true after it did and false when it left before (a wrong answer dispatches the instruction twice or loses it).",
		Assumptions: []string{"dispatch interleavings beyond the structural rules are not explored"},
		Trusted:     []string{"go/types", "term engine", "reference models spec/risc_state.go.txt, spec/cu.go.txt"},
	})
}

// ruleDeclaredSets = R02.2 under another property.
func ruleDeclaredSets(r *Run, rule string) {
	a := analyseISA(r.W)
	sb := newSpecBuilder(a)
	if sb == nil {
		r.undecided(rule, "risc.Execution", token.NoPos, "struct risc.Execution not found")
		return
	}
	for _, op := range a.ops {
		sp := sb.spec(op.mnemonic)
		if sp == nil || op.pcase == nil {
			r.undecided(rule, "risc.(*"+op.typeName+")", op.pos["Run"], "no operand row / parser case for %q", op.mnemonic)
			continue
		}
		var used []*Term
		for _, m := range []string{"Run", "MemoryRead", "MemoryWrite"} {
			readsOf(op.terms[m], &used)
		}
		for _, m := range []string{"ReadRegisters", "WriteRegisters"} {
			c := "risc.(*" + op.typeName + ")." + m
			if e, bad := op.errs[m]; bad {
				r.undecided(rule, c, op.pos[m], "%s not analysable: %s", m, e)
				continue
			}
			decl, ok := declaredSet(op.terms[m])
			if !ok {
				r.undecided(rule, c, op.pos[m], "%s does not return a literal list", m)
				continue
			}
			want := sp.reads
			if m == "WriteRegisters" {
				want = sp.writes
			}
			good := termSet(decl) == termSet(want)
			if m == "ReadRegisters" && good {
				good = termSet(used) == termSet(decl)
			}
			r.check(good, rule, c, op.pos[m], "%s: the scoreboard sees exactly the registers the instruction reads/writes: declared {%s}, RISC-V row {%s}, registerRead operands {%s}", op.mnemonic, termSet(decl), termSet(want), termSet(used))
		}
	}
}

func runC04(r *Run) {
	w := r.W
	r.floor("R04.1", 4)
	r.floor("R04.2", 22)
	r.floor("R04.10", 6)
	r.floor("R04.11", 6)
	r.floor("R04.3", 9)
	r.floor("R04.4", 12)
	r.floor("R04.5", 1)
	r.floor("R04.6", 90)
	r.floor("R04.7", 5)
	r.floor("R04.8", 4)
	r.floor("R04.9", 7)
	for _, m := range []string{"IsDataHazard3", "IsWriteDataHazard", "IsDataHazard2", "IsDataHazard"} {
		conform(r, "R04.1", "risc", "Context", m, "risc_state", nil)
	}
	for _, m := range []string{"AddPendingRegisters", "DeletePendingRegisters", "AddPendingWriteRegisters", "DeletePendingWriteRegisters", "Flush"} {
		conform(r, "R04.7", "risc", "Context", m, "risc_state", nil)
	}
	conform(r, "R04.5", "risc", "", "registerRead", "risc_state", nil)
	// the flushing instruction's own result is written (a first-time jal's link register is read by the code it jumps to)
	r.floor("R04.24", 6)
	ruleDispatchTruthful(r, "R04.24")
	r.floor("R04.23", 2)
	ruleCommitRespectsOlderReaders(r, "R04.23")
	r.floor("R04.22", 7)
	ruleWriteUnitFilter(r, "R04.22")
	r.floor("R04.21", 8)
	ruleEveryExecutionReleased(r, "R04.21")
	r.floor("R04.20", 2)
	ruleInOrderStall(r, "R04.20")
	r.floor("R04.19", 1)
	ruleTagMonotone(r, "R04.19")
	r.floor("R04.18", 7)
	ruleDispatchDecision(r, "R04.18")
	r.floor("R04.17", 6)
	ruleForwardedValueDelivered(r, "R04.17")
	r.floor("R04.15", 20)
	ruleDispatchConserves(r, "R04.15")
	r.floor("R04.16", 20)
	ruleFlushEmptiesContainers(r, "R04.16")
	r.floor("R04.14", 4)
	r.floor("R04.13", 45)
	ruleForwardSetters(r, "R04.13")
	// R04.12: with out-of-order completion two writes to one register leave the YOUNGER one
	r.floor("R04.12", 9)
	conform(r, "R04.12", "risc", "Context", "TransactionRATWrite", "risc_state", nil)
	conform(r, "R04.12", "risc", "Context", "commitRAT", "risc_state", nil)
	conform(r, "R04.12", "risc", "Context", "isSuperseded", "risc_state", nil)
	conform(r, "R04.12", "proc/comp", "RAT", "WriteSorted", "risc_state", nil)
	// the last writer of a register across a misprediction (transaction table of MVP-6.2, rename table)
	conform(r, "R04.12", "risc", "Context", "TransactionWriteRegister", "risc_state", nil)
	conform(r, "R04.12", "risc", "Context", "Rollback", "risc_state", nil)
	conform(r, "R04.12", "risc", "Context", "Commit", "risc_state", nil)
	conform(r, "R04.12", "risc", "Context", "RATRollback", "risc_state", nil)
	conform(r, "R04.12", "risc", "Context", "RATCommit", "risc_state", nil)
	for _, m := range []string{"Find", "Read", "Write"} {
		conform(r, "R04.5", "proc/comp", "RAT", m, "risc_state", nil)
	}
	ruleDeclaredSets(r, "R04.6")

	for _, v := range variants(w) {
		if v.pkg == nil || !v.pipelined() {
			continue
		}
		info := v.info
		// the control unit: the unit type that calls an IsDataHazard* classifier
		for _, f := range v.fields {
			if !f.isUnit {
				continue
			}
			isControl := false
			for i := 0; i < f.unitT.NumMethods(); i++ {
				fd, pk := w.FuncDecl(f.unitT.Method(i))
				if fd != nil && fd.Body != nil && w.reaches(pk.TypesInfo, fd.Body, func(fn *types.Func) bool { return fn.Name() == "IsDataHazard3" }) {
					isControl = true
				}
			}
			if !isControl {
				continue
			}
			tn := f.unitT.Obj().Name()
			hasMethod := func(n string) bool { return hasDeclMethod(f.unitT, n) != nil }
			// the variants with renaming are compared with the renaming reference: its forwarding predicate
			// refuses when the youngest writer of the register cannot be identified (R04.8)
			ref := "cu"
			if hasMethod("shouldUseRenaming") {
				ref = "cu_rename"
			}
			for _, m := range []string{"isDataHazardWithSkippedRunners", "shouldUseForwarding", "shouldUseRenaming"} {
				if hasMethod(m) {
					rule := "R04.2"
					if m == "shouldUseForwarding" && ref == "cu_rename" {
						rule = "R04.8"
					}
					conform(r, rule, v.rel, tn, m, ref, nil)
				}
			}
			if hasMethod("shouldUseForwarding") {
				ruleForwardWindow(r, v, f)
			}
			// every dispatch in the decision function is guarded
			for i := 0; i < f.unitT.NumMethods(); i++ {
				fd, _ := w.FuncDecl(f.unitT.Method(i))
				if fd == nil || fd.Body == nil {
					continue
				}
				callsClassifier := false
				ast.Inspect(fd.Body, func(n ast.Node) bool {
					if c, ok := n.(*ast.CallExpr); ok {
						if fn, ok := typeutil.Callee(info, c).(*types.Func); ok && fn.Name() == "IsDataHazard3" {
							callsClassifier = true
						}
					}
					return true
				})
				if !callsClassifier {
					continue
				}
				ruleDispatchGuards(r, v, f, fd)
				ruleForwardWiring(r, v, f, fd)
			}
		}
		// R04.3 scoreboard release after the architectural write
		ruleScoreboardRelease(r, v)
		// R04.9 sequence tag agreement
		ruleSequenceTagAgreement(r, v)
		// R04.4 producer/consumer side in the execute unit
		ruleForwardEndpoints(r, v)
	}
}

// ruleDispatchGuards: every call of the dispatch function inside the decision
// function lies under `len(hazards) == 0`, under the forwarding predicate's
// positive result, or under the renaming predicate.
func ruleDispatchGuards(r *Run, v *variant, f *fieldRole, fd *ast.FuncDecl) {
	info := v.info
	// the dispatch function: a method of the unit that calls Add on a bus and AddPendingRegisters
	var dispatch *types.Func
	for i := 0; i < f.unitT.NumMethods(); i++ {
		fd2, _ := r.W.FuncDecl(f.unitT.Method(i))
		if fd2 == nil || fd2.Body == nil {
			continue
		}
		adds, marks := false, false
		ast.Inspect(fd2.Body, func(n ast.Node) bool {
			if c, ok := n.(*ast.CallExpr); ok {
				if sel, ok := c.Fun.(*ast.SelectorExpr); ok {
					if sel.Sel.Name == "Add" && isCompType(info.TypeOf(sel.X), "BufferedBus") {
						adds = true
					}
					if sel.Sel.Name == "AddPendingRegisters" {
						marks = true
					}
				}
			}
			return true
		})
		key := fmt.Sprintf("%s.(%s).%s:dispatch", v.rel, f.unitT.Obj().Name(), fd2.Name.Name)
		if adds {
			dispatch = f.unitT.Method(i)
			r.check(marks, "R04.3", key, fd2.Pos(), "the function that puts an instruction on the execute bus raises the scoreboard for it (AddPendingRegisters) in the same step")
		}
	}
	if dispatch == nil {
		r.undecided("R04.2", fmt.Sprintf("%s.(%s):dispatch", v.rel, f.unitT.Obj().Name()), fd.Pos(), "dispatch function not found")
		return
	}
	n := 0
	var walk func(node ast.Node, guards []string)
	walk = func(node ast.Node, guards []string) {
		switch x := node.(type) {
		case *ast.BlockStmt:
			for _, s := range x.List {
				walk(s, guards)
			}
		case *ast.IfStmt:
			g := "other"
			c := types.ExprString(x.Cond)
			switch {
			case condHasNoHazardTest(info, x.Cond):
				g = "no-hazard"
			case x.Init != nil && strings.Contains(types.ExprString(x.Init.(*ast.AssignStmt).Rhs[0]), "shouldUseForwarding"):
				g = "forwarding"
			case strings.Contains(c, "shouldUseRenaming"):
				g = "renaming"
			}
			walk(x.Body, append(append([]string{}, guards...), g))
			if x.Else != nil {
				walk(x.Else, append(append([]string{}, guards...), "else-of-"+g))
			}
		case *ast.ExprStmt, *ast.AssignStmt, *ast.ReturnStmt:
			ast.Inspect(x, func(m ast.Node) bool {
				if c, ok := m.(*ast.CallExpr); ok {
					if fn, ok := typeutil.Callee(info, c).(*types.Func); ok && fn.Origin() == dispatch {
						n++
						good := false
						for _, g := range guards {
							if g == "no-hazard" || g == "forwarding" || g == "renaming" {
								good = true
							}
						}
						r.check(good, "R04.2", fmt.Sprintf("%s.(%s).%s:dispatch-site#%d", v.rel, f.unitT.Obj().Name(), fd.Name.Name, n), c.Pos(), "an instruction is dispatched only under: no hazard, the forwarding predicate, or the renaming predicate (guards here: %v)", guards)
					}
				}
				return true
			})
		}
	}
	walk(fd.Body, nil)
}

// condHasNoHazardTest: the condition contains `len(h) == 0` for a h of type []risc.Hazard.
func condHasNoHazardTest(info *types.Info, cond ast.Expr) bool {
	found := false
	ast.Inspect(cond, func(n ast.Node) bool {
		b, ok := n.(*ast.BinaryExpr)
		if !ok || b.Op != token.EQL {
			return true
		}
		for _, pair := range [][2]ast.Expr{{b.X, b.Y}, {b.Y, b.X}} {
			call, ok := ast.Unparen(pair[0]).(*ast.CallExpr)
			if !ok || len(call.Args) != 1 {
				continue
			}
			if id, ok := call.Fun.(*ast.Ident); !ok || id.Name != "len" || info.Uses[id] != types.Universe.Lookup("len") {
				continue
			}
			if c, ok := constInt64(info.Types[pair[1]]); !ok || c != 0 {
				continue
			}
			if sl, ok := info.TypeOf(call.Args[0]).Underlying().(*types.Slice); ok {
				if n := namedOf(sl.Elem()); n != nil && n.Obj().Name() == "Hazard" && n.Obj().Pkg().Path() == modPath+"/risc" {
					found = true
				}
			}
		}
		return true
	})
	return found
}

// ruleForwardWiring (consumer/producer wiring at the control unit).
func ruleForwardWiring(r *Run, v *variant, f *fieldRole, fd *ast.FuncDecl) {
	info := v.info
	ast.Inspect(fd.Body, func(n ast.Node) bool {
		is, ok := n.(*ast.IfStmt)
		if !ok || is.Init == nil {
			return true
		}
		as, ok := is.Init.(*ast.AssignStmt)
		if !ok || len(as.Lhs) != 3 || !strings.Contains(types.ExprString(as.Rhs[0]), "shouldUseForwarding") {
			return true
		}
		prev, reg := types.ExprString(as.Lhs[1]), types.ExprString(as.Lhs[2])
		var chName string
		capOne := false
		set := map[string]string{}
		for _, st := range is.Body.List {
			a, ok := st.(*ast.AssignStmt)
			if !ok || len(a.Lhs) != 1 || len(a.Rhs) != 1 {
				continue
			}
			if call, ok := a.Rhs[0].(*ast.CallExpr); ok {
				if id, ok := call.Fun.(*ast.Ident); ok && id.Name == "make" && len(call.Args) == 2 {
					if _, isChan := info.TypeOf(call.Args[0]).Underlying().(*types.Chan); isChan {
						chName = types.ExprString(a.Lhs[0])
						if c, ok := constInt64(info.Types[call.Args[1]]); ok && c == 1 {
							capOne = true
						}
					}
				}
			}
			set[types.ExprString(a.Lhs[0])] = types.ExprString(a.Rhs[0])
		}
		// the consumer is the decision function's instruction parameter
		cons := ""
		for k := range set {
			if strings.HasSuffix(k, ".Receiver") {
				cons = strings.TrimSuffix(k, ".Receiver")
			}
		}
		good := chName != "" && capOne && set[prev+".Forwarder"] == chName && set[cons+".Receiver"] == chName &&
			set[cons+".ForwardRegister"] == reg && cons != prev
		r.check(good, "R04.4", fmt.Sprintf("%s.(%s).%s:wiring", v.rel, f.unitT.Obj().Name(), fd.Name.Name), is.Pos(), "one channel of capacity 1 (%v) is the producer's Forwarder and the consumer's Receiver, and the consumer names the hazard's register: %v", capOne, set)
		// the producer may itself be a consumer still waiting for ITS operand (a chain a -> b -> c on
		// different registers): wiring b as the producer of c must not overwrite what b needs as a consumer
		var clobbered []string
		for k := range set {
			if strings.HasPrefix(k, prev+".") && k != prev+".Forwarder" {
				clobbered = append(clobbered, k)
			}
		}
		sort.Strings(clobbered)
		r.check(len(clobbered) == 0, "R04.10", fmt.Sprintf("%s.(%s).%s:producer-untouched", v.rel, f.unitT.Obj().Name(), fd.Name.Name), is.Pos(), "wiring a forward writes only the Forwarder of the producer: its consumer-side fields (the register it is waiting to receive) stay intact when it is chained as the producer of the next instruction (written here: %v)", clobbered)
		return true
	})
}

// ruleForwardEndpoints: producer sends execution.RegisterValue iff it has a
// forwarder; the consumer receives before the instruction runs and passes
// {Value, ForwardRegister} to Runner.Forward.
func ruleForwardEndpoints(r *Run, v *variant) {
	info := v.info
	for _, f := range v.fields {
		if !f.isUnit || !f.roles["exec"] {
			continue
		}
		sends, recvs := 0, 0
		sendOK, recvOK := false, false
		var pos token.Pos
		for i := 0; i < f.unitT.NumMethods(); i++ {
			fd, _ := r.W.FuncDecl(f.unitT.Method(i))
			if fd == nil || fd.Body == nil {
				continue
			}
			ast.Inspect(fd.Body, func(n ast.Node) bool {
				switch x := n.(type) {
				case *ast.SendStmt:
					sends++
					pos = x.Pos()
					if strings.HasSuffix(types.ExprString(x.Chan), ".Forwarder") && strings.HasSuffix(types.ExprString(x.Value), ".RegisterValue") {
						sendOK = true
					}
				case *ast.UnaryExpr:
					if x.Op == token.ARROW {
						recvs++
						if strings.HasSuffix(types.ExprString(x.X), ".Receiver") {
							// followed by Forward(risc.Forward{Value: v, Register: …ForwardRegister})
							ast.Inspect(fd.Body, func(m ast.Node) bool {
								if c, ok := m.(*ast.CallExpr); ok {
									if sel, ok := c.Fun.(*ast.SelectorExpr); ok && sel.Sel.Name == "Forward" && len(c.Args) == 1 && c.Pos() > x.Pos() {
										if cl, ok := ast.Unparen(c.Args[0]).(*ast.CompositeLit); ok {
											hasVal, hasReg := false, false
											for _, el := range cl.Elts {
												if kv, ok := el.(*ast.KeyValueExpr); ok {
													k := types.ExprString(kv.Key)
													if k == "Value" {
														hasVal = true
													}
													if k == "Register" && strings.HasSuffix(types.ExprString(kv.Value), "ForwardRegister") {
														hasReg = true
													}
												}
											}
											if hasVal && hasReg {
												recvOK = true
											}
										}
									}
								}
								return true
							})
							// and before the instruction runs
							ast.Inspect(fd.Body, func(m ast.Node) bool {
								if c, ok := m.(*ast.CallExpr); ok {
									if fn, ok := typeutil.Callee(info, c).(*types.Func); ok && fn.Name() == "Run" && c.Pos() < x.Pos() {
										if sig := fn.Type().(*types.Signature); sig.Recv() != nil && typeName(sig.Recv().Type()) == "InstructionRunner" {
											recvOK = false
										}
									}
								}
								return true
							})
						}
					}
				}
				return true
			})
		}
		if sends == 0 && recvs == 0 {
			continue
		}
		r.check(sends == 1 && sendOK && recvs == 1 && recvOK, "R04.4", fmt.Sprintf("%s.(%s):endpoints", v.rel, f.unitT.Obj().Name()), pos, "the producer sends its RegisterValue on its Forwarder exactly once (%d send, ok=%v); the consumer receives from its Receiver before it runs and hands {Value, ForwardRegister} to Runner.Forward (%d receive, ok=%v)", sends, sendOK, recvs, recvOK)
	}
}

// ruleScoreboardRelease: in the write units every register/transaction write
// is followed, in the same block, by the release of the scoreboard for that
// instruction — never the other way round.
func ruleScoreboardRelease(r *Run, v *variant) {
	info := v.info
	for _, f := range v.fields {
		if !f.isUnit || !f.roles["write"] || f.roles["exec"] {
			continue
		}
		for i := 0; i < f.unitT.NumMethods(); i++ {
			fd, _ := r.W.FuncDecl(f.unitT.Method(i))
			if fd == nil || fd.Body == nil {
				continue
			}
			n := 0
			ast.Inspect(fd.Body, func(m ast.Node) bool {
				blk, ok := m.(*ast.BlockStmt)
				if !ok {
					return true
				}
				for i, st := range blk.List {
					es, ok := st.(*ast.ExprStmt)
					if !ok {
						continue
					}
					call, ok := es.X.(*ast.CallExpr)
					if !ok {
						continue
					}
					fn, ok := typeutil.Callee(info, call).(*types.Func)
					if !ok || !isArchWriter(fn) {
						continue
					}
					n++
					// a release later in the same block
					after := false
					for _, st2 := range blk.List[i+1:] {
						if es2, ok := st2.(*ast.ExprStmt); ok {
							if c2, ok := es2.X.(*ast.CallExpr); ok {
								if f2, ok := typeutil.Callee(info, c2).(*types.Func); ok && strings.HasPrefix(f2.Name(), "DeletePending") {
									after = true
								}
							}
						}
					}
					before := false
					for _, st2 := range blk.List[:i] {
						if es2, ok := st2.(*ast.ExprStmt); ok {
							if c2, ok := es2.X.(*ast.CallExpr); ok {
								if f2, ok := typeutil.Callee(info, c2).(*types.Func); ok && strings.HasPrefix(f2.Name(), "DeletePending") {
									before = true
								}
							}
						}
					}
					// a buffered memory write in the in-order variants releases nothing (stores have no destination register)
					if fn.Name() == "WriteMemory" && !after && !before {
						continue
					}
					r.check(after && !before, "R04.3", fmt.Sprintf("%s.(%s).%s:release-after-%s#%d", v.rel, f.unitT.Obj().Name(), fd.Name.Name, fn.Name(), n), call.Pos(), "the scoreboard is released after the architectural write, in the same block (after=%v, before=%v): a consumer held on the scoreboard never reads before the value is there", after, before)
				}
				return true
			})
		}
	}
}

// ruleSequenceTagAgreement: within one variant, every call of Run /
// MemoryRead / MemoryWrite on an instruction from the execute units passes the
// same kind of sequence tag (the instruction's own id, or the constant 0).
func ruleSequenceTagAgreement(r *Run, v *variant) {
	info := v.info
	kinds := map[string]int{}
	var first token.Pos
	for _, f := range v.fields {
		if !f.isUnit || !f.roles["exec"] {
			continue
		}
		for i := 0; i < f.unitT.NumMethods(); i++ {
			fd, _ := r.W.FuncDecl(f.unitT.Method(i))
			if fd == nil || fd.Body == nil {
				continue
			}
			ast.Inspect(fd.Body, func(m ast.Node) bool {
				c, ok := m.(*ast.CallExpr)
				if !ok {
					return true
				}
				fn, ok := typeutil.Callee(info, c).(*types.Func)
				if !ok {
					return true
				}
				sig := fn.Type().(*types.Signature)
				if sig.Recv() == nil || typeName(sig.Recv().Type()) != "InstructionRunner" {
					return true
				}
				if fn.Name() != "Run" && fn.Name() != "MemoryRead" && fn.Name() != "MemoryWrite" {
					return true
				}
				last := c.Args[len(c.Args)-1]
				k := "own"
				if tv := info.Types[last]; tv.Value != nil {
					k = "const " + tv.Value.ExactString()
				} else if !strings.HasSuffix(types.ExprString(last), "SequenceID") {
					k = "other " + types.ExprString(last)
				}
				kinds[k]++
				if first == 0 {
					first = c.Pos()
				}
				return true
			})
		}
	}
	if len(kinds) == 0 {
		return
	}
	// R04.14: with renaming a younger writer of a register may complete before an older reader
	// executes (WAR is not a dispatch hazard any more): the reader must bound its reads by its own tag
	renames := false
	for _, f := range v.fields {
		if f.isUnit && hasDeclMethod(f.unitT, "shouldUseRenaming") != nil {
			renames = true
		}
	}
	if renames {
		r.check(kinds["own"] > 0 && len(kinds) == 1, "R04.14", v.rel+":tag-bounded-reads", first, "the variant renames registers on write-after-read, so an older instruction may read a register after a younger one has written it: every register-reading call passes the instruction's own sequence tag, not the 'latest value' tag 0 (tags used: %v)", kinds)
	}
	r.check(len(kinds) == 1, "R04.9", v.rel+":sequence-tag", first, "all register-reading calls of the execute units pass the same sequence tag %v (an address computed with the newest register value and an execution with the tag-bounded one read different versions of a renamed register)", kinds)
}

// ruleForwardWindow (R04.11): the forwarding predicate trusts that the set of
// instructions "dispatched in the previous cycle" really is the previous cycle's:
// their producers have not executed yet, so a Forwarder wired now is still seen.
// The control unit's step must therefore rotate that set (previous := current) on
// EVERY path through the step. A path that returns without rotating leaves a
// two-cycle-old set behind: the next step wires a forward to a producer that has
// already executed and the consumer waits for ever.
func ruleForwardWindow(r *Run, v *variant, f *fieldRole) {
	info := v.info
	w := r.W
	for i := 0; i < f.unitT.NumMethods(); i++ {
		fd, _ := w.FuncDecl(f.unitT.Method(i))
		if fd == nil || fd.Body == nil {
			continue
		}
		// the rotation: recv.P = recv.C with P, C fields of the same map type
		var rot *ast.AssignStmt
		var pField types.Object
		var deferAt token.Pos
		var walk func(n ast.Node, inDefer token.Pos)
		walk = func(n ast.Node, inDefer token.Pos) {
			ast.Inspect(n, func(m ast.Node) bool {
				if ds, ok := m.(*ast.DeferStmt); ok {
					if lit, ok := ds.Call.Fun.(*ast.FuncLit); ok {
						walk(lit.Body, ds.Pos())
						return false
					}
				}
				as, ok := m.(*ast.AssignStmt)
				if !ok || len(as.Lhs) != 1 || len(as.Rhs) != 1 || as.Tok != token.ASSIGN {
					return true
				}
				ls, ok1 := ast.Unparen(as.Lhs[0]).(*ast.SelectorExpr)
				rs, ok2 := ast.Unparen(as.Rhs[0]).(*ast.SelectorExpr)
				if !ok1 || !ok2 {
					return true
				}
				l, r2 := info.Selections[ls], info.Selections[rs]
				if l == nil || r2 == nil || l.Kind() != types.FieldVal || r2.Kind() != types.FieldVal || l.Obj() == r2.Obj() {
					return true
				}
				if _, isMap := l.Obj().Type().Underlying().(*types.Map); !isMap || !types.Identical(l.Obj().Type(), r2.Obj().Type()) {
					return true
				}
				rot, pField, deferAt = as, l.Obj(), inDefer
				return true
			})
		}
		walk(fd.Body, token.NoPos)
		if rot == nil {
			continue
		}
		// the limit before which a return skips the rotation
		limit := rot.Pos()
		if deferAt != token.NoPos {
			limit = deferAt
		}
		var skipping []string
		ast.Inspect(fd.Body, func(m ast.Node) bool {
			if _, ok := m.(*ast.FuncLit); ok {
				return false
			}
			ret, ok := m.(*ast.ReturnStmt)
			if !ok || ret.Pos() > limit {
				return true
			}
			// an assignment to the field earlier in the return's own block (or an enclosing one) clears the window
			cleared := false
			ast.Inspect(fd.Body, func(k ast.Node) bool {
				as, ok := k.(*ast.AssignStmt)
				if !ok || as.End() > ret.Pos() {
					return true
				}
				for _, l := range as.Lhs {
					if sel, ok := ast.Unparen(l).(*ast.SelectorExpr); ok {
						if s := info.Selections[sel]; s != nil && s.Obj() == pField {
							// same or enclosing block: the assignment's enclosing block contains the return
							if blk := enclosingBlock(fd.Body, as); blk != nil && blk.Pos() <= ret.Pos() && ret.End() <= blk.End() {
								cleared = true
							}
						}
					}
				}
				return true
			})
			if !cleared {
				skipping = append(skipping, w.Fset.Position(ret.Pos()).String())
			}
			return true
		})
		r.check(len(skipping) == 0, "R04.11", fmt.Sprintf("%s.(%s).%s:window-rotated", v.rel, f.unitT.Obj().Name(), fd.Name.Name), rot.Pos(), "every path through the control unit's step rotates the previous-cycle set %s (a stale set makes the next step wire a forward to a producer that has already executed: the consumer waits for ever); returns that skip it: %v", pField.Name(), skipping)
	}
}

// enclosingBlock: the innermost block statement of root that contains n.
func enclosingBlock(root ast.Node, n ast.Node) *ast.BlockStmt {
	var best *ast.BlockStmt
	ast.Inspect(root, func(m ast.Node) bool {
		if b, ok := m.(*ast.BlockStmt); ok && b.Pos() <= n.Pos() && n.End() <= b.End() {
			best = b
		}
		return true
	})
	return best
}

// ruleForwardSetters (R04.13): Forward(f) of every instruction stores f in the
// instruction itself — a pointer receiver and an assignment of the parameter to
// the field that Run hands to registerRead. With a value receiver the forwarded
// operand is written to a copy and the consumer silently reads the stale register.
func ruleForwardSetters(r *Run, rule string) {
	w := r.W
	a := analyseISA(w)
	p := w.Pkg("risc")
	if p == nil {
		r.undecided(rule, "risc", token.NoPos, "package risc not loaded")
		return
	}
	info := p.TypesInfo
	for _, op := range a.ops {
		fd, _ := w.Method("risc", op.typeName, "Forward")
		key := "risc.(*" + op.typeName + ").Forward"
		if fd == nil || fd.Body == nil || fd.Recv == nil || len(fd.Recv.List) != 1 {
			r.undecided(rule, key, token.NoPos, "method Forward not found")
			continue
		}
		_, ptr := fd.Recv.List[0].Type.(*ast.StarExpr)
		var recvObj, paramObj types.Object
		if len(fd.Recv.List[0].Names) == 1 {
			recvObj = info.Defs[fd.Recv.List[0].Names[0]]
		}
		if fd.Type.Params != nil && len(fd.Type.Params.List) == 1 && len(fd.Type.Params.List[0].Names) == 1 {
			paramObj = info.Defs[fd.Type.Params.List[0].Names[0]]
		}
		// the field assigned from the parameter
		var field types.Object
		leavesBefore := false // a return before the store: the store is conditional
		for _, st := range fd.Body.List {
			as, ok := st.(*ast.AssignStmt)
			if !ok || len(as.Lhs) != 1 || len(as.Rhs) != 1 {
				if field == nil {
					ast.Inspect(st, func(n ast.Node) bool {
						if _, ok := n.(*ast.ReturnStmt); ok {
							leavesBefore = true
						}
						return true
					})
				}
				continue
			}
			rid, ok := ast.Unparen(as.Rhs[0]).(*ast.Ident)
			if !ok || paramObj == nil || info.Uses[rid] != paramObj {
				continue
			}
			if sel, ok := ast.Unparen(as.Lhs[0]).(*ast.SelectorExpr); ok {
				if xid, ok := ast.Unparen(sel.X).(*ast.Ident); ok && recvObj != nil && info.Uses[xid] == recvObj {
					if s := info.Selections[sel]; s != nil && s.Kind() == types.FieldVal {
						field = s.Obj()
					}
				}
			}
		}
		// the field Run passes to registerRead (if Run reads registers at all)
		readsVia := map[types.Object]bool{}
		nReads := 0
		for _, m := range []string{"Run", "MemoryRead", "MemoryWrite"} {
			mfd, _ := w.Method("risc", op.typeName, m)
			if mfd == nil || mfd.Body == nil {
				continue
			}
			ast.Inspect(mfd.Body, func(n ast.Node) bool {
				call, ok := n.(*ast.CallExpr)
				if !ok || len(call.Args) < 2 {
					return true
				}
				if fn, ok := typeutil.Callee(info, call).(*types.Func); !ok || fn.Name() != "registerRead" {
					return true
				}
				nReads++
				if sel, ok := ast.Unparen(call.Args[1]).(*ast.SelectorExpr); ok {
					if s := info.Selections[sel]; s != nil {
						readsVia[s.Obj()] = true
					}
				}
				return true
			})
		}
		// an instruction that reads no register has nothing to receive
		good := nReads == 0 || (ptr && field != nil && !leavesBefore && len(readsVia) == 1 && readsVia[field])
		r.check(good, rule, key, fd.Pos(), "Forward stores its argument in the instruction UNCONDITIONALLY (pointer receiver: %v; assigned field: %v; a return before the store: %v) and that field is the one every register read of the instruction consults (%d reads)", ptr, field != nil, leavesBefore, nReads)
	}
}
