package main

// C05 — the cache hierarchy is transparent and leaves nothing behind.

import (
	"fmt"
	"go/ast"
	"go/token"
	"go/types"
	"os"
	"sort"
	"strings"

	"golang.org/x/tools/go/types/typeutil"
)

func init() {
	register(&propSpec{
		ID:          "C05",
		Level:       "other",
		Run:         runC05,
		Explanation: "Structural necessary conditions of cache transparency on MVP-3..8: R05.1 every normal return of Run is preceded by the write-back of every cache that can be dirty (L1 before L3 where there are two levels); R05.2 when inserting a line displaces another, the bytes written back are the victim's and go to the victim's own base (value flow from the result of PushLine / PushLineWithEvictionWarning); R05.3 every base passed to PushLine* of a data cache is produced by the alignment function of that cache's line size or copied from a resident line's boundary (so resident lines cannot overlap); R05.4 a store is applied to the cache only under a presence test of all its bytes, and a line fill reads the bytes at the base the line is inserted under; R05.5 a line is inserted only under an absence test (no duplicate copy); R05.6 every per-line table is keyed through one alignment function; R05.9 a line fill compares the byte index with the image length itself (it pads exactly the bytes outside the image); R05.11 both branches of a controller's final write-back of a modified line write it; R05.12/R05.13 without per-line locks the line a miss installs is read from the image in the step that installs it, and a deferred continuation probes the cache only right after installing the line (a snapshot taken when the miss was detected hides a store performed during the latency, and is later written back over it); R05.10 the write-back of a line skips the bytes below address 0 and stops only past the end. Does not decide 'each load returns the latest store' for arbitrary access patterns (needs C10 and values). R05.14 every path to the run step of an instruction that reads memory first assigns the field handed to Run as its memory bytes. R05.15 a store is applied to the cached line only on the side of the presence test on which all its bytes are resident (polarity of the routing). R05.16 the bytes a cache probe returns are used only where the probe's found result is true. R05.17 the membership test of a pending line-fetch interval includes its start address (a second access to the very address being fetched must wait, not fetch a second copy of the line). R05.18 a per-line dirty flag is raised by the function that writes the cached line, and a displaced line is written to memory exactly when its flag is set. R05.20 a line fill builds exactly one line (the loop runs from 0, strictly below the line size, by one). R05.21 a cache probe answers found = true only after every byte address of the access was found, and leaves with found = false at the first absent byte. R05.22 with several data caches, a presence test and the first cache operation it governs concern the same cache. R05.23 a line in the Modified state leaves a core's cache by the command whose handler writes it to the next level; a line in another state by one that does not. R05.24 the interval registered for a line fetch covers the whole line.",
		Assumptions: []string{"the line cache itself is C13's LRU model"},
		Trusted:     []string{"go/types", "address provenance engine (prov.go)", "role resolution"},
	})
}

type cacheInfo struct {
	field    *types.Var
	owner    string // struct type name
	dirty    bool
	lineSize int64
}

// cachesOf lists the *comp.LRUCache fields of the package's structs.
func cachesOf(v *variant) []*cacheInfo {
	var out []*cacheInfo
	byVar := map[*types.Var]*cacheInfo{}
	scope := v.pkg.Types.Scope()
	for _, n := range scope.Names() {
		tn, ok := scope.Lookup(n).(*types.TypeName)
		if !ok {
			continue
		}
		st, ok := tn.Type().Underlying().(*types.Struct)
		if !ok {
			continue
		}
		for i := 0; i < st.NumFields(); i++ {
			if isCompType(st.Field(i).Type(), "LRUCache") {
				ci := &cacheInfo{field: st.Field(i), owner: n}
				out = append(out, ci)
				byVar[st.Field(i)] = ci
			}
		}
	}
	for _, f := range v.pkg.Syntax {
		ast.Inspect(f, func(n ast.Node) bool {
			switch x := n.(type) {
			case *ast.CallExpr:
				if sel, ok := x.Fun.(*ast.SelectorExpr); ok && sel.Sel.Name == "Write" {
					if c := cacheOfExpr(v, byVar, sel.X); c != nil {
						c.dirty = true
					}
				}
			case *ast.KeyValueExpr:
				// l1d: comp.NewLRUCache(lineSize, size)
				if id, ok := x.Key.(*ast.Ident); ok {
					if fv, ok := v.info.Uses[id].(*types.Var); ok && byVar[fv] != nil {
						if call, ok := ast.Unparen(x.Value).(*ast.CallExpr); ok && len(call.Args) == 2 {
							if c, ok := constInt64(v.info.Types[call.Args[0]]); ok {
								byVar[fv].lineSize = c
							}
						}
					}
				}
			case *ast.AssignStmt:
				for i, l := range x.Lhs {
					if sel, ok := l.(*ast.SelectorExpr); ok && i < len(x.Rhs) {
						if s := v.info.Selections[sel]; s != nil && byVar[asVar(s.Obj())] != nil {
							if call, ok := ast.Unparen(x.Rhs[i]).(*ast.CallExpr); ok && len(call.Args) == 2 {
								if c, ok := constInt64(v.info.Types[call.Args[0]]); ok {
									byVar[asVar(s.Obj())].lineSize = c
								}
							}
						}
					}
				}
			}
			return true
		})
	}
	return out
}

// resolvedCaches: the caches of a variant with fields that are initialised from the same
// NewLRUCache call merged into one cache (MVP-8 shares its L3 between the CPU and the
// controllers) and line sizes taken from the constructor call.
func resolvedCaches(w *World, v *variant) ([]*cacheInfo, map[*types.Var]*cacheInfo) {
	caches := cachesOf(v)
	byVar := map[*types.Var]*cacheInfo{}
	peo := newProvEngine(w, v.pkg)
	origin := map[string]*cacheInfo{}
	for _, c := range caches {
		o := peo.fieldProv(c.field, 0).String()
		if prev, ok := origin[o]; ok && strings.Contains(o, "NewLRUCache") {
			prev.dirty = prev.dirty || c.dirty
			if prev.lineSize == 0 {
				prev.lineSize = c.lineSize
			}
			byVar[c.field] = prev
			continue
		}
		origin[o] = c
		byVar[c.field] = c
	}
	for _, c := range caches {
		if byVar[c.field] == c && c.lineSize == 0 {
			// line size from the constructor call the field's value comes from
			for _, f := range v.pkg.Syntax {
				ast.Inspect(f, func(n ast.Node) bool {
					if call, ok := n.(*ast.CallExpr); ok && len(call.Args) == 2 {
						if fn, ok := typeutil.Callee(v.info, call).(*types.Func); ok && fn.Name() == "NewLRUCache" && strings.Contains(peo.fieldProv(c.field, 0).String(), fmt.Sprintf("NewLRUCache@%d", call.Pos())) {
							if k, ok := constInt64(v.info.Types[call.Args[0]]); ok {
								c.lineSize = k
							}
						}
					}
					return true
				})
			}
		}
	}
	return caches, byVar
}

func asVar(o types.Object) *types.Var {
	v, _ := o.(*types.Var)
	return v
}

func cacheOfExpr(v *variant, byVar map[*types.Var]*cacheInfo, e ast.Expr) *cacheInfo {
	if sel, ok := ast.Unparen(e).(*ast.SelectorExpr); ok {
		if s := v.info.Selections[sel]; s != nil && s.Kind() == types.FieldVal {
			return byVar[asVar(s.Obj())]
		}
	}
	return nil
}

func lruMethod(info *types.Info, call *ast.CallExpr) string {
	f, ok := typeutil.Callee(info, call).(*types.Func)
	if !ok {
		return ""
	}
	sig := f.Type().(*types.Signature)
	if sig.Recv() == nil || !isCompType(sig.Recv().Type(), "LRUCache") {
		return ""
	}
	return f.Name()
}

func runC05(r *Run) {
	w := r.W
	r.floor("R05.1", 10)
	r.floor("R05.2", 10)
	r.floor("R05.3", 10)
	r.floor("R05.4", 14)
	r.floor("R05.5", 4)
	r.floor("R05.6", 10)
	for _, v := range variants(w) {
		if v.pkg == nil {
			continue
		}
		caches, byVar := resolvedCaches(w, v)
		var dirty []*cacheInfo
		for _, c := range caches {
			if byVar[c.field] == c && c.dirty {
				dirty = append(dirty, c)
			}
		}
		if len(dirty) == 0 {
			continue
		}
		var names []string
		for _, c := range dirty {
			names = append(names, fmt.Sprintf("%s.%s(line %d)", c.owner, c.field.Name(), c.lineSize))
		}
		r.anchor(v.name+" dirty caches", strings.Join(names, ", "))
		info := v.info
		pe := newProvEngine(w, v.pkg)
		pe.cacheLine = func(e ast.Expr) int64 {
			if c := cacheOfExpr(v, byVar, e); c != nil {
				return c.lineSize
			}
			return 0
		}

		// ---- R05.1 final write-back
		wb := map[*types.Var][]*types.Func{} // cache -> functions that walk its lines and write them out
		for _, f := range v.pkg.Syntax {
			for _, d := range f.Decls {
				fd, ok := d.(*ast.FuncDecl)
				if !ok || fd.Body == nil {
					continue
				}
				ast.Inspect(fd.Body, func(n ast.Node) bool {
					rs, ok := n.(*ast.RangeStmt)
					if !ok {
						return true
					}
					call, ok := ast.Unparen(rs.X).(*ast.CallExpr)
					if !ok {
						return true
					}
					m := lruMethod(info, call)
					if m != "Lines" && m != "ExistingLines" {
						return true
					}
					c := cacheOfExpr(v, byVar, call.Fun.(*ast.SelectorExpr).X)
					if c == nil {
						return true
					}
					writes := w.reaches(info, rs.Body, func(fn *types.Func) bool {
						fd2, pk2 := w.FuncDecl(fn)
						if fd2 == nil || fd2.Body == nil {
							return false
						}
						hit := false
						ast.Inspect(fd2.Body, func(k ast.Node) bool {
							if as, ok := k.(*ast.AssignStmt); ok {
								for _, l := range as.Lhs {
									if ix, ok := l.(*ast.IndexExpr); ok && ctxFieldWritten(pk2.TypesInfo, ix.X) == "Memory" {
										hit = true
									}
								}
							}
							return true
						})
						return hit
					}) || w.reaches(info, rs.Body, func(fn *types.Func) bool {
						sig := fn.Type().(*types.Signature)
						return fn.Name() == "Write" && sig.Recv() != nil && isCompType(sig.Recv().Type(), "LRUCache")
					})
					if writes {
						if o, ok := info.Defs[fd.Name].(*types.Func); ok {
							wb[c.field] = append(wb[c.field], o)
						}
					}
					return true
				})
			}
		}
		// statements after the main loop (or the whole body for the unpipelined variants)
		var tail []ast.Stmt
		if loop := v.mainLoop(); loop != nil {
			seen := false
			for _, s := range v.run.Body.List {
				if seen {
					tail = append(tail, s)
				}
				if s == ast.Stmt(loop) {
					seen = true
				}
				if l, ok := s.(*ast.LabeledStmt); ok && l.Stmt == ast.Stmt(loop) {
					seen = true
				}
			}
		}
		wbPos := map[*types.Var]token.Pos{}
		for _, c := range dirty {
			key := fmt.Sprintf("%s.(CPU).Run:write-back(%s.%s)", v.rel, c.owner, c.field.Name())
			if len(wb[c.field]) == 0 {
				r.bad("R05.1", key, v.run.Pos(), "no function walks the lines of %s.%s and writes them out: dirty data can never reach memory", c.owner, c.field.Name())
				continue
			}
			found := token.NoPos
			for _, s := range tail {
				if w.reaches(info, s, func(fn *types.Func) bool {
					for _, t := range wb[c.field] {
						if fn.Origin() == t {
							return true
						}
					}
					return false
				}) && found == token.NoPos {
					found = s.Pos()
				}
			}
			wbPos[c.field] = found
			var fn []string
			for _, t := range wb[c.field] {
				fn = append(fn, t.Name())
			}
			r.check(found != token.NoPos, "R05.1", key, v.run.Pos(), "after the main loop and before the normal return, Run reaches the write-back of %s.%s (%v)", c.owner, c.field.Name(), fn)
		}
		// normal (nil-error) returns only after the main loop
		if loop := v.mainLoop(); loop != nil {
			early := 0
			ast.Inspect(loop, func(n ast.Node) bool {
				if _, ok := n.(*ast.FuncLit); ok {
					return false
				}
				if rs, ok := n.(*ast.ReturnStmt); ok && len(rs.Results) == 2 {
					if id, ok := ast.Unparen(rs.Results[1]).(*ast.Ident); ok && id.Name == "nil" {
						early++
					}
				}
				return true
			})
			r.check(early == 0, "R05.1", v.rel+".(CPU).Run:no-early-normal-return", v.run.Pos(), "no return with a nil error inside the main loop bypasses the final write-back (%d found)", early)
		}
		// two levels: a cache written back into another cache goes first
		if len(dirty) >= 2 {
			for _, a := range dirty {
				for _, b := range dirty {
					if a == b || wbPos[a.field] == token.NoPos || wbPos[b.field] == token.NoPos {
						continue
					}
					// a's write-back writes into b?
					into := false
					for _, t := range wb[a.field] {
						if fd, pk := w.FuncDecl(t); fd != nil && w.reaches(pk.TypesInfo, fd.Body, func(fn *types.Func) bool {
							return fn.Name() == "Write" && isCompType(fn.Type().(*types.Signature).Recv().Type(), "LRUCache")
						}) {
							into = true
						}
					}
					if into && a.lineSize <= b.lineSize {
						r.check(wbPos[a.field] < wbPos[b.field], "R05.1", fmt.Sprintf("%s.(CPU).Run:order(%s before %s)", v.rel, a.field.Name(), b.field.Name()), v.run.Pos(), "the inner level (%s) is written back before the outer level (%s)", a.field.Name(), b.field.Name())
					}
				}
			}
		}

		// ---- R05.2 / R05.3 / R05.5 at every insertion
		for _, f := range v.pkg.Syntax {
			for _, d := range f.Decls {
				fd, ok := d.(*ast.FuncDecl)
				if !ok || fd.Body == nil {
					continue
				}
				npush := 0
				ast.Inspect(fd.Body, func(n ast.Node) bool {
					call, ok := n.(*ast.CallExpr)
					if !ok {
						return true
					}
					m := lruMethod(info, call)
					if m != "PushLine" && m != "PushLineWithEvictionWarning" {
						return true
					}
					c := cacheOfExpr(v, byVar, call.Fun.(*ast.SelectorExpr).X)
					if c == nil || !c.dirty {
						return true
					}
					npush++
					site := fmt.Sprintf("%s.%s:%s(%s)", v.rel, declName(fd), m, c.field.Name())
					// R05.3 provenance of the base
					p := pe.of(call.Args[0], 0)
					want := fmt.Sprintf("align:%d", c.lineSize)
					good := p.onlyPrefix(want, "boundary") && len(p) > 0
					for k := range p {
						if strings.HasPrefix(k, "align:") && k != want {
							good = false
						}
					}
					r.check(good, "R05.3", site+":base", call.Pos(), "the base a line is inserted under comes from the alignment function of the cache's line size (%d) or from a resident line's boundary; provenance: {%s}", c.lineSize, p)
					// R05.5 inserted only under an absence test
					if m == "PushLineWithEvictionWarning" {
						guarded := false
						for _, st := range fd.Body.List {
							if st.Pos() > call.Pos() {
								break
							}
							if is, ok := st.(*ast.IfStmt); ok && terminates(is.Body.List) {
								if w.reaches(info, is.Cond, func(fn *types.Func) bool {
									sig := fn.Type().(*types.Signature)
									return (fn.Name() == "Get" || fn.Name() == "GetCacheLine") && sig.Recv() != nil && isCompType(sig.Recv().Type(), "LRUCache")
								}) {
									guarded = true
								}
							}
						}
						r.check(guarded, "R05.5", site+":absent", call.Pos(), "a line is inserted only after a presence test of its base returned false (no second copy of a line)")
					}
					// R05.2 what happens to the displaced line
					if m == "PushLine" {
						var ev types.Object
						ast.Inspect(fd.Body, func(k ast.Node) bool {
							if as, ok := k.(*ast.AssignStmt); ok && len(as.Rhs) == 1 && ast.Unparen(as.Rhs[0]) == ast.Expr(call) && len(as.Lhs) == 1 {
								if id, ok := as.Lhs[0].(*ast.Ident); ok {
									ev = info.Defs[id]
									if ev == nil {
										ev = info.Uses[id]
									}
								}
							}
							return true
						})
						// the victim (a *Line) must be written back: some call receives BOTH ev.Boundary[0] (possibly
						// converted) as the address and ev.Data as the bytes
						mode := "victim-discarded"
						wbPos := token.NoPos
						if ev != nil {
							mode = "victim-not-written"
							isField := func(e ast.Expr, field string) bool {
								e = ast.Unparen(stripConv(info, e))
								if ix, ok := e.(*ast.IndexExpr); ok && field == "Boundary" {
									if c0, ok := constInt64(info.Types[ix.Index]); !ok || c0 != 0 {
										return false
									}
									e = ast.Unparen(ix.X)
								} else if field == "Boundary" {
									return false
								}
								sel, ok := e.(*ast.SelectorExpr)
								if !ok || sel.Sel.Name != field {
									return false
								}
								id, ok := ast.Unparen(sel.X).(*ast.Ident)
								return ok && info.Uses[id] == ev
							}
							ast.Inspect(fd.Body, func(k ast.Node) bool {
								c2, ok := k.(*ast.CallExpr)
								if !ok || c2 == call {
									return true
								}
								hasData, hasBase, hasNewBase := false, false, false
								for _, a := range c2.Args {
									if isField(a, "Data") {
										hasData = true
									}
									if isField(a, "Boundary") {
										hasBase = true
									}
									if types.ExprString(ast.Unparen(stripConv(info, a))) == types.ExprString(ast.Unparen(stripConv(info, call.Args[0]))) {
										hasNewBase = true
									}
								}
								switch {
								case hasData && hasBase:
									mode = "victim-written-at-its-own-base"
									wbPos = c2.Pos()
								case hasData && hasNewBase && mode != "victim-written-at-its-own-base":
									mode = "victim-written-at-the-inserted-line's-address"
								case hasData && mode == "victim-not-written":
									mode = "victim-written-at-unknown-address"
								}
								return true
							})
						}
						// nothing leaves the function between the insertion and the write-back, except "there is no victim"
						if mode == "victim-written-at-its-own-base" && wbPos != token.NoPos && ev != nil {
							ast.Inspect(fd.Body, func(k ast.Node) bool {
								is, ok := k.(*ast.IfStmt)
								if ok {
									if b, ok := ast.Unparen(is.Cond).(*ast.BinaryExpr); ok && b.Op == token.EQL && info.Types[b.Y].IsNil() {
										if id, ok := ast.Unparen(b.X).(*ast.Ident); ok && info.Uses[id] == ev {
											return false // the guard "no victim": its return is legitimate
										}
									}
								}
								if rs, ok := k.(*ast.ReturnStmt); ok && rs.Pos() > call.End() && rs.Pos() < wbPos {
									mode = "victim-not-written-on-an-early-return"
								}
								return true
							})
						}
						r.check(mode == "victim-written-at-its-own-base", "R05.2", site+":victim-written-back", call.Pos(), "inserting into a full cache displaces the least recently used line; its bytes are written back at ITS OWN base (this caller: %s)", mode)
					} else {
						// the warning form: the victim's boundary must reach an eviction request
						used := false
						for _, f2 := range v.pkg.Syntax {
							ast.Inspect(f2, func(k ast.Node) bool {
								c2, ok := k.(*ast.CallExpr)
								if !ok {
									return true
								}
								for _, a := range c2.Args {
									if ix, ok := ast.Unparen(a).(*ast.IndexExpr); ok {
										if sel, ok := ast.Unparen(ix.X).(*ast.SelectorExpr); ok && sel.Sel.Name == "Boundary" {
											if id, ok := ast.Unparen(sel.X).(*ast.Ident); ok {
												if vv, ok := info.Uses[id].(*types.Var); ok && typeName(vv.Type()) == "*Line" {
													used = true
												}
											}
										}
									}
								}
								return true
							})
						}
						r.check(used, "R05.2", site+":victim-evicted", call.Pos(), "the line reported as displaced is evicted through a request addressed by its own boundary")
					}
					return true
				})
			}
		}

		// ---- R05.4 store routing and line fill
		for _, f := range v.pkg.Syntax {
			for _, d := range f.Decls {
				fd, ok := d.(*ast.FuncDecl)
				if !ok || fd.Body == nil {
					continue
				}
				sig, _ := info.Defs[fd.Name].Type().(*types.Signature)
				if sig == nil {
					continue
				}
				// (a) presence predicate of a store: func(risc.Execution) bool
				if sig.Params().Len() == 1 && typeName(sig.Params().At(0).Type()) == "Execution" && sig.Results().Len() == 1 && typeName(sig.Results().At(0).Type()) == "bool" {
					ok := storePresenceCoversAll(w, v, fd)
					r.check(ok, "R05.4", fmt.Sprintf("%s.%s:all-bytes", v.rel, declName(fd)), fd.Pos(), "the presence test that routes a store to the cache looks up every byte address of the store (a store whose first byte is resident but whose last is not would be written past the line)")
				}
				// (b) line fill: reads the image at the base it reports / is given
				readsImage := false
				var baseIdent *ast.Ident
				ast.Inspect(fd.Body, func(n ast.Node) bool {
					ix, ok := n.(*ast.IndexExpr)
					if !ok || ctxFieldWritten(info, ix.X) != "Memory" {
						return true
					}
					// Memory[int(B)+i]
					if b, ok := ast.Unparen(ix.Index).(*ast.BinaryExpr); ok && b.Op == token.ADD {
						if id, ok := ast.Unparen(stripConv(info, b.X)).(*ast.Ident); ok {
							readsImage = true
							baseIdent = id
						}
					}
					return true
				})
				if readsImage && sig.Results().Len() >= 1 && strings.HasPrefix(typeName(sig.Results().At(sig.Results().Len()-1).Type()), "[]int8") && fd.Name.Name != "getFromMemory" {
					key := fmt.Sprintf("%s.%s:fill-base", v.rel, declName(fd))
					bobj := info.Uses[baseIdent]
					good := false
					why := ""
					if sig.Results().Len() == 2 {
						// the base read from is the base returned
						ast.Inspect(fd.Body, func(n ast.Node) bool {
							if rs, ok := n.(*ast.ReturnStmt); ok && len(rs.Results) == 2 {
								if id, ok := ast.Unparen(rs.Results[0]).(*ast.Ident); ok && info.Uses[id] == bobj {
									good = true
								}
							}
							return true
						})
						why = "returns the base it read from"
					} else {
						// the base read from is the address parameter itself, unmodified
						for i := 0; i < sig.Params().Len(); i++ {
							if sig.Params().At(i) == bobj {
								good = true
							}
						}
						if assignedIn(fd.Body, info)[bobj] {
							good = false
						}
						why = "reads at the address it is given (the caller inserts the line under that address)"
					}
					r.check(good, "R05.4", key, fd.Pos(), "the line fill reads the image at the base the line is then inserted under: %s", why)
				}
			}
		}

		ruleTableKeys(r, "R05.6", v, pe)
		ruleProbeNotCached(r, "R05.8", v, byVar)
	}
	// R05.9: a line fill pads exactly the bytes outside the image; R05.10: the write-back skips bytes below 0
	r.floor("R05.9", 9)
	ruleLineFillExact(r, "R05.9")
	r.floor("R05.10", 9)
	ruleWriteBackBounds(r, "R05.10")
	r.floor("R05.11", 1)
	ruleFinalWriteBackBranches(r, "R05.11")
	// a miss installs the bytes the image holds WHEN the line is installed (shared with C10)
	r.floor("R05.24", 4)
	rulePendingIntervalCoversLine(r, "R05.24")
	r.floor("R05.23", 3)
	ruleModifiedLeavesByWriteBack(r, "R05.23")
	r.floor("R05.22", 6)
	rulePresenceGuardsSameCache(r, "R05.22")
	r.floor("R05.21", 15)
	ruleProbeTruthful(r, "R05.21")
	r.floor("R05.20", 9)
	ruleLineFillLength(r, "R05.20")
	r.floor("R05.18", 2)
	ruleDirtyFlagLifeCycle(r, "R05.18")
	r.floor("R05.17", 4)
	rulePendingRangeClosed(r, "R05.17")
	r.floor("R05.16", 10)
	ruleProbeResultChecked(r, "R05.16")
	r.floor("R05.15", 6)
	ruleStoreRoutingPolarity(r, "R05.15")
	r.floor("R05.14", 10)
	ruleLoadDataReachesRun(r, "R05.14")
	r.floor("R05.12", 4)
	ruleLoadSampling(r, "R05.12", "R05.13")
	// R05.7: the cache component the variants are built on equals its reference model
	r.floor("R05.7", 12)
	for _, m := range []string{"get", "set"} {
		conform(r, "R05.7", "proc/comp", "Line", m, "comp_cache", nil)
	}
	for _, m := range []string{"ExistingLines", "Get", "GetCacheLine", "GetSubCacheLine", "EvictCacheLine", "Write", "PushLine", "PushLineWithEvictionWarning", "Lines"} {
		conform(r, "R05.7", "proc/comp", "LRUCache", m, "comp_cache", nil)
	}
	conform(r, "R05.7", "proc/comp", "", "getAlignedMemoryAddress", "comp_cache", nil)
}

// ruleProbeNotCached (R05.8): the answer of a cache presence probe is used in the step
// that asked. A closure that runs as several coroutine steps (one call per cycle) must
// not keep the answer in a variable captured from outside: another core may install or
// evict the line between two steps, and routing a write-back on the stale answer sends
// the data to the wrong level.
func ruleProbeNotCached(r *Run, rule string, v *variant, byVar map[*types.Var]*cacheInfo) {
	info := v.info
	w := r.W
	// presence probes: functions of the variant returning bool (last result) that reach LRUCache.Get/GetCacheLine/GetSubCacheLine
	isProbe := func(call *ast.CallExpr) bool {
		fn, ok := typeutil.Callee(info, call).(*types.Func)
		if !ok {
			return false
		}
		sig := fn.Type().(*types.Signature)
		if sig.Results().Len() == 0 || typeName(sig.Results().At(sig.Results().Len()-1).Type()) != "bool" {
			return false
		}
		if sig.Recv() != nil && isCompType(sig.Recv().Type(), "LRUCache") {
			return fn.Name() == "Get" || fn.Name() == "GetCacheLine" || fn.Name() == "GetSubCacheLine"
		}
		fd, _ := w.FuncDecl(fn)
		if fd == nil || fd.Body == nil || fn.Pkg() != v.pkg.Types {
			return false
		}
		return w.reaches(info, fd.Body, func(g *types.Func) bool {
			s2 := g.Type().(*types.Signature)
			return s2.Recv() != nil && isCompType(s2.Recv().Type(), "LRUCache") && (g.Name() == "Get" || g.Name() == "GetCacheLine" || g.Name() == "GetSubCacheLine")
		})
	}
	for _, f := range v.pkg.Syntax {
		for _, d := range f.Decls {
			fd, ok := d.(*ast.FuncDecl)
			if !ok || fd.Body == nil {
				continue
			}
			n := 0
			var walk func(node ast.Node, lit *ast.FuncLit)
			walk = func(node ast.Node, lit *ast.FuncLit) {
				ast.Inspect(node, func(m ast.Node) bool {
					if m == nil || m == node {
						return true
					}
					if l2, ok := m.(*ast.FuncLit); ok {
						walk(l2.Body, l2)
						return false
					}
					as, ok := m.(*ast.AssignStmt)
					if !ok || lit == nil || as.Tok != token.ASSIGN {
						return true
					}
					for i, rhs := range as.Rhs {
						call, ok := ast.Unparen(rhs).(*ast.CallExpr)
						if !ok || !isProbe(call) {
							continue
						}
						// the variable that receives the bool answer
						var target ast.Expr
						if len(as.Rhs) == 1 && len(as.Lhs) > 1 {
							target = as.Lhs[len(as.Lhs)-1]
						} else if i < len(as.Lhs) {
							target = as.Lhs[i]
						}
						id, ok := target.(*ast.Ident)
						if !ok || id.Name == "_" {
							continue
						}
						obj := info.Uses[id]
						if obj == nil {
							continue
						}
						// declared outside this closure => it survives the step
						if obj.Pos() < lit.Pos() || obj.Pos() > lit.End() {
							n++
							r.bad(rule, fmt.Sprintf("%s.%s:cached-probe#%d", v.rel, declName(fd), n), as.Pos(), "the answer of the presence probe %s is kept in %s, a variable that outlives the coroutine step: later steps route on a stale answer", types.ExprString(call.Fun), id.Name)
						}
					}
					return true
				})
			}
			walk(fd.Body, nil)
		}
	}
	_ = byVar
}

func stripConv(info *types.Info, e ast.Expr) ast.Expr {
	for {
		e = ast.Unparen(e)
		call, ok := e.(*ast.CallExpr)
		if !ok || len(call.Args) != 1 {
			return e
		}
		if tv, ok := info.Types[call.Fun]; !ok || !tv.IsType() {
			return e
		}
		e = call.Args[0]
	}
}

// storePresenceCoversAll: the predicate ranges over Execution.MemoryChanges and
// every key reaches a cache lookup (directly, or collected into a slice that is
// looked up element by element with an early false).
func storePresenceCoversAll(w *World, v *variant, fd *ast.FuncDecl) bool {
	info := v.info
	var rng *ast.RangeStmt
	ast.Inspect(fd.Body, func(n ast.Node) bool {
		if rs, ok := n.(*ast.RangeStmt); ok {
			if sel, ok := ast.Unparen(rs.X).(*ast.SelectorExpr); ok && sel.Sel.Name == "MemoryChanges" && rs.Key != nil {
				rng = rs
			}
		}
		return true
	})
	if rng == nil {
		return false
	}
	keyObj := info.Defs[rng.Key.(*ast.Ident)]
	// (1) lookup inside the range body with an early `return false`
	direct := false
	ast.Inspect(rng.Body, func(n ast.Node) bool {
		if call, ok := n.(*ast.CallExpr); ok && lruMethod(info, call) == "Get" && len(call.Args) == 1 {
			if id, ok := ast.Unparen(call.Args[0]).(*ast.Ident); ok && info.Uses[id] == keyObj {
				direct = true
			}
		}
		return true
	})
	if direct {
		return true
	}
	// (2) keys appended to a slice S (possibly sorted) and then every element of S looked up
	var slice types.Object
	ast.Inspect(rng.Body, func(n ast.Node) bool {
		if as, ok := n.(*ast.AssignStmt); ok && len(as.Lhs) == 1 && len(as.Rhs) == 1 {
			if call, ok := as.Rhs[0].(*ast.CallExpr); ok {
				if id, ok := call.Fun.(*ast.Ident); ok && id.Name == "append" && len(call.Args) == 2 {
					if a, ok := ast.Unparen(call.Args[1]).(*ast.Ident); ok && info.Uses[a] == keyObj {
						if l, ok := as.Lhs[0].(*ast.Ident); ok {
							slice = info.Uses[l]
						}
					}
				}
			}
		}
		return true
	})
	if slice == nil {
		return false
	}
	all := false
	ast.Inspect(fd.Body, func(n ast.Node) bool {
		switch x := n.(type) {
		case *ast.RangeStmt:
			// for _, a := range S { if _, ok := cache.Get(a); !ok { return false } }
			if id, ok := ast.Unparen(x.X).(*ast.Ident); ok && info.Uses[id] == slice && x.Value != nil {
				vobj := info.Defs[x.Value.(*ast.Ident)]
				ast.Inspect(x.Body, func(m ast.Node) bool {
					if call, ok := m.(*ast.CallExpr); ok && lruMethod(info, call) == "Get" && len(call.Args) == 1 {
						if a, ok := ast.Unparen(call.Args[0]).(*ast.Ident); ok && info.Uses[a] == vobj {
							all = true
						}
					}
					return true
				})
			}
		case *ast.CallExpr:
			// helper(S): a function that looks up every element of its slice parameter
			for i, a := range x.Args {
				if id, ok := ast.Unparen(a).(*ast.Ident); ok && info.Uses[id] == slice {
					if f, ok := typeutil.Callee(info, x).(*types.Func); ok {
						if fd2, pk2 := w.FuncDecl(f); fd2 != nil && fd2.Body != nil {
							if looksUpEveryElement(pk2.TypesInfo, fd2, i) {
								all = true
							}
						}
					}
				}
			}
		}
		return true
	})
	return all
}

func looksUpEveryElement(info *types.Info, fd *ast.FuncDecl, paramIdx int) bool {
	var pobj types.Object
	k := 0
	for _, fl := range fd.Type.Params.List {
		for _, nm := range fl.Names {
			if k == paramIdx {
				pobj = info.Defs[nm]
			}
			k++
		}
	}
	if pobj == nil {
		return false
	}
	ok := false
	ast.Inspect(fd.Body, func(n ast.Node) bool {
		rs, isR := n.(*ast.RangeStmt)
		if !isR || rs.Value == nil {
			return true
		}
		if id, isI := ast.Unparen(rs.X).(*ast.Ident); !isI || info.Uses[id] != pobj {
			return true
		}
		vobj := info.Defs[rs.Value.(*ast.Ident)]
		ast.Inspect(rs.Body, func(m ast.Node) bool {
			if call, isC := m.(*ast.CallExpr); isC && lruMethod(info, call) == "Get" && len(call.Args) == 1 {
				if a, isA := ast.Unparen(call.Args[0]).(*ast.Ident); isA && info.Uses[a] == vobj {
					ok = true
				}
			}
			return true
		})
		return true
	})
	return ok
}

// ruleTableKeys: every per-line table (a map keyed by an aligned address, or by
// (core, aligned address)) is keyed through one alignment level.
func ruleTableKeys(r *Run, rule string, v *variant, pe *provEngine) {
	info := v.info
	keyTags := map[*types.Var]provSet{}
	keyPos := map[*types.Var]token.Pos{}
	pe.fieldsNeutral = true
	for _, f := range v.pkg.Syntax {
		ast.Inspect(f, func(n ast.Node) bool {
			var ix *ast.IndexExpr
			switch x := n.(type) {
			case *ast.IndexExpr:
				ix = x
			case *ast.CallExpr:
				if id, ok := x.Fun.(*ast.Ident); ok && id.Name == "delete" && len(x.Args) == 2 {
					ix = &ast.IndexExpr{X: x.Args[0], Index: x.Args[1]}
				}
			}
			if ix == nil {
				return true
			}
			sel, ok := ast.Unparen(ix.X).(*ast.SelectorExpr)
			if !ok {
				return true
			}
			s := info.Selections[sel]
			if s == nil || s.Kind() != types.FieldVal {
				return true
			}
			mt, ok := s.Obj().Type().Underlying().(*types.Map)
			if !ok {
				return true
			}
			fv := s.Obj().(*types.Var)
			var p provSet
			if typeName(mt.Key()) == "AlignedAddress" {
				p = pe.of(ix.Index, 0)
			} else if st := structOf(mt.Key()); st != nil && st.NumFields() == 2 {
				// (core, line) keys; tables whose key also carries a request kind hold entries of several levels by design
				for i := 0; i < st.NumFields(); i++ {
					if typeName(st.Field(i).Type()) == "AlignedAddress" {
						pe.fieldsNeutral = false
						p = pe.fieldProv(st.Field(i), 0)
						pe.fieldsNeutral = true
						delete(p, "field")
					}
				}
			}
			if p == nil {
				return true
			}
			if keyTags[fv] == nil {
				keyTags[fv] = provSet{}
				keyPos[fv] = ix.Pos()
			}
			keyTags[fv].add(p)
			if os.Getenv("MAJ_DEBUG_TABLE") != "" {
				fmt.Fprintf(os.Stderr, "table %s at %s: %s\n", fv.Name(), r.W.Fset.Position(ix.Pos()), p)
			}
			return true
		})
	}
	var kf []*types.Var
	for fv := range keyTags {
		kf = append(kf, fv)
	}
	sort.Slice(kf, func(i, j int) bool { return kf[i].Name() < kf[j].Name() })
	for _, fv := range kf {
		p := keyTags[fv]
		aligns := 0
		bad := false
		for k := range p {
			switch {
			case strings.HasPrefix(k, "align:"):
				aligns++
			case k == "boundary", k == "field":
			default:
				bad = true
			}
		}
		r.check(aligns == 1 && !bad, rule, fmt.Sprintf("%s:table(%s)", v.rel, fv.Name()), keyPos[fv], "every key of the per-line table %s comes from one alignment function (or a line boundary); provenance of the keys: {%s}", fv.Name(), p)
	}
}
