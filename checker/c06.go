package main

// C06 — MSI coherence invariants hold at every cycle on the multi-core variants.
// Decided: the per-transition obligations a proof of the invariants would start
// from. Not decided: the per-cycle invariants under every interleaving of
// requests (reachability over protocol states x coroutine positions: a
// model-checking question, not this family's).

import (
	"fmt"
	"go/ast"
	"go/token"
	"go/types"
	"sort"
	"strings"

	"golang.org/x/tools/go/types/typeutil"
)

func init() {
	register(&propSpec{
		ID:          "C06",
		Level:       "other",
		Run:         runC06,
		Explanation: "Per-transition obligations on MVP-7.0, 7.1 and 8.0: R06.1 the per-core line state table is written only by the state setter (called only inside the completion closures handed out with a lock) and by the command-completion callback (to Invalid); R06.2 the transition table extracted from the read-lock / write-lock functions and the request builders equals the MSI table (read@I: shared lock, write-back from a Modified holder, then Shared; read@S: shared lock; read@M: exclusive lock; write@I: exclusive, write-back M / evict S, then Modified; write@S: exclusive, invalidate others, then Modified; write@M: exclusive); R06.3 a write-back snoop writes the line to the next level before removing it from L1 and before completing, an evict snoop removes then completes; R06.5 every per-line table is keyed through one alignment level and L1 insertions are presence-guarded; R06.7 the base a line is inserted under in a data cache comes from the alignment function of that cache's line size or from a resident line's boundary (lines are size-aligned); R06.8 a line is inserted in L1 only after a presence test of its base returned false (never two copies of one line); R06.11 the bytes read out of a cache are written to the next level at the address they were read at; R06.16 the flush of a controller returns its suspendable coroutines (read, write) to their start: an access abandoned by a flush must not be resumed by the next one (it would install a stale line and mark it Modified without the lock); R06.14 the per-line reader/writer lock (comp.Sem) equals its reference model (readers share, a writer excludes everybody, refusals change nothing); R06.15 the lock handed out for a line is the one stored in the table under the line's key; R06.13 every snoop job completes its command before reporting completion, done() raises the flag and runs the callback, and the callback removes the command from the table under its own key; R06.12 a controller waits for ALL the commands it sent to the other cores; R06.9 a line fill pads exactly the bytes outside the memory image (the index is compared with the image length itself); R06.10 a Modified holder of the line is always asked to write back and the request is among the pendings the requester waits for; R06.6 per-line lock counters cannot go negative (acquire/release kinds pair; recorded handles are released with the kind they were acquired with; flush deletes from the table it ranges over). The per-cycle invariants under all request interleavings are NOT decided. R06.17 the lock functions of the coherence layer either tell an access to wait or hand out the line lock they acquired for it (no proceed-response without a lock). R06.18 (MVP-8) the handler of a snoop command operates on the cache of the command's level: one cache per case, one cache per command constructor, different caches for the two constructors. R06.19 with several data caches, a presence test and the first cache operation it governs concern the same cache. R06.20 a per-line lock held while a cache is operated on is keyed at that cache's line size. R06.21 a line in the Modified state leaves a core's cache by the command whose handler writes it to the next level; a line in another state by one that does not. R06.22 the entry of an access coroutine resets and suspends only its own coroutine and forgets lock handles only from a table it records them in. R06.23 the read access of a cache controller takes the read lock of the line, the write access the write lock (kinds read off the request type and the states the lock function can leave). R06.24 the result of an attempt to take a line lock is never discarded.",
		Assumptions: []string{"request interleavings are not explored"},
		Trusted:     []string{"go/types", "the MSI table in checker/c06.go", "address provenance engine"},
	})
}

type msiRow struct {
	lockKind string // RLock / Lock
	builder  string // which other-core request builder is called: read / write / invalidate / none
	next     int64  // state set in the completion closure; -1 none
}

// the MSI table: op x state -> row   (states: 0 Invalid, 1 Shared, 2 Modified)
var msiTable = map[string]map[int64]msiRow{
	"read": {
		0: {"RLock", "read", 1},
		1: {"RLock", "none", -1},
		2: {"Lock", "none", -1},
	},
	"write": {
		0: {"Lock", "write", 2},
		1: {"Lock", "invalidate", 2},
		2: {"Lock", "none", -1},
	},
}

// what each builder asks of a core holding the line in state S(1) / M(2): "evict", "writeBack" or "" (nothing)
var builderTable = map[string]map[int64]string{
	"read":       {1: "", 2: "writeBack"},
	"write":      {1: "evict", 2: "writeBack"},
	"invalidate": {1: "evict", 2: "writeBack"},
}

func runC06(r *Run) {
	w := r.W
	r.floor("R06.1", 9)
	r.floor("R06.2", 27)
	r.floor("R06.3", 8)
	r.floor("R06.5", 12)
	r.floor("R06.9", 3)
	r.floor("R06.10", 9)
	r.floor("R06.7", 3)
	r.floor("R06.8", 3)
	r.floor("R06.6", 30)
	for _, v := range variants(w) {
		if v.pkg == nil {
			continue
		}
		// the MSI directory type: a struct with a map field whose value type is an integer alias and whose key is a (core, line) struct
		var states *types.Var
		scope := v.pkg.Types.Scope()
		for _, n := range scope.Names() {
			tn, ok := scope.Lookup(n).(*types.TypeName)
			if !ok {
				continue
			}
			st, ok := tn.Type().Underlying().(*types.Struct)
			if !ok {
				continue
			}
			for i := 0; i < st.NumFields(); i++ {
				if mt, ok := st.Field(i).Type().Underlying().(*types.Map); ok {
					if ks := structOf(mt.Key()); ks != nil && ks.NumFields() == 2 {
						if b, ok := mt.Elem().Underlying().(*types.Basic); ok && b.Info()&types.IsInteger != 0 && strings.Contains(strings.ToLower(st.Field(i).Name()), "state") {
							states = st.Field(i)
						}
					}
				}
			}
		}
		if states == nil {
			continue
		}
		r.anchor(v.name+" state table", states.Name())
		info := v.info
		ruleStateWriters(r, v, states)
		ruleTransitionTable(r, v, states)
		ruleSnoopOrder(r, v, "R06.3")
		pe := newProvEngine(w, v.pkg)
		_, byVar := resolvedCaches(w, v)
		pe.cacheLine = func(e ast.Expr) int64 {
			if c := cacheOfExpr(v, byVar, e); c != nil {
				return c.lineSize
			}
			return 0
		}
		ruleTableKeys(r, "R06.5", v, pe)
		ruleL1Insertions(r, v, byVar, pe)
		_ = info
	}
	ruleLineFillExact(r, "R06.9")
	r.floor("R06.11", 5)
	ruleWriteBackAddress(r, "R06.11")
	r.floor("R06.22", 10)
	ruleAccessOwnsItsBookkeeping(r, "R06.22")
	r.floor("R06.24", 15)
	ruleLockResultTested(r, "R06.24")
	r.floor("R06.23", 6)
	ruleAccessTakesItsLock(r, "R06.23")
	r.floor("R06.21", 3)
	ruleModifiedLeavesByWriteBack(r, "R06.21")
	r.floor("R06.20", 2)
	ruleLockCoversItsLine(r, "R06.20")
	r.floor("R06.19", 6)
	rulePresenceGuardsSameCache(r, "R06.19")
	r.floor("R06.18", 5)
	ruleSnoopActsOnItsLevel(r, "R06.18")
	r.floor("R06.17", 15)
	ruleProceedHoldsLock(r, "R06.17")
	r.floor("R06.16", 15)
	ruleFlushResetsCoroutines(r, "R06.16")
	r.floor("R06.14", 4)
	ruleSemConformance(r, "R06.14")
	r.floor("R06.15", 3)
	ruleOneLockPerLine(r, "R06.15")
	r.floor("R06.13", 15)
	ruleSnoopCommandsComplete(r, "R06.13")
	r.floor("R06.12", 6)
	ruleWaitsForAllPendings(r, "R06.12")
	// R06.6 = R07.4
	before := len(r.Obs)
	ruleLockDiscipline(r, "R06.6")
	for _, o := range r.Obs[before:] {
		o.Rule = "R06.6"
	}
}

// ruleStateWriters: R06.1.
func ruleStateWriters(r *Run, v *variant, states *types.Var) {
	info := v.info
	var setter *types.Func
	for _, f := range v.pkg.Syntax {
		for _, d := range f.Decls {
			fd, ok := d.(*ast.FuncDecl)
			if !ok || fd.Body == nil {
				continue
			}
			n := 0
			var visit func(node ast.Node, inLit *ast.FuncLit)
			visit = func(node ast.Node, inLit *ast.FuncLit) {
				ast.Inspect(node, func(m ast.Node) bool {
					if lit, ok := m.(*ast.FuncLit); ok && lit != inLit {
						visit(lit.Body, lit)
						return false
					}
					as, ok := m.(*ast.AssignStmt)
					if !ok {
						return true
					}
					for i, l := range as.Lhs {
						ix, ok := l.(*ast.IndexExpr)
						if !ok {
							continue
						}
						sel, ok := ast.Unparen(ix.X).(*ast.SelectorExpr)
						if !ok {
							continue
						}
						if s := info.Selections[sel]; s == nil || s.Obj() != states {
							continue
						}
						n++
						key := fmt.Sprintf("%s.%s:write(%s)#%d", v.rel, declName(fd), states.Name(), n)
						if inLit != nil {
							// a completion callback: only the transition to Invalid (0)
							c, isC := constInt64(info.Types[as.Rhs[i]])
							r.check(isC && c == 0, "R06.1", key, as.Pos(), "inside a callback the state table is only ever set to Invalid (the completion of an evict / write-back command)")
							continue
						}
						// the setter: a function that does nothing else with protocol state
						if o, ok := info.Defs[fd.Name].(*types.Func); ok {
							setter = o
						}
						r.ok("R06.1", key, as.Pos(), "the state setter %s", declName(fd))
					}
					return true
				})
			}
			visit(fd.Body, nil)
		}
	}
	if setter == nil {
		r.bad("R06.1", v.rel+":state-setter", token.NoPos, "no state setter found")
		return
	}
	// every call of the setter is inside a function literal (a completion closure), in a function that hands out a lock handle
	for _, f := range v.pkg.Syntax {
		for _, d := range f.Decls {
			fd, ok := d.(*ast.FuncDecl)
			if !ok || fd.Body == nil {
				continue
			}
			n := 0
			var visit func(node ast.Node, inLit bool)
			visit = func(node ast.Node, inLit bool) {
				ast.Inspect(node, func(m ast.Node) bool {
					if lit, ok := m.(*ast.FuncLit); ok {
						visit(lit.Body, true)
						return false
					}
					c, ok := m.(*ast.CallExpr)
					if !ok {
						return true
					}
					if fn, ok := typeutil.Callee(info, c).(*types.Func); ok && fn.Origin() == setter {
						n++
						handsOutLock := false
						if fd.Type.Results != nil {
							for _, fl := range fd.Type.Results.List {
								if isCompType(info.TypeOf(fl.Type), "Sem") {
									handsOutLock = true
								}
							}
						}
						r.check(inLit && handsOutLock, "R06.1", fmt.Sprintf("%s.%s:call(%s)#%d", v.rel, declName(fd), setter.Name(), n), c.Pos(), "the state changes only in the completion closure handed out together with the line lock (never at lock time)")
					}
					return true
				})
			}
			visit(fd.Body, false)
		}
	}
}

// ruleTransitionTable: R06.2.
func ruleTransitionTable(r *Run, v *variant, states *types.Var) {
	info := v.info
	w := r.W
	// request builders: functions that range over the state table and call the command sender with a request constant
	type builder struct {
		fn    *types.Func
		sends map[int64]string // holder state -> request kind name
	}
	builders := map[*types.Func]*builder{}
	for _, f := range v.pkg.Syntax {
		for _, d := range f.Decls {
			fd, ok := d.(*ast.FuncDecl)
			if !ok || fd.Body == nil {
				continue
			}
			ast.Inspect(fd.Body, func(n ast.Node) bool {
				rs, ok := n.(*ast.RangeStmt)
				if !ok {
					return true
				}
				sel, ok := ast.Unparen(rs.X).(*ast.SelectorExpr)
				if !ok {
					return true
				}
				if s := info.Selections[sel]; s == nil || s.Obj() != states {
					return true
				}
				b := &builder{sends: map[int64]string{}}
				ast.Inspect(rs.Body, func(m ast.Node) bool {
					cc, ok := m.(*ast.CaseClause)
					if !ok {
						return true
					}
					for _, e := range cc.List {
						st, ok := constInt64(info.Types[e])
						if !ok {
							continue
						}
						ast.Inspect(cc, func(k ast.Node) bool {
							if c, ok := k.(*ast.CallExpr); ok && len(c.Args) >= 1 {
								last := c.Args[len(c.Args)-1]
								if id, ok := ast.Unparen(last).(*ast.Ident); ok {
									if co, ok := info.Uses[id].(*types.Const); ok {
										b.sends[st] = co.Name()
									}
								}
							}
							return true
						})
					}
					return true
				})
				if len(b.sends) > 0 {
					if o, ok := info.Defs[fd.Name].(*types.Func); ok {
						b.fn = o
						builders[o] = b
					}
				}
				return true
			})
		}
	}
	// classify each builder by what it sends
	kindOf := func(req string) string {
		l := strings.ToLower(req)
		switch {
		case strings.Contains(l, "writeback"):
			return "writeBack"
		case strings.Contains(l, "evict"):
			return "evict"
		}
		return req
	}
	builderClass := map[*types.Func]string{}
	{
		var bfds []*ast.FuncDecl
		for fn := range builders {
			if fd, _ := w.FuncDecl(fn); fd != nil {
				bfds = append(bfds, fd)
			}
		}
		sort.Slice(bfds, func(i, j int) bool { return bfds[i].Pos() < bfds[j].Pos() })
		ruleModifiedHolderAsked(r, "R06.10", v, bfds)
	}
	for fn, b := range builders {
		s, m := kindOf(b.sends[1]), kindOf(b.sends[2])
		if _, has := b.sends[1]; !has {
			s = ""
		}
		if _, has := b.sends[2]; !has {
			m = ""
		}
		for name, row := range builderTable {
			if row[1] == s && row[2] == m {
				if builderClass[fn] == "" || name == "write" { // write and invalidate ask the same; told apart by the caller's state below
					builderClass[fn] = name
				}
			}
		}
		fd, _ := w.FuncDecl(fn)
		okB := builderClass[fn] != ""
		r.check(okB, "R06.2", fmt.Sprintf("%s.%s:requests", v.rel, declName(fd)), fd.Pos(), "the request builder asks a Modified holder for %q and a Shared holder for %q — a row of the MSI table (read: write-back M only; write/invalidate: write-back M, evict S)", m, s)
		// it must skip the requesting core and other lines
		skipsSelf, skipsOther := false, false
		ast.Inspect(fd.Body, func(n ast.Node) bool {
			if is, ok := n.(*ast.IfStmt); ok && len(is.Body.List) == 1 {
				if b, ok := is.Body.List[0].(*ast.BranchStmt); ok && b.Tok == token.CONTINUE {
					// `<param> ==/!= <range key>.<field>` in either order
					if be, ok := ast.Unparen(is.Cond).(*ast.BinaryExpr); ok {
						for _, pair := range [][2]ast.Expr{{be.X, be.Y}, {be.Y, be.X}} {
							pid, ok := ast.Unparen(pair[0]).(*ast.Ident)
							if !ok || !isParamOf(info, fd, pid) {
								continue
							}
							sel, ok := ast.Unparen(pair[1]).(*ast.SelectorExpr)
							if !ok {
								continue
							}
							if _, ok := ast.Unparen(sel.X).(*ast.Ident); !ok {
								continue
							}
							if n := namedOf(info.TypeOf(pid)); n != nil && n.Obj().Name() == "AlignedAddress" {
								if be.Op == token.NEQ {
									skipsOther = true
								}
							} else if be.Op == token.EQL {
								skipsSelf = true
							}
						}
					}
				}
			}
			return true
		})
		r.check(skipsSelf && skipsOther, "R06.2", fmt.Sprintf("%s.%s:scope", v.rel, declName(fd)), fd.Pos(), "the builder addresses only OTHER cores (%v) holding THIS line (%v)", skipsSelf, skipsOther)
	}
	// lock functions: return (response, func(), *Sem), switch over the state
	for _, f := range v.pkg.Syntax {
		for _, d := range f.Decls {
			fd, ok := d.(*ast.FuncDecl)
			if !ok || fd.Body == nil || fd.Type.Results == nil {
				continue
			}
			returnsSem := false
			for _, fl := range fd.Type.Results.List {
				if isCompType(info.TypeOf(fl.Type), "Sem") {
					returnsSem = true
				}
			}
			if !returnsSem {
				continue
			}
			// which operation? the kind acquired in the Shared case decides: RLock = read, Lock = write
			rows := map[int64]msiRow{}
			var poss = map[int64]token.Pos{}
			ast.Inspect(fd.Body, func(n ast.Node) bool {
				cc, ok := n.(*ast.CaseClause)
				if !ok || len(cc.List) != 1 {
					return true
				}
				st, ok := constInt64(info.Types[cc.List[0]])
				if !ok {
					return true
				}
				row := msiRow{builder: "none", next: -1}
				for _, k := range semCallsIn(info, cc, true) {
					if _, isAcq := releaseOf[k]; isAcq {
						row.lockKind = k
					}
				}
				ast.Inspect(cc, func(m ast.Node) bool {
					switch x := m.(type) {
					case *ast.CallExpr:
						if fn, ok := typeutil.Callee(info, x).(*types.Func); ok {
							if cls, isB := builderClass[fn.Origin()]; isB {
								row.builder = cls
								// write vs invalidate share their requests: the name of the table row follows the state
								if cls == "write" && st == 1 {
									row.builder = "invalidate"
								}
							}
						}
					case *ast.FuncLit:
						ast.Inspect(x.Body, func(k ast.Node) bool {
							if c, ok := k.(*ast.CallExpr); ok && len(c.Args) >= 1 {
								if nv, ok := constInt64(info.Types[c.Args[len(c.Args)-1]]); ok {
									if fn, ok := typeutil.Callee(info, c).(*types.Func); ok && strings.Contains(strings.ToLower(fn.Name()), "state") {
										row.next = nv
									}
								}
							}
							return true
						})
					}
					return true
				})
				rows[st] = row
				poss[st] = cc.Pos()
				return true
			})
			if len(rows) < 3 {
				continue
			}
			op := "write"
			if rows[1].lockKind == "RLock" {
				op = "read"
			}
			var sts []int64
			for st := range rows {
				sts = append(sts, st)
			}
			sort.Slice(sts, func(i, j int) bool { return sts[i] < sts[j] })
			names := map[int64]string{0: "Invalid", 1: "Shared", 2: "Modified"}
			for _, st := range sts {
				got, want := rows[st], msiTable[op][st]
				good := got.lockKind == want.lockKind && got.builder == want.builder && got.next == want.next
				r.check(good, "R06.2", fmt.Sprintf("%s.%s:%s@%s", v.rel, declName(fd), op, names[st]), poss[st], "%s of a line in state %s: lock %s, requests to other cores %q, state afterwards %s (MSI table: lock %s, requests %q, then %s)", op, names[st], got.lockKind, got.builder, stName(got.next), want.lockKind, want.builder, stName(want.next))
			}
		}
	}
}

func stName(s int64) string {
	switch s {
	case -1:
		return "unchanged"
	case 0:
		return "Invalid"
	case 1:
		return "Shared"
	case 2:
		return "Modified"
	}
	return fmt.Sprint(s)
}

// ruleSnoopOrder: R06.3 — in every snoop action, data moves before the line is
// removed, and the line is removed before the command completes.
func ruleSnoopOrder(r *Run, v *variant, rule string) {
	info := v.info
	for _, f := range v.pkg.Syntax {
		for _, d := range f.Decls {
			fd, ok := d.(*ast.FuncDecl)
			if !ok || fd.Body == nil {
				continue
			}
			ast.Inspect(fd.Body, func(n ast.Node) bool {
				cc, ok := n.(*ast.CaseClause)
				if !ok || len(cc.List) != 1 {
					return true
				}
				id, ok := ast.Unparen(cc.List[0]).(*ast.Ident)
				if !ok {
					return true
				}
				co, ok := info.Uses[id].(*types.Const)
				if !ok {
					return true
				}
				kind := strings.ToLower(co.Name())
				if !strings.Contains(kind, "evict") && !strings.Contains(kind, "writeback") {
					return true
				}
				var lit *ast.FuncLit
				ast.Inspect(cc, func(m ast.Node) bool {
					if l, ok := m.(*ast.FuncLit); ok && lit == nil {
						lit = l
					}
					return true
				})
				if lit == nil {
					return true
				}
				// along every straight-line block that ends in `return true`: positions of write / evict / done
				good := true
				why := ""
				ast.Inspect(lit.Body, func(m ast.Node) bool {
					blk, ok := m.(*ast.BlockStmt)
					if !ok || len(blk.List) == 0 {
						return true
					}
					ret, ok := blk.List[len(blk.List)-1].(*ast.ReturnStmt)
					if !ok || len(ret.Results) != 1 || types.ExprString(ret.Results[0]) != "true" {
						return true
					}
					var wPos, ePos, dPos token.Pos
					for _, st := range blk.List {
						ast.Inspect(st, func(k ast.Node) bool {
							if _, isIf := k.(*ast.IfStmt); isIf {
								return false
							}
							c, ok := k.(*ast.CallExpr)
							if !ok {
								return true
							}
							sel, ok := c.Fun.(*ast.SelectorExpr)
							if !ok {
								return true
							}
							switch {
							case sel.Sel.Name == "writeToMemory" || sel.Sel.Name == "writeToL3":
								wPos = c.Pos()
							case sel.Sel.Name == "EvictCacheLine":
								ePos = c.Pos()
							case sel.Sel.Name == "done":
								dPos = c.Pos()
							}
							return true
						})
					}
					if dPos == 0 {
						return true
					}
					if ePos == 0 || ePos > dPos {
						good, why = false, "the command completes (state -> Invalid) before the line is removed from the cache"
					}
					if strings.Contains(kind, "writeback") && (wPos == 0 || wPos > ePos) {
						good, why = false, "a write-back removes the line before its bytes were written to the next level"
					}
					if strings.Contains(kind, "evict") && !strings.Contains(kind, "writeback") && wPos != 0 {
						good, why = false, "a plain eviction writes data"
					}
					return true
				})
				r.check(good, rule, fmt.Sprintf("%s.%s:snoop(%s)", v.rel, declName(fd), co.Name()), cc.Pos(), "in the %s action the data moves to the next level first (write-back only), then the line leaves the cache, then the command completes %s", co.Name(), why)
				return true
			})
		}
	}
}

// isParamOf reports whether id denotes a parameter of fd.
func isParamOf(info *types.Info, fd *ast.FuncDecl, id *ast.Ident) bool {
	obj := info.Uses[id]
	if obj == nil || fd.Type.Params == nil {
		return false
	}
	for _, fl := range fd.Type.Params.List {
		for _, n := range fl.Names {
			if info.Defs[n] == obj {
				return true
			}
		}
	}
	return false
}

// ruleL1Insertions: R06.7 (size-aligned bases) and R06.8 (no second copy) at every
// insertion into a data cache of a multi-core variant.
func ruleL1Insertions(r *Run, v *variant, byVar map[*types.Var]*cacheInfo, pe *provEngine) {
	info := v.info
	w := r.W
	pe.fieldsNeutral = false
	for _, f := range v.pkg.Syntax {
		for _, d := range f.Decls {
			fd, ok := d.(*ast.FuncDecl)
			if !ok || fd.Body == nil {
				continue
			}
			ast.Inspect(fd.Body, func(n ast.Node) bool {
				call, ok := n.(*ast.CallExpr)
				if !ok {
					return true
				}
				m := lruMethod(info, call)
				if m != "PushLine" && m != "PushLineWithEvictionWarning" {
					return true
				}
				c := cacheOfExpr(v, byVar, call.Fun.(*ast.SelectorExpr).X)
				if c == nil || !c.dirty {
					return true
				}
				site := fmt.Sprintf("%s.%s:%s(%s)", v.rel, declName(fd), m, c.field.Name())
				p := pe.of(call.Args[0], 0)
				want := fmt.Sprintf("align:%d", c.lineSize)
				good := p.onlyPrefix(want, "boundary") && len(p) > 0
				for k := range p {
					if strings.HasPrefix(k, "align:") && k != want {
						good = false
					}
				}
				r.check(good, "R06.7", site+":base", call.Pos(), "the base a line is inserted under comes from the alignment function of the cache's line size (%d) or from a resident line's boundary; provenance: {%s}", c.lineSize, p)
				if m == "PushLineWithEvictionWarning" {
					guarded := false
					for _, st := range fd.Body.List {
						if st.Pos() > call.Pos() {
							break
						}
						if is, ok := st.(*ast.IfStmt); ok && terminates(is.Body.List) {
							if w.reaches(info, is.Cond, func(fn *types.Func) bool {
								sig := fn.Type().(*types.Signature)
								return (fn.Name() == "Get" || fn.Name() == "GetCacheLine") && sig.Recv() != nil && isCompType(sig.Recv().Type(), "LRUCache")
							}) {
								guarded = true
							}
						}
					}
					r.check(guarded, "R06.8", site+":absent", call.Pos(), "a line is inserted only after a presence test of its base returned false (no second copy of a line in one L1)")
				}
				return true
			})
		}
	}
}

// ruleLineFillExact (R06.9): a line fill pads exactly the bytes that lie outside the
// memory image: the index is compared with len(image) itself. A stricter bound
// (len-1, a cached `last`) pads a byte that exists: a core then holds a Shared line
// that differs from memory.
func ruleLineFillExact(r *Run, rule string) {
	w := r.W
	for _, v := range variants(w) {
		if v.pkg == nil || !v.pipelined() {
			continue
		}
		info := v.info
		for _, f := range v.pkg.Syntax {
			for _, d := range f.Decls {
				fd, ok := d.(*ast.FuncDecl)
				if !ok || fd.Body == nil {
					continue
				}
				reads := false
				ast.Inspect(fd.Body, func(n ast.Node) bool {
					if ix, ok := n.(*ast.IndexExpr); ok && ctxFieldWritten(info, ix.X) == "Memory" {
						// a read (not the target of an assignment)
						reads = true
					}
					return true
				})
				if !reads || fd.Type.Results == nil {
					continue
				}
				// comparisons with an upper bound: one side must be len(<image>) itself
				n := 0
				var inexact []string
				ast.Inspect(fd.Body, func(m ast.Node) bool {
					b, ok := m.(*ast.BinaryExpr)
					if !ok || (b.Op != token.GEQ && b.Op != token.LSS && b.Op != token.GTR && b.Op != token.LEQ) {
						return true
					}
					// skip sign tests and loop bounds over constants / the line size
					if c, ok := constInt64(info.Types[b.Y]); ok && c == 0 {
						return true
					}
					isLenOfImage := func(e ast.Expr) bool {
						call, ok := ast.Unparen(e).(*ast.CallExpr)
						if !ok || len(call.Args) != 1 {
							return false
						}
						id, ok := call.Fun.(*ast.Ident)
						return ok && id.Name == "len" && ctxFieldWritten(info, call.Args[0]) == "Memory"
					}
					mentionsImageLen := func(e ast.Expr) bool {
						found := false
						ast.Inspect(e, func(k ast.Node) bool {
							if ex, ok := k.(ast.Expr); ok && isLenOfImage(ex) {
								found = true
							}
							if id, ok := k.(*ast.Ident); ok {
								// a local defined from len(image)
								if o := info.Uses[id]; o != nil {
									ast.Inspect(fd.Body, func(q ast.Node) bool {
										if as, ok := q.(*ast.AssignStmt); ok && len(as.Lhs) == 1 && len(as.Rhs) == 1 {
											if l, ok := as.Lhs[0].(*ast.Ident); ok && (info.Defs[l] == o || info.Uses[l] == o) {
												ast.Inspect(as.Rhs[0], func(z ast.Node) bool {
													if ez, ok := z.(ast.Expr); ok && isLenOfImage(ez) {
														found = true
													}
													return true
												})
											}
										}
										return true
									})
								}
							}
							return true
						})
						return found
					}
					if !mentionsImageLen(b.X) && !mentionsImageLen(b.Y) {
						return true
					}
					n++
					// exact forms: idx >= len(image), idx < len(image), len(image) <= idx, len(image) > idx
					exact := (b.Op == token.GEQ || b.Op == token.LSS) && isLenOfImage(b.Y) || (b.Op == token.LEQ || b.Op == token.GTR) && isLenOfImage(b.X)
					if !exact {
						inexact = append(inexact, types.ExprString(b))
					}
					return true
				})
				if n == 0 {
					continue
				}
				r.check(len(inexact) == 0, rule, fmt.Sprintf("%s.%s:image-bound", v.rel, declName(fd)), fd.Pos(), "a line fill compares the byte index with the length of the memory image itself (index >= len pads, index < len reads): %d comparisons, inexact: %v", n, inexact)
			}
		}
	}
}

// ruleModifiedHolderAsked (R06.10): in the request builders, a Modified holder of the
// line in another core is ALWAYS asked to write back and that request is among the
// pendings the requester waits for. A builder that skips it under some condition (a
// request already in flight) lets the requester fetch from the next level before the
// owner's bytes arrive.
func ruleModifiedHolderAsked(r *Run, rule string, v *variant, builders []*ast.FuncDecl) {
	info := v.info
	for _, fd := range builders {
		ast.Inspect(fd.Body, func(n ast.Node) bool {
			cc, ok := n.(*ast.CaseClause)
			if !ok || len(cc.List) != 1 {
				return true
			}
			tv := info.Types[cc.List[0]]
			if tv.Value == nil {
				return true
			}
			// the Modified case of a switch over the holder's state: identified by the constant's name
			id, ok := ast.Unparen(cc.List[0]).(*ast.Ident)
			if !ok || !strings.EqualFold(id.Name, "modified") {
				return true
			}
			// its first statement must be the unconditional append of a sent command
			good := false
			if len(cc.Body) >= 1 {
				if as, ok := cc.Body[0].(*ast.AssignStmt); ok && len(as.Rhs) == 1 {
					if call, ok := as.Rhs[0].(*ast.CallExpr); ok {
						if f, ok := call.Fun.(*ast.Ident); ok && f.Name == "append" && len(call.Args) == 2 {
							if _, ok := ast.Unparen(call.Args[1]).(*ast.CallExpr); ok {
								good = true
							}
						}
					}
				}
			}
			r.check(good, rule, fmt.Sprintf("%s.%s:modified-holder-asked", v.rel, declName(fd)), cc.Pos(), "a Modified holder of the line is asked unconditionally and the request is among the pendings the requester waits for")
			return true
		})
	}
}
