package main

// C07 — every run terminates: no deadlock, livelock or panic; defined errors are values.
// Decided here: the structural necessary conditions R07.1–R07.6 (DESIGN §4).
// Not decided: termination itself, deadlock/livelock freedom, the cycle bound.

import (
	"fmt"
	"go/ast"
	"go/token"
	"go/types"
	"sort"
	"strings"

	"golang.org/x/tools/go/packages"
	"golang.org/x/tools/go/types/typeutil"
)

func init() {
	register(&propSpec{
		ID:          "C07",
		Level:       "other",
		Run:         runC07,
		Explanation: "Structural necessary conditions of 'no panic, no hang, errors as values': R07.1 every branch taken on a non-nil error returns that error (all functions of the variants with an error result); R07.2 trap-freedom of the ISA layer by the zone analysis (division/remainder dominated by a zero test returning an error, no signed unmasked shift count, memory[k] within the sibling MemoryRead length, two-result label lookups); R07.3 every switch whose default panics covers its whole enumeration; R07.4 lock discipline of the MSI controllers (acquire kind = release kind in each completion closure; the kind recorded with a handle matches the table's release kind; flush deletes from the table it ranges over); R07.5 every registration of a pending line fetch is completed or cleared by the pipeline flush; R07.6 the completion predicate guarding the fall-off-the-end exit covers every bus and every pipeline unit. Termination, deadlock/livelock freedom and the cycle bound are liveness properties of a cycle-level simulator with unbounded counters and are NOT decided (no sound static argument in reach). R07.11 every instruction fetch is under a bound test; R07.12 the one-line-per-access data path looks at more than the first byte address of an access; R07.13 a loop that waits for a buffered bus to be empty reconnects the bus in its body; R07.24 the flush of a unit written as a suspendable coroutine returns it to its start; R07.25 every snoop job completes the command it serves (the requester waits on it) and a completed command leaves the table; R07.23 every loop of the CPU (main loop, drains) that keeps running while a bus, coroutine or unit is busy steps that component in its body; R07.14 a mutex held across coroutine steps is recorded in the unit and released by its flush; R07.15 the shared components on Run's path (incl. the coroutine stepping primitive: a unit that completes returns to its start, IsStart is the idleness the completion predicates test) equal their total reference models; R07.16 the jump-resolution notification redirects unconditionally; R07.17 every execute-unit step performed by Run has its error field inspected; R07.18 a pending line fetch is registered under the address it is completed under. R07.19 every buffered bus of the CPU is connected at the top level of the main loop; R07.20 the flag that holds ret behind an unresolved conditional branch is cleared when the branch resolves, taken or not. R07.21 every mutex acquired in a function is released in it; R07.22 after a completion closure released a line lock the handle recorded for the flush is deleted from its table. R07.27 the scoreboard entries raised at dispatch are released for every kind of execution the write unit accepts (register result, store, nothing to write) and for a store the execute unit performs in place. R07.28 a bool flag the control unit raises when it dispatches is lowered at the top level of every step or by a notification. R07.30 the write-back of a line skips the bytes below 0 and leaves at the first byte not below the length of the image (no store at index len). R07.31 the CPU's bool helpers consulted by the drain loops answer true only if every component they test did test empty. R07.32 the entry of an access coroutine resets and suspends only its own coroutine and forgets lock handles only from a table it records them in. R07.33 an execute unit that waits for its cache controller returns its own coroutine to the start once the access is done.",
		Assumptions: []string{
			"stdlib functions do not panic on the arguments passed",
		},
		Trusted: []string{"go/types", "majcheck zone analysis", "role resolution of variant anchors (audited in evidence.anchors)"},
	})
}

func isErrorType(t types.Type) bool {
	return t != nil && typeName(t) == "error"
}

// ---------------------------------------------------------------------------
// R07.1

func ruleErrorPropagation(r *Run, rule string) {
	w := r.W
	type target struct {
		rel string
		pkg *packages.Package
	}
	var targets []target
	for _, v := range variants(w) {
		if v.pkg != nil {
			targets = append(targets, target{v.rel, v.pkg})
		}
	}
	targets = append(targets, target{"risc", w.Pkg("risc")})
	nsites := 0
	for _, tg := range targets {
		info := tg.pkg.TypesInfo
		for _, f := range tg.pkg.Syntax {
			for _, d := range f.Decls {
				fd, ok := d.(*ast.FuncDecl)
				if !ok || fd.Body == nil {
					continue
				}
				if tg.rel == "risc" && !(fd.Name.Name == "Run" && fd.Recv != nil && strings.Contains(types.ExprString(fd.Recv.List[0].Type), "Runner")) {
					continue
				}
				fname := tg.rel + "." + declName(fd)
				count := map[string]int{}
				// walk with the enclosing function (decl or literal) to know its results
				var walk func(n ast.Node, results *ast.FieldList)
				walk = func(n ast.Node, results *ast.FieldList) {
					ast.Inspect(n, func(m ast.Node) bool {
						switch x := m.(type) {
						case *ast.FuncLit:
							walk(x.Body, x.Type.Results)
							return false
						case *ast.IfStmt:
							e := errOperand(info, x.Cond)
							if e == nil {
								return true
							}
							// the enclosing function must be able to return an error
							errPos := -1
							k := 0
							if results != nil {
								for _, fl := range results.List {
									cnt := len(fl.Names)
									if cnt == 0 {
										cnt = 1
									}
									if isErrorType(info.TypeOf(fl.Type)) {
										errPos = k + cnt - 1
									}
									k += cnt
								}
							}
							key := canonExpr(info, e)
							count[key]++
							c := fmt.Sprintf("%s:if(%s!=nil)#%d", fname, key, count[key])
							if errPos < 0 {
								// cannot return an error: the branch must at least not fall through silently — report as information
								return true
							}
							nsites++
							good, why := returnsErr(info, x.Body, e, errPos)
							r.check(good, rule, c, x.Pos(), "a branch taken because %s is non-nil returns that error %s", key, why)
						}
						return true
					})
				}
				walk(fd.Body, fd.Type.Results)
			}
		}
	}
	_ = nsites
}

// errOperand returns E for a condition `E != nil` with E of type error.
func errOperand(info *types.Info, cond ast.Expr) ast.Expr {
	b, ok := ast.Unparen(cond).(*ast.BinaryExpr)
	if !ok || b.Op != token.NEQ {
		return nil
	}
	for i := 0; i < 2; i++ {
		x, y := b.X, b.Y
		if i == 1 {
			x, y = y, x
		}
		if id, ok := ast.Unparen(y).(*ast.Ident); ok && id.Name == "nil" && isErrorType(info.TypeOf(x)) {
			return x
		}
	}
	return nil
}

func returnsErr(info *types.Info, body *ast.BlockStmt, e ast.Expr, errPos int) (bool, string) {
	if len(body.List) == 0 {
		return false, "(empty branch)"
	}
	last := body.List[len(body.List)-1]
	ret, ok := last.(*ast.ReturnStmt)
	if !ok {
		return false, "(the branch does not end in a return)"
	}
	if errPos >= len(ret.Results) {
		return false, "(bare return)"
	}
	want := types.ExprString(e)
	found := false
	ast.Inspect(ret.Results[errPos], func(n ast.Node) bool {
		if x, ok := n.(ast.Expr); ok && types.ExprString(x) == want {
			found = true
		}
		return true
	})
	if !found {
		return false, "(returns " + types.ExprString(ret.Results[errPos]) + " instead)"
	}
	return true, ""
}

// ---------------------------------------------------------------------------
// R07.3

// constGroup finds the const declaration group that declares obj.
func constGroup(w *World, obj *types.Const) []*types.Const {
	for _, p := range w.Pkgs {
		if p.Types != obj.Pkg() {
			continue
		}
		for _, f := range p.Syntax {
			for _, d := range f.Decls {
				gd, ok := d.(*ast.GenDecl)
				if !ok || gd.Tok != token.CONST || gd.Pos() > obj.Pos() || gd.End() < obj.Pos() {
					continue
				}
				var out []*types.Const
				for _, sp := range gd.Specs {
					for _, n := range sp.(*ast.ValueSpec).Names {
						if c, ok := p.TypesInfo.Defs[n].(*types.Const); ok && n.Name != "_" {
							out = append(out, c)
						}
					}
				}
				return out
			}
		}
	}
	return nil
}

func ruleExhaustiveSwitches(r *Run, rule string) {
	w := r.W
	var rels []string
	for p := range w.Pkgs {
		if strings.HasPrefix(p, modPath) {
			rels = append(rels, p)
		}
	}
	sort.Strings(rels)
	for _, path := range rels {
		p := w.Pkgs[path]
		rel := strings.TrimPrefix(path, modPath+"/")
		for _, f := range p.Syntax {
			for _, d := range f.Decls {
				fd, ok := d.(*ast.FuncDecl)
				if !ok || fd.Body == nil {
					continue
				}
				nsw := 0
				ast.Inspect(fd.Body, func(n ast.Node) bool {
					sw, ok := n.(*ast.SwitchStmt)
					if !ok || sw.Tag == nil {
						return true
					}
					_, hasDef, defPanics := switchCases(p.TypesInfo, sw)
					if !hasDef || !defPanics {
						return true
					}
					nsw++
					c := fmt.Sprintf("%s.%s:switch(%s)#%d", rel, declName(fd), canonExpr(p.TypesInfo, sw.Tag), nsw)
					// constants named by the cases
					var named []*types.Const
					for _, cl := range sw.Body.List {
						for _, e := range cl.(*ast.CaseClause).List {
							var id *ast.Ident
							switch x := ast.Unparen(e).(type) {
							case *ast.Ident:
								id = x
							case *ast.SelectorExpr:
								id = x.Sel
							}
							if id != nil {
								if co, ok := p.TypesInfo.Uses[id].(*types.Const); ok {
									named = append(named, co)
								}
							}
						}
					}
					if len(named) == 0 {
						r.undecided(rule, c, sw.Pos(), "switch with a panicking default whose cases are not named constants")
						return true
					}
					group := constGroup(w, named[0])
					covered := map[*types.Const]bool{}
					for _, co := range named {
						covered[co] = true
					}
					var missing []string
					for _, co := range group {
						if !covered[co] {
							missing = append(missing, co.Name())
						}
					}
					r.check(len(missing) == 0 && len(group) > 0, rule, c, sw.Pos(), "the default arm panics, so every constant of the enumeration (%d) needs a case; missing: %v", len(group), missing)
					return true
				})
			}
		}
	}
}

// ---------------------------------------------------------------------------
// R07.2

func ruleISATraps(r *Run, rule string) {
	w := r.W
	a := analyseISA(w)
	pkg := a.pkg
	ba := &boundsAnalyser{w: w, lenSummary: map[*types.Func][2]int{}}
	memLen := map[string]int{}
	for _, op := range a.ops {
		n := 0
		if t := op.terms["MemoryRead"]; t != nil && t.Op == "out" && len(t.Args[0].Args) == 1 && t.Args[0].Args[0].Op == "seq" {
			n = len(t.Args[0].Args[0].Args)
		}
		memLen[op.typeName] = n
	}
	for _, op := range a.ops {
		for _, m := range []string{"Run", "MemoryRead", "MemoryWrite", "ReadRegisters", "WriteRegisters", "Forward", "InstructionType"} {
			fd, _ := w.Method("risc", op.typeName, m)
			if fd == nil {
				continue
			}
			before := len(ba.sites)
			ba.analyseFunc(fd, pkg, "(*"+op.typeName+")."+m)
			// memory[k]: within the sibling MemoryRead length
			var memObj types.Object
			if m == "Run" && fd.Type.Params != nil {
				for _, fl := range fd.Type.Params.List {
					if typeName(pkg.TypesInfo.TypeOf(fl.Type)) == "[]int8" && len(fl.Names) == 1 {
						memObj = pkg.TypesInfo.Defs[fl.Names[0]]
					}
				}
			}
			for _, s := range ba.sites[before:] {
				if s.kind == "index" && !s.proved && memObj != nil {
					// find the index expression again
					ast.Inspect(fd.Body, func(n ast.Node) bool {
						ix, ok := n.(*ast.IndexExpr)
						if !ok || ix.Pos() != s.pos {
							return true
						}
						if id, ok := ast.Unparen(ix.X).(*ast.Ident); ok && pkg.TypesInfo.Uses[id] == memObj {
							k := ba.linear(ix.Index)
							if k.ok && k.sym == "0" && k.c >= 0 && k.c < memLen[op.typeName] {
								s.proved = true
								s.why = fmt.Sprintf("index %d < %d addresses returned by the sibling MemoryRead (callers pass one byte per address)", k.c, memLen[op.typeName])
							} else {
								s.why = fmt.Sprintf("memory index not below the %d addresses returned by the sibling MemoryRead", memLen[op.typeName])
							}
						}
						return true
					})
				}
			}
		}
		// single-result label lookup
		if t := op.terms["Run"]; t != nil {
			single := t.contains(func(x *Term) bool { return x.Op == "mapget" && len(x.Args) == 2 && x.Args[0].Op == "param" })
			r.check(!single, rule, "risc.(*"+op.typeName+").Run:label-lookup", op.pos["Run"], "label lookups use the two-result form (an undefined label is an error value, not a zero address)")
		}
	}
	for _, name := range []string{"registerRead", "IsRegisterChange"} {
		if fd, pk := w.Func("risc", name); fd != nil {
			ba.analyseFunc(fd, pk, name)
		}
	}
	for _, s := range ba.sites {
		r.check(s.proved, rule, "risc."+s.desc, s.pos, "%s: %s", s.kind, s.why)
	}
}

// ---------------------------------------------------------------------------
// R07.4

func semMethod(info *types.Info, call *ast.CallExpr) string {
	f, ok := typeutil.Callee(info, call).(*types.Func)
	if !ok {
		return ""
	}
	sig := f.Type().(*types.Signature)
	if sig.Recv() == nil || !isCompType(sig.Recv().Type(), "Sem") {
		return ""
	}
	return f.Name()
}

func semCallsIn(info *types.Info, n ast.Node, skipLits bool) []string {
	var out []string
	ast.Inspect(n, func(m ast.Node) bool {
		if _, ok := m.(*ast.FuncLit); ok && skipLits {
			return false
		}
		if call, ok := m.(*ast.CallExpr); ok {
			if k := semMethod(info, call); k != "" {
				out = append(out, k)
			}
		}
		return true
	})
	return out
}

var releaseOf = map[string]string{"RLock": "RUnlock", "Lock": "Unlock"}

type lockFn struct {
	fd       *ast.FuncDecl
	acquires map[string]bool // kinds acquired on paths that hand out the sem
}

func ruleLockDiscipline(r *Run, rule string) {
	w := r.W
	for _, v := range variants(w) {
		if v.pkg == nil {
			continue
		}
		info := v.info
		// (a) functions returning (…, func(), *comp.Sem): per switch case the acquire kind and the closure's release kind
		lockFns := map[*types.Func]*lockFn{}
		for _, f := range v.pkg.Syntax {
			for _, d := range f.Decls {
				fd, ok := d.(*ast.FuncDecl)
				if !ok || fd.Body == nil || fd.Type.Results == nil {
					continue
				}
				returnsSem := false
				for _, fl := range fd.Type.Results.List {
					if isCompType(info.TypeOf(fl.Type), "Sem") {
						returnsSem = true
					}
				}
				if !returnsSem {
					continue
				}
				obj, _ := info.Defs[fd.Name].(*types.Func)
				lf := &lockFn{fd: fd, acquires: map[string]bool{}}
				lockFns[obj] = lf
				ncase := 0
				ast.Inspect(fd.Body, func(n ast.Node) bool {
					cc, ok := n.(*ast.CaseClause)
					if !ok {
						return true
					}
					acq := semCallsIn(info, cc, true)
					if len(acq) == 0 {
						return true
					}
					ncase++
					label := "default"
					if len(cc.List) > 0 {
						label = types.ExprString(cc.List[0])
					}
					c := fmt.Sprintf("%s.%s:case(%s)", v.rel, declName(fd), label)
					kinds := map[string]bool{}
					for _, k := range acq {
						if _, isAcq := releaseOf[k]; isAcq {
							kinds[k] = true
						}
					}
					// closures returned by the case
					var rel []string
					for _, s := range cc.Body {
						ast.Inspect(s, func(m ast.Node) bool {
							if ret, ok := m.(*ast.ReturnStmt); ok {
								for _, res := range ret.Results {
									if lit, ok := ast.Unparen(res).(*ast.FuncLit); ok {
										rel = append(rel, semCallsIn(info, lit, false)...)
									}
								}
							}
							return true
						})
					}
					good := len(kinds) == 1 && len(rel) == 1
					var kind string
					for k := range kinds {
						kind = k
						lf.acquires[k] = true
					}
					if good && releaseOf[kind] != rel[0] {
						good = false
					}
					r.check(good, rule+"a", c, cc.Pos(), "the case acquires with %v and its completion closure releases with %v (must be the matching kind, exactly once)", sortedKeys(kinds), rel)
					return true
				})
			}
		}
		if len(lockFns) == 0 {
			continue
		}
		// (b) tables: map[...]*comp.Sem fields; which lock function's handle is stored into which table
		tableKinds := map[*types.Var]map[string]bool{}
		tableSrc := map[*types.Var][]string{}
		for _, f := range v.pkg.Syntax {
			for _, d := range f.Decls {
				fd, ok := d.(*ast.FuncDecl)
				if !ok || fd.Body == nil {
					continue
				}
				// sem variables defined from a lock function call
				semFrom := map[types.Object]*types.Func{}
				ast.Inspect(fd.Body, func(n ast.Node) bool {
					as, ok := n.(*ast.AssignStmt)
					if !ok {
						return true
					}
					if len(as.Rhs) == 1 {
						if call, ok := ast.Unparen(as.Rhs[0]).(*ast.CallExpr); ok {
							if f, ok := typeutil.Callee(info, call).(*types.Func); ok && lockFns[f.Origin()] != nil {
								for _, l := range as.Lhs {
									if id, ok := l.(*ast.Ident); ok && isCompType(info.TypeOf(id), "Sem") {
										if o := info.Defs[id]; o != nil {
											semFrom[o] = f.Origin()
										} else if o := info.Uses[id]; o != nil {
											semFrom[o] = f.Origin()
										}
									}
								}
							}
						}
					}
					// table[key] = sem
					if len(as.Lhs) == 1 && len(as.Rhs) == 1 {
						if ix, ok := as.Lhs[0].(*ast.IndexExpr); ok {
							if sel, ok := ast.Unparen(ix.X).(*ast.SelectorExpr); ok {
								if s := info.Selections[sel]; s != nil && s.Kind() == types.FieldVal {
									if id, ok := ast.Unparen(as.Rhs[0]).(*ast.Ident); ok {
										if src := semFrom[info.Uses[id]]; src != nil {
											tv := s.Obj().(*types.Var)
											if tableKinds[tv] == nil {
												tableKinds[tv] = map[string]bool{}
											}
											for k := range lockFns[src].acquires {
												tableKinds[tv][k] = true
											}
											tableSrc[tv] = append(tableSrc[tv], src.Name())
										}
									}
								}
							}
						}
					}
					return true
				})
			}
		}
		// (c) flush loops: for k, sem := range T { sem.Release(); delete(T', k) }
		for _, f := range v.pkg.Syntax {
			for _, d := range f.Decls {
				fd, ok := d.(*ast.FuncDecl)
				if !ok || fd.Body == nil {
					continue
				}
				nloop := 0
				ast.Inspect(fd.Body, func(n ast.Node) bool {
					rs, ok := n.(*ast.RangeStmt)
					if !ok {
						return true
					}
					sel, ok := ast.Unparen(rs.X).(*ast.SelectorExpr)
					if !ok {
						return true
					}
					s := info.Selections[sel]
					if s == nil || s.Kind() != types.FieldVal {
						return true
					}
					tv := s.Obj().(*types.Var)
					mt, ok := tv.Type().Underlying().(*types.Map)
					if !ok || !isCompType(mt.Elem(), "Sem") {
						return true
					}
					nloop++
					c := fmt.Sprintf("%s.%s:range(%s)", v.rel, declName(fd), fieldPath(info, sel))
					rels := semCallsIn(info, rs.Body, false)
					// deletes
					var delTables []*types.Var
					ast.Inspect(rs.Body, func(m ast.Node) bool {
						if call, ok := m.(*ast.CallExpr); ok {
							if id, ok := call.Fun.(*ast.Ident); ok && id.Name == "delete" && len(call.Args) == 2 {
								if ds, ok := ast.Unparen(call.Args[0]).(*ast.SelectorExpr); ok {
									if s2 := info.Selections[ds]; s2 != nil {
										delTables = append(delTables, s2.Obj().(*types.Var))
									}
								}
							}
						}
						return true
					})
					sameTable := len(delTables) == 1 && delTables[0] == tv
					r.check(sameTable, rule+"c", c, rs.Pos(), "the loop releases every handle of the table and deletes it from the table it ranges over (a handle left behind is released again by the next flush and the counter goes negative)")
					// (b) the release kind must match every kind a recorded handle may have been acquired with
					kinds := tableKinds[tv]
					var need []string
					for k := range kinds {
						need = append(need, releaseOf[k])
					}
					sort.Strings(need)
					okKinds := len(rels) == 1 && len(need) == 1 && need[0] == rels[0]
					r.check(okKinds, rule+"b", c, rs.Pos(), "handles recorded in this table come from %v and may have been acquired with %v; the flush releases them with %v (every recorded handle must have been acquired with the matching kind)", uniq(tableSrc[tv]), sortedKeys(kinds), rels)
					return true
				})
			}
		}
	}
}

func uniq(xs []string) []string {
	m := map[string]bool{}
	for _, x := range xs {
		m[x] = true
	}
	return sortedKeys(m)
}

func fieldPath(info *types.Info, e ast.Expr) string {
	// position-free rendering of a field selection: Type.field
	if sel, ok := ast.Unparen(e).(*ast.SelectorExpr); ok {
		if s := info.Selections[sel]; s != nil {
			return typeName(s.Recv()) + "." + s.Obj().Name()
		}
	}
	return types.ExprString(e)
}

// ---------------------------------------------------------------------------
// R07.5

func rulePendingFetches(r *Run, rule string) {
	w := r.W
	for _, v := range variants(w) {
		if v.pkg == nil {
			continue
		}
		info := v.info
		// the registering function: a function that appends to a field of its receiver and is a lookup (returns bools)
		var regFn *types.Func
		var regField *types.Var
		var regDecl *ast.FuncDecl
		for _, f := range v.pkg.Syntax {
			for _, d := range f.Decls {
				fd, ok := d.(*ast.FuncDecl)
				if !ok || fd.Body == nil || fd.Recv == nil {
					continue
				}
				ast.Inspect(fd.Body, func(n ast.Node) bool {
					as, ok := n.(*ast.AssignStmt)
					if !ok || len(as.Lhs) != 1 || len(as.Rhs) != 1 {
						return true
					}
					sel, ok := as.Lhs[0].(*ast.SelectorExpr)
					if !ok {
						return true
					}
					s := info.Selections[sel]
					if s == nil || s.Kind() != types.FieldVal {
						return true
					}
					if typeName(s.Obj().Type()) != "[][2]int32" {
						return true
					}
					if call, ok := as.Rhs[0].(*ast.CallExpr); ok {
						if id, ok := call.Fun.(*ast.Ident); ok && id.Name == "append" {
							// a registration only if the appended element is a new range, not a removal (append(x[:i], x[i+1:]...))
							if !call.Ellipsis.IsValid() {
								regFn, _ = info.Defs[fd.Name].(*types.Func)
								regField = s.Obj().(*types.Var)
								regDecl = fd
							}
						}
					}
					return true
				})
			}
		}
		if regFn == nil {
			continue
		}
		r.anchor(v.name+" pending-fetch registration", declName(regDecl)+" appends to "+regField.Name())
		// the completing function: removes from the same field
		var complFn *types.Func
		for _, f := range v.pkg.Syntax {
			for _, d := range f.Decls {
				fd, ok := d.(*ast.FuncDecl)
				if !ok || fd.Body == nil {
					continue
				}
				ast.Inspect(fd.Body, func(n ast.Node) bool {
					as, ok := n.(*ast.AssignStmt)
					if !ok || len(as.Lhs) != 1 || len(as.Rhs) != 1 {
						return true
					}
					if sel, ok := as.Lhs[0].(*ast.SelectorExpr); ok {
						if s := info.Selections[sel]; s != nil && s.Obj() == regField {
							if call, ok := as.Rhs[0].(*ast.CallExpr); ok && call.Ellipsis.IsValid() {
								complFn, _ = info.Defs[fd.Name].(*types.Func)
							}
						}
					}
					return true
				})
			}
		}
		if complFn == nil {
			r.bad(rule, v.rel+":completion", regDecl.Pos(), "no function removes an entry from %s: a registered fetch can never complete", regField.Name())
			continue
		}
		// every call site of the registering function
		for _, f := range v.pkg.Syntax {
			for _, d := range f.Decls {
				fd, ok := d.(*ast.FuncDecl)
				if !ok || fd.Body == nil || fd == regDecl {
					continue
				}
				nsite := 0
				var visit func(body ast.Node, scope ast.Node)
				visit = func(body ast.Node, scope ast.Node) {
					ast.Inspect(body, func(n ast.Node) bool {
						if lit, ok := n.(*ast.FuncLit); ok && lit.Body != body {
							visit(lit.Body, lit.Body)
							return false
						}
						call, ok := n.(*ast.CallExpr)
						if !ok {
							return true
						}
						cf, ok := typeutil.Callee(info, call).(*types.Func)
						if !ok || cf.Origin() != regFn {
							return true
						}
						nsite++
						c := fmt.Sprintf("%s.%s:call(%s)#%d", v.rel, declName(fd), regFn.Name(), nsite)
						// (b) preceded, in the same function body, by the completion for the line
						before, after := false, false
						ast.Inspect(scope, func(m ast.Node) bool {
							if c2, ok := m.(*ast.CallExpr); ok {
								if f2, ok := typeutil.Callee(info, c2).(*types.Func); ok && f2.Origin() == complFn {
									if c2.Pos() < call.Pos() {
										before = true
									} else {
										after = true
									}
								}
							}
							return true
						})
						r.check(before || after, rule, c, call.Pos(), "a lookup that may register a pending fetch is followed, on the registered path, by the line insertion that completes it (or follows that insertion): before=%v after=%v", before, after)
						return true
					})
				}
				visit(fd.Body, fd.Body)
			}
		}
		// the pipeline flush clears registrations
		if v.flush != nil {
			clears := w.reachesAssign(v, v.flush.Body, regField)
			r.check(clears, rule, v.rel+".(CPU).flush:clears("+regField.Name()+")", v.flush.Pos(), "the pipeline flush, which abandons execute units that may have registered a fetch, resets %s", regField.Name())
		}
	}
}

// reachesAssign: from node n, through static calls, is there an assignment
// `x.field = <non-append>` of the given field?
func (w *World) reachesAssign(v *variant, n ast.Node, field *types.Var) bool {
	found := false
	check := func(info *types.Info, body ast.Node) {
		ast.Inspect(body, func(m ast.Node) bool {
			as, ok := m.(*ast.AssignStmt)
			if !ok {
				return true
			}
			for i, l := range as.Lhs {
				if sel, ok := l.(*ast.SelectorExpr); ok {
					if s := info.Selections[sel]; s != nil && s.Obj() == field && i < len(as.Rhs) {
						if id, ok := ast.Unparen(as.Rhs[i]).(*ast.Ident); ok && id.Name == "nil" {
							found = true
						}
						if cl, ok := ast.Unparen(as.Rhs[i]).(*ast.CompositeLit); ok && len(cl.Elts) == 0 {
							found = true
						}
						if call, ok := ast.Unparen(as.Rhs[i]).(*ast.CallExpr); ok {
							if id, ok := call.Fun.(*ast.Ident); ok && id.Name == "make" {
								found = true
							}
						}
					}
				}
			}
			return true
		})
	}
	check(v.info, n)
	w.reaches(v.info, n, func(f *types.Func) bool {
		if fd, pk := w.FuncDecl(f); fd != nil && fd.Body != nil {
			check(pk.TypesInfo, fd.Body)
		}
		return false
	})
	return found
}

// idleGuarantee: the set of CPU fields (buses, units) whose emptiness test is known to have
// returned true whenever the bool function fd returns true. Sequential reading of the body:
// `x := E` binds x to the set E guarantees; `if !E { return false }` adds E's set to what is
// known afterwards; `for _, e := range m.F { if !e.isEmpty() { return false } }` adds F;
// `return E` contributes known ∪ set(E); the guarantee is the intersection over the returns
// that are not the constant false. set(a && b) = set(a) ∪ set(b); set(m.F.isEmpty()) = {F};
// set(m.helper()) = guarantee(helper); everything else guarantees nothing.
func idleGuarantee(w *World, v *variant, fd *ast.FuncDecl, memo map[*ast.FuncDecl]map[*types.Var]bool, depth int) map[*types.Var]bool {
	if g, ok := memo[fd]; ok {
		return g
	}
	memo[fd] = map[*types.Var]bool{}
	if depth > 4 || fd == nil || fd.Body == nil {
		return memo[fd]
	}
	info := v.info
	vars := map[types.Object]map[*types.Var]bool{}
	var setOf func(e ast.Expr) map[*types.Var]bool
	setOf = func(e ast.Expr) map[*types.Var]bool {
		out := map[*types.Var]bool{}
		switch x := ast.Unparen(e).(type) {
		case *ast.BinaryExpr:
			if x.Op == token.LAND {
				for k := range setOf(x.X) {
					out[k] = true
				}
				for k := range setOf(x.Y) {
					out[k] = true
				}
			}
		case *ast.Ident:
			for k := range vars[info.Uses[x]] {
				out[k] = true
			}
		case *ast.CallExpr:
			if sel, ok := x.Fun.(*ast.SelectorExpr); ok {
				if strings.EqualFold(sel.Sel.Name, "isEmpty") {
					if f := v.cpuFieldOf(sel.X); f != nil {
						out[f.obj] = true
						return out
					}
				}
			}
			if f, ok := typeutil.Callee(info, x).(*types.Func); ok {
				if fd2, _ := w.FuncDecl(f); fd2 != nil && fd2.Recv != nil && fd2 != fd {
					if rt := info.TypeOf(fd2.Recv.List[0].Type); rt != nil && namedOf(rt) == v.cpu {
						for k := range idleGuarantee(w, v, fd2, memo, depth+1) {
							out[k] = true
						}
					}
				}
			}
		}
		return out
	}
	returnsFalse := func(list []ast.Stmt) bool {
		if len(list) != 1 {
			return false
		}
		rs, ok := list[0].(*ast.ReturnStmt)
		if !ok || len(rs.Results) != 1 {
			return false
		}
		tv, ok := info.Types[rs.Results[0]]
		return ok && tv.Value != nil && tv.Value.String() == "false"
	}
	known := map[*types.Var]bool{}
	var result map[*types.Var]bool
	meet := func(s map[*types.Var]bool) {
		if result == nil {
			result = map[*types.Var]bool{}
			for k := range s {
				result[k] = true
			}
			return
		}
		for k := range result {
			if !s[k] {
				delete(result, k)
			}
		}
	}
	for _, st := range fd.Body.List {
		switch x := st.(type) {
		case *ast.AssignStmt:
			if len(x.Lhs) == 1 && len(x.Rhs) == 1 {
				if id, ok := x.Lhs[0].(*ast.Ident); ok {
					o := info.Defs[id]
					if o == nil {
						o = info.Uses[id]
					}
					vars[o] = setOf(x.Rhs[0])
				}
			}
		case *ast.IfStmt:
			if u, ok := ast.Unparen(x.Cond).(*ast.UnaryExpr); ok && u.Op == token.NOT && x.Else == nil && returnsFalse(x.Body.List) {
				for k := range setOf(u.X) {
					known[k] = true
				}
			} else {
				// any other conditional return contributes what is known so far
				ast.Inspect(x, func(n ast.Node) bool {
					if rs, ok := n.(*ast.ReturnStmt); ok && len(rs.Results) == 1 {
						if tv, ok := info.Types[rs.Results[0]]; !ok || tv.Value == nil || tv.Value.String() != "false" {
							s := map[*types.Var]bool{}
							for k := range known {
								s[k] = true
							}
							meet(s)
						}
					}
					return true
				})
			}
		case *ast.RangeStmt:
			f := v.cpuFieldOf(x.X)
			good := false
			if f != nil && len(x.Body.List) == 1 {
				if is, ok := x.Body.List[0].(*ast.IfStmt); ok && is.Else == nil && returnsFalse(is.Body.List) {
					if u, ok := ast.Unparen(is.Cond).(*ast.UnaryExpr); ok && u.Op == token.NOT {
						if c, ok := ast.Unparen(u.X).(*ast.CallExpr); ok {
							if sel, ok := c.Fun.(*ast.SelectorExpr); ok && strings.EqualFold(sel.Sel.Name, "isEmpty") {
								if id, ok := ast.Unparen(sel.X).(*ast.Ident); ok && x.Value != nil {
									if vid, ok := x.Value.(*ast.Ident); ok && info.Uses[id] == info.Defs[vid] {
										good = true
									}
								}
							}
						}
					}
				}
			}
			if good {
				known[f.obj] = true
			}
		case *ast.ReturnStmt:
			if len(x.Results) == 1 {
				if tv, ok := info.Types[x.Results[0]]; ok && tv.Value != nil && tv.Value.String() == "false" {
					continue
				}
				s := map[*types.Var]bool{}
				for k := range known {
					s[k] = true
				}
				for k := range setOf(x.Results[0]) {
					s[k] = true
				}
				meet(s)
			}
		}
	}
	if result == nil {
		result = map[*types.Var]bool{}
	}
	memo[fd] = result
	return result
}

// ---------------------------------------------------------------------------
// R07.6

func ruleCompletionPredicate(r *Run, rule string) {
	w := r.W
	for _, v := range variants(w) {
		if v.pkg == nil || !v.pipelined() {
			continue
		}
		if v.isEmpty == nil {
			r.bad(rule, v.rel+".(CPU):completion-predicate", v.run.Pos(), "no CPU method tests the emptiness of the buses: the fall-off-the-end exit is unguarded")
			continue
		}
		r.anchor(v.name+" completion predicate", declName(v.isEmpty))
		// fields referenced (as receivers of emptiness calls) in the predicate and the CPU helpers it calls
		ref := map[*types.Var]bool{}
		var collect func(fd *ast.FuncDecl, depth int)
		seen := map[*ast.FuncDecl]bool{}
		collect = func(fd *ast.FuncDecl, depth int) {
			if seen[fd] || depth > 4 {
				return
			}
			seen[fd] = true
			ast.Inspect(fd.Body, func(n ast.Node) bool {
				switch x := n.(type) {
				case *ast.CallExpr:
					if sel, ok := x.Fun.(*ast.SelectorExpr); ok {
						lname := strings.ToLower(sel.Sel.Name)
						if lname == "isempty" {
							if f := v.cpuFieldOf(sel.X); f != nil {
								ref[f.obj] = true
							}
							// eu.isEmpty() inside `for _, eu := range m.executeUnits`
						}
						if f, ok := typeutil.Callee(v.info, x).(*types.Func); ok {
							if fd2, _ := w.FuncDecl(f); fd2 != nil && fd2.Recv != nil && fd2 != fd {
								if rt := v.info.TypeOf(fd2.Recv.List[0].Type); rt != nil && namedOf(rt) == v.cpu {
									collect(fd2, depth+1)
								}
							}
						}
					}
				case *ast.RangeStmt:
					if f := v.cpuFieldOf(x.X); f != nil {
						// the loop body must test emptiness of the element
						has := false
						ast.Inspect(x.Body, func(m ast.Node) bool {
							if c, ok := m.(*ast.CallExpr); ok {
								if s, ok := c.Fun.(*ast.SelectorExpr); ok && strings.ToLower(s.Sel.Name) == "isempty" {
									has = true
								}
							}
							return true
						})
						if has {
							ref[f.obj] = true
						}
					}
				}
				return true
			})
		}
		collect(v.isEmpty, 0)
		// polarity: a component counts as covered only if "the predicate returns true" IMPLIES
		// "the component's emptiness test returned true"
		implied := idleGuarantee(w, v, v.isEmpty, map[*ast.FuncDecl]map[*types.Var]bool{}, 0)
		for k := range ref {
			if !implied[k] {
				delete(ref, k)
			}
		}
		// the exit is guarded: `if m.<pred>() { break }` in the main loop
		guarded := false
		if loop := v.mainLoop(); loop != nil {
			ast.Inspect(loop.Body, func(n ast.Node) bool {
				if is, ok := n.(*ast.IfStmt); ok {
					if call, ok := ast.Unparen(is.Cond).(*ast.CallExpr); ok {
						if f, ok := typeutil.Callee(v.info, call).(*types.Func); ok {
							if fd, _ := w.FuncDecl(f); fd == v.isEmpty && len(is.Body.List) > 0 {
								if b, ok := is.Body.List[len(is.Body.List)-1].(*ast.BranchStmt); ok && b.Tok == token.BREAK {
									guarded = true
								}
							}
						}
					}
				}
				return true
			})
		}
		r.check(guarded, rule, v.rel+".(CPU).Run:exit-guard", v.run.Pos(), "the fall-off-the-end exit of the main loop is `if <completion predicate>() { break }`")
		for _, f := range v.fields {
			if !f.isBus && !f.isUnit {
				continue
			}
			// a unit without an emptiness method holds no state across cycles
			if f.isUnit && hasMethodNamed(f.unitT, "isEmpty") == nil {
				continue
			}
			r.check(ref[f.obj], rule, v.rel+".(CPU):"+declName(v.isEmpty)+":covers("+f.name+")", v.isEmpty.Pos(), "the completion predicate tests the emptiness of %s (%s); a stage left out can still hold older work when the run ends", f.name, f.kind)
		}
	}
}

func runC07(r *Run) {
	r.floor("R07.1", 15)
	r.floor("R07.2", 45)
	r.floor("R07.3", 14)
	r.floor("R07.4a", 18)
	r.floor("R07.4b", 6)
	r.floor("R07.4c", 6)
	r.floor("R07.5", 12)
	r.floor("R07.6", 9)
	for _, v := range variants(r.W) {
		for _, p := range v.problems {
			r.undecided("R07.0", v.rel, token.NoPos, "%s", p)
		}
	}
	ruleErrorPropagation(r, "R07.1")
	ruleISATraps(r, "R07.2")
	ruleExhaustiveSwitches(r, "R07.3")
	ruleLockDiscipline(r, "R07.4")
	rulePendingFetches(r, "R07.5")
	ruleCompletionPredicate(r, "R07.6")
	r.floor("R07.8", 1)
	r.floor("R07.9", 20)
	ruleCyclesPositive(r, "R07.8")
	rulePcEndComparison(r, "R07.9")
	// R07.11: an instruction is fetched only under a bound test (index out of range otherwise)
	r.floor("R07.11", 12)
	for _, v := range variants(r.W) {
		if v.pkg != nil {
			ruleFetchBounded(r, v, "R07.11")
		}
	}
	r.floor("R07.12", 3)
	ruleLineSpan(r, "R07.12")
	r.floor("R07.13", 14)
	ruleDrainLoopsConnect(r, "R07.13")
	r.floor("R07.33", 6)
	ruleUnitResetsWhenAccessDone(r, "R07.33")
	r.floor("R07.32", 10)
	ruleAccessOwnsItsBookkeeping(r, "R07.32")
	r.floor("R07.31", 10)
	ruleIdleHelpersTruthful(r, "R07.31")
	r.floor("R07.30", 9)
	ruleWriteBackBounds(r, "R07.30")
	r.floor("R07.28", 10)
	rulePerCycleFlagsLowered(r, "R07.28")
	r.floor("R07.27", 8)
	ruleEveryExecutionReleased(r, "R07.27")
	r.floor("R07.26", 15)
	ruleExitFlagCleared(r, "R07.26")
	r.floor("R07.24", 15)
	ruleFlushResetsCoroutines(r, "R07.24")
	r.floor("R07.25", 15)
	ruleSnoopCommandsComplete(r, "R07.25")
	r.floor("R07.23", 100)
	ruleWaitLoopsProgress(r, "R07.23")
	r.floor("R07.14", 1)
	ruleLocksHeldAcrossSteps(r, "R07.14")
	r.floor("R07.17", 18)
	ruleUnitErrorsInspected(r, "R07.17")
	// R07.15: the shared components on Run's path equal their reference models, which are total
	// (no index outside a ring, a queue or a line): a component that deviates may panic
	r.floor("R07.15", 49)
	for _, m := range []string{"Read", "Find", "Write", "WriteSorted", "Values", "FindValues"} {
		conform(r, "R07.15", "proc/comp", "RAT", m, "risc_state", nil)
	}
	for _, m := range []string{"get", "set"} {
		conform(r, "R07.15", "proc/comp", "Line", m, "comp_cache", nil)
	}
	for _, m := range []string{"ExistingLines", "Get", "GetCacheLine", "GetSubCacheLine", "EvictCacheLine", "Write", "PushLine", "PushLineWithEvictionWarning", "Lines"} {
		conform(r, "R07.15", "proc/comp", "LRUCache", m, "comp_cache", nil)
	}
	ruleBusConformance(r, "R07.15")
	ruleCoroutineConformance(r, "R07.15")
	ruleSemConformance(r, "R07.15")
	r.floor("R07.18", 4)
	rulePendingKey(r, "R07.18")
	// R07.19: every buffered bus is connected once per cycle (the pipeline starves otherwise);
	// R07.20: the hold flag of an unresolved conditional branch is cleared on both outcomes
	r.floor("R07.19", 20)
	ruleBusesConnected(r, "R07.19")
	r.floor("R07.21", 4)
	ruleMutexPaired(r, "R07.21")
	r.floor("R07.22", 6)
	ruleReleaseForgets(r, "R07.22")
	r.floor("R07.20", 5)
	ruleBranchFlagCleared(r, "R07.20")
	// R07.16: the jump-resolution notification redirects unconditionally (livelock on a jalr whose target changes otherwise)
	r.floor("R07.16", 8)
	ruleJumpResolutionRedirects(r, "R07.16")
	// R07.10 (= R05.4a): a store routed to the cache on a presence test of fewer than all of its bytes is written past the line end (index out of range in Line.set)
	r.floor("R07.10", 7)
	for _, v := range variants(r.W) {
		if v.pkg == nil {
			continue
		}
		for _, f := range v.pkg.Syntax {
			for _, d := range f.Decls {
				fd, ok := d.(*ast.FuncDecl)
				if !ok || fd.Body == nil {
					continue
				}
				sig, _ := v.info.Defs[fd.Name].Type().(*types.Signature)
				if sig != nil && sig.Params().Len() == 1 && typeName(sig.Params().At(0).Type()) == "Execution" && sig.Results().Len() == 1 && typeName(sig.Results().At(0).Type()) == "bool" {
					r.check(storePresenceCoversAll(r.W, v, fd), "R07.10", fmt.Sprintf("%s.%s:all-bytes", v.rel, declName(fd)), fd.Pos(), "the presence test that routes a store to the cache looks up every byte address of the store (otherwise the cache write runs past the end of the line and panics)")
				}
			}
		}
	}
}

// ruleCyclesPositive: InstructionType.Cycles() returns a constant >= 1 on every
// path. The in-order execute units count it down and proceed when the counter
// reaches exactly zero (`remaining--; if remaining != 0 { return }`): a zero or
// negative latency never reaches zero and the run spins forever; the unpipelined
// variants add it to the cycle count (C12: the count accounts for every executed
// instruction).
func ruleCyclesPositive(r *Run, rule string) {
	fd, pk := r.W.Method("risc", "InstructionType", "Cycles")
	if fd == nil {
		r.undecided(rule, "risc.(InstructionType).Cycles", token.NoPos, "method not found")
		return
	}
	n, bad := 0, []string{}
	ast.Inspect(fd.Body, func(m ast.Node) bool {
		rs, ok := m.(*ast.ReturnStmt)
		if !ok || len(rs.Results) != 1 {
			return true
		}
		n++
		tv := pk.TypesInfo.Types[rs.Results[0]]
		v, ok := constInt64(tv)
		if !ok || v < 1 {
			bad = append(bad, r.W.pos(rs.Pos())+" returns "+types.ExprString(rs.Results[0]))
		}
		return true
	})
	r.check(n > 0 && len(bad) == 0, rule, "risc.(InstructionType).Cycles:positive", fd.Pos(), "all %d return values are constants >= 1 %v", n, bad)
}

// rulePcEndComparison: every comparison of a program counter with the number
// of instructions is an inequality. A flush or a resolved jump can set the pc
// to any instruction boundary, including exactly the end of the program, after
// which it is incremented: an equality test is then never true again and the
// unit never reports completion.
func rulePcEndComparison(r *Run, rule string) {
	w := r.W
	for _, v := range variants(w) {
		if v.pkg == nil {
			continue
		}
		for _, f := range v.pkg.Syntax {
			for _, d := range f.Decls {
				fd, ok := d.(*ast.FuncDecl)
				if !ok || fd.Body == nil {
					continue
				}
				n := 0
				ast.Inspect(fd.Body, func(m ast.Node) bool {
					b, ok := m.(*ast.BinaryExpr)
					if !ok {
						return true
					}
					switch b.Op {
					case token.EQL, token.NEQ, token.LSS, token.LEQ, token.GTR, token.GEQ:
					default:
						return true
					}
					mentionsLen := false
					for _, side := range []ast.Expr{b.X, b.Y} {
						ast.Inspect(side, func(k ast.Node) bool {
							if c, ok := k.(*ast.CallExpr); ok {
								if id, ok := c.Fun.(*ast.Ident); ok && id.Name == "len" && len(c.Args) == 1 {
									if sel, ok := ast.Unparen(c.Args[0]).(*ast.SelectorExpr); ok && sel.Sel.Name == "Instructions" {
										mentionsLen = true
									}
									// a parameter holding len(app.Instructions) is not tracked: helpers are inlined below
								}
							}
							return true
						})
					}
					if !mentionsLen {
						return true
					}
					n++
					key := fmt.Sprintf("%s.%s:cmp(len(Instructions))#%d", v.rel, declName(fd), n)
					r.check(b.Op != token.EQL && b.Op != token.NEQ, rule, key, b.Pos(), "the end-of-program test `%s` is an inequality", types.ExprString(b))
					return true
				})
			}
		}
	}
}

// ruleLineSpan (R07.12): in the variants whose data path handles one cache line per
// access (per-line locks and protocol state selected from the FIRST byte address of
// the access), something on the request path must look at the other byte addresses
// too — align each of them, or compare the line of the first with the line of the
// last — because the ISA layer produces accesses at any address: `lw t0, 62(zero)`
// spans two 64-byte lines. Without any such site the bytes beyond the first line
// are read from / written to the first line's buffer (panic "value presence should
// have been checked first" / index out of range).
func ruleLineSpan(r *Run, rule string) {
	w := r.W
	for _, v := range variants(w) {
		if v.pkg == nil || !v.pipelined() || !usesLineLocks(w, v) {
			continue
		}
		info := v.info
		pe := newProvEngine(w, v.pkg)
		isAlign := func(call *ast.CallExpr) bool {
			f, ok := typeutil.Callee(info, call).(*types.Func)
			if !ok {
				return false
			}
			if _, ok := pe.alignmentFunc(f); ok {
				return true
			}
			_, ok = pe.alignParam(f)
			return ok
		}
		var sites []string
		firstOnly := 0
		for _, f := range v.pkg.Syntax {
			ast.Inspect(f, func(n ast.Node) bool {
				switch x := n.(type) {
				case *ast.RangeStmt:
					sl, ok := info.TypeOf(x.X).Underlying().(*types.Slice)
					if !ok || x.Value == nil {
						return true
					}
					if b, ok := sl.Elem().Underlying().(*types.Basic); !ok || b.Kind() != types.Int32 {
						return true
					}
					vid, ok := x.Value.(*ast.Ident)
					if !ok {
						return true
					}
					vobj := info.Defs[vid]
					ast.Inspect(x.Body, func(m ast.Node) bool {
						if call, ok := m.(*ast.CallExpr); ok && isAlign(call) {
							uses := false
							ast.Inspect(call, func(k ast.Node) bool {
								if id, ok := k.(*ast.Ident); ok && info.Uses[id] == vobj {
									uses = true
								}
								return true
							})
							if uses {
								sites = append(sites, w.Fset.Position(call.Pos()).String())
							}
						}
						if be, ok := m.(*ast.BinaryExpr); ok && be.Op == token.REM {
							if id, ok := ast.Unparen(be.X).(*ast.Ident); ok && info.Uses[id] == vobj {
								sites = append(sites, w.Fset.Position(be.Pos()).String())
							}
						}
						return true
					})
				case *ast.CallExpr:
					if !isAlign(x) {
						return true
					}
					// an argument that selects an element other than the first
					for _, a := range x.Args {
						ast.Inspect(a, func(k ast.Node) bool {
							if ix, ok := k.(*ast.IndexExpr); ok {
								if sl, ok := info.TypeOf(ix.X).Underlying().(*types.Slice); ok {
									if b, ok := sl.Elem().Underlying().(*types.Basic); ok && b.Kind() == types.Int32 {
										if c, ok := constInt64(info.Types[ix.Index]); !ok || c != 0 {
											sites = append(sites, w.Fset.Position(ix.Pos()).String())
										}
									}
								}
							}
							return true
						})
					}
					firstOnly++
				}
				return true
			})
		}
		sort.Strings(sites)
		r.check(len(sites) > 0, rule, v.rel+":line-span", v.run.Pos(), "the data path selects one line from the first byte address of an access (%d alignment calls); some site must align or compare the other byte addresses, because an access may span two lines (sites found: %v)", firstOnly, sites)
	}
}

// ruleDrainLoopsConnect (R07.13): a loop that runs until a buffered bus is empty
// (`for … !bus.IsEmpty() …`) must itself move the bus's buffered entries to its
// queue (bus.Connect) on every iteration: IsEmpty() also counts the buffer, the
// consumers only read the queue, and a Connect done once before the loop
// transfers at most one queue-full. With more buffered results than the queue
// holds the loop never ends.
func ruleDrainLoopsConnect(r *Run, rule string) {
	w := r.W
	for _, v := range variants(w) {
		if v.pkg == nil || !v.pipelined() {
			continue
		}
		info := v.info
		n := 0
		// every function of the variant (the loops may live in helpers of Run), in source order
		var bodies []ast.Node
		for _, f := range v.pkg.Syntax {
			for _, d := range f.Decls {
				if fd, ok := d.(*ast.FuncDecl); ok && fd.Body != nil {
					bodies = append(bodies, fd.Body)
				}
			}
		}
		sort.Slice(bodies, func(i, j int) bool {
			pi, pj := w.Fset.Position(bodies[i].Pos()), w.Fset.Position(bodies[j].Pos())
			if pi.Filename != pj.Filename {
				return pi.Filename < pj.Filename
			}
			return pi.Offset < pj.Offset
		})
		for _, body := range bodies {
			ast.Inspect(body, func(m ast.Node) bool {
				fs, ok := m.(*ast.ForStmt)
				if !ok || fs.Cond == nil {
					return true
				}
				// buses whose non-emptiness keeps the loop running
				var buses []*fieldRole
				ast.Inspect(fs.Cond, func(k ast.Node) bool {
					call, ok := k.(*ast.CallExpr)
					if !ok {
						return true
					}
					sel, ok := call.Fun.(*ast.SelectorExpr)
					if !ok || sel.Sel.Name != "IsEmpty" || !isCompType(info.TypeOf(sel.X), "BufferedBus") {
						return true
					}
					if f := v.busFieldOf(sel.X); f != nil {
						buses = append(buses, f)
					}
					return true
				})
				for _, b := range buses {
					n++
					connects := false
					ast.Inspect(fs.Body, func(k ast.Node) bool {
						if call, ok := k.(*ast.CallExpr); ok {
							if sel, ok := call.Fun.(*ast.SelectorExpr); ok && sel.Sel.Name == "Connect" {
								if f := v.busFieldOf(sel.X); f != nil && f.obj == b.obj {
									connects = true
								}
							}
						}
						return true
					})
					r.check(connects, rule, fmt.Sprintf("%s:drain(%s)#%d", v.rel, b.name, n), fs.Pos(), "the loop waits for the buffered bus %s to be empty and moves its buffered entries to the queue (Connect) in its body", b.name)
				}
				return true
			})
		}
	}
}

// ruleLocksHeldAcrossSteps (R07.14): a mutex acquired in one coroutine step and
// released in a LATER step (its Unlock sits in a closure nested below the
// acquisition) is held across cycles. A pipeline flush resets the coroutine
// between the two steps, so the unit's flush must be able to release the lock: the
// acquired mutex is stored in a field of the unit and flush unlocks that field.
// Otherwise the line stays locked for ever and the next access to it spins.
func ruleLocksHeldAcrossSteps(r *Run, rule string) {
	w := r.W
	for _, v := range variants(w) {
		if v.pkg == nil || !v.pipelined() {
			continue
		}
		info := v.info
		for _, f := range v.pkg.Syntax {
			for _, d := range f.Decls {
				fd, ok := d.(*ast.FuncDecl)
				if !ok || fd.Body == nil || fd.Recv == nil {
					continue
				}
				n := 0
				// walk closures with depth
				var walk func(node ast.Node, depth int, acquired map[types.Object]int, acqPos map[types.Object]token.Pos)
				type held struct {
					obj types.Object
					pos token.Pos
				}
				var helds []held
				walk = func(node ast.Node, depth int, acquired map[types.Object]int, acqPos map[types.Object]token.Pos) {
					ast.Inspect(node, func(m ast.Node) bool {
						if m == nil || m == node {
							return true
						}
						if lit, ok := m.(*ast.FuncLit); ok {
							walk(lit.Body, depth+1, acquired, acqPos)
							return false
						}
						call, ok := m.(*ast.CallExpr)
						if !ok {
							return true
						}
						sel, ok := call.Fun.(*ast.SelectorExpr)
						if !ok {
							return true
						}
						id, ok := ast.Unparen(sel.X).(*ast.Ident)
						if !ok {
							return true
						}
						fn, ok := typeutil.Callee(info, call).(*types.Func)
						if !ok || fn.Pkg() == nil || fn.Pkg().Path() != "sync" {
							return true
						}
						obj := info.Uses[id]
						switch fn.Name() {
						case "TryLock", "Lock":
							if _, seen := acquired[obj]; !seen {
								acquired[obj] = depth
								acqPos[obj] = call.Pos()
							}
						case "Unlock":
							if d0, seen := acquired[obj]; seen && depth > d0 {
								already := false
								for _, h := range helds {
									if h.obj == obj {
										already = true
									}
								}
								if !already {
									helds = append(helds, held{obj, acqPos[obj]})
								}
							}
						}
						return true
					})
				}
				walk(fd.Body, 0, map[types.Object]int{}, map[types.Object]token.Pos{})
				for _, h := range helds {
					n++
					// stored in a field of the receiver?
					var field types.Object
					ast.Inspect(fd.Body, func(m ast.Node) bool {
						as, ok := m.(*ast.AssignStmt)
						if !ok || len(as.Lhs) != 1 || len(as.Rhs) != 1 {
							return true
						}
						rid, ok := ast.Unparen(as.Rhs[0]).(*ast.Ident)
						if !ok || info.Uses[rid] != h.obj {
							return true
						}
						if sel, ok := ast.Unparen(as.Lhs[0]).(*ast.SelectorExpr); ok {
							if s := info.Selections[sel]; s != nil && s.Kind() == types.FieldVal {
								field = s.Obj()
							}
						}
						return true
					})
					released := false
					if field != nil {
						// a flush method of the same receiver type unlocks the field
						recvT := namedOf(info.TypeOf(fd.Recv.List[0].Type))
						if recvT != nil {
							if fl := hasMethodNamed(recvT, "flush", "Flush"); fl != nil {
								if ffd, _ := w.FuncDecl(fl); ffd != nil && ffd.Body != nil {
									ast.Inspect(ffd.Body, func(m ast.Node) bool {
										if call, ok := m.(*ast.CallExpr); ok {
											if sel, ok := call.Fun.(*ast.SelectorExpr); ok && sel.Sel.Name == "Unlock" {
												if s2, ok := ast.Unparen(sel.X).(*ast.SelectorExpr); ok {
													if s := info.Selections[s2]; s != nil && s.Obj() == field {
														released = true
													}
												}
											}
										}
										return true
									})
								}
							}
						}
					}
					r.check(released, rule, fmt.Sprintf("%s.%s:held-across-steps#%d", v.rel, declName(fd), n), h.pos, "a mutex acquired in one coroutine step and released in a later one is recorded in a field of the unit (%v) that the unit's flush unlocks (%v): a flush between the two steps must not leave the line locked", field != nil, released)
				}
			}
		}
	}
}

// ruleUnitErrorsInspected (R07.17): an execute unit reports an ISA-defined error
// (division by zero, undefined label) in the `err` field of its step result. Every
// step performed by Run — in the main loop, in the drain before a flush, in the
// drain at ret and in the drain after the loop — must inspect that field; a
// discarded result turns the error into a normal return with a wrong state.
func ruleUnitErrorsInspected(r *Run, rule string) {
	w := r.W
	for _, v := range variants(w) {
		if v.pkg == nil || !v.pipelined() {
			continue
		}
		info := v.info
		n := 0
		hasErrField := func(t types.Type) bool {
			st, ok := t.Underlying().(*types.Struct)
			if !ok {
				return false
			}
			for i := 0; i < st.NumFields(); i++ {
				if isErrorType(st.Field(i).Type()) {
					return true
				}
			}
			return false
		}
		var visit func(list []ast.Stmt)
		visit = func(list []ast.Stmt) {
			for i, st := range list {
				// nested statement lists
				ast.Inspect(st, func(m ast.Node) bool {
					switch x := m.(type) {
					case *ast.BlockStmt:
						if ast.Node(x) != ast.Node(st) {
							visit(x.List)
							return false
						}
					case *ast.CaseClause:
						visit(x.Body)
						return false
					case *ast.FuncLit:
						return false
					}
					return true
				})
				// a unit step at this level
				var call *ast.CallExpr
				var bound types.Object
				discarded := false
				switch x := st.(type) {
				case *ast.ExprStmt:
					if c, ok := x.X.(*ast.CallExpr); ok {
						call, discarded = c, true
					}
				case *ast.AssignStmt:
					if len(x.Rhs) == 1 && len(x.Lhs) == 1 {
						if c, ok := x.Rhs[0].(*ast.CallExpr); ok {
							call = c
							if id, ok := x.Lhs[0].(*ast.Ident); ok {
								if id.Name == "_" {
									discarded = true
								} else if o := info.Defs[id]; o != nil {
									bound = o
								} else {
									bound = info.Uses[id]
								}
							}
						}
					}
				}
				if call == nil {
					continue
				}
				tv, ok := info.Types[call]
				if !ok || tv.Type == nil || !hasErrField(tv.Type) {
					continue
				}
				n++
				key := fmt.Sprintf("%s.(CPU).Run:unit-step#%d", v.rel, n)
				inspected := false
				if !discarded && bound != nil {
					for _, later := range list[i+1:] {
						ast.Inspect(later, func(m ast.Node) bool {
							if sel, ok := m.(*ast.SelectorExpr); ok {
								if id, ok := ast.Unparen(sel.X).(*ast.Ident); ok && info.Uses[id] == bound {
									if s := info.Selections[sel]; s != nil && isErrorType(s.Obj().Type()) {
										inspected = true
									}
								}
							}
							return true
						})
					}
				}
				r.check(inspected, rule, key, call.Pos(), "the result of a unit step that can carry an error is bound and its error field inspected (discarded: %v)", discarded)
			}
		}
		visit(v.run.Body.List)
	}
}

// rulePendingKey (R07.18): the data-cache probe registers a pending line fetch that the
// caller later completes by fetching and inserting the line of the FIRST address of
// the access (pushLine… removes the pending entry whose start equals that address).
// The entry must therefore be registered under the first address of the probed list,
// not under the first MISSING byte: for an access whose leading bytes are resident
// the two differ, the entry is never removed and every later load in its range
// waits for ever.
func rulePendingKey(r *Run, rule string) {
	w := r.W
	for _, v := range variants(w) {
		if v.pkg == nil || !v.pipelined() {
			continue
		}
		info := v.info
		for _, f := range v.pkg.Syntax {
			for _, d := range f.Decls {
				fd, ok := d.(*ast.FuncDecl)
				if !ok || fd.Body == nil || fd.Type.Params == nil {
					continue
				}
				// the []int32 parameter
				var list types.Object
				for _, fl := range fd.Type.Params.List {
					if sl, ok := info.TypeOf(fl.Type).Underlying().(*types.Slice); ok {
						if b, ok := sl.Elem().Underlying().(*types.Basic); ok && b.Kind() == types.Int32 && len(fl.Names) == 1 {
							list = info.Defs[fl.Names[0]]
						}
					}
				}
				if list == nil {
					continue
				}
				n := 0
				ast.Inspect(fd.Body, func(m ast.Node) bool {
					call, ok := m.(*ast.CallExpr)
					if !ok || len(call.Args) != 2 {
						return true
					}
					if id, ok := call.Fun.(*ast.Ident); !ok || id.Name != "append" {
						return true
					}
					cl, ok := ast.Unparen(call.Args[1]).(*ast.CompositeLit)
					if !ok || len(cl.Elts) != 2 {
						return true
					}
					if at, ok := info.TypeOf(cl).Underlying().(*types.Array); !ok || at.Len() != 2 {
						return true
					}
					// the appended-to slice is a field of the receiver
					if sel, ok := ast.Unparen(call.Args[0]).(*ast.SelectorExpr); !ok || info.Selections[sel] == nil {
						return true
					}
					n++
					first := ast.Unparen(cl.Elts[0])
					good := false
					if ix, ok := first.(*ast.IndexExpr); ok {
						if id, ok := ast.Unparen(ix.X).(*ast.Ident); ok && info.Uses[id] == list {
							if c, ok := constInt64(info.Types[ix.Index]); ok && c == 0 {
								good = true
							}
						}
					}
					r.check(good, rule, fmt.Sprintf("%s.%s:pending-start#%d", v.rel, declName(fd), n), call.Pos(), "the pending fetch is registered under the first address of the access — the address its line is later inserted (and the entry removed) under — not under the first missing byte (registered start: %s)", types.ExprString(first))
					return true
				})
			}
		}
	}
}
