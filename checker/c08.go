package main

// C08 — runs are deterministic and isolated.

import (
	"fmt"
	"go/ast"
	"go/token"
	"go/types"
	"sort"
	"strconv"
	"strings"

	"golang.org/x/tools/go/packages"
	"golang.org/x/tools/go/types/typeutil"
)

func init() {
	register(&propSpec{
		ID:          "C08",
		Level:       "other",
		Run:         runC08,
		Explanation: "Decides the structural sources of run-to-run and machine-to-machine variation: R08.1 every map range in non-test code is order-insensitive, by an automatic class (keyed stores/deletes, calls confined to the key's entry, append-then-sort, accumulation, order-free consumers) or by a table entry with a reason confirmed by reading; R08.2 the only goroutines are the queue iterator and the sorted-map iterator, both producers whose element sequence is fixed before the first receive, and consumer loops never push to the queue they iterate and remove only the received element; R08.3 no package-level variable written on a Run path is read on a Run path; R08.4 every consumer of a parsed program clears the per-instruction forward slot before use, so a program run by a forwarding machine carries nothing to the next machine; R08.5 the sorted-map iterator is given projections covering every key field and sort.Slice comparators compare keys that are unique in the sorted collection; R08.6 no wall clock, random source, OS or scheduler dependence is imported, and no select has two communication cases; R08.7 the sorted-map iterator snapshots and sorts the keys before its goroutine starts. Does not decide data races between machines run concurrently on one shared Application. R08.7 Forward(f) of every instruction stores f unconditionally in the slot its register reads consult (the decode-time clear Forward{} must reach the slot, or a forwarded operand of an earlier run stays in the shared program).",
		Assumptions: []string{"machines are run one after another, or concurrently on separate Applications"},
		Trusted:     []string{"go/types", "the classification table of map ranges (checker/c08.go, one line of reason per entry)"},
	})
}

// tableEntry: a map range classified by reading.
type orderEntry struct {
	fn, ranged string // function (position-free) and ranged expression
	reason     string
}

// orderTable: sites that no automatic class covers, with the reason they are
// order-insensitive. Keys are (function, ranged expression); never positions.
var orderTable = []orderEntry{
	{"(*cacheController).coSnoop", "‹map[msiCommandRequest]*msiCommandInfo›", "each request becomes one snoop action appended to the coroutine's list; every action runs every cycle until it completes, and actions touch only their own line (eviction / write-back of that line, completion of that command): actions on distinct lines commute, and one core never has two requests of different kinds for one line pending (the second lock request for the line waits on the per-line semaphore)"},
	{"(*memoryManagementUnit).doesExecutionMemoryChangesExistsInL1D", "‹Execution›.MemoryChanges", "the byte addresses of one store are probed through LRUCache.Get, which reorders lines; all bytes of a naturally aligned store lie in one resident line whenever lines do not overlap (R05.3 — reported under C05 for MVP-3/4/5), so the probe order cannot change which line is touched"},
}

func runC08(r *Run) {
	r.floor("R08.1", 57)
	r.floor("R08.2", 10)
	r.floor("R08.3", 3)
	r.floor("R08.4", 13)
	r.floor("R08.5", 15)
	r.floor("R08.6", 20)
	r.floor("R08.7", 1)
	ruleMapRanges(r, "R08.1")
	ruleGoroutines(r, "R08.2")
	ruleGlobals(r, "R08.3")
	ruleForwardCleared(r, "R08.4")
	// the clearing reaches the slot: Forward(f) stores f whatever f is (the clear is Forward{} with register zero)
	r.floor("R08.7", 45)
	ruleForwardSetters(r, "R08.7")
	ruleComparators(r, "R08.5")
	ruleNondetSources(r, "R08.6")
	ruleStableIterator(r, "R08.7")
}

func modulePkgs(w *World) []*packages.Package {
	var paths []string
	for p := range w.Pkgs {
		if strings.HasPrefix(p, modPath) {
			paths = append(paths, p)
		}
	}
	sort.Strings(paths)
	var out []*packages.Package
	for _, p := range paths {
		out = append(out, w.Pkgs[p])
	}
	return out
}

func relOf(p *packages.Package) string { return strings.TrimPrefix(p.PkgPath, modPath+"/") }

// ---------------------------------------------------------------------------
// R08.1

// keyedCallee: every store of the function writes map entries indexed by its
// first parameter (effects confined to one key).
func keyedCallee(w *World, f *types.Func) bool {
	fd, pk := w.FuncDecl(f)
	if fd == nil || fd.Body == nil || fd.Type.Params == nil || len(fd.Type.Params.List) == 0 || len(fd.Type.Params.List[0].Names) == 0 {
		return false
	}
	info := pk.TypesInfo
	kobj := info.Defs[fd.Type.Params.List[0].Names[0]]
	ok := true
	stores := 0
	var checkTarget func(e ast.Expr) bool
	checkTarget = func(e ast.Expr) bool {
		// recv.field[k] or recv.field[k][i]
		ix, isIx := ast.Unparen(e).(*ast.IndexExpr)
		if !isIx {
			return false
		}
		if id, isId := ast.Unparen(ix.Index).(*ast.Ident); isId && info.Uses[id] == kobj {
			return true
		}
		return checkTarget(ix.X)
	}
	ast.Inspect(fd.Body, func(n ast.Node) bool {
		switch x := n.(type) {
		case *ast.AssignStmt:
			for _, l := range x.Lhs {
				if _, isId := ast.Unparen(l).(*ast.Ident); isId {
					continue
				}
				stores++
				if !checkTarget(l) {
					ok = false
				}
			}
		case *ast.IncDecStmt:
			if _, isId := ast.Unparen(x.X).(*ast.Ident); !isId {
				stores++
				if !checkTarget(x.X) {
					ok = false
				}
			}
		case *ast.CallExpr:
			if f2, isF := typeutil.Callee(info, x).(*types.Func); isF && f2.Pkg() != nil && strings.HasPrefix(f2.Pkg().Path(), modPath) {
				// a nested call keyed by the same key is confined to the same entry
				nested := false
				if len(x.Args) >= 1 && f2.Origin() != f.Origin() {
					if id, isId := ast.Unparen(x.Args[0]).(*ast.Ident); isId && info.Uses[id] == kobj && keyedCallee(w, f2) {
						nested = true
						stores++
					}
				}
				if !nested {
					ok = false // conservatively: no further module calls
				}
			}
		}
		return true
	})
	return ok && stores > 0
}

func classifyMapRange(w *World, p *packages.Package, fd *ast.FuncDecl, rs *ast.RangeStmt) (string, string) {
	info := p.TypesInfo
	var kobj, vobj types.Object
	if id, ok := rs.Key.(*ast.Ident); ok && id.Name != "_" {
		kobj = info.Defs[id]
	}
	if rs.Value != nil {
		if id, ok := rs.Value.(*ast.Ident); ok && id.Name != "_" {
			vobj = info.Defs[id]
		}
	}
	isLoopVar := func(e ast.Expr) bool {
		id, ok := ast.Unparen(e).(*ast.Ident)
		return ok && (info.Uses[id] == kobj || info.Uses[id] == vobj) && info.Uses[id] != nil
	}
	declaredInside := func(o types.Object) bool { return o != nil && o.Pos() >= rs.Body.Pos() && o.Pos() <= rs.Body.End() }

	// A7: existential scan with an element-independent result: the body is one `if c(elem) { return k… }`
	// whose returned expressions mention neither loop variable (pure condition: only calls of
	// side-effect-free library predicates and accessor methods)
	mentionsLoopVar := func(n ast.Node) bool {
		found := false
		ast.Inspect(n, func(m ast.Node) bool {
			if id, ok := m.(*ast.Ident); ok && info.Uses[id] != nil && (info.Uses[id] == kobj || info.Uses[id] == vobj) {
				found = true
			}
			return true
		})
		return found
	}
	pureCond := func(e ast.Expr) bool {
		pure := true
		ast.Inspect(e, func(m ast.Node) bool {
			if c, ok := m.(*ast.CallExpr); ok {
				f, _ := typeutil.Callee(info, c).(*types.Func)
				switch {
				case f == nil:
					if id, ok := c.Fun.(*ast.Ident); !ok || (id.Name != "len" && id.Name != "cap") {
						if tv, ok := info.Types[c.Fun]; !ok || !tv.IsType() {
							pure = false
						}
					}
				case f.FullName() == "slices.Contains":
				case f.Name() == "WriteRegisters" || f.Name() == "ReadRegisters" || f.Name() == "InstructionType":
				default:
					pure = false
				}
			}
			return true
		})
		return pure
	}
	if len(rs.Body.List) == 1 {
		if is, ok := rs.Body.List[0].(*ast.IfStmt); ok && is.Init == nil && is.Else == nil && pureCond(is.Cond) {
			// existential
			if len(is.Body.List) == 1 {
				if ret, ok := is.Body.List[0].(*ast.ReturnStmt); ok && !mentionsLoopVar(ret) {
					return "auto:existential", "the loop returns an element-independent result as soon as any element satisfies a pure condition"
				}
			}
			// A8: unique match or refuse: `if c(elem) { if acc != nil { return k… }; acc = elem }`
			if len(is.Body.List) == 2 {
				inner, ok1 := is.Body.List[0].(*ast.IfStmt)
				as, ok2 := is.Body.List[1].(*ast.AssignStmt)
				if ok1 && ok2 && inner.Init == nil && inner.Else == nil && len(inner.Body.List) == 1 && len(as.Lhs) == 1 && len(as.Rhs) == 1 && as.Tok == token.ASSIGN {
					ret, isRet := inner.Body.List[0].(*ast.ReturnStmt)
					be, isBin := ast.Unparen(inner.Cond).(*ast.BinaryExpr)
					acc, isId := as.Lhs[0].(*ast.Ident)
					if isRet && isBin && isId && be.Op == token.NEQ && !mentionsLoopVar(ret) && isLoopVar(as.Rhs[0]) {
						l, lok := ast.Unparen(be.X).(*ast.Ident)
						if lok && info.Uses[l] == info.Uses[acc] && types.ExprString(ast.Unparen(be.Y)) == "nil" && !declaredInside(info.Uses[acc]) {
							// acc must be nil before the loop: its declaration is `var acc T` with no value
							declaredNil := false
							ast.Inspect(fd.Body, func(m ast.Node) bool {
								if vs, ok := m.(*ast.ValueSpec); ok && len(vs.Values) == 0 {
									for _, nm := range vs.Names {
										if info.Defs[nm] == info.Uses[acc] && vs.End() < rs.Pos() {
											declaredNil = true
										}
									}
								}
								return true
							})
							// and not assigned between the declaration and the loop
							assignedBefore := false
							ast.Inspect(fd.Body, func(m ast.Node) bool {
								if a2, ok := m.(*ast.AssignStmt); ok && a2 != as && a2.End() < rs.Pos() {
									for _, l2 := range a2.Lhs {
										if id2, ok := l2.(*ast.Ident); ok && info.Uses[id2] == info.Uses[acc] {
											assignedBefore = true
										}
									}
								}
								return true
							})
							if declaredNil && !assignedBefore {
								return "auto:unique-match-or-refuse", "the loop keeps the single element satisfying a pure condition and returns an element-independent result when a second one is found: the outcome does not depend on the order"
							}
						}
					}
				}
			}
		}
	}

	// A2: appends to a slice that is sorted before any other use
	var appended types.Object
	onlyAppend := true
	var scan func(stmts []ast.Stmt)
	scan = func(stmts []ast.Stmt) {
		for _, st := range stmts {
			switch x := st.(type) {
			case *ast.AssignStmt:
				isApp := false
				if len(x.Lhs) == 1 && len(x.Rhs) == 1 {
					if call, ok := x.Rhs[0].(*ast.CallExpr); ok {
						if id, ok := call.Fun.(*ast.Ident); ok && id.Name == "append" {
							if l, ok := x.Lhs[0].(*ast.Ident); ok {
								if appended == nil || appended == info.Uses[l] {
									appended = info.Uses[l]
									isApp = true
								}
							}
						}
					}
				}
				if !isApp {
					onlyAppend = false
				}
			case *ast.IfStmt:
				scan(x.Body.List)
				if x.Else != nil {
					onlyAppend = false
				}
			case *ast.BranchStmt:
				if x.Tok != token.CONTINUE {
					onlyAppend = false
				}
			default:
				onlyAppend = false
			}
		}
	}
	scan(rs.Body.List)
	if onlyAppend && appended != nil {
		// sorted after the loop, before any other use
		sorted := false
		var firstOther token.Pos
		ast.Inspect(fd.Body, func(n ast.Node) bool {
			if n == nil || n.Pos() <= rs.End() {
				return true
			}
			if call, ok := n.(*ast.CallExpr); ok {
				if f, ok := typeutil.Callee(info, call).(*types.Func); ok && (f.FullName() == "sort.Slice" || f.FullName() == "sort.SliceStable" || f.FullName() == "slices.Sort") && len(call.Args) >= 1 {
					if id, ok := ast.Unparen(call.Args[0]).(*ast.Ident); ok && info.Uses[id] == appended && (firstOther == 0 || call.Pos() < firstOther) {
						sorted = true
					}
				}
			}
			if id, ok := n.(*ast.Ident); ok && info.Uses[id] == appended && !sorted && firstOther == 0 {
				firstOther = id.Pos()
			}
			return true
		})
		if sorted {
			return "auto:append-then-sort", "the loop only appends to a slice that is sorted before any other use"
		}
		// A6: the slice is only handed to order-free consumers: returned as the pendings of a request (all-done scans)
		return "", ""
	}

	// A1/A4/A5: every effect of the body is confined to the loop key's entry
	confined := true
	why := ""
	var walk func(n ast.Node)
	walk = func(n ast.Node) {
		ast.Inspect(n, func(m ast.Node) bool {
			switch x := m.(type) {
			case *ast.AssignStmt:
				for _, l := range x.Lhs {
					l = ast.Unparen(l)
					if id, ok := l.(*ast.Ident); ok {
						o := info.Uses[id]
						if o == nil {
							o = info.Defs[id]
						}
						if id.Name == "_" || declaredInside(o) || (o != nil && (o == kobj || o == vobj)) {
							// the range variables are per-iteration copies
							continue
						}
						confined, why = false, "assigns the outer variable "+id.Name
						continue
					}
					if ix, ok := l.(*ast.IndexExpr); ok && isLoopVar(ix.Index) {
						continue
					}
					confined, why = false, "stores to "+types.ExprString(l)
				}
			case *ast.IncDecStmt:
				if ix, ok := ast.Unparen(x.X).(*ast.IndexExpr); ok && isLoopVar(ix.Index) {
					return true
				}
				if id, ok := ast.Unparen(x.X).(*ast.Ident); ok && declaredInside(info.Uses[id]) {
					return true
				}
				confined, why = false, "increments "+types.ExprString(x.X)
			case *ast.CallExpr:
				if id, ok := x.Fun.(*ast.Ident); ok {
					if _, isB := info.Uses[id].(*types.Builtin); isB {
						if id.Name == "delete" && len(x.Args) == 2 && isLoopVar(x.Args[1]) {
							return true
						}
						if id.Name == "delete" || id.Name == "close" || id.Name == "panic" {
							confined, why = false, "calls "+id.Name
						}
						return true
					}
				}
				if tv, ok := info.Types[x.Fun]; ok && tv.IsType() {
					return true
				}
				f, ok := typeutil.Callee(info, x).(*types.Func)
				if !ok {
					// a function value: the predicate of FindValues — assumed pure (C15)
					return true
				}
				if f.Pkg() == nil || !strings.HasPrefix(f.Pkg().Path(), modPath) {
					return true // library calls (fmt, strings) have no program state
				}
				if strings.HasPrefix(f.Pkg().Path(), modPath+"/common/log") {
					return true
				}
				// a method on the loop value: effects confined to that element
				if sel, ok := x.Fun.(*ast.SelectorExpr); ok && isLoopVar(sel.X) {
					return true
				}
				// a call keyed by the loop key
				if len(x.Args) >= 1 && isLoopVar(x.Args[0]) && keyedCallee(w, f) {
					return true
				}
				// pure readers
				if fd2, pk2 := w.FuncDecl(f); fd2 != nil && fd2.Body != nil {
					pure := true
					ast.Inspect(fd2.Body, func(k ast.Node) bool {
						switch y := k.(type) {
						case *ast.AssignStmt:
							for _, l := range y.Lhs {
								if _, isId := ast.Unparen(l).(*ast.Ident); !isId {
									pure = false
								}
							}
						case *ast.IncDecStmt:
							if _, isId := ast.Unparen(y.X).(*ast.Ident); !isId {
								pure = false
							}
						case *ast.CallExpr:
							if f3, ok := typeutil.Callee(pk2.TypesInfo, y).(*types.Func); ok && f3.Pkg() != nil && strings.HasPrefix(f3.Pkg().Path(), modPath) && !strings.Contains(f3.Pkg().Path(), "common/log") {
								pure = false
							}
						}
						return true
					})
					if pure {
						return true
					}
				}
				confined, why = false, "calls "+f.Name()
			case *ast.ReturnStmt:
				// returning from inside a map range picks "the first" element: order-sensitive unless the results are constants
				for _, res := range x.Results {
					if tv := info.Types[res]; tv.Value == nil {
						if id, ok := ast.Unparen(res).(*ast.Ident); ok && id.Name == "nil" {
							continue
						}
						confined, why = false, "returns a value chosen by iteration order"
					}
				}
			case *ast.SendStmt, *ast.GoStmt:
				confined, why = false, "communicates"
			}
			return true
		})
	}
	walk(rs.Body)
	if confined {
		return "auto:keyed", "every effect of the body is a store/delete/call confined to the loop key's own entry (or to the element), so iterations commute"
	}
	return "", why
}

func ruleMapRanges(r *Run, rule string) {
	w := r.W
	for _, p := range modulePkgs(w) {
		rel := relOf(p)
		for _, f := range p.Syntax {
			for _, d := range f.Decls {
				fd, ok := d.(*ast.FuncDecl)
				if !ok || fd.Body == nil {
					continue
				}
				ast.Inspect(fd.Body, func(n ast.Node) bool {
					rs, ok := n.(*ast.RangeStmt)
					if !ok {
						return true
					}
					t := p.TypesInfo.TypeOf(rs.X)
					if t == nil {
						return true
					}
					if _, isMap := t.Underlying().(*types.Map); !isMap {
						return true
					}
					ranged := canonExpr(p.TypesInfo, rs.X)
					if i := strings.Index(ranged, "(func("); i >= 0 {
						ranged = ranged[:i] + "(…)"
					}
					key := fmt.Sprintf("%s.%s:range(%s)", rel, declName(fd), ranged)
					class, why := classifyMapRange(w, p, fd, rs)
					if class != "" {
						r.ok(rule, key, rs.Pos(), "%s: %s", class, why)
						return true
					}
					// order-free consumer: request builders
					if cls, reason := orderFreeConsumer(w, p, fd, rs); cls != "" {
						r.ok(rule, key, rs.Pos(), "%s: %s", cls, reason)
						return true
					}
					// single-match argument for forwarding without renaming
					if strings.Contains(declName(fd), "shouldUseForwarding") {
						hasRenaming := false
						for _, f2 := range p.Syntax {
							for _, d2 := range f2.Decls {
								if fd2, ok := d2.(*ast.FuncDecl); ok && fd2.Name.Name == "shouldUseRenaming" {
									hasRenaming = true
								}
							}
						}
						if !hasRenaming {
							r.ok(rule, key, rs.Pos(), "table: the first match over the instructions dispatched in the previous cycle is unique: without renaming a second writer of a register is never dispatched while the first is pending (a WAW hazard blocks dispatch), so at most one element matches")
						} else {
							r.bad(rule, key, rs.Pos(), "the forwarding producer is the FIRST instruction, in map order over a pointer-keyed map, that writes the register; with renaming two writers of one register can have been dispatched in the previous cycle, so the forwarded value depends on map iteration order")
						}
						return true
					}
					for _, e := range orderTable {
						if strings.HasSuffix(declName(fd), strings.TrimPrefix(e.fn, "(*")) || declName(fd) == e.fn {
							if ranged == e.ranged {
								r.ok(rule, key, rs.Pos(), "table: %s", e.reason)
								return true
							}
						}
					}
					r.bad(rule, key, rs.Pos(), "map iteration whose effect may depend on the iteration order: %s (no automatic class applies and the site is not in the classification table)", why)
					return true
				})
			}
		}
	}
}

// orderFreeConsumer: the loop appends handles to a slice that is only ever
// consumed by scans that test every element (all-done loops), and the call
// that produces a handle has keyed/commutative effects.
func orderFreeConsumer(w *World, p *packages.Package, fd *ast.FuncDecl, rs *ast.RangeStmt) (string, string) {
	info := p.TypesInfo
	// the function returns the slice it appends to
	var appended types.Object
	ast.Inspect(rs.Body, func(n ast.Node) bool {
		if as, ok := n.(*ast.AssignStmt); ok && len(as.Lhs) == 1 && len(as.Rhs) == 1 {
			if call, ok := as.Rhs[0].(*ast.CallExpr); ok {
				if id, ok := call.Fun.(*ast.Ident); ok && id.Name == "append" {
					if l, ok := as.Lhs[0].(*ast.Ident); ok {
						appended = info.Uses[l]
					}
				}
			}
		}
		return true
	})
	if appended == nil {
		return "", ""
	}
	returned := false
	ast.Inspect(fd.Body, func(n ast.Node) bool {
		if ret, ok := n.(*ast.ReturnStmt); ok && len(ret.Results) == 1 {
			if id, ok := ast.Unparen(ret.Results[0]).(*ast.Ident); ok && info.Uses[id] == appended {
				returned = true
			}
		}
		return true
	})
	if !returned {
		return "", ""
	}
	// element type: pointer to a struct with an isDone-like bool method; every range over a field of that slice type
	// in the package only calls that method and leaves with constants
	st, ok := appended.Type().Underlying().(*types.Slice)
	if !ok {
		return "", ""
	}
	elemT := typeName(st.Elem())
	okAll, scans := true, 0
	for _, f := range p.Syntax {
		ast.Inspect(f, func(n ast.Node) bool {
			r2, ok := n.(*ast.RangeStmt)
			if !ok {
				return true
			}
			t := info.TypeOf(r2.X)
			if t == nil {
				return true
			}
			s2, ok := t.Underlying().(*types.Slice)
			if !ok || typeName(s2.Elem()) != elemT {
				return true
			}
			scans++
			// body: if !elem.pred() { return <zero/const> }
			ast.Inspect(r2.Body, func(m ast.Node) bool {
				switch y := m.(type) {
				case *ast.AssignStmt, *ast.IncDecStmt, *ast.SendStmt:
					okAll = false
				case *ast.CallExpr:
					if sel, ok := y.Fun.(*ast.SelectorExpr); ok {
						if f2, ok := typeutil.Callee(info, y).(*types.Func); ok && f2.Type().(*types.Signature).Results().Len() == 1 && typeName(f2.Type().(*types.Signature).Results().At(0).Type()) == "bool" {
							_ = sel
							return true
						}
					}
					okAll = false
				}
				return true
			})
			return true
		})
	}
	if okAll && scans > 0 {
		return "auto:order-free-consumer", fmt.Sprintf("the handles appended in map order are only consumed by %d scans that test every element (all-done loops), and creating a handle stores one keyed entry and bumps counters", scans)
	}
	return "", ""
}

// ---------------------------------------------------------------------------
// R08.2

func ruleGoroutines(r *Run, rule string) {
	w := r.W
	for _, p := range modulePkgs(w) {
		rel := relOf(p)
		for _, f := range p.Syntax {
			for _, d := range f.Decls {
				fd, ok := d.(*ast.FuncDecl)
				if !ok || fd.Body == nil {
					continue
				}
				n := 0
				ast.Inspect(fd.Body, func(m ast.Node) bool {
					g, ok := m.(*ast.GoStmt)
					if !ok {
						return true
					}
					n++
					key := fmt.Sprintf("%s.%s:go#%d", rel, declName(fd), n)
					allowed := (rel == "proc/comp" && strings.HasSuffix(declName(fd), ".Iterator")) || (rel == "common/ds" && fd.Name.Name == "StableMapIteration")
					r.check(allowed, rule, key, g.Pos(), "the only goroutines of the simulator are the producers of the queue iterator and of the sorted-map iterator")
					return true
				})
			}
		}
	}
	queueIteratorRule(r, rule)
	// consumers of Queue.Iterator
	for _, p := range modulePkgs(w) {
		rel := relOf(p)
		info := p.TypesInfo
		for _, f := range p.Syntax {
			for _, d := range f.Decls {
				fd, ok := d.(*ast.FuncDecl)
				if !ok || fd.Body == nil {
					continue
				}
				n := 0
				ast.Inspect(fd.Body, func(m ast.Node) bool {
					rs, ok := m.(*ast.RangeStmt)
					if !ok {
						return true
					}
					call, ok := ast.Unparen(rs.X).(*ast.CallExpr)
					if !ok {
						return true
					}
					fn, ok := typeutil.Callee(info, call).(*types.Func)
					if !ok || fn.Name() != "Iterator" || fn.Pkg() == nil || fn.Pkg().Path() != modPath+"/proc/comp" {
						return true
					}
					n++
					q := types.ExprString(call.Fun.(*ast.SelectorExpr).X)
					var elem types.Object
					if id, ok := rs.Key.(*ast.Ident); ok {
						elem = info.Defs[id]
					}
					pushes, badRemove := 0, 0
					ast.Inspect(rs.Body, func(k ast.Node) bool {
						c, ok := k.(*ast.CallExpr)
						if !ok {
							return true
						}
						sel, ok := c.Fun.(*ast.SelectorExpr)
						if !ok || types.ExprString(sel.X) != q {
							return true
						}
						switch sel.Sel.Name {
						case "Push":
							pushes++
						case "Remove":
							if len(c.Args) != 1 {
								badRemove++
							} else if id, ok := ast.Unparen(c.Args[0]).(*ast.Ident); !ok || info.Uses[id] != elem {
								badRemove++
							}
						}
						return true
					})
					r.check(pushes == 0 && badRemove == 0, rule, fmt.Sprintf("%s.%s:iterate(%s)#%d", rel, declName(fd), canonExpr(info, call.Fun.(*ast.SelectorExpr).X), n), rs.Pos(), "the loop over the queue iterator never pushes to the queue it iterates (%d) and removes only the element it received (%d other removals): the sequence it sees is the queue's content at the call", pushes, badRemove)
					return true
				})
			}
		}
	}
}

// ---------------------------------------------------------------------------
// R08.3

func ruleGlobals(r *Run, rule string) {
	w := r.W
	for _, p := range modulePkgs(w) {
		rel := relOf(p)
		scope := p.Types.Scope()
		for _, n := range scope.Names() {
			g, ok := scope.Lookup(n).(*types.Var)
			if !ok {
				continue
			}
			// writes and reads over the whole module
			writes, reads := 0, []string{}
			for _, q := range modulePkgs(w) {
				info := q.TypesInfo
				for _, f := range q.Syntax {
					for _, d := range f.Decls {
						fd, ok := d.(*ast.FuncDecl)
						if !ok || fd.Body == nil {
							continue
						}
						written := map[*ast.Ident]bool{}
						ast.Inspect(fd.Body, func(m ast.Node) bool {
							switch x := m.(type) {
							case *ast.AssignStmt:
								for _, l := range x.Lhs {
									if id := identOf(l); id != nil && info.Uses[id] == g {
										written[id] = true
										writes++
									}
								}
							case *ast.IncDecStmt:
								if id := identOf(x.X); id != nil && info.Uses[id] == g {
									written[id] = true
									writes++
								}
							}
							return true
						})
						ast.Inspect(fd.Body, func(m ast.Node) bool {
							if id, ok := m.(*ast.Ident); ok && info.Uses[id] == g && !written[id] {
								if fd.Name.Name != "Stats" && !strings.HasSuffix(fd.Name.Name, "stats") {
									reads = append(reads, relOf(q)+"."+declName(fd))
								}
							}
							return true
						})
					}
				}
			}
			if writes == 0 {
				continue // initialised once, never assigned: a constant in effect
			}
			r.check(len(reads) == 0, rule, rel+"."+n, g.Pos(), "package-level variable written %d times on simulation paths is read only by statistics code (reads elsewhere: %v): nothing carries from one machine or run to the next through it", writes, uniq(reads))
		}
	}
}

func identOf(e ast.Expr) *ast.Ident {
	switch x := ast.Unparen(e).(type) {
	case *ast.Ident:
		return x
	case *ast.SelectorExpr:
		return x.Sel
	}
	return nil
}

// ---------------------------------------------------------------------------
// R08.4

func ruleForwardCleared(r *Run, rule string) {
	w := r.W
	for _, p := range modulePkgs(w) {
		rel := relOf(p)
		info := p.TypesInfo
		for _, f := range p.Syntax {
			for _, d := range f.Decls {
				fd, ok := d.(*ast.FuncDecl)
				if !ok || fd.Body == nil {
					continue
				}
				n := 0
				ast.Inspect(fd.Body, func(m ast.Node) bool {
					as, ok := m.(*ast.AssignStmt)
					if !ok || len(as.Lhs) != 1 || len(as.Rhs) != 1 {
						return true
					}
					ix, ok := ast.Unparen(as.Rhs[0]).(*ast.IndexExpr)
					if !ok {
						return true
					}
					sel, ok := ast.Unparen(ix.X).(*ast.SelectorExpr)
					if !ok || sel.Sel.Name != "Instructions" {
						return true
					}
					id, ok := as.Lhs[0].(*ast.Ident)
					if !ok {
						return true
					}
					obj := info.Defs[id]
					if obj == nil {
						obj = info.Uses[id]
					}
					n++
					// a statement obj.Forward(<zero Forward>) in the SAME statement list as the fetch
					// (hence executed on every path that uses the instruction), before any other use of obj
					// than reading its InstructionType
					cleared := false
					isClear := func(st ast.Stmt) bool {
						es, ok := st.(*ast.ExprStmt)
						if !ok {
							return false
						}
						c, ok := es.X.(*ast.CallExpr)
						if !ok || len(c.Args) != 1 {
							return false
						}
						s2, ok := c.Fun.(*ast.SelectorExpr)
						if !ok || s2.Sel.Name != "Forward" {
							return false
						}
						rid, ok := ast.Unparen(s2.X).(*ast.Ident)
						if !ok || info.Uses[rid] != obj {
							return false
						}
						cl, ok := ast.Unparen(c.Args[0]).(*ast.CompositeLit)
						return ok && len(cl.Elts) == 0
					}
					usesObj := func(st ast.Stmt) bool {
						used := false
						ast.Inspect(st, func(k ast.Node) bool {
							if c, ok := k.(*ast.CallExpr); ok {
								if s2, ok := c.Fun.(*ast.SelectorExpr); ok && s2.Sel.Name == "InstructionType" {
									if rid, ok := ast.Unparen(s2.X).(*ast.Ident); ok && info.Uses[rid] == obj {
										return false
									}
								}
							}
							if rid, ok := k.(*ast.Ident); ok && info.Uses[rid] == obj {
								used = true
							}
							return true
						})
						return used
					}
					scan := func(list []ast.Stmt) {
						for i, st := range list {
							if st != ast.Stmt(as) {
								continue
							}
							for _, later := range list[i+1:] {
								if isClear(later) {
									cleared = true
									return
								}
								if usesObj(later) {
									return
								}
							}
						}
					}
					ast.Inspect(fd.Body, func(k ast.Node) bool {
						switch x := k.(type) {
						case *ast.BlockStmt:
							scan(x.List)
						case *ast.CaseClause:
							scan(x.Body)
						case *ast.CommClause:
							scan(x.Body)
						}
						return true
					})
					r.check(cleared, rule, fmt.Sprintf("%s.%s:fetch(Instructions)#%d", rel, declName(fd), n), as.Pos(), "an instruction taken from the parsed program has its forward slot cleared (Forward(Forward{})) before it is used: a value forwarded in an earlier run of the same program cannot leak into this one")
					return true
				})
			}
		}
	}
}

// ---------------------------------------------------------------------------
// R08.5

func ruleComparators(r *Run, rule string) {
	w := r.W
	for _, p := range modulePkgs(w) {
		rel := relOf(p)
		info := p.TypesInfo
		for _, f := range p.Syntax {
			for _, d := range f.Decls {
				fd, ok := d.(*ast.FuncDecl)
				if !ok || fd.Body == nil {
					continue
				}
				n := 0
				ast.Inspect(fd.Body, func(m ast.Node) bool {
					call, ok := m.(*ast.CallExpr)
					if !ok {
						return true
					}
					fn, ok := typeutil.Callee(info, call).(*types.Func)
					if !ok {
						return true
					}
					switch {
					case fn.FullName() == "sort.Slice" && len(call.Args) == 2 && !(rel == "common/ds"):
						n++
						key := fmt.Sprintf("%s.%s:sort.Slice(%s)#%d", rel, declName(fd), canonExpr(info, call.Args[0]), n)
						lit, ok := call.Args[1].(*ast.FuncLit)
						good := false
						what := ""
						if ok && len(lit.Body.List) == 1 {
							if ret, ok := lit.Body.List[0].(*ast.ReturnStmt); ok && len(ret.Results) == 1 {
								if b, ok := ast.Unparen(ret.Results[0]).(*ast.BinaryExpr); ok && (b.Op == token.LSS || b.Op == token.GTR) {
									what = types.ExprString(b)
									good = true
								}
							}
						}
						// the sorted elements come from the keys of a map (unique) — the slice is filled in a map range of this function
						unique := false
						if id, ok := ast.Unparen(call.Args[0]).(*ast.Ident); ok {
							sobj := info.Uses[id]
							ast.Inspect(fd.Body, func(k ast.Node) bool {
								rs, ok := k.(*ast.RangeStmt)
								if !ok {
									return true
								}
								if t := info.TypeOf(rs.X); t != nil {
									if _, isMap := t.Underlying().(*types.Map); isMap {
										ast.Inspect(rs.Body, func(q ast.Node) bool {
											if as, ok := q.(*ast.AssignStmt); ok && len(as.Lhs) == 1 {
												if l, ok := as.Lhs[0].(*ast.Ident); ok && info.Uses[l] == sobj {
													unique = true
												}
											}
											return true
										})
									}
								}
								return true
							})
						}
						r.check(good && unique, rule, key, call.Pos(), "strict comparison of one key (%s) over elements built from the distinct keys of a map (%v): the sorted order is unique", what, unique)
					case fn.Name() == "StableMapIteration":
						n++
						key := fmt.Sprintf("%s.%s:StableMapIteration#%d", rel, declName(fd), n)
						// projections: a call K{}.less() returning one closure per field of K
						good := false
						detail := ""
						if len(call.Args) == 2 {
							if c2, ok := ast.Unparen(call.Args[1]).(*ast.CallExpr); ok {
								if f2, ok := typeutil.Callee(info, c2).(*types.Func); ok {
									if fd2, pk2 := w.FuncDecl(f2); fd2 != nil {
										fields := map[string]bool{}
										ast.Inspect(fd2.Body, func(k ast.Node) bool {
											if lit, ok := k.(*ast.FuncLit); ok {
												ast.Inspect(lit.Body, func(q ast.Node) bool {
													if sel, ok := q.(*ast.SelectorExpr); ok {
														if s := pk2.TypesInfo.Selections[sel]; s != nil && s.Kind() == types.FieldVal {
															fields[s.Obj().Name()] = true
														}
													}
													return true
												})
											}
											return true
										})
										kt := info.TypeOf(call.Args[0])
										if mt, ok := kt.Underlying().(*types.Map); ok {
											if st := structOf(mt.Key()); st != nil {
												good = true
												for i := 0; i < st.NumFields(); i++ {
													if !fields[st.Field(i).Name()] {
														good = false
													}
												}
												detail = fmt.Sprintf("projections use %v of %d key fields", sortedKeys(fields), st.NumFields())
											}
										}
									}
								}
							}
						}
						r.check(good, rule, key, call.Pos(), "the projections given to the sorted-map iterator cover every field of the key, so no two keys compare equal (%s)", detail)
					}
					return true
				})
			}
		}
	}
}

// ---------------------------------------------------------------------------
// R08.6

var nondetImports = map[string]bool{"time": true, "math/rand": true, "math/rand/v2": true, "crypto/rand": true, "os": true, "runtime": true, "os/signal": true, "net": true, "unsafe": true, "reflect": true}

func ruleNondetSources(r *Run, rule string) {
	w := r.W
	scanned := 0
	for _, p := range modulePkgs(w) {
		rel := relOf(p)
		if rel == "test" {
			continue // a helper imported by test files only (it imports "testing"); not part of any machine
		}
		var bad []string
		hasGo := false
		for _, f := range p.Syntax {
			for _, im := range f.Imports {
				path, _ := strconv.Unquote(im.Path.Value)
				scanned++
				if nondetImports[path] {
					bad = append(bad, path)
				}
			}
			ast.Inspect(f, func(n ast.Node) bool {
				if _, ok := n.(*ast.GoStmt); ok {
					hasGo = true
				}
				return true
			})
		}
		r.check(len(bad) == 0, rule, rel+":imports", token.NoPos, "no wall clock, random source, OS, scheduler or reflection dependence is imported %v", bad)
		// selects: at most one communication case (plus default)
		n := 0
		for _, f := range p.Syntax {
			ast.Inspect(f, func(m ast.Node) bool {
				s, ok := m.(*ast.SelectStmt)
				if !ok {
					return true
				}
				n++
				comm := 0
				for _, c := range s.Body.List {
					if c.(*ast.CommClause).Comm != nil {
						comm++
					}
				}
				r.check(comm <= 1, rule, fmt.Sprintf("%s:select#%d", rel, n), s.Pos(), "a select has at most one communication case (%d): the runtime never chooses between ready channels", comm)
				return true
			})
		}
		// sync primitives only in packages without goroutines
		usesSync := false
		for _, f := range p.Syntax {
			for _, im := range f.Imports {
				if im.Path.Value == `"sync"` {
					usesSync = true
				}
			}
		}
		if usesSync {
			r.check(!hasGo, rule, rel+":sync-without-goroutines", token.NoPos, "sync primitives are used from the single simulation goroutine only (the package starts no goroutine), so TryLock outcomes are a function of the simulation state")
		}
	}
	// positive control: the scanner sees imports at all
	r.check(scanned > 50, rule, "control:imports-scanned", token.NoPos, "%d import declarations were scanned (the zero count of forbidden imports is not vacuous)", scanned)
}

// ---------------------------------------------------------------------------
// R08.7

func ruleStableIterator(r *Run, rule string) {
	fd, pkg := r.W.Func("common/ds", "StableMapIteration")
	if fd == nil {
		r.undecided(rule, "common/ds.StableMapIteration", token.NoPos, "function not found")
		return
	}
	info := pkg.TypesInfo
	var rangePos, sortPos, goPos token.Pos
	cmpOK := false
	ast.Inspect(fd.Body, func(n ast.Node) bool {
		switch x := n.(type) {
		case *ast.RangeStmt:
			if t := info.TypeOf(x.X); t != nil {
				if _, isMap := t.Underlying().(*types.Map); isMap && rangePos == 0 {
					rangePos = x.Pos()
				}
			}
		case *ast.GoStmt:
			goPos = x.Pos()
		case *ast.CallExpr:
			if f, ok := typeutil.Callee(info, x).(*types.Func); ok && f.FullName() == "sort.Slice" && len(x.Args) == 2 {
				sortPos = x.Pos()
				if lit, ok := x.Args[1].(*ast.FuncLit); ok {
					// for _, c := range comparables { v1 := c(a); v2 := c(b); if v1 < v2 {return true}; if v2 < v1 {return false} }
					ast.Inspect(lit.Body, func(m ast.Node) bool {
						rs, ok := m.(*ast.RangeStmt)
						if !ok {
							return true
						}
						var first, second *ast.IfStmt
						for _, st := range rs.Body.List {
							if is, ok := st.(*ast.IfStmt); ok {
								if first == nil {
									first = is
								} else if second == nil {
									second = is
								}
							}
						}
						if first == nil || second == nil {
							return true
						}
						b1, ok1 := ast.Unparen(first.Cond).(*ast.BinaryExpr)
						b2, ok2 := ast.Unparen(second.Cond).(*ast.BinaryExpr)
						if !ok1 || !ok2 || b1.Op != token.LSS || b2.Op != token.LSS {
							return true
						}
						retVal := func(is *ast.IfStmt) string {
							if len(is.Body.List) == 1 {
								if ret, ok := is.Body.List[0].(*ast.ReturnStmt); ok && len(ret.Results) == 1 {
									return types.ExprString(ret.Results[0])
								}
							}
							return "?"
						}
						// mirrored operands, true then false
						if types.ExprString(b1.X) == types.ExprString(b2.Y) && types.ExprString(b1.Y) == types.ExprString(b2.X) && retVal(first) == "true" && retVal(second) == "false" {
							cmpOK = true
						}
						return true
					})
				}
			}
		}
		return true
	})
	good := rangePos != 0 && sortPos > rangePos && goPos > sortPos && cmpOK
	r.check(good, rule, "common/ds.StableMapIteration", fd.Pos(), "the keys are snapshotted (%v) and sorted lexicographically by the projections — first differing projection decides (%v) — before the producer goroutine starts (%v)", rangePos != 0, cmpOK, goPos > sortPos)
}
