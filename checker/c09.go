package main

// C09 — returning from the program completes everything older than the return.

import (
	"fmt"
	"go/ast"
	"go/token"
	"go/types"
	"strings"
)

func init() {
	register(&propSpec{
		ID:          "C09",
		Level:       "other",
		Run:         runC09,
		Explanation: "E-PATH over each pipelined variant's Run: R09.1 on every path from the branch taken on the ret flag to the normal return there are drain loops that cycle the execute units and the write units until empty, and no stage upstream of one drained earlier is cycled later without draining the downstream stage again (execute units refill the write bus); R09.2 the control unit does not dispatch ret while the execute bus is non-empty or (where the unit tracks it) a conditional branch is unresolved; R09.3 the decode unit stops decoding after ret until flushed; R09.4 the fall-off-the-end exit is guarded by the completion predicate; R09.5 in the drain at ret and after the main loop the write units are stepped without a sequence limit. Decides that ending the program is structurally preceded by draining every stage that can hold older work, in pipeline order. Does not decide the truthfulness of each unit's own isEmpty, nor timing. R09.6 the control unit neither loses nor duplicates an instruction: one taken from the input bus and not dispatched is queued, one read from the pending queue is removed when and only when it is dispatched. R09.7 a drain loop that ends on a local flag clears the flag wherever it finds a bus, coroutine or unit busy. R09.8 a flag that a unit's emptiness predicate reads and the unit raises while it works is lowered by the unit's flush. R09.9 the control unit's dispatch decision equals its reference model as a decision procedure over the uninterpreted answers of its predicates (one branch per cycle, ret held behind the bus and an unresolved conditional branch, held-back dependences, no-hazard / forwarding / renaming, with their polarity). R09.10 an execute unit whose emptiness is the negation of a busy flag lowers the flag only after the instruction has been run (MVP-4/5). R09.11 every loop of the CPU that waits for buses, coroutines or units runs while ANY of them is busy and steps each of them in its body, on the busy side of any guard (the drains before a flush and at the end of the run complete the older work). R09.12 the CPU's bool helpers consulted by the drain loops answer true only if every component they test did test empty. R09.13 both branches of a controller's final write-back of a modified line write it; R09.14 the operations that fold the speculative register state at the end of the run (Commit, RATCommit, RATFlush, the sorted rename-table write) equal their reference models.",
		Assumptions: []string{"a unit reports empty only when it holds no work (unit-local invariant, not decided)"},
		Trusted:     []string{"go/types", "role resolution of units (exec = reaches InstructionRunner.Run, write = reaches a Context writer); see evidence.anchors"},
	})
}

// cyclesRole reports whether node n contains a call that runs one cycle of a
// unit with the given role (a call of a method named cycle/Cycle whose
// receiver's type is a unit type with that role).
func (v *variant) cyclesRole(n ast.Node, role string) bool {
	found := false
	ast.Inspect(n, func(m ast.Node) bool {
		call, ok := m.(*ast.CallExpr)
		if !ok {
			return true
		}
		sel, ok := call.Fun.(*ast.SelectorExpr)
		if !ok || !strings.EqualFold(sel.Sel.Name, "cycle") {
			return true
		}
		t := v.info.TypeOf(sel.X)
		if t == nil {
			return true
		}
		nt := namedOf(t)
		for _, f := range v.fields {
			if f.isUnit && f.unitT == nt && f.roles[role] {
				found = true
			}
		}
		return true
	})
	return found
}

// retBranch finds `if <bool local> { …; break }` in the main loop: the branch
// taken on the ret flag. The flag is the local that receives the component of
// the execute-unit result set under Execution.Return; structurally: the bool
// local tested by an if whose body ends in break and which is not the
// completion-predicate call.
func (v *variant) retAndFlushBranches() (ret *ast.IfStmt, flush *ast.IfStmt) {
	loop := v.mainLoop()
	if loop == nil {
		return nil, nil
	}
	for _, s := range loop.Body.List {
		is, ok := s.(*ast.IfStmt)
		if !ok {
			continue
		}
		id, ok := ast.Unparen(is.Cond).(*ast.Ident)
		if !ok {
			continue
		}
		if b, ok := v.info.TypeOf(id).Underlying().(*types.Basic); !ok || b.Kind() != types.Bool {
			continue
		}
		if len(is.Body.List) == 0 {
			continue
		}
		switch last := is.Body.List[len(is.Body.List)-1].(type) {
		case *ast.BranchStmt:
			if last.Tok == token.BREAK && ret == nil {
				ret = is
			}
			if last.Tok == token.CONTINUE && flush == nil {
				flush = is
			}
		}
	}
	return
}

type drainEvent struct {
	role string // "exec" or "write"
	pos  token.Pos
	loop bool
}

// drainEvents lists, in source order, the loops in stmts that cycle exec /
// write units (a loop = for statement; nested loops are attributed to the
// outermost for statement that is not the main loop).
func (v *variant) drainEvents(stmts []ast.Stmt) []drainEvent {
	var out []drainEvent
	for _, s := range stmts {
		ast.Inspect(s, func(n ast.Node) bool {
			switch x := n.(type) {
			case *ast.ForStmt:
				// a drain loop repeats until something is empty: it has a condition or a conditional break
				e, w := v.cyclesRole(x.Body, "exec"), v.cyclesRole(x.Body, "write")
				if e {
					out = append(out, drainEvent{"exec", x.Pos(), true})
				}
				if w {
					out = append(out, drainEvent{"write", x.Pos(), true})
				}
				return false
			}
			return true
		})
	}
	return out
}

func runC09(r *Run) {
	w := r.W
	r.floor("R09.1", 9)
	r.floor("R09.2", 7)
	r.floor("R09.3", 7)
	r.floor("R09.4", 9)
	for _, v := range variants(w) {
		if v.pkg == nil || !v.pipelined() {
			continue
		}
		c := v.rel + ".(CPU).Run"
		ret, _ := v.retAndFlushBranches()
		if ret == nil {
			r.undecided("R09.1", c+":ret", v.run.Pos(), "the branch taken on the ret flag (`if <flag> { …; break }` in the main loop) was not found")
		} else {
			r.anchor(v.name+" ret flag", types.ExprString(ret.Cond))
			// path: ret branch body, then the statements after the main loop
			var after []ast.Stmt
			seenLoop := false
			for _, s := range v.run.Body.List {
				if seenLoop {
					after = append(after, s)
				}
				if s == ast.Stmt(v.mainLoop()) {
					seenLoop = true
				}
			}
			ev := append(v.drainEvents(ret.Body.List), v.drainEvents(after)...)
			lastExec, lastWrite := -1, -1
			for i, e := range ev {
				if e.role == "exec" {
					lastExec = i
				} else {
					lastWrite = i
				}
			}
			var seq []string
			for _, e := range ev {
				seq = append(seq, e.role)
			}
			switch {
			case lastExec < 0 && lastWrite < 0:
				r.bad("R09.1", c+":ret", ret.Pos(), "no drain at ret: the run ends while the execute unit, the write bus and the write unit may still hold older instructions")
			case lastExec < 0:
				r.bad("R09.1", c+":ret", ret.Pos(), "at ret only the write side is drained (%v): an older instruction still in an execute unit (a cache-missing load) never completes", seq)
			case lastWrite < lastExec:
				r.bad("R09.1", c+":ret", ret.Pos(), "drain order at ret is %v: the execute units are drained after the last drain of the write units, so what they put on the write bus is never written", seq)
			default:
				// what holds when the last drains stop
				atoms := map[string]bool{}
				var problems []string
				collect := func(stmts []ast.Stmt) {
					for _, s := range stmts {
						ast.Inspect(s, func(n ast.Node) bool {
							if fs, ok := n.(*ast.ForStmt); ok {
								if v.cyclesRole(fs.Body, "exec") || v.cyclesRole(fs.Body, "write") {
									a, p := v.exitAtoms(w, fs)
									for k := range a {
										atoms[k] = true
									}
									problems = append(problems, p...)
									return false
								}
							}
							return true
						})
					}
				}
				collect(ret.Body.List)
				collect(after)
				need := []string{"exec", "write"}
				if rb := v.resultBus(); rb != nil {
					need = append(need, "bus:"+rb.name)
				}
				var missing []string
				for _, n := range need {
					if !atoms[n] {
						missing = append(missing, n)
					}
				}
				if len(missing) == 0 && len(problems) == 0 {
					r.ok("R09.1", c+":ret", ret.Pos(), "drain loops at ret: %v (execute units, then write units); they stop only when %v are empty", seq, need)
				} else {
					r.bad("R09.1", c+":ret", ret.Pos(), "the drains at ret (%v) can stop while a stage still holds older work: not required empty at exit: %v %v", seq, missing, problems)
				}
			}
		}
		ruleRetUnits(r, v, "R09.2", "R09.3", false)
	}
	ruleCompletionPredicate(r, "R09.4")
	r.floor("R09.2b", 7)
	ruleDispatchBookkeeping(r, "R09.2b")
	// the end of the run folds the speculative register state and writes the dirty lines back: the operations
	// that do it equal their reference models (shared with C15/C04), and both branches of the controller's
	// final write-back write the line (shared with C05)
	r.floor("R09.13", 1)
	ruleFinalWriteBackBranches(r, "R09.13")
	r.floor("R09.14", 8)
	for _, m := range []string{"Commit", "RATCommit", "RATFlush", "TransactionRATWrite", "TransactionWriteRegister", "commitRAT"} {
		conform(r, "R09.14", "risc", "Context", m, "risc_state", nil)
	}
	for _, m := range []string{"WriteSorted", "Values", "Write"} {
		conform(r, "R09.14", "proc/comp", "RAT", m, "risc_state", nil)
	}
	r.floor("R09.12", 10)
	ruleIdleHelpersTruthful(r, "R09.12")
	r.floor("R09.11", 100)
	ruleWaitLoopsProgress(r, "R09.11")
	r.floor("R09.10", 3)
	ruleBusyFlagLoweredAfterRun(r, "R09.10")
	r.floor("R09.9", 7)
	ruleDispatchDecision(r, "R09.9")
	r.floor("R09.8", 7)
	ruleFlushResetsCompletionFlags(r, "R09.8")
	r.floor("R09.7", 15)
	ruleExitFlagCleared(r, "R09.7")
	r.floor("R09.6", 14)
	ruleDispatchConserves(r, "R09.6")
	r.floor("R09.5", 10)
	ruleRetDrainUnfiltered(r, "R09.5")
}

// ruleRetUnits decides, on the units of one variant, the ret hold of the control
// unit (rule92) and the decode stop after ret (rule93). With stopNow the decode
// unit must also leave its decode loop in the very step that decoded ret
// (nothing past the ret may be decoded: used by C01).
func ruleRetUnits(r *Run, v *variant, rule92, rule93 string, stopNow bool) {
	w := r.W
	{
		// R09.2 / R09.3 on the units
		retConst := w.Pkg("risc").Types.Scope().Lookup("Ret")
		for _, f := range v.fields {
			if !f.isUnit {
				continue
			}
			// methods of the unit type mentioning risc.Ret
			for i := 0; i < f.unitT.NumMethods(); i++ {
				fd, pk := w.FuncDecl(f.unitT.Method(i))
				if fd == nil || fd.Body == nil {
					continue
				}
				info := pk.TypesInfo
				ast.Inspect(fd.Body, func(n ast.Node) bool {
					is, ok := n.(*ast.IfStmt)
					if !ok {
						return true
					}
					usesRet := false
					ast.Inspect(is.Cond, func(m ast.Node) bool {
						if id, ok := m.(*ast.Ident); ok && info.Uses[id] == retConst {
							usesRet = true
						}
						return true
					})
					if !usesRet {
						return true
					}
					key := fmt.Sprintf("%s.(%s).%s:if(ret)", v.rel, f.unitT.Obj().Name(), fd.Name.Name)
					// what does the branch do? sets a bool field (decode: stop) or returns without dispatch (control: hold)
					setsFlag := (*types.Var)(nil)
					for _, st := range is.Body.List {
						if as, ok := st.(*ast.AssignStmt); ok && len(as.Lhs) == 1 {
							if sel, ok := as.Lhs[0].(*ast.SelectorExpr); ok {
								if s := info.Selections[sel]; s != nil {
									if tv := info.Types[as.Rhs[0]]; tv.Value != nil && tv.Value.String() == "true" {
										setsFlag = s.Obj().(*types.Var)
									}
								}
							}
						}
					}
					if setsFlag != nil {
						// R09.3: the flag dominates an early return at the top of the cycle entry; flush clears it;
						// and decoding stops at once: the branch that sets the flag leaves the decode loop
						stopsNow := !stopNow || terminates(is.Body.List)
						top, cleared := false, false
						for j := 0; j < f.unitT.NumMethods(); j++ {
							fd2, pk2 := w.FuncDecl(f.unitT.Method(j))
							if fd2 == nil || fd2.Body == nil {
								continue
							}
							// early return: an if on the flag whose body returns, at the top level of a method, before any loop
							for _, st := range fd2.Body.List {
								if _, isLoop := st.(*ast.ForStmt); isLoop {
									break
								}
								if is2, ok := st.(*ast.IfStmt); ok {
									if sel, ok := ast.Unparen(is2.Cond).(*ast.SelectorExpr); ok {
										if s := pk2.TypesInfo.Selections[sel]; s != nil && s.Obj() == setsFlag && terminates(is2.Body.List) {
											top = true
										}
									}
								}
							}
							if strings.EqualFold(fd2.Name.Name, "flush") {
								ast.Inspect(fd2.Body, func(m ast.Node) bool {
									if as, ok := m.(*ast.AssignStmt); ok && len(as.Lhs) == 1 {
										if sel, ok := as.Lhs[0].(*ast.SelectorExpr); ok {
											if s := pk2.TypesInfo.Selections[sel]; s != nil && s.Obj() == setsFlag {
												if tv := pk2.TypesInfo.Types[as.Rhs[0]]; tv.Value != nil && tv.Value.String() == "false" {
													cleared = true
												}
											}
										}
									}
									return true
								})
							}
						}
						r.check(top && cleared && stopsNow, rule93, key, is.Pos(), "after decoding ret the unit sets %s, leaves the decode loop in that very step (%v), and its cycle entry returns early (%v) until flush clears the flag (%v): nothing past the ret is decoded", setsFlag.Name(), stopsNow, top, cleared)
						return true
					}
					// R09.2: a hold — the branch returns and the condition requires the output bus to be empty
					if !terminates(is.Body.List) {
						return true
					}
					busEmpty := false
					ast.Inspect(is.Cond, func(m ast.Node) bool {
						if u, ok := m.(*ast.UnaryExpr); ok && u.Op == token.NOT {
							if call, ok := ast.Unparen(u.X).(*ast.CallExpr); ok {
								if sel, ok := call.Fun.(*ast.SelectorExpr); ok && sel.Sel.Name == "IsEmpty" {
									if isCompType(info.TypeOf(sel.X), "BufferedBus") || isCompType(info.TypeOf(sel.X), "SimpleBus") {
										busEmpty = true
									}
								}
							}
						}
						return true
					})
					// does the unit track unresolved conditional branches? (a bool field set to true under IsConditionalBranch())
					var track *types.Var
					for j := 0; j < f.unitT.NumMethods(); j++ {
						fd2, pk2 := w.FuncDecl(f.unitT.Method(j))
						if fd2 == nil || fd2.Body == nil {
							continue
						}
						ast.Inspect(fd2.Body, func(m ast.Node) bool {
							is2, ok := m.(*ast.IfStmt)
							if !ok || !strings.Contains(types.ExprString(is2.Cond), "IsConditionalBranch()") {
								return true
							}
							for _, st := range is2.Body.List {
								if as, ok := st.(*ast.AssignStmt); ok && len(as.Lhs) == 1 {
									if sel, ok := as.Lhs[0].(*ast.SelectorExpr); ok {
										if s := pk2.TypesInfo.Selections[sel]; s != nil {
											if tv := pk2.TypesInfo.Types[as.Rhs[0]]; tv.Value != nil && tv.Value.String() == "true" {
												track = s.Obj().(*types.Var)
											}
										}
									}
								}
							}
							return true
						})
					}
					trackOK := true
					if track != nil {
						trackOK = false
						ast.Inspect(is.Cond, func(m ast.Node) bool {
							if sel, ok := m.(*ast.SelectorExpr); ok {
								if s := info.Selections[sel]; s != nil && s.Obj() == track {
									trackOK = true
								}
							}
							return true
						})
					}
					// the hold must not dispatch
					dispatches := false
					ast.Inspect(is.Body, func(m ast.Node) bool {
						if call, ok := m.(*ast.CallExpr); ok {
							if sel, ok := call.Fun.(*ast.SelectorExpr); ok && sel.Sel.Name == "Add" {
								dispatches = true
							}
						}
						return true
					})
					tn := "—"
					if track != nil {
						tn = track.Name()
					}
					if rule92 != "" {
						r.check(busEmpty && trackOK && !dispatches, rule92, key, is.Pos(), "ret is held (not dispatched) while the execute bus is non-empty (%v) or a conditional branch is unresolved (flag %s tested: %v)", busEmpty, tn, trackOK)
					}
					return true
				})
			}
		}
	}
}

// ruleDispatchBookkeeping: the control unit dispatches from two places (its
// queue of held instructions and its input bus). The flags it raises after a
// successful dispatch (a branch was pushed in this cycle; a conditional branch
// is unresolved — the flag the ret hold tests) must be raised identically at
// every such place (sibling agreement): a dispatch site that forgets one lets
// a ret, or a second branch, slip past an unresolved branch.
func ruleDispatchBookkeeping(r *Run, rule string) {
	w := r.W
	for _, v := range variants(w) {
		if v.pkg == nil || !multiExec(v) {
			continue
		}
		for _, f := range v.fields {
			if !f.isUnit {
				continue
			}
			for i := 0; i < f.unitT.NumMethods(); i++ {
				fd, pk := w.FuncDecl(f.unitT.Method(i))
				if fd == nil || fd.Body == nil {
					continue
				}
				info := pk.TypesInfo
				// bool locals defined from a call with two bool results (push, stop := u.handleRunner(...))
				pushVars := map[types.Object]bool{}
				ast.Inspect(fd.Body, func(n ast.Node) bool {
					as, ok := n.(*ast.AssignStmt)
					if !ok || len(as.Lhs) != 2 || len(as.Rhs) != 1 {
						return true
					}
					if _, ok := as.Rhs[0].(*ast.CallExpr); !ok {
						return true
					}
					if id, ok := as.Lhs[0].(*ast.Ident); ok {
						if o := info.Defs[id]; o != nil && typeName(o.Type()) == "bool" {
							pushVars[o] = true
						}
					}
					return true
				})
				if len(pushVars) < 2 {
					continue
				}
				var sigs []string
				var poss []token.Pos
				ast.Inspect(fd.Body, func(n ast.Node) bool {
					is, ok := n.(*ast.IfStmt)
					if !ok {
						return true
					}
					id, ok := ast.Unparen(is.Cond).(*ast.Ident)
					if !ok || !pushVars[info.Uses[id]] {
						return true
					}
					set := map[string]bool{}
					ast.Inspect(is.Body, func(m ast.Node) bool {
						inner, ok := m.(*ast.IfStmt)
						if !ok {
							return true
						}
						for _, st := range inner.Body.List {
							if as, ok := st.(*ast.AssignStmt); ok && len(as.Lhs) == 1 {
								if sel, ok := as.Lhs[0].(*ast.SelectorExpr); ok {
									if s := info.Selections[sel]; s != nil && s.Kind() == types.FieldVal {
										if tv := info.Types[as.Rhs[0]]; tv.Value != nil {
											// condition rendered without the local's name: the predicate called on the instruction type
											c := types.ExprString(inner.Cond)
											if k := strings.LastIndex(c, "."); k >= 0 {
												c = c[k+1:]
											}
											set[s.Obj().Name()+"="+tv.Value.String()+" if "+c] = true
										}
									}
								}
							}
						}
						return true
					})
					sigs = append(sigs, strings.Join(sortedKeys(set), "; "))
					poss = append(poss, is.Pos())
					return true
				})
				if len(sigs) < 2 {
					continue
				}
				same := true
				for _, s := range sigs {
					if s != sigs[0] {
						same = false
					}
				}
				key := fmt.Sprintf("%s.(%s).%s:dispatch-bookkeeping", v.rel, f.unitT.Obj().Name(), fd.Name.Name)
				r.check(same, rule, key, poss[0], "every place that dispatches an instruction raises the same flags afterwards: %q", sigs)
			}
		}
	}
}

// ruleRetDrainUnfiltered (R09.5): the write units drop results younger than the
// sequence limit they are given; the limit is meaningful only while a flush is in
// progress. In the drain performed at ret and in the drain after the main loop
// every older result must be written, so the write units are stepped with "no
// limit" (the constant -1), never with the flush variable (which is 0 there: every
// result would be dropped).
func ruleRetDrainUnfiltered(r *Run, rule string) {
	w := r.W
	for _, v := range variants(w) {
		if v.pkg == nil || !v.pipelined() {
			continue
		}
		info := v.info
		ret, _ := v.retAndFlushBranches()
		var regions []ast.Node
		if ret != nil {
			regions = append(regions, ret.Body)
		}
		seenLoop := false
		for _, s := range v.run.Body.List {
			if seenLoop {
				regions = append(regions, s)
			}
			if s == ast.Stmt(v.mainLoop()) {
				seenLoop = true
			}
		}
		n := 0
		for _, reg := range regions {
			ast.Inspect(reg, func(m ast.Node) bool {
				call, ok := m.(*ast.CallExpr)
				if !ok {
					return true
				}
				sel, ok := call.Fun.(*ast.SelectorExpr)
				if !ok || !strings.EqualFold(sel.Sel.Name, "cycle") {
					return true
				}
				// receiver: a write-role unit (not an execute unit)
				n0 := namedOf(info.TypeOf(sel.X))
				if n0 == nil {
					return true
				}
				roles := w.unitRoles(v, n0)
				if !roles["write"] || roles["exec"] {
					return true
				}
				// the int32 operand(s): direct arguments or fields of a composite-literal request
				var limits []ast.Expr
				for _, a := range call.Args {
					a = ast.Unparen(a)
					if cl, ok := a.(*ast.CompositeLit); ok {
						for _, e := range cl.Elts {
							if kv, ok := e.(*ast.KeyValueExpr); ok {
								e = kv.Value
							}
							if typeName(info.TypeOf(e)) == "int32" {
								limits = append(limits, e)
							}
						}
					} else if typeName(info.TypeOf(a)) == "int32" {
						limits = append(limits, a)
					}
				}
				if len(limits) == 0 {
					return true
				}
				n++
				good := true
				for _, l := range limits {
					if c, ok := constInt64(info.Types[l]); !ok || c != -1 {
						good = false
					}
				}
				r.check(good, rule, fmt.Sprintf("%s.(CPU).Run:final-write-step#%d", v.rel, n), call.Pos(), "in the drain at ret and after the main loop the write units are stepped without a sequence limit (-1): every older result is written")
				return true
			})
		}
	}
}
