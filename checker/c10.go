package main

// C10 — memory dependences between in-flight loads and stores are honoured.
// Only a necessary condition is decided: that SOME mechanism makes the
// dispatch or the start of a memory operation depend on older in-flight
// memory operations wherever they can overtake each other.

import (
	"fmt"
	"go/ast"
	"go/token"
	"go/types"
	"strings"

	"golang.org/x/tools/go/types/typeutil"
)

func init() {
	register(&propSpec{
		ID:          "C10",
		Level:       "other",
		Run:         runC10,
		Explanation: "One necessary condition per variant family. R10.1 (variants with several execute units): the control unit's dispatch decision, or the execute unit's decision to start, is control-dependent on the kinds or addresses of older in-flight memory operations (a hold of a load/store while a conflicting store is pending: a test of IsMemoryRead/IsMemoryWrite or of MemoryRead/MemoryWrite addresses that leaves without dispatching, or a use of the per-address store scoreboard PendingWriteMemoryIntention); uses of the same calls that only feed a routing preference do not count. Its absence makes the property false for some program. R10.2 (in-order variants with one execute unit): the write unit performs a store when it accepts it and blocks for the memory latency, so no younger access is accepted in between. R10.3: the per-line locks pair up (R07.4), necessary for cross-core ordering. Does not decide whether an existing mechanism is sufficient (ordering of conflicting accesses is a schedule/value property).",
		Assumptions: []string{},
		Trusted:     []string{"go/types", "role resolution"},
	})
}

func runC10(r *Run) {
	w := r.W
	r.floor("R10.1", 7)
	r.floor("R10.2", 2)
	r.floor("R10.3", 18)
	for _, v := range variants(w) {
		if v.pkg == nil || !v.pipelined() {
			continue
		}
		info := v.info
		if multiExec(v) {
			// a hold: an if whose condition mentions memory kinds/addresses/the store scoreboard and whose body leaves without dispatching
			mech := ""
			var pos token.Pos
			for _, f := range v.fields {
				if !f.isUnit {
					continue
				}
				for i := 0; i < f.unitT.NumMethods(); i++ {
					fd, _ := w.FuncDecl(f.unitT.Method(i))
					if fd == nil || fd.Body == nil {
						continue
					}
					if pos == 0 {
						pos = fd.Pos()
					}
					// only decision functions count: they return nothing or booleans (a function that returns
					// a preferred unit only routes the instruction, it does not hold it)
					decision := true
					if fd.Type.Results != nil {
						for _, fl := range fd.Type.Results.List {
							if typeName(info.TypeOf(fl.Type)) != "bool" {
								decision = false
							}
						}
					}
					if !decision {
						continue
					}
					ast.Inspect(fd.Body, func(n ast.Node) bool {
						is, ok := n.(*ast.IfStmt)
						if !ok {
							return true
						}
						mentions := false
						ast.Inspect(is.Cond, func(m ast.Node) bool {
							if c, ok := m.(*ast.CallExpr); ok {
								if fn, ok := typeutil.Callee(info, c).(*types.Func); ok {
									switch fn.Name() {
									case "PendingWriteMemoryIntention":
										mentions = true
									case "IsMemoryRead", "IsMemoryWrite", "MemoryRead", "MemoryWrite":
										mentions = true
									}
								}
							}
							return true
						})
						if !mentions || !terminates(is.Body.List) {
							return true
						}
						// the hold must not dispatch and must not merely pick a unit
						dispatches := false
						ast.Inspect(is.Body, func(m ast.Node) bool {
							if c, ok := m.(*ast.CallExpr); ok {
								if sel, ok := c.Fun.(*ast.SelectorExpr); ok && (sel.Sel.Name == "Add" || strings.HasPrefix(sel.Sel.Name, "push")) {
									dispatches = true
								}
							}
							return true
						})
						if !dispatches {
							mech = fmt.Sprintf("%s.%s holds on %s", f.unitT.Obj().Name(), fd.Name.Name, types.ExprString(is.Cond))
						}
						return true
					})
				}
			}
			// or any caller of the store scoreboard
			if mech == "" && w.reaches(info, v.run, func(fn *types.Func) bool { return fn.Name() == "AddPendingWriteMemoryIntention" }) {
				mech = "the per-address store scoreboard is raised"
			}
			r.check(mech != "", "R10.1", v.rel+":memory-ordering-mechanism", pos, "with several execute units a younger load or store can be dispatched while an older store is still in flight; some dispatch or start decision must depend on older memory operations (found: %q). The register scoreboard sees registers only, and the per-address store scoreboard of risc.Context has no caller", mech)
		} else {
			// R10.2
			for _, f := range v.fields {
				if !f.isUnit || !f.roles["write"] || f.roles["exec"] {
					continue
				}
				for i := 0; i < f.unitT.NumMethods(); i++ {
					fd, _ := w.FuncDecl(f.unitT.Method(i))
					if fd == nil || fd.Body == nil {
						continue
					}
					var blockFlag types.Object
					atAccept := false
					ast.Inspect(fd.Body, func(n ast.Node) bool {
						blk, ok := n.(*ast.BlockStmt)
						if !ok {
							return true
						}
						hasWrite := false
						var flag types.Object
						for _, st := range blk.List {
							switch x := st.(type) {
							case *ast.ExprStmt:
								if c, ok := x.X.(*ast.CallExpr); ok {
									if fn, ok := typeutil.Callee(info, c).(*types.Func); ok && fn.Name() == "WriteMemory" {
										hasWrite = true
									}
								}
							case *ast.AssignStmt:
								if len(x.Lhs) == 1 {
									if sel, ok := x.Lhs[0].(*ast.SelectorExpr); ok {
										if tv := info.Types[x.Rhs[0]]; tv.Value != nil && tv.Value.String() == "true" {
											if s := info.Selections[sel]; s != nil {
												flag = s.Obj()
											}
										}
									}
								}
							}
						}
						if hasWrite && flag != nil {
							atAccept = true
							blockFlag = flag
						}
						return true
					})
					if !atAccept && !w.reaches(info, fd.Body, func(fn *types.Func) bool { return fn.Name() == "WriteMemory" }) {
						continue
					}
					blocks := false
					if blockFlag != nil && len(fd.Body.List) > 0 {
						if is, ok := fd.Body.List[0].(*ast.IfStmt); ok {
							if sel, ok := ast.Unparen(is.Cond).(*ast.SelectorExpr); ok {
								if s := info.Selections[sel]; s != nil && s.Obj() == blockFlag && terminates(is.Body.List) {
									blocks = true
								}
							}
						}
					}
					r.check(atAccept && blocks, "R10.2", fmt.Sprintf("%s.(%s).%s:store-at-acceptance", v.rel, f.unitT.Obj().Name(), fd.Name.Name), fd.Pos(), "the write unit performs a store when it accepts it (%v) and accepts nothing else while the store's latency elapses (%v)", atAccept, blocks)
				}
			}
		}
	}
	// R10.3 = R07.4a
	before := len(r.Obs)
	ruleLockDiscipline(r, "R10.3")
	// keep only the acquire/release pairing (a); the table rules are C07's
	kept := r.Obs[:before]
	for _, o := range r.Obs[before:] {
		if o.Rule == "R10.3a" {
			o.Rule = "R10.3"
			kept = append(kept, o)
		}
	}
	r.Obs = kept
}
