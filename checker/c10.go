package main

// C10 — memory dependences between in-flight loads and stores are honoured.
// Only a necessary condition is decided: that SOME mechanism makes the
// dispatch or the start of a memory operation depend on older in-flight
// memory operations wherever they can overtake each other.

import (
	"fmt"
	"go/ast"
	"go/token"
	"go/types"
	"strings"

	"golang.org/x/tools/go/types/typeutil"
)

func init() {
	register(&propSpec{
		ID:          "C10",
		Level:       "other",
		Run:         runC10,
		Explanation: "One necessary condition per variant family. R10.1 (variants with several execute units): the control unit's dispatch decision, or the execute unit's decision to start, is control-dependent on the kinds or addresses of older in-flight memory operations (a hold of a load/store while a conflicting store is pending: a test of IsMemoryRead/IsMemoryWrite or of MemoryRead/MemoryWrite addresses that leaves without dispatching, or a use of the per-address store scoreboard PendingWriteMemoryIntention); uses of the same calls that only feed a routing preference do not count. Its absence makes the property false for some program. R10.2 (in-order variants with one execute unit): the write unit performs a store when it accepts it and blocks for the memory latency, so no younger access is accepted in between. R10.3: the per-line locks pair up (R07.4), necessary for cross-core ordering. R10.8: the write unit writes every accepted store to memory from the execution it recorded and releases the scoreboard after the write. R10.7: a write-back snoop moves the data to the next level before the line leaves the cache. R10.4: MemoryRead/MemoryWrite of every load and store return exactly the byte addresses the instruction accesses (the variants probe, lock and route on these lists). R10.5 (pipelined variants without per-line locks): the line a load miss installs in the data cache is read from the memory image in the step that installs it, not snapshotted when the miss is detected. R10.6 (same variants): a load that hits samples its bytes in the step that issues it; a deferred continuation reads the data cache only right after installing the missing line. Does not decide whether an existing mechanism is sufficient (ordering of conflicting accesses is a schedule/value property). R10.9 the per-line reader/writer lock (comp.Sem) equals its reference model and the lock handed out for a line is the one stored under the line's key. R10.10 every path to the run step of an instruction that reads memory first assigns the field handed to Run as its memory bytes. R10.11 every per-line table of the memory system (dirty flags, states, locks) is keyed through the alignment function of its own line size (a dirty flag recorded under another alignment loses the store at eviction). R10.12 a store is applied to the cached line only on the side of the presence test on which all its bytes are resident (polarity of the routing). R10.13 the membership test of a pending line-fetch interval includes its start address (a second access to the very address being fetched must wait, not fetch a second copy of the line). R10.14 the lock functions of the coherence layer either tell an access to wait or hand out the line lock they acquired for it (no proceed-response without a lock). R10.15 the line displaced by an insertion is written back on every path (shared with C05); R10.16 the memory-read/memory-write classification tables equal the sets derived from the opcodes (a store missing from the table is not routed to the owning core); R10.17 the result of a line-lock attempt is never discarded; R10.18 the interval registered for a line fetch covers the whole line.",
		Assumptions: []string{},
		Trusted:     []string{"go/types", "role resolution"},
	})
}

func runC10(r *Run) {
	w := r.W
	r.floor("R10.1", 7)
	r.floor("R10.2", 2)
	r.floor("R10.3", 18)
	for _, v := range variants(w) {
		if v.pkg == nil || !v.pipelined() {
			continue
		}
		info := v.info
		if multiExec(v) {
			// a hold: an if whose condition mentions memory kinds/addresses/the store scoreboard and whose body leaves without dispatching
			mech := ""
			var pos token.Pos
			for _, f := range v.fields {
				if !f.isUnit {
					continue
				}
				for i := 0; i < f.unitT.NumMethods(); i++ {
					fd, _ := w.FuncDecl(f.unitT.Method(i))
					if fd == nil || fd.Body == nil {
						continue
					}
					if pos == 0 {
						pos = fd.Pos()
					}
					// only decision functions count: they return nothing or booleans (a function that returns
					// a preferred unit only routes the instruction, it does not hold it)
					decision := true
					if fd.Type.Results != nil {
						for _, fl := range fd.Type.Results.List {
							if typeName(info.TypeOf(fl.Type)) != "bool" {
								decision = false
							}
						}
					}
					if !decision {
						continue
					}
					ast.Inspect(fd.Body, func(n ast.Node) bool {
						is, ok := n.(*ast.IfStmt)
						if !ok {
							return true
						}
						mentions := false
						ast.Inspect(is.Cond, func(m ast.Node) bool {
							if c, ok := m.(*ast.CallExpr); ok {
								if fn, ok := typeutil.Callee(info, c).(*types.Func); ok {
									switch fn.Name() {
									case "PendingWriteMemoryIntention":
										mentions = true
									case "IsMemoryRead", "IsMemoryWrite", "MemoryRead", "MemoryWrite":
										mentions = true
									}
								}
							}
							return true
						})
						if !mentions || !terminates(is.Body.List) {
							return true
						}
						// the hold must not dispatch and must not merely pick a unit
						dispatches := false
						ast.Inspect(is.Body, func(m ast.Node) bool {
							if c, ok := m.(*ast.CallExpr); ok {
								if sel, ok := c.Fun.(*ast.SelectorExpr); ok && (sel.Sel.Name == "Add" || strings.HasPrefix(sel.Sel.Name, "push")) {
									dispatches = true
								}
							}
							return true
						})
						if !dispatches {
							mech = fmt.Sprintf("%s.%s holds on %s", f.unitT.Obj().Name(), fd.Name.Name, types.ExprString(is.Cond))
						}
						return true
					})
				}
			}
			// or any caller of the store scoreboard
			if mech == "" && w.reaches(info, v.run, func(fn *types.Func) bool { return fn.Name() == "AddPendingWriteMemoryIntention" }) {
				mech = "the per-address store scoreboard is raised"
			}
			r.check(mech != "", "R10.1", v.rel+":memory-ordering-mechanism", pos, "with several execute units a younger load or store can be dispatched while an older store is still in flight; some dispatch or start decision must depend on older memory operations (found: %q). The register scoreboard sees registers only, and the per-address store scoreboard of risc.Context has no caller", mech)
		} else {
			// R10.2
			for _, f := range v.fields {
				if !f.isUnit || !f.roles["write"] || f.roles["exec"] {
					continue
				}
				for i := 0; i < f.unitT.NumMethods(); i++ {
					fd, _ := w.FuncDecl(f.unitT.Method(i))
					if fd == nil || fd.Body == nil {
						continue
					}
					var blockFlag types.Object
					atAccept := false
					ast.Inspect(fd.Body, func(n ast.Node) bool {
						blk, ok := n.(*ast.BlockStmt)
						if !ok {
							return true
						}
						hasWrite := false
						var flag types.Object
						for _, st := range blk.List {
							switch x := st.(type) {
							case *ast.ExprStmt:
								if c, ok := x.X.(*ast.CallExpr); ok {
									if fn, ok := typeutil.Callee(info, c).(*types.Func); ok && fn.Name() == "WriteMemory" {
										hasWrite = true
									}
								}
							case *ast.AssignStmt:
								if len(x.Lhs) == 1 {
									if sel, ok := x.Lhs[0].(*ast.SelectorExpr); ok {
										if tv := info.Types[x.Rhs[0]]; tv.Value != nil && tv.Value.String() == "true" {
											if s := info.Selections[sel]; s != nil {
												flag = s.Obj()
											}
										}
									}
								}
							}
						}
						if hasWrite && flag != nil {
							atAccept = true
							blockFlag = flag
						}
						return true
					})
					if !atAccept && !w.reaches(info, fd.Body, func(fn *types.Func) bool { return fn.Name() == "WriteMemory" }) {
						continue
					}
					blocks := false
					if blockFlag != nil && len(fd.Body.List) > 0 {
						if is, ok := fd.Body.List[0].(*ast.IfStmt); ok {
							if sel, ok := ast.Unparen(is.Cond).(*ast.SelectorExpr); ok {
								if s := info.Selections[sel]; s != nil && s.Obj() == blockFlag && terminates(is.Body.List) {
									blocks = true
								}
							}
						}
					}
					r.check(atAccept && blocks, "R10.2", fmt.Sprintf("%s.(%s).%s:store-at-acceptance", v.rel, f.unitT.Obj().Name(), fd.Name.Name), fd.Pos(), "the write unit performs a store when it accepts it (%v) and accepts nothing else while the store's latency elapses (%v)", atAccept, blocks)
				}
			}
		}
	}
	r.floor("R10.4", 12)
	ruleAddressLists(r, "R10.4", false)
	r.floor("R10.5", 6)
	r.floor("R10.6", 4)
	ruleLoadSampling(r, "R10.5", "R10.6")
	r.floor("R10.10", 10)
	ruleLoadDataReachesRun(r, "R10.10")
	// the per-line tables of the memory system are keyed through one alignment function (shared with C05)
	r.floor("R10.17", 15)
	ruleLockResultTested(r, "R10.17")
	r.floor("R10.18", 4)
	rulePendingIntervalCoversLine(r, "R10.18")
	r.floor("R10.16", 4)
	ruleClassification(r, "R10.16")
	r.floor("R10.14", 15)
	ruleProceedHoldsLock(r, "R10.14")
	r.floor("R10.13", 4)
	rulePendingRangeClosed(r, "R10.13")
	r.floor("R10.12", 6)
	ruleStoreRoutingPolarity(r, "R10.12")
	r.floor("R10.11", 10)
	importRules(r, runC05, map[string]string{"R05.6": "R10.11", "R05.2": "R10.15"})
	r.floor("R10.15", 10)
	r.floor("R10.9", 7)
	ruleSemConformance(r, "R10.9")
	ruleOneLockPerLine(r, "R10.9")
	// R10.8: the write unit performs the memory write of every store it accepts, then releases the scoreboard
	r.floor("R10.8", 6)
	ruleWriteUnitStores(r, "R10.8")
	// R10.7 (= R06.3): a write-back snoop moves the data to the next level before the line leaves the
	// cache: otherwise the store is lost and a later load from another core returns the old bytes
	r.floor("R10.7", 8)
	for _, v := range variants(w) {
		if v.pkg != nil && v.pipelined() && usesLineLocks(w, v) {
			ruleSnoopOrder(r, v, "R10.7")
		}
	}
	// R10.3 = R07.4a
	before := len(r.Obs)
	ruleLockDiscipline(r, "R10.3")
	// keep only the acquire/release pairing (a); the table rules are C07's
	kept := r.Obs[:before]
	for _, o := range r.Obs[before:] {
		if o.Rule == "R10.3a" {
			o.Rule = "R10.3"
			kept = append(kept, o)
		}
	}
	r.Obs = kept
}

// ---------------------------------------------------------------------------
// R10.4: the address lists the variants probe, lock and route on are exact.

func ruleAddressLists(r *Run, rule string, all bool) {
	a := analyseISA(r.W)
	sb := newSpecBuilder(a)
	if sb == nil {
		r.undecided(rule, "risc.Execution", token.NoPos, "struct risc.Execution not found")
		return
	}
	for _, op := range a.ops {
		sp := sb.spec(op.mnemonic)
		if sp == nil || (!all && sp.memRead == nil && sp.memWrite == nil) {
			continue
		}
		addressLists(r, rule, "risc.(*"+op.typeName+")", op, sp)
	}
}

// ---------------------------------------------------------------------------
// R10.5 / R10.6: when a load samples its bytes (variants without per-line locks).

// dataCachePushers / dataCacheProbes: methods of the variant that directly call
// PushLine / Get on a cache that is also written by stores (a data cache).
func dataCacheMethods(w *World, v *variant, method string) map[*types.Func]bool {
	_, byVar := resolvedCaches(w, v)
	out := map[*types.Func]bool{}
	for _, f := range v.pkg.Syntax {
		for _, d := range f.Decls {
			fd, ok := d.(*ast.FuncDecl)
			if !ok || fd.Body == nil {
				continue
			}
			ast.Inspect(fd.Body, func(n ast.Node) bool {
				call, ok := n.(*ast.CallExpr)
				if !ok || lruMethod(v.info, call) != method {
					return true
				}
				if c := cacheOfExpr(v, byVar, call.Fun.(*ast.SelectorExpr).X); c != nil && c.dirty {
					if fn, ok := v.info.Defs[fd.Name].(*types.Func); ok {
						out[fn] = true
					}
				}
				return true
			})
		}
	}
	return out
}

// imageReaders: functions of the variant that read the memory image and return bytes.
func imageReaders(v *variant) map[*types.Func]bool {
	out := map[*types.Func]bool{}
	for _, f := range v.pkg.Syntax {
		for _, d := range f.Decls {
			fd, ok := d.(*ast.FuncDecl)
			if !ok || fd.Body == nil || fd.Type.Results == nil {
				continue
			}
			reads := false
			ast.Inspect(fd.Body, func(n ast.Node) bool {
				switch x := n.(type) {
				case *ast.IndexExpr:
					if ctxFieldWritten(v.info, x.X) == "Memory" {
						reads = true
					}
				case *ast.SliceExpr:
					if ctxFieldWritten(v.info, x.X) == "Memory" {
						reads = true
					}
				}
				return true
			})
			if reads {
				if fn, ok := v.info.Defs[fd.Name].(*types.Func); ok {
					out[fn] = true
				}
			}
		}
	}
	return out
}

func usesLineLocks(w *World, v *variant) bool {
	return w.reaches(v.info, v.run, func(fn *types.Func) bool {
		sig := fn.Type().(*types.Signature)
		return sig.Recv() != nil && isCompType(sig.Recv().Type(), "Sem")
	})
}

func ruleLoadSampling(r *Run, rule5, rule6 string) {
	w := r.W
	for _, v := range variants(w) {
		if v.pkg == nil || !v.pipelined() || usesLineLocks(w, v) {
			continue
		}
		info := v.info
		pushers := dataCacheMethods(w, v, "PushLine")
		probes := dataCacheMethods(w, v, "Get")
		readers := imageReaders(v)
		for _, f := range v.pkg.Syntax {
			for _, d := range f.Decls {
				fd, ok := d.(*ast.FuncDecl)
				if !ok || fd.Body == nil {
					continue
				}
				if fn, ok := info.Defs[fd.Name].(*types.Func); ok && (pushers[fn] || probes[fn]) {
					continue
				}
				n5, n6 := 0, 0
				// walk with the innermost function on a stack
				var walk func(n ast.Node, fnNode ast.Node, isLit bool)
				walk = func(n ast.Node, fnNode ast.Node, isLit bool) {
					ast.Inspect(n, func(m ast.Node) bool {
						if m == nil || m == n {
							return true
						}
						if lit, ok := m.(*ast.FuncLit); ok {
							walk(lit.Body, lit, true)
							return false
						}
						call, ok := m.(*ast.CallExpr)
						if !ok {
							return true
						}
						callee, _ := typeutil.Callee(info, call).(*types.Func)
						if callee == nil {
							return true
						}
						if pushers[callee] {
							n5++
							key := fmt.Sprintf("%s.%s:installed-line#%d", v.rel, declName(fd), n5)
							// the []int8 argument
							var lineArg ast.Expr
							for _, a := range call.Args {
								if sl, ok := info.TypeOf(a).Underlying().(*types.Slice); ok {
									if b, ok := sl.Elem().Underlying().(*types.Basic); ok && b.Kind() == types.Int8 {
										lineArg = a
									}
								}
							}
							fresh := false
							why := "the line is not a local variable"
							if id, ok := ast.Unparen(lineArg).(*ast.Ident); ok {
								obj := info.Uses[id]
								why = "the line variable is not assigned from a read of the memory image in the step that installs it"
								// its definitions inside the innermost function
								defs, defsOutside := 0, 0
								ast.Inspect(fd.Body, func(k ast.Node) bool {
									as, ok := k.(*ast.AssignStmt)
									if !ok {
										return true
									}
									for i, l := range as.Lhs {
										lid, ok := l.(*ast.Ident)
										if !ok || (info.Defs[lid] != obj && info.Uses[lid] != obj) {
											continue
										}
										inside := as.Pos() >= fnNode.Pos() && as.End() <= fnNode.End() && as.Pos() < call.Pos()
										var rhs ast.Expr
										if len(as.Rhs) == len(as.Lhs) {
											rhs = as.Rhs[i]
										} else if len(as.Rhs) == 1 {
											rhs = as.Rhs[0]
										}
										isRead := false
										if c2, ok := ast.Unparen(rhs).(*ast.CallExpr); ok {
											if f2, ok := typeutil.Callee(info, c2).(*types.Func); ok && readers[f2] {
												isRead = true
											}
										}
										if inside && isRead {
											defs++
										} else {
											defsOutside++
										}
									}
									return true
								})
								fresh = defs >= 1 && defsOutside == 0
							} else if c2, ok := ast.Unparen(lineArg).(*ast.CallExpr); ok {
								if f2, ok := typeutil.Callee(info, c2).(*types.Func); ok && readers[f2] {
									fresh = true
								}
							}
							r.check(fresh, rule5, key, call.Pos(), "without per-line locks, the line a miss installs in the data cache is read from the memory image in the very step that installs it (a snapshot taken when the miss was detected would miss a store performed during the latency): %s", why)
						}
						if probes[callee] && isLit {
							// is the data result consumed?
							consumed := true
							// find the enclosing assignment
							ast.Inspect(fnNode, func(k ast.Node) bool {
								if as, ok := k.(*ast.AssignStmt); ok && len(as.Rhs) == 1 && as.Rhs[0] == ast.Expr(call) {
									if id, ok := as.Lhs[0].(*ast.Ident); ok && id.Name == "_" {
										consumed = false
									}
								}
								return true
							})
							if !consumed {
								return true
							}
							n6++
							key := fmt.Sprintf("%s.%s:deferred-probe#%d", v.rel, declName(fd), n6)
							afterPush := false
							ast.Inspect(fnNode, func(k ast.Node) bool {
								if c3, ok := k.(*ast.CallExpr); ok && c3.End() <= call.Pos() {
									if f3, ok := typeutil.Callee(info, c3).(*types.Func); ok && pushers[f3] {
										afterPush = true
									}
								}
								return true
							})
							r.check(afterPush, rule6, key, call.Pos(), "a load reads the data cache in a deferred continuation only right after that continuation installed the missing line; a load that hits samples its bytes in the step that issues it (a later re-probe would return a younger store performed by another execute unit during the access latency)")
						}
						return true
					})
				}
				walk(fd.Body, fd, false)
			}
		}
	}
}
