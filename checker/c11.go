package main

// C11 — the assembler front end is total and resolves labels to the right instruction.

import (
	"fmt"
	"go/ast"
	"go/token"
	"go/types"
	"sort"
	"strings"

	"golang.org/x/tools/go/packages"
	"golang.org/x/tools/go/types/typeutil"
)

func init() {
	register(&propSpec{
		ID:          "C11",
		Level:       "other",
		Run:         runC11,
		Explanation: "Totality by trap discharge (E-BOUNDS, a zone analysis: every index, slice, division, nil-map store, explicit panic and single-result type assertion in risc.Parse and the risc functions it reaches is proved safe from dominating guards, including the derived summary 'validateArgs returns nil => len(args)==expected'); instruction/label accounting by E-PATH/E-TERM on the line loop (one append per instruction line, pc advanced exactly once per appended instruction and never on label/blank/comment lines, label stored with the loop-carried pc and the line minus its colon); per-mnemonic decode (E-TABLE/E-TERM: each case constructs the type whose InstructionType is that mnemonic, operands bound through parseRegister / ParseInt(…,10,32) / parseOffsetReg with every error tested and returned, operand k flowing to the field that Run uses as RISC-V operand k); normalisation (ToLower on the mnemonic, TrimSpace on line and operands, lower-case case labels). R11.9 every error a parsing helper returns is tested with the right polarity (err != nil) and leaves the function as an error.",
		Assumptions: []string{
			"strings, strconv and fmt functions are total",
			"behaviour on duplicate labels is unspecified and not judged",
			"which grammar ought to be accepted is not judged (sh takes 'rs2, imm, rs1')",
		},
		Trusted: []string{"go/types", "majcheck zone analysis and term engine", "RV32IM operand table"},
	})
}

// reachableInPkg lists the functions of pkg reachable from root through static calls.
func reachableInPkg(w *World, pkg *packages.Package, root *ast.FuncDecl) []*ast.FuncDecl {
	seen := map[*ast.FuncDecl]bool{root: true}
	order := []*ast.FuncDecl{root}
	for i := 0; i < len(order); i++ {
		ast.Inspect(order[i], func(n ast.Node) bool {
			call, ok := n.(*ast.CallExpr)
			if !ok {
				return true
			}
			if f, ok := typeutil.Callee(pkg.TypesInfo, call).(*types.Func); ok && f.Pkg() == pkg.Types {
				if fd, _ := w.FuncDecl(f); fd != nil && !seen[fd] {
					seen[fd] = true
					order = append(order, fd)
				}
			}
			return true
		})
	}
	return order
}

func declName(fd *ast.FuncDecl) string {
	if fd.Recv != nil && len(fd.Recv.List) == 1 {
		return "(" + types.ExprString(fd.Recv.List[0].Type) + ")." + fd.Name.Name
	}
	return fd.Name.Name
}

func runC11(r *Run) {
	w := r.W
	a := analyseISA(w)
	pkg := a.pkg
	for _, p := range a.problems {
		r.undecided("R11.0", "anchor", token.NoPos, "%s", p)
	}
	if a.parseFD == nil || a.sw == nil {
		r.undecided("R11.0", "risc.Parse", token.NoPos, "Parse or its mnemonic switch not found")
		return
	}
	r.anchor("parser entry", "risc.Parse")
	r.floor("R11.1", 120)
	r.floor("R11.3", 45)
	r.floor("R11.9", 140)
	ruleParserErrorsPropagate(r, "R11.9")
	r.floor("R11.8", 14)
	ruleParseIntWidth(r, "R11.8")
	r.floor("R11.4", 45)
	r.floor("R11.6", 45)

	// ---- R11.1 totality
	ba := &boundsAnalyser{w: w, lenSummary: map[*types.Func][2]int{}}
	fns := reachableInPkg(w, pkg, a.parseFD)
	var fnNames []string
	for _, fd := range fns {
		fnNames = append(fnNames, declName(fd))
		if obj, ok := pkg.TypesInfo.Defs[fd.Name].(*types.Func); ok {
			if n, xs, ok := deriveLenSummary(w, fd, pkg); ok {
				ba.lenSummary[obj] = [2]int{n, xs}
				r.ok("R11.1", "summary:"+declName(fd), fd.Pos(), "derived from the body: a nil result implies len(arg %d) == arg %d", xs, n)
			}
		}
	}
	r.anchor("functions reachable from Parse in package risc", strings.Join(fnNames, ", "))
	for _, fd := range fns {
		ba.analyseFunc(fd, pkg, declName(fd))
	}
	for _, s := range ba.sites {
		r.check(s.proved, "R11.1", s.desc, s.pos, "%s: %s", s.kind, s.why)
	}

	// ---- R11.3 / R11.4 / R11.5 / R11.6 per case
	sb := newSpecBuilder(a)
	var labels []string
	for l := range a.cases {
		labels = append(labels, l)
	}
	sort.Strings(labels)
	for _, l := range labels {
		pc := a.cases[l]
		c := "case:" + l
		op := a.byMnem[l]
		good := op != nil && op.typeName == pc.typeName
		r.check(good, "R11.3", c, pc.clause.Pos(), "case %q constructs %s, whose InstructionType is %q", l, pc.typeName, mnemOf(a, pc.typeName))
		r.check(l == strings.ToLower(l), "R11.7", c+":lowercase", pc.clause.Pos(), "case label %q is lower-case (the tag is lower-cased)", l)
		r.check(pc.untrimmed == 0, "R11.7", c+":operands-trimmed", pc.clause.Pos(), "every operand of %q passes through strings.TrimSpace (%d untrimmed)", l, pc.untrimmed)
		r.check(len(pc.problems) == 0, "R11.6", c, pc.clause.Pos(), "one append on the single fall-through path, every operand parser error tested and returned with a zero Application, %d operand parsers checked, validateArgs(%d) covers operand index %d %v", pc.libCalls, pc.nargs, pc.maxElem, pc.problems)
		if op != nil && sb != nil {
			sp := sb.spec(op.mnemonic)
			if sp == nil {
				r.undecided("R11.4", c, pc.clause.Pos(), "no operand row for %q", l)
			} else if e, bad := op.errs["Run"]; bad {
				r.undecided("R11.4", c, pc.clause.Pos(), "Run not analysable: %s", e)
			} else {
				verdict, why := bindingVerdict(op.terms["Run"], sp.run)
				var bs []string
				for f, o := range pc.bind {
					bs = append(bs, f+"←"+o.String())
				}
				sort.Strings(bs)
				switch verdict {
				case "ok":
					r.ok("R11.4", c, pc.clause.Pos(), "operand binding {%s}: Run uses operand k as RISC-V operand k (term equals the RV32IM row)", strings.Join(bs, " "))
				case "semantic":
					r.ok("R11.4", c, pc.clause.Pos(), "operand binding {%s}: Run uses exactly the operands of the RV32IM row and no renaming of operands explains the difference — the deviation is in the opcode (reported under C02), not in the decode", strings.Join(bs, " "))
				default:
					r.bad("R11.4", c, pc.clause.Pos(), "operand binding {%s} is wrong: %s", strings.Join(bs, " "), why)
				}
			}
		}
	}
	for _, d := range a.caseDups {
		r.bad("R11.3", "duplicate-case:"+d, a.sw.Pos(), "mnemonic %q has two cases", d)
	}
	for _, op := range a.ops {
		r.check(op.pcase != nil, "R11.3", "constructible:"+op.typeName, op.pos["Run"], "instruction type %s (%s) is constructed by the parser case of its mnemonic", op.typeName, op.mnemonic)
	}

	// ---- R11.2 accounting on the line loop
	runR112(r, a, pkg)
}

func mnemOf(a *iscAnalysis, tname string) string {
	for _, op := range a.ops {
		if op.typeName == tname {
			return op.mnemonic
		}
	}
	return "?"
}

func runR112(r *Run, a *iscAnalysis, pkg *packages.Package) {
	info := pkg.TypesInfo
	loop := a.lineLoop
	body := loop.Body.List
	// position of the switch among the top-level statements of the loop body
	swIdx := -1
	for i, s := range body {
		if s == ast.Stmt(a.sw) {
			swIdx = i
		}
	}
	if swIdx < 0 {
		r.undecided("R11.2", "line-loop", loop.Pos(), "the mnemonic switch is not a top-level statement of the line loop")
		return
	}
	// the pc variable: the int32 local of Parse stored as label value
	var pcObj types.Object
	var labelStores int
	ast.Inspect(a.parseFD.Body, func(n ast.Node) bool {
		as, ok := n.(*ast.AssignStmt)
		if !ok || len(as.Lhs) != 1 {
			return true
		}
		if ix, ok := as.Lhs[0].(*ast.IndexExpr); ok {
			if _, isMap := info.TypeOf(ix.X).Underlying().(*types.Map); isMap {
				labelStores++
				if id, ok := ast.Unparen(as.Rhs[0]).(*ast.Ident); ok {
					pcObj = info.Uses[id]
				}
			}
		}
		return true
	})
	if pcObj == nil {
		r.bad("R11.2", "label-store", loop.Pos(), "no label store whose value is a plain variable (the loop-carried pc) found; %d map stores", labelStores)
		return
	}
	r.anchor("pc variable", pcObj.Name())
	// every write of pc in Parse
	type wr struct {
		s   ast.Stmt
		pos token.Pos
	}
	var writes []wr
	ast.Inspect(a.parseFD.Body, func(n ast.Node) bool {
		switch s := n.(type) {
		case *ast.AssignStmt:
			for _, l := range s.Lhs {
				if id, ok := ast.Unparen(l).(*ast.Ident); ok && (info.Uses[id] == pcObj || info.Defs[id] == pcObj) {
					writes = append(writes, wr{s, s.Pos()})
				}
			}
		case *ast.IncDecStmt:
			if id, ok := ast.Unparen(s.X).(*ast.Ident); ok && info.Uses[id] == pcObj {
				writes = append(writes, wr{s, s.Pos()})
			}
		}
		return true
	})
	okInc := false
	if len(writes) == 1 {
		if as, ok := writes[0].s.(*ast.AssignStmt); ok && as.Tok == token.ADD_ASSIGN && len(as.Rhs) == 1 {
			if tv := info.Types[as.Rhs[0]]; tv.Value != nil && tv.Value.ExactString() == "4" {
				// top-level statement of the loop body, after the switch
				for i, s := range body {
					if s == ast.Stmt(as) && i > swIdx {
						okInc = true
					}
				}
			}
		}
	}
	r.check(okInc, "R11.2", "pc-advance", loop.Pos(), "pc has exactly one write in Parse: `pc += 4` as a top-level statement of the line loop after the mnemonic switch (found %d writes)", len(writes))
	// pc starts at zero: declared without initialiser or with 0, outside the loop
	zeroInit := false
	ast.Inspect(a.parseFD.Body, func(n ast.Node) bool {
		if vs, ok := n.(*ast.ValueSpec); ok {
			for i, nm := range vs.Names {
				if info.Defs[nm] == pcObj && nm.Pos() < loop.Pos() {
					if len(vs.Values) == 0 {
						zeroInit = true
					} else if tv := info.Types[vs.Values[i]]; tv.Value != nil && tv.Value.ExactString() == "0" {
						zeroInit = true
					}
				}
			}
		}
		return true
	})
	r.check(zeroInit, "R11.2", "pc-initial", loop.Pos(), "pc is declared before the line loop with value 0")
	// no statement between the switch and pc += 4 can leave the iteration; no continue inside the switch
	contInSwitch := 0
	ast.Inspect(a.sw, func(n ast.Node) bool {
		if b, ok := n.(*ast.BranchStmt); ok && (b.Tok == token.CONTINUE || b.Tok == token.BREAK || b.Tok == token.GOTO) {
			contInSwitch++
		}
		return true
	})
	r.check(contInSwitch == 0, "R11.2", "no-continue-after-append", a.sw.Pos(), "no continue/break/goto inside the mnemonic switch: an iteration that appended always reaches pc += 4 (%d found)", contInSwitch)
	// the prefix of the loop body, interpreted: blank/comment/label lines continue without appending
	in := newInterp(r.W)
	fr := &frame{pkg: pkg, info: info, name: "Parse"}
	st := newState()
	free := func(n ast.Node) {
		ast.Inspect(n, func(m ast.Node) bool {
			id, ok := m.(*ast.Ident)
			if !ok {
				return true
			}
			obj, ok := info.Uses[id].(*types.Var)
			if !ok || obj.IsField() || (obj.Pkg() != nil && obj.Parent() == obj.Pkg().Scope()) {
				return true
			}
			if obj.Pos() >= loop.Body.Pos() && obj.Pos() <= loop.Body.End() {
				return true
			}
			if _, ok := st.env[obj]; !ok {
				st.env[obj] = &Term{Op: "free", S: obj.Name()}
			}
			return true
		})
	}
	for _, s := range body[:swIdx] {
		free(s)
	}
	if id, ok := loop.Value.(*ast.Ident); ok {
		if o := info.Defs[id]; o != nil {
			st.env[o] = &Term{Op: "free", S: "rawline"}
		}
	}
	var tree *Tree
	func() {
		defer func() {
			if e := recover(); e != nil {
				if se, ok := e.(symErr); ok {
					r.undecided("R11.2", "line-classification", se.pos, "prefix of the line loop not interpretable: %s", se.msg)
					return
				}
				panic(e)
			}
		}()
		tree = in.execBlock(fr, body[:swIdx], st)
	}()
	if tree == nil {
		return
	}
	nCont, nFall, labelOK, otherWrites := 0, 0, 0, 0
	var firstConds []string
	treePaths(tree, nil, func(conds []condLit, l *Tree) {
		switch l.Flow {
		case flowContinue:
			nCont++
			changed := 0
			for obj, v := range l.St.env {
				if obj.Pos() >= loop.Body.Pos() && obj.Pos() <= loop.Body.End() {
					continue
				}
				old := st.env[obj]
				if old == nil || eqT(old, v) {
					continue
				}
				if old.Op == "free" && old.S == "rawline" {
					continue
				}
				changed++
				// labels = mapset(labels, line[:len(line)-1], pc)
				if v.Op == "mapset" && v.Args[0].Op == "free" && v.Args[2].Op == "free" && v.Args[2].S == pcObj.Name() {
					k := v.Args[1]
					if k.Op == "slice" && len(k.Args) == 3 {
						x, lo, hi := k.Args[0], k.Args[1], k.Args[2]
						lz, _, lok := lo.constInt()
						if lok && lz == 0 && eqT(hi, T("sub", "int", T("len", "", x), cInt(1, "int"))) && x.Op == "lib" && x.S == "strings.TrimSpace" {
							// guarded by the last character being ':'
							for _, c := range conds {
								if c.pos && c.c.Op == "eq" && strings.Contains(c.c.String(), "58:uint8") {
									labelOK++
								}
							}
						}
					}
				} else {
					otherWrites++
				}
			}
			if changed == 0 && len(firstConds) < 4 {
				var cs []string
				for _, c := range conds {
					p := ""
					if !c.pos {
						p = "!"
					}
					cs = append(cs, p+c.c.Pretty())
				}
				firstConds = append(firstConds, strings.Join(cs, " ∧ "))
			}
		case flowFall:
			nFall++
			for obj, v := range l.St.env {
				old := st.env[obj]
				if old != nil && old.Op == "free" && old.S != "rawline" && !eqT(old, v) {
					otherWrites++
				}
			}
		case flowReturn, flowPanic, flowBreak:
			otherWrites++
		}
	})
	r.check(labelOK >= 1 && otherWrites == 0, "R11.2", "label-store", loop.Pos(),
		"a label line stores labels[trimmed line without its ':'] = pc (the loop-carried value) and continues; no other path before the switch writes parser state (label paths %d, other writes %d, continue paths %d, instruction paths %d)", labelOK, otherWrites, nCont, nFall)
	// R11.7: blank and comment lines continue first; the line is trimmed
	blank := false
	for _, fc := range firstConds {
		if strings.Contains(fc, "len") {
			blank = true
		}
	}
	comment := false
	for _, fc := range firstConds {
		if strings.Contains(fc, "35:uint8") {
			comment = true
		}
	}
	r.check(blank && comment, "R11.7", "blank-and-comment-lines", loop.Pos(), "empty (after TrimSpace) and '#' lines continue before anything else: %v", firstConds)
	// the tag: strings.ToLower(trimmed line up to the first space)
	var tagTerm *Term
	treePaths(tree, nil, func(conds []condLit, l *Tree) {
		if l.Flow == flowFall && tagTerm == nil {
			func() {
				defer func() { recover() }()
				tagTerm = in.eval(fr, a.sw.Tag, l.St)
			}()
		}
	})
	tagOK := tagTerm != nil && tagTerm.contains(func(x *Term) bool { return x.Op == "lib" && x.S == "strings.ToLower" }) &&
		tagTerm.contains(func(x *Term) bool { return x.Op == "lib" && x.S == "strings.TrimSpace" })
	r.check(tagOK, "R11.7", "mnemonic-normalised", a.sw.Pos(), "the switch tag derives from strings.ToLower of the trimmed line: %s", prettyOrNil(tagTerm))
	// the returned Application carries the accumulated instructions and labels
	var lastRet *ast.ReturnStmt
	for _, s := range a.parseFD.Body.List {
		if rs, ok := s.(*ast.ReturnStmt); ok {
			lastRet = rs
		}
	}
	retOK := false
	if lastRet != nil && len(lastRet.Results) == 2 {
		if cl, ok := ast.Unparen(lastRet.Results[0]).(*ast.CompositeLit); ok {
			n := 0
			for _, el := range cl.Elts {
				if kv, ok := el.(*ast.KeyValueExpr); ok {
					if _, ok := ast.Unparen(kv.Value).(*ast.Ident); ok {
						n++
					}
				}
			}
			if id, ok := ast.Unparen(lastRet.Results[1]).(*ast.Ident); ok && id.Name == "nil" && n == 2 {
				retOK = true
			}
		}
	}
	r.check(retOK, "R11.2", "result", a.parseFD.Pos(), "Parse ends by returning the accumulated instructions and labels with a nil error")
}

func prettyOrNil(t *Term) string {
	if t == nil {
		return "<not evaluable>"
	}
	return clip(t.Pretty(), 300)
}

var _ = fmt.Sprint

func operandKind(t *Term) string {
	switch t.Op {
	case "Reg", "OffReg":
		return "reg"
	case "Imm", "OffImm":
		return "imm"
	case "Label":
		return "label"
	}
	return ""
}

func operandLeaves(t *Term, into map[string]*Term) {
	t.walk(func(x *Term) {
		if operandKind(x) != "" && len(x.Args) == 0 {
			into[x.String()] = x
		}
	})
}

func permutations(xs []string) [][]string {
	if len(xs) <= 1 {
		return [][]string{append([]string{}, xs...)}
	}
	var out [][]string
	for i := range xs {
		rest := append(append([]string{}, xs[:i]...), xs[i+1:]...)
		for _, p := range permutations(rest) {
			out = append(out, append([]string{xs[i]}, p...))
		}
	}
	return out
}

// bindingVerdict separates a wrong operand binding (some renaming of the
// operands makes the code equal to the row) from an opcode deviation.
func bindingVerdict(code *Term, rows []*Term) (string, string) {
	var specs []*Term
	for _, w := range rows {
		h := hoistAll(w)
		if eq, _ := equivTrees(code, h); eq {
			return "ok", ""
		}
		specs = append(specs, h)
	}
	cl := map[string]*Term{}
	operandLeaves(code, cl)
	for _, h := range specs {
		sl := map[string]*Term{}
		operandLeaves(h, sl)
		// renamings within a kind over the union of leaves
		byKind := map[string][]string{}
		all := map[string]*Term{}
		for k, v := range cl {
			all[k] = v
		}
		for k, v := range sl {
			all[k] = v
		}
		for k, v := range all {
			byKind[operandKind(v)] = append(byKind[operandKind(v)], k)
		}
		for _, ks := range byKind {
			sort.Strings(ks)
		}
		kinds := []string{"reg", "imm", "label"}
		var rec func(i int, m map[string]string) (bool, string)
		rec = func(i int, m map[string]string) (bool, string) {
			if i == len(kinds) {
				ident := true
				for a, b := range m {
					if a != b {
						ident = false
					}
				}
				if ident {
					return false, ""
				}
				ren := code.subst(func(x *Term) *Term {
					if operandKind(x) != "" && len(x.Args) == 0 {
						if to, ok := m[x.String()]; ok {
							return all[to]
						}
					}
					return nil
				})
				if eq, _ := equivTrees(hoistAll(ren), h); eq {
					var parts []string
					for a, b := range m {
						if a != b {
							parts = append(parts, a+"→"+b)
						}
					}
					sort.Strings(parts)
					return true, "the code equals the RV32IM row only after renaming operands " + strings.Join(parts, ", ")
				}
				return false, ""
			}
			ks := byKind[kinds[i]]
			if len(ks) > 4 {
				return false, ""
			}
			for _, p := range permutations(ks) {
				m2 := map[string]string{}
				for a, b := range m {
					m2[a] = b
				}
				for j, k := range ks {
					m2[k] = p[j]
				}
				if ok, why := rec(i+1, m2); ok {
					return true, why
				}
			}
			return false, ""
		}
		if ok, why := rec(0, map[string]string{}); ok {
			return "binding", why
		}
	}
	// no renaming explains it: compare the operand sets
	for _, h := range specs {
		sl := map[string]*Term{}
		operandLeaves(h, sl)
		same := len(sl) == len(cl)
		for k := range sl {
			if _, ok := cl[k]; !ok {
				same = false
			}
		}
		if same {
			return "semantic", ""
		}
	}
	var have, want []string
	for k := range cl {
		have = append(have, k)
	}
	sort.Strings(have)
	if len(specs) > 0 {
		sl := map[string]*Term{}
		operandLeaves(specs[0], sl)
		for k := range sl {
			want = append(want, k)
		}
		sort.Strings(want)
	}
	return "binding", fmt.Sprintf("Run uses operands %v, the RV32IM row uses %v", have, want)
}

// ruleParseIntWidth (R11.8): every immediate and offset is parsed as a decimal
// 32-bit integer. A wider parse followed by the int32 conversion silently wraps an
// operand that does not fit (`lw t0, 4294967300(t1)` would be accepted with offset 4)
// instead of being rejected.
func ruleParseIntWidth(r *Run, rule string) {
	p := r.W.Pkg("risc")
	if p == nil {
		r.undecided(rule, "risc", token.NoPos, "package risc not loaded")
		return
	}
	for _, f := range p.Syntax {
		for _, d := range f.Decls {
			fd, ok := d.(*ast.FuncDecl)
			if !ok || fd.Body == nil {
				continue
			}
			n := 0
			ast.Inspect(fd.Body, func(m ast.Node) bool {
				call, ok := m.(*ast.CallExpr)
				if !ok || len(call.Args) != 3 {
					return true
				}
				fn, ok := typeutil.Callee(p.TypesInfo, call).(*types.Func)
				if !ok || fn.FullName() != "strconv.ParseInt" {
					return true
				}
				n++
				base, ok1 := constInt64(p.TypesInfo.Types[call.Args[1]])
				bits, ok2 := constInt64(p.TypesInfo.Types[call.Args[2]])
				r.check(ok1 && ok2 && base == 10 && bits == 32, rule, fmt.Sprintf("risc.%s:ParseInt#%d", declName(fd), n), call.Pos(), "operand text is parsed as a decimal 32-bit integer (base %d, %d bits): a value that does not fit is rejected, not wrapped by the int32 conversion", base, bits)
				return true
			})
		}
	}
}
