package main

// C12 — cycle accounting follows the documented latency model.

import (
	"fmt"
	"go/ast"
	"go/token"
	"go/types"
	"sort"
	"strings"

	"golang.org/x/tools/go/packages"
	"golang.org/x/tools/go/types/typeutil"
)

func init() {
	register(&propSpec{
		ID:          "C12",
		Level:       "other",
		Run:         runC12,
		Explanation: "E-COST: the body of MVP-1's (and MVP-2's, MVP-3's) instruction loop is interpreted to terms with the helper methods inlined; for every path the increments of the cycle counter are extracted and compared with the documented model — fetch (MemoryAccess; L1Access or MemoryAccess on MVP-2/3) + decode + [MemoryAccess iff the instruction reads memory] + InstructionType.Cycles() and then, unless the instruction returned, RegisterAccess iff RegisterChange else MemoryAccess iff MemoryChange (L1Access on a cache hit for MVP-3) — and nothing else writes the counter. R12.2: MVP-2's model equals MVP-1's term by term except the fetch term, which is L1Access or MemoryAccess with L1Access <= MemoryAccess. R12.3: on all twelve variants the returned counter is only ever incremented by non-negative amounts and every iteration of the main loop adds at least one positive constant. R12.4: Cycles() is total and returns constants >= 1. R12.5: the latency table is positive and ordered. Not decided: independence of timing from operand values (an information-flow property through maps, closures and coroutines; declined) and the 'instructions / issue width' lower bound (needs bus-capacity reasoning). R12.7 MemoryRead/MemoryWrite return exactly the addresses the instruction accesses (the latency model charges a memory read iff MemoryRead is non-empty). R12.9 the stepping/delay primitive of MVP-6.x..8.0 (common/coroutine) equals its reference model operation by operation (a delay of n idles exactly n steps). R12.8 no control condition of the timing layer (variants, latency table) that changes a counter or leaves a step reads an operand value (register content, result value, data byte): a structural necessary condition of value-independence. R12.10 the flags of an Execution that select the write-back latency (RegisterChange, MemoryChange) are one constant pair per opcode on every successful outcome of Run.",
		Assumptions: []string{"the latency model is the README's: fetch, decode, optional memory read, execute, write-back"},
		Trusted:     []string{"go/types", "term engine", "the model transcription in checker/c12.go"},
	})
}

type costPath struct {
	conds   []condLit
	addends []*Term
	flow    flowKind
	retErr  bool
}

// latencyConst returns the value of a constant of package common/latency.
func latencyConst(w *World, name string) (int64, bool) {
	p := w.Pkg("common/latency")
	if p == nil {
		return 0, false
	}
	c, ok := p.Types.Scope().Lookup(name).(*types.Const)
	if !ok {
		return 0, false
	}
	return constInt64(types.TypeAndValue{Value: c.Val()})
}

// flattenAdd splits x0 + a + b + … into addends.
func flattenAdd(t *Term, out *[]*Term) {
	if t.Op == "add" && len(t.Args) == 2 {
		flattenAdd(t.Args[0], out)
		flattenAdd(t.Args[1], out)
		return
	}
	*out = append(*out, t)
}

// costPaths interprets the body of the variant's main loop and returns, per
// path, what is added to the cycle counter field.
func costPaths(w *World, v *variant) ([]costPath, string) {
	if c, ok := costCache[v]; ok {
		return c, ""
	}
	c, e := costPathsUncached(w, v)
	if c != nil {
		costCache[v] = c
	}
	return c, e
}

func costPathsUncached(w *World, v *variant) ([]costPath, string) {
	initExecFieldIDs(w)
	loop := v.mainLoop()
	if loop == nil {
		return nil, "main loop not found"
	}
	in := newInterp(w)
	// the per-opcode latency stays a symbol (R12.4 decides that it is a positive constant per opcode)
	in.models[modPath+"/risc.(InstructionType).Cycles"] = func(in *Interp, fr *frame, call *ast.CallExpr, recv *Term, args []*Term, st *State) ([]*Term, bool) {
		return []*Term{{Op: "icall", S: "Cycles", Args: []*Term{recv}}}, true
	}
	fr := &frame{pkg: v.pkg, info: v.info, name: "Run"}
	st := newState()
	// receiver and parameters
	if v.run.Recv != nil && len(v.run.Recv.List[0].Names) == 1 {
		if o := v.info.Defs[v.run.Recv.List[0].Names[0]]; o != nil {
			st.env[o] = &Term{Op: "recv", Hint: o.Name(), Obj: o}
		}
	}
	k := 0
	for _, fl := range v.run.Type.Params.List {
		for _, nm := range fl.Names {
			if o := v.info.Defs[nm]; o != nil {
				st.env[o] = &Term{Op: "param", S: fmt.Sprintf("p%d", k), Hint: nm.Name, Obj: o}
			}
			k++
		}
	}
	// locals of Run declared outside the loop body
	ast.Inspect(loop.Body, func(n ast.Node) bool {
		if id, ok := n.(*ast.Ident); ok {
			if o, ok := v.info.Uses[id].(*types.Var); ok && !o.IsField() {
				if _, bound := st.env[o]; !bound && !(o.Pos() >= loop.Body.Pos() && o.Pos() <= loop.Body.End()) && o.Parent() != o.Pkg().Scope() {
					st.env[o] = &Term{Op: "free", S: o.Name()}
				}
			}
		}
		return true
	})
	var tree *Tree
	errMsg := ""
	func() {
		defer func() {
			if e := recover(); e != nil {
				if se, ok := e.(symErr); ok {
					errMsg = fmt.Sprintf("%s at %s", se.msg, w.pos(se.pos))
					return
				}
				panic(e)
			}
		}()
		tree = in.execBlock(fr, loop.Body.List, st)
	}()
	if tree == nil {
		return nil, errMsg
	}
	var out []costPath
	treePaths(tree, nil, func(conds []condLit, l *Tree) {
		retErr := l.Flow == flowReturn && len(l.Vals) == 2 && l.Vals[1].Op != "nil"
		found := false
		for key, val := range l.St.heap {
			loc := l.St.heapLoc[key]
			if !(loc.Op == "fld" && loc.Hint == "cycle") {
				continue
			}
			found = true
			// joins were merged into ite values: split them again into paths
			var rec func(t *Term, cs []condLit)
			rec = func(t *Term, cs []condLit) {
				if t.Op == "ite" {
					rec(t.Args[1], append(append([]condLit{}, cs...), condLit{t.Args[0], true}))
					rec(t.Args[2], append(append([]condLit{}, cs...), condLit{t.Args[0], false}))
					return
				}
				if !consistent(cs) {
					return
				}
				cp := costPath{conds: cs, flow: l.Flow, retErr: retErr}
				var adds []*Term
				flattenAdd(t, &adds)
				for _, a := range adds {
					if eqT(a, loc) {
						continue
					}
					cp.addends = append(cp.addends, a)
				}
				out = append(out, cp)
			}
			// the value may mention conditions the tree path has already decided
			for _, c := range conds {
				val = assume(val, c.c, c.pos)
			}
			rec(hoistAll(val), conds)
		}
		if !found {
			out = append(out, costPath{conds: conds, flow: l.Flow, retErr: retErr})
		}
	})
	return out, ""
}

var costCache = map[*variant][]costPath{}

// execFieldIDs maps the names of risc.Execution's fields to their rename-stable ids.
var execFieldIDs = map[string]string{}

func initExecFieldIDs(w *World) {
	obj := w.Pkg("risc").Types.Scope().Lookup("Execution")
	if obj == nil {
		return
	}
	st, _ := obj.Type().Underlying().(*types.Struct)
	if st == nil {
		return
	}
	for i := 0; i < st.NumFields(); i++ {
		execFieldIDs[st.Field(i).Name()] = fieldID(st.Field(i), obj.Type())
	}
}

func condMentions(c *Term, what string) bool {
	id := execFieldIDs[what]
	return c.contains(func(x *Term) bool {
		return (x.Op == "icall" && x.S == what) || (x.Op == "fld" && (x.Hint == what || (id != "" && x.S == id))) || (x.Op == "fv" && x.Hint == what)
	})
}

// consistent: no condition occurs with both polarities on the path.
func consistent(conds []condLit) bool {
	seen := map[string]bool{}
	for _, c := range conds {
		k := c.c.Key()
		if p, ok := seen[k]; ok && p != c.pos {
			return false
		}
		seen[k] = c.pos
	}
	return true
}

// condIs: the condition itself (not something nested in it) is the named fact.
func condIs(c *Term, what string) bool {
	if what == "MemoryRead" {
		if (c.Op == "ne" || c.Op == "eq") && len(c.Args) == 2 {
			for i := 0; i < 2; i++ {
				l, z := c.Args[i], c.Args[1-i]
				if v, _, ok := z.constInt(); ok && v == 0 && l.Op == "len" && l.Args[0].Op == "icall" && l.Args[0].S == "MemoryRead" {
					return true
				}
			}
		}
		return false
	}
	id := execFieldIDs[what]
	return c.Op == "fld" && (c.Hint == what || (id != "" && c.S == id))
}

func pathHas(cp costPath, what string, polarity bool) (bool, bool) { // (mentioned, with that polarity)
	for _, c := range cp.conds {
		if condIs(c.c, what) {
			// ne(len(MemoryRead), 0) true  <=> reads memory; eq(...) flips
			pos := c.pos
			if c.c.Op == "eq" {
				pos = !pos
			}
			return true, pos == polarity
		}
	}
	return false, false
}

func runC12(r *Run) {
	w := r.W
	r.floor("R12.1", 2)
	r.floor("R12.2", 1)
	r.floor("R12.3", 24)
	r.floor("R12.4", 6)
	r.floor("R12.5", 1)
	mem, ok1 := latencyConst(w, "MemoryAccess")
	l1, ok2 := latencyConst(w, "L1Access")
	reg, ok3 := latencyConst(w, "RegisterAccess")
	l3, ok4 := latencyConst(w, "L3Access")
	if !(ok1 && ok2 && ok3 && ok4) {
		r.undecided("R12.5", "common/latency", token.NoPos, "latency constants not found")
		return
	}
	r.check(reg >= 1 && reg <= l1 && l1 <= l3 && l3 <= mem, "R12.5", "common/latency:table", token.NoPos, "the latency table is positive and ordered: RegisterAccess %d <= L1Access %d <= L3Access %d <= MemoryAccess %d", reg, l1, l3, mem)

	// ---- R12.1 / R12.2: the unpipelined variants
	models := map[string][]string{}
	for _, v := range variants(w) {
		if v.pkg == nil || v.pipelined() || (v.name != "mvp1" && v.name != "mvp2") {
			continue // the statement fixes the exact model of MVP-1 and relates MVP-2 to it
		}
		paths, e := costPaths(w, v)
		c := v.rel + ".(CPU).Run"
		if paths == nil {
			r.undecided("R12.1", c+":cost-model", v.run.Pos(), "the instruction loop is not in a form the cost extraction recognises: %s", e)
			continue
		}
		var sigs []string
		allOK := true
		var firstBad string
		for _, cp := range paths {
			if cp.retErr {
				continue // an error return reports no count
			}
			// classify the addends
			var consts []int64
			cyclesTerm := 0
			other := 0
			for _, a := range cp.addends {
				if vv, _, ok := a.constInt(); ok {
					consts = append(consts, vv)
				} else if a.Op == "icall" && a.S == "Cycles" {
					cyclesTerm++
				} else {
					other++
				}
			}
			sort.Slice(consts, func(i, j int) bool { return consts[i] < consts[j] })
			// what the path is
			_, readsMem := pathHas(cp, "MemoryRead", true)
			_, isRet := pathHas(cp, "Return", true)
			_, regCh := pathHas(cp, "RegisterChange", true)
			_, memCh := pathHas(cp, "MemoryChange", true)
			// expected constants
			var want []int64
			fetchAlt := []int64{mem}
			if v.name != "mvp1" {
				fetchAlt = []int64{l1, mem}
			}
			want = append(want, 1) // decode
			if readsMem {
				if v.name == "mvp3" {
					want = append(want, l1) // the L1D lookup; a miss adds MemoryAccess (checked as alternative below)
				} else {
					want = append(want, mem)
				}
			}
			if !isRet {
				if regCh {
					want = append(want, reg)
				} else if memCh {
					want = append(want, mem) // MVP-3: L1Access on a write hit (alternative below)
				}
			}
			match := func(fetch int64, extra []int64, swapStore bool) bool {
				w2 := append(append([]int64{fetch}, want...), extra...)
				if swapStore && !isRet && !regCh && memCh {
					// replace one MemoryAccess (the store) by L1Access
					for i, x := range w2 {
						if x == mem && i > 0 {
							w2[i] = l1
							break
						}
					}
				}
				sort.Slice(w2, func(i, j int) bool { return w2[i] < w2[j] })
				if len(w2) != len(consts) {
					return false
				}
				for i := range w2 {
					if w2[i] != consts[i] {
						return false
					}
				}
				return true
			}
			good := false
			for _, f := range fetchAlt {
				if match(f, nil, false) {
					good = true
				}
				if v.name == "mvp3" {
					if match(f, []int64{mem}, false) && readsMem { // L1D miss: line fetch
						good = true
					}
					if match(f, nil, true) || (readsMem && match(f, []int64{mem}, true)) {
						good = true
					}
				}
			}
			if cyclesTerm != 1 || other != 0 {
				good = false
			}
			sig := fmt.Sprintf("mem-read=%v ret=%v reg=%v store=%v -> consts %v + Cycles()x%d + other x%d", readsMem, isRet, regCh, memCh && !regCh, consts, cyclesTerm, other)
			sigs = append(sigs, sig)
			if !good {
				allOK = false
				if firstBad == "" {
					firstBad = sig
				}
			}
		}
		sort.Strings(sigs)
		models[v.name] = sigs
		r.check(allOK && len(sigs) >= 4, "R12.1", c+":cost-model", v.run.Pos(), "every path of one instruction adds exactly fetch + decode + [memory read] + Cycles() + [write-back] from the latency table (%d paths; first deviation: %s)", len(sigs), firstBad)
	}
	// R12.2: MVP-2's paths equal MVP-1's with the fetch constant replaced by L1Access or MemoryAccess
	if m1, m2 := models["mvp1"], models["mvp2"]; m1 != nil && m2 != nil {
		strip := func(s string, fetch int64) string { return s }
		_ = strip
		// every MVP-2 path class (ignoring the fetch constant) exists in MVP-1 and vice versa
		class := func(s string) string { return s[:strings.Index(s, " -> ")] }
		c1, c2 := map[string]bool{}, map[string]bool{}
		for _, s := range m1 {
			c1[class(s)] = true
		}
		for _, s := range m2 {
			c2[class(s)] = true
		}
		same := len(c1) == len(c2)
		for k := range c1 {
			if !c2[k] {
				same = false
			}
		}
		r.check(same && l1 <= mem, "R12.2", "proc/mvp2.(CPU).Run:never-slower", token.NoPos, "MVP-2 has the same path classes as MVP-1 and differs only in the fetch term (L1Access %d or MemoryAccess %d, L1Access <= MemoryAccess): term by term it is never slower", l1, mem)
	} else {
		r.undecided("R12.2", "proc/mvp2.(CPU).Run:never-slower", token.NoPos, "cost models of MVP-1/MVP-2 not available")
	}

	// ---- R12.3 on all variants
	for _, v := range variants(w) {
		if v.pkg == nil {
			continue
		}
		ruleCounterMonotone(r, v)
	}
	// ---- R12.6: the flush decision depends only on (expected target, resolved target): a branch whose target is
	// the predicted one costs the same whether taken or not
	r.floor("R12.8", 1)
	ruleTimingValueIndependent(r, "R12.8")
	// R12.7: the optional memory-read latency is charged exactly for the instructions that read memory
	// R12.9: the delay primitive every latency of MVP-6.x..8.0 is counted with equals its reference
	// (ExecuteWithCheckpointAfter idles exactly `cycles` steps; a suspended coroutine runs one continuation per step)
	r.floor("R12.10", 45)
	ruleLatencyClassConstant(r, "R12.10")
	r.floor("R12.9", 10)
	ruleCoroutineConformance(r, "R12.9")
	r.floor("R12.7", 90)
	ruleAddressLists(r, "R12.7", true)
	r.floor("R12.6", 18)
	ruleBranchUnit(r, "R12.6")
	// ---- R12.4
	ruleCyclesPositive(r, "R12.4")
	ruleCyclesByClass(r, "R12.4")
	if fd, pk := w.Method("risc", "InstructionType", "Cycles"); fd != nil {
		var sw *ast.SwitchStmt
		ast.Inspect(fd.Body, func(n ast.Node) bool {
			if s, ok := n.(*ast.SwitchStmt); ok && sw == nil {
				sw = s
			}
			return true
		})
		if sw != nil {
			vals, _, _ := switchCases(pk.TypesInfo, sw)
			enum := enumConsts(pk, "InstructionType")
			var miss []string
			for vv, n := range enum {
				if !vals[vv] {
					miss = append(miss, n)
				}
			}
			sort.Strings(miss)
			r.check(len(miss) == 0, "R12.4", "risc.(InstructionType).Cycles:total", fd.Pos(), "Cycles() has a case for every opcode (missing %v)", miss)
		}
	}
}

// counterObj finds the object whose value Run returns as the cycle count.
func counterObj(v *variant) types.Object {
	var obj types.Object
	ast.Inspect(v.run.Body, func(n ast.Node) bool {
		if _, ok := n.(*ast.FuncLit); ok {
			return false
		}
		rs, ok := n.(*ast.ReturnStmt)
		if !ok || len(rs.Results) != 2 {
			return true
		}
		if id, ok := ast.Unparen(rs.Results[1]).(*ast.Ident); !ok || id.Name != "nil" {
			return true
		}
		switch x := ast.Unparen(rs.Results[0]).(type) {
		case *ast.Ident:
			obj = v.info.Uses[x]
		case *ast.SelectorExpr:
			if s := v.info.Selections[x]; s != nil {
				obj = s.Obj()
			}
		}
		return true
	})
	return obj
}

func nonNegativeAmount(w *World, pkg *packages.Package, e ast.Expr, depth int) bool {
	info := pkg.TypesInfo
	if c, ok := constInt64(info.Types[e]); ok {
		return c >= 0
	}
	if depth > 3 {
		return false
	}
	switch x := ast.Unparen(e).(type) {
	case *ast.CallExpr:
		if f, ok := typeutil.Callee(info, x).(*types.Func); ok {
			if f.Name() == "Cycles" {
				return true // R12.4: constants >= 1
			}
			fd, pk := w.FuncDecl(f)
			if fd == nil || fd.Body == nil {
				return false
			}
			// every returned value is a local only ever incremented by non-negative amounts (or a non-negative constant)
			ok := true
			ast.Inspect(fd.Body, func(n ast.Node) bool {
				if _, isLit := n.(*ast.FuncLit); isLit {
					return false
				}
				rs, isR := n.(*ast.ReturnStmt)
				if !isR || len(rs.Results) != 1 {
					return true
				}
				if c, isC := constInt64(pk.TypesInfo.Types[rs.Results[0]]); isC {
					if c < 0 {
						ok = false
					}
					return true
				}
				id, isId := ast.Unparen(rs.Results[0]).(*ast.Ident)
				if !isId {
					ok = false
					return true
				}
				if !onlyIncremented(w, pk, fd.Body, pk.TypesInfo.Uses[id], depth+1) {
					ok = false
				}
				return true
			})
			return ok
		}
	case *ast.BinaryExpr:
		if x.Op == token.ADD || x.Op == token.MUL {
			return nonNegativeAmount(w, pkg, x.X, depth) && nonNegativeAmount(w, pkg, x.Y, depth)
		}
	}
	return false
}

// onlyIncremented: within body, obj is initialised to a non-negative constant and afterwards only ++ / += non-negative.
func onlyIncremented(w *World, pkg *packages.Package, body ast.Node, obj types.Object, depth int) bool {
	info := pkg.TypesInfo
	ok := true
	ast.Inspect(body, func(n ast.Node) bool {
		switch x := n.(type) {
		case *ast.AssignStmt:
			for i, l := range x.Lhs {
				var o types.Object
				switch y := ast.Unparen(l).(type) {
				case *ast.Ident:
					o = info.Uses[y]
					if o == nil {
						o = info.Defs[y]
					}
				case *ast.SelectorExpr:
					if s := info.Selections[y]; s != nil {
						o = s.Obj()
					}
				}
				if o != obj {
					continue
				}
				switch x.Tok {
				case token.DEFINE, token.ASSIGN:
					if i >= len(x.Rhs) {
						ok = false
					} else if c, isC := constInt64(info.Types[x.Rhs[i]]); !isC || c < 0 {
						ok = false
					}
				case token.ADD_ASSIGN:
					if !nonNegativeAmount(w, pkg, x.Rhs[0], depth) {
						ok = false
					}
				default:
					ok = false
				}
			}
		case *ast.IncDecStmt:
			var o types.Object
			switch y := ast.Unparen(x.X).(type) {
			case *ast.Ident:
				o = info.Uses[y]
			case *ast.SelectorExpr:
				if s := info.Selections[y]; s != nil {
					o = s.Obj()
				}
			}
			if o == obj && x.Tok == token.DEC {
				ok = false
			}
		}
		return true
	})
	return ok
}

func ruleCounterMonotone(r *Run, v *variant) {
	w := r.W
	obj := counterObj(v)
	c := v.rel + ".(CPU).Run"
	if obj == nil {
		r.undecided("R12.3", c+":counter", v.run.Pos(), "the returned cycle counter was not identified")
		return
	}
	r.anchor(v.name+" cycle counter", obj.Name())
	// every write of the counter in the whole package
	good := true
	for _, f := range v.pkg.Syntax {
		for _, d := range f.Decls {
			fd, ok := d.(*ast.FuncDecl)
			if !ok || fd.Body == nil {
				continue
			}
			if !onlyIncremented(w, v.pkg, fd.Body, obj, 0) {
				good = false
			}
		}
	}
	r.check(good, "R12.3", c+":monotone", v.run.Pos(), "the counter %s is initialised to a non-negative constant and afterwards only incremented, by constants >= 0, by Cycles() or by functions returning sums of such amounts", obj.Name())
	// every iteration adds at least one positive constant
	loop := v.mainLoop()
	positive := false
	if loop != nil && len(loop.Body.List) > 0 {
		if v.pipelined() {
			// cycle++ (or += positive) as a top-level statement of the loop body before any branch out
			for _, st := range loop.Body.List {
				if is, ok := st.(*ast.IncDecStmt); ok && is.Tok == token.INC {
					if id, ok := ast.Unparen(is.X).(*ast.Ident); ok && v.info.Uses[id] == obj {
						positive = true
					}
				}
				if _, isIf := st.(*ast.IfStmt); isIf {
					break
				}
			}
		} else if v.name != "mvp1" && v.name != "mvp2" {
			// the first statement of the body calls the fetch step, which charges a positive constant on each of its paths
			if as, ok := loop.Body.List[0].(*ast.AssignStmt); ok && len(as.Rhs) == 1 {
				if call, ok := as.Rhs[0].(*ast.CallExpr); ok {
					if f, ok := typeutil.Callee(v.info, call).(*types.Func); ok {
						if fd, _ := w.FuncDecl(f); fd != nil && fd.Body != nil {
							positive = chargesOnEveryPath(v, fd.Body.List, obj)
						}
					}
				}
			}
		} else {
			paths, _ := costPaths(w, v)
			positive = len(paths) > 0
			for _, cp := range paths {
				if cp.retErr {
					continue
				}
				has := false
				for _, a := range cp.addends {
					if vv, _, ok := a.constInt(); ok && vv > 0 {
						has = true
					}
				}
				if !has {
					positive = false
				}
			}
		}
	}
	r.check(positive, "R12.3", c+":progress", v.run.Pos(), "every iteration of the main loop adds at least one positive constant to the counter before it can leave the iteration")
}

// chargesOnEveryPath: the statement list adds a positive constant to the counter on every path through it.
func chargesOnEveryPath(v *variant, stmts []ast.Stmt, obj types.Object) bool {
	for _, st := range stmts {
		switch x := st.(type) {
		case *ast.AssignStmt:
			if x.Tok == token.ADD_ASSIGN && len(x.Lhs) == 1 {
				var o types.Object
				switch y := ast.Unparen(x.Lhs[0]).(type) {
				case *ast.Ident:
					o = v.info.Uses[y]
				case *ast.SelectorExpr:
					if s := v.info.Selections[y]; s != nil {
						o = s.Obj()
					}
				}
				if c, ok := constInt64(v.info.Types[x.Rhs[0]]); ok && c > 0 && o == obj {
					return true
				}
			}
		case *ast.IfStmt:
			if x.Else != nil {
				eb, ok := x.Else.(*ast.BlockStmt)
				if ok && chargesOnEveryPath(v, x.Body.List, obj) && chargesOnEveryPath(v, eb.List, obj) {
					return true
				}
			}
		}
	}
	return false
}

// ruleCyclesByClass: opcodes of one class have one latency: every load
// (IsMemoryRead) costs the same, every store the same, every branch the same.
func ruleCyclesByClass(r *Run, rule string) {
	w := r.W
	fd, pk := w.Method("risc", "InstructionType", "Cycles")
	if fd == nil {
		return
	}
	info := pk.TypesInfo
	lat := map[int64]int64{}
	ast.Inspect(fd.Body, func(n ast.Node) bool {
		cc, ok := n.(*ast.CaseClause)
		if !ok {
			return true
		}
		var val int64 = -1
		for _, st := range cc.Body {
			if rs, ok := st.(*ast.ReturnStmt); ok && len(rs.Results) == 1 {
				if c, ok := constInt64(info.Types[rs.Results[0]]); ok {
					val = c
				}
			}
		}
		for _, e := range cc.List {
			if c, ok := constInt64(info.Types[e]); ok {
				lat[c] = val
			}
		}
		return true
	})
	enum := enumConsts(pk, "InstructionType")
	for _, class := range []string{"IsMemoryRead", "IsMemoryWrite", "IsConditionalBranch", "IsUnconditionalBranch"} {
		pfd, ppk := w.Method("risc", "InstructionType", class)
		if pfd == nil {
			continue
		}
		var sw *ast.SwitchStmt
		ast.Inspect(pfd.Body, func(n ast.Node) bool {
			if s, ok := n.(*ast.SwitchStmt); ok && sw == nil {
				sw = s
			}
			return true
		})
		if sw == nil {
			continue
		}
		members, _, _ := switchCases(ppk.TypesInfo, sw)
		vals := map[int64][]string{}
		for m := range members {
			vals[lat[m]] = append(vals[lat[m]], enum[m])
		}
		var desc []string
		for v, ns := range vals {
			sort.Strings(ns)
			desc = append(desc, fmt.Sprintf("%d: %v", v, ns))
		}
		sort.Strings(desc)
		r.check(len(vals) == 1, rule, "risc.(InstructionType).Cycles:class("+class+")", fd.Pos(), "every opcode of the class %s has the same latency (%s)", class, strings.Join(desc, "; "))
	}
}

// ruleTimingValueIndependent (R12.8): in the timing layer (the variants and the
// latency table) no control condition whose branch changes a counter or leaves a
// unit's step reads an operand VALUE — a register's content, an execution's result
// value, a loaded or stored byte. Timing may depend on instruction kinds, register
// NAMES (hazards), addresses (cache hits) and the path; a condition on a value makes
// the cycle count depend on the data for the same path and addresses.
func ruleTimingValueIndependent(r *Run, rule string) {
	w := r.W
	type target struct {
		rel  string
		pkg  *packages.Package
		only string
	}
	var targets []target
	for _, v := range variants(w) {
		if v.pkg != nil {
			targets = append(targets, target{v.rel, v.pkg, ""})
		}
	}
	targets = append(targets, target{"risc", w.Pkg("risc"), "Cycles"})
	n := 0
	for _, tg := range targets {
		info := tg.pkg.TypesInfo
		for _, f := range tg.pkg.Syntax {
			for _, d := range f.Decls {
				fd, ok := d.(*ast.FuncDecl)
				if !ok || fd.Body == nil || (tg.only != "" && fd.Name.Name != tg.only) {
					continue
				}
				k := 0
				readsValue := func(e ast.Expr) string {
					found := ""
					ast.Inspect(e, func(m ast.Node) bool {
						switch x := m.(type) {
						case *ast.SelectorExpr:
							if x.Sel.Name == "RegisterValue" {
								found = "an execution's RegisterValue"
							}
						case *ast.IndexExpr:
							switch ctxFieldWritten(info, x.X) {
							case "Registers":
								found = "a register's content"
							case "Memory":
								found = "a byte of the memory image"
							}
							if sl, ok := info.TypeOf(x.X).Underlying().(*types.Slice); ok {
								if b, ok := sl.Elem().Underlying().(*types.Basic); ok && b.Kind() == types.Int8 {
									found = "a loaded or stored byte"
								}
							}
						case *ast.CallExpr:
							if fn, ok := typeutil.Callee(info, x).(*types.Func); ok && fn.Name() == "registerRead" {
								found = "a register's content"
							} else if ok && fn.Pkg() != nil && fn.Pkg().Path() == modPath+"/risc" {
								// the answer of a risc function that looks at the CONTENT of a register or of a memory byte
								if cfd, cpk := w.FuncDecl(fn); cfd != nil && cfd.Body != nil {
									ast.Inspect(cfd.Body, func(q ast.Node) bool {
										ix, ok := q.(*ast.IndexExpr)
										if !ok {
											return true
										}
										// a read, not the target of an assignment: appears inside an expression compared or returned
										switch ctxFieldWritten(cpk.TypesInfo, ix.X) {
										case "Registers", "Memory":
											isTarget := false
											ast.Inspect(cfd.Body, func(z ast.Node) bool {
												if as, ok := z.(*ast.AssignStmt); ok {
													for _, l := range as.Lhs {
														if ast.Unparen(l) == ast.Expr(ix) {
															isTarget = true
														}
													}
												}
												return true
											})
											if !isTarget {
												found = "the answer of " + fn.Name() + ", which reads register or memory content"
											}
										}
										return true
									})
								}
							}
						}
						return true
					})
					return found
				}
				affectsTiming := func(body ast.Node) bool {
					hit := false
					ast.Inspect(body, func(m ast.Node) bool {
						switch x := m.(type) {
						case *ast.ReturnStmt:
							hit = true
						case *ast.IncDecStmt:
							hit = true
						case *ast.AssignStmt:
							for _, l := range x.Lhs {
								if b, ok := info.TypeOf(l).Underlying().(*types.Basic); ok && b.Info()&types.IsInteger != 0 {
									hit = true
								}
							}
						}
						return true
					})
					return hit
				}
				ast.Inspect(fd.Body, func(m ast.Node) bool {
					var cond ast.Expr
					var body ast.Node
					switch x := m.(type) {
					case *ast.IfStmt:
						cond, body = x.Cond, x
					case *ast.SwitchStmt:
						cond, body = x.Tag, x.Body
					case *ast.ForStmt:
						cond, body = x.Cond, x.Body
					}
					if cond == nil {
						return true
					}
					what := readsValue(cond)
					if what == "" || !affectsTiming(body) {
						return true
					}
					n++
					k++
					r.bad(rule, fmt.Sprintf("%s.%s:value-condition#%d", tg.rel, declName(fd), k), cond.Pos(), "a control condition in the timing layer reads %s and its branch changes a counter or leaves the step: the cycle count depends on operand values for the same path and addresses", what)
					return true
				})
			}
		}
	}
	if n == 0 {
		r.ok(rule, "timing-layer:no-value-conditions", token.NoPos, "no control condition of the variants or of the latency table that changes a counter or leaves a step reads a register content, a result value or a data byte")
	}
}
