package main

// C13 — the line cache behaves as an LRU cache of its reference model.

func init() {
	register(&propSpec{
		ID:          "C13",
		Level:       "other",
		Run:         runC13,
		Explanation: "Per-operation refinement: a history is a sequence of calls of exported operations; each operation of comp.LRUCache / comp.Line and of the generic cache.LRUCache is reduced by the E-TERM engine (sequence algebra, generic loop summaries) to a normal form over the abstract state (lines MRU-first; order LRU-first + map) and compared syntactically with the same operation of the reference model (spec/comp_cache.go.txt, spec/lru.go.txt). If every operation transforms the state exactly as the model does, every history conforms, by induction on its length.",
		Assumptions: []string{
			"slices are modelled by value (sharing of backing arrays between the cache's slice and slices handed out is not modelled)",
			"the reference models are a faithful transcription of LRU semantics",
		},
		Trusted: []string{"go/types", "majcheck term engine", "reference models in checker/spec"},
	})
}

func runC13(r *Run) {
	r.floor("R13", 17)
	for _, m := range []string{"get", "set"} {
		conform(r, "R13", "proc/comp", "Line", m, "comp_cache", nil)
	}
	for _, m := range []string{"ExistingLines", "Get", "GetCacheLine", "GetSubCacheLine", "EvictCacheLine", "Write", "PushLine", "PushLineWithEvictionWarning", "Lines"} {
		conform(r, "R13", "proc/comp", "LRUCache", m, "comp_cache", nil)
	}
	conform(r, "R13", "proc/comp", "", "getAlignedMemoryAddress", "comp_cache", nil)
	for _, m := range []string{"Get", "Find", "Put", "refreshOrder"} {
		conform(r, "R13", "common/cache", "LRUCache", m, "lru", nil)
	}
	conform(r, "R13", "common/cache", "", "NewLRUCache", "lru", nil)
}
