package main

// C14 — pipeline buses deliver each item once, in order, a cycle later, within capacity.

func init() {
	register(&propSpec{
		ID:          "C14",
		Level:       "other",
		Run:         runC14,
		Explanation: "Per-operation refinement (as C13): every operation of comp.SimpleBus, comp.BufferedBus, comp.Queue and comp.Broadcast is reduced to a normal form over the abstract state (pending/current latch; buffer of (availableFrom,item) + visible queue) and compared with the reference model spec/comp_bus.go.txt: Add stamps currentCycle+1, Connect moves an in-order prefix and stops at the first unavailable entry or at a full queue, Get pops the head, Pick removes the first match only, Revert prepends with currentCycle, Clean empties both, CanAdd/RemainingToAdd/IsEmpty are the stated functions of the lengths. Queue.Iterator (a goroutine) is decided structurally by R14.Iterator: channel capacity = Len(), front-to-back traversal, close on exit.",
		Assumptions: []string{
			"the capacity clause is conditional on producers calling Add only when CanAdd (a precondition of C14, reported as information only)",
			"container/list is correct",
		},
		Trusted: []string{"go/types", "majcheck term engine", "reference model spec/comp_bus.go.txt"},
	})
}

func runC14(r *Run) {
	r.floor("R14", 30)
	for _, m := range []string{"Flush", "Get", "CanAdd", "Add", "IsEmpty", "Clean"} {
		conform(r, "R14", "proc/comp", "SimpleBus", m, "comp_bus", nil)
	}
	for _, m := range []string{"InLength", "OutLength", "Clean", "Add", "Revert", "DeleteLast", "Get", "Pick", "Exists", "CanGet", "CanAdd", "RemainingToAdd", "PendingRead", "IsEmpty", "Connect"} {
		conform(r, "R14", "proc/comp", "BufferedBus", m, "comp_bus", nil)
	}
	conform(r, "R14", "proc/comp", "", "NewBufferedBus", "comp_bus", nil)
	for _, m := range []string{"Push", "Length", "IsFull", "Value", "Remove"} {
		conform(r, "R14", "proc/comp", "Queue", m, "comp_bus", nil)
	}
	for _, m := range []string{"Notify", "Read"} {
		conform(r, "R14", "proc/comp", "Broadcast", m, "comp_bus", nil)
	}
	queueIteratorRule(r, "R14")
}

// ruleBusConformance: the bus and queue operations equal their reference model (shared with C07/R07.15).
func ruleBusConformance(r *Run, rule string) {
	for _, m := range []string{"Flush", "Get", "CanAdd", "Add", "IsEmpty", "Clean"} {
		conform(r, rule, "proc/comp", "SimpleBus", m, "comp_bus", nil)
	}
	for _, m := range []string{"Clean", "Add", "Get", "Pick", "CanAdd", "IsEmpty", "Connect"} {
		conform(r, rule, "proc/comp", "BufferedBus", m, "comp_bus", nil)
	}
	for _, m := range []string{"Push", "Length", "IsFull", "Value", "Remove"} {
		conform(r, rule, "proc/comp", "Queue", m, "comp_bus", nil)
	}
}
