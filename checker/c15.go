package main

// C15 — speculative register state commits and rolls back by program order.

func init() {
	register(&propSpec{
		ID:          "C15",
		Level:       "other",
		Run:         runC15,
		Explanation: "Per-operation refinement (as C13): Context.Commit/Rollback/TransactionWriteRegister, RATCommit/RATRollback/RATFlush/InitRAT/TransactionRATWrite, registerRead and the rename table comp.RAT (Read, Find, Write, Values, FindValues, NewRAT) are reduced to normal forms — map iteration and ring scans as generic loop summaries whose bodies carry the strictness of `sequenceID < s`, the `<=` tag bound of reads, the induction variable that indexes the ring, and the lazily grown ring that bounds the wrapped scan — and compared with the reference model spec/risc_state.go.txt. The model keeps the uncommitted writes of a register ordered by sequence id (instructions complete out of order), folds a value into the committed table only if the committed one does not come from a younger instruction, and reads the committed value when it supersedes the uncommitted candidate. With every operation equal to the model's, every history of writes/reads/commit/rollback/flush conforms by induction.",
		Assumptions: []string{
			"within the ring capacity (uncommitted writes to one register <= ring length); beyond it only Write/Read/Values are covered",
			"map iteration order does not matter for the per-key independent updates (argued under C08/R08.1)",
		},
		Trusted: []string{"go/types", "majcheck term engine", "reference model spec/risc_state.go.txt"},
	})
}

func runC15(r *Run) {
	r.floor("R15.1", 3)
	r.floor("R15.2", 7)
	r.floor("R15.3", 1)
	r.floor("R15.4", 2)
	r.floor("R15.6", 5)
	for _, m := range []string{"Commit", "Rollback", "TransactionWriteRegister"} {
		conform(r, "R15.1", "risc", "Context", m, "risc_state", nil)
	}
	for _, m := range []string{"RATCommit", "RATRollback", "RATFlush", "InitRAT", "TransactionRATWrite", "commitRAT", "isSuperseded"} {
		conform(r, "R15.2", "risc", "Context", m, "risc_state", nil)
	}
	conform(r, "R15.3", "risc", "", "registerRead", "risc_state", nil)
	for _, m := range []string{"Find", "FindValues"} {
		conform(r, "R15.4", "proc/comp", "RAT", m, "risc_state", nil)
	}
	for _, m := range []string{"Write", "Read", "Values", "WriteSorted"} {
		conform(r, "R15.6", "proc/comp", "RAT", m, "risc_state", nil)
	}
	conform(r, "R15.6", "proc/comp", "", "NewRAT", "risc_state", nil)
}
