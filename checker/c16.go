package main

// C16 — the word codec is a little-endian bijection on all 32-bit values.
//
// The two codec functions consist of loops with constant bounds. The abstract
// interpreter unrolls them by constant propagation (the input stays a symbol)
// with the bit helpers inlined, which yields for every output an
// "accumulation chain"  acc' = ite(src & 2^c != 0, acc | 2^d, acc), acc0 = 0.
// From the chains the checker derives which input bit each output bit copies
// (two 32-entry tables) and verifies on the tables that the maps are mutually
// inverse and that byte i holds bits 8i..8i+7. The derivation is a fact about
// the code for every input value; no value is ever tried.

import (
	"fmt"
	"go/ast"
	"go/token"
	"math/bits"
	"sort"

	"golang.org/x/tools/go/packages"
)

func init() {
	register(&propSpec{
		ID:          "C16",
		Level:       "proof",
		Run:         runC16,
		Explanation: "E-LOOP/E-TERM: constant-bound loops of BytesFromLowBits and I32FromBytes are unrolled by constant propagation with the bit helpers inlined (a shift/mask implementation needs no unrolling); the resulting terms are evaluated at the bit level: every output bit becomes a boolean formula over the input bits (conversions as zero/sign extension, shifts by constants, &, |, ^, conditionals on single-bit tests and signed comparisons with zero), simplified, and decided equal to the expected input bit (syntactically, or by enumerating the few variables of the formula). The two derived 32-entry bit tables are checked to be mutually inverse with byte i = bits 8i..8i+7. Holds for all 2^32 values because the formulas are identities of expressions; no value of the codec's input is ever tried. R16.5: the six load/store opcodes move byte k of the value to/from address+k (their effect terms equal the RV32IM rows).",
		Assumptions: []string{
			"Go semantics of &, |, << on int8/int32 (1<<7 wraps to the sign bit in int8) and of integer conversions",
		},
		Trusted: []string{"go/types", "majcheck abstract interpreter (constant propagation, inlining)", "Go operator semantics"},
	})
}

type bitCopy struct {
	src    string // parameter (p0..p3)
	srcBit int
	dstBit int
}

func singleBit(v int64, typ string) (int, bool) {
	w, ok := intWidth[typ]
	if !ok {
		return 0, false
	}
	u := uint64(v)
	if w < 64 {
		u &= (uint64(1) << uint(w)) - 1
	}
	if bits.OnesCount64(u) != 1 {
		return 0, false
	}
	return bits.TrailingZeros64(u), true
}

// bitTest recognises  (src & 2^c) != 0  and returns (param, c).
func bitTest(c *Term) (string, int, bool) {
	if c.Op != "ne" || len(c.Args) != 2 {
		return "", 0, false
	}
	for i := 0; i < 2; i++ {
		z, a := c.Args[i], c.Args[1-i]
		if v, _, ok := z.constInt(); !ok || v != 0 {
			continue
		}
		if a.Op != "and" || len(a.Args) != 2 {
			continue
		}
		for j := 0; j < 2; j++ {
			m, p := a.Args[j], a.Args[1-j]
			mv, mt, ok := m.constInt()
			if !ok || p.Op != "param" {
				continue
			}
			if b, ok := singleBit(mv, mt); ok {
				return p.S, b, true
			}
		}
	}
	return "", 0, false
}

// chain decodes an accumulation chain.
func chain(t *Term) ([]bitCopy, error) {
	var out []bitCopy
	for steps := 0; steps < 200; steps++ {
		if v, _, ok := t.constInt(); ok {
			if v != 0 {
				return nil, fmt.Errorf("accumulator does not start at 0 (starts at %d)", v)
			}
			return out, nil
		}
		if t.Op != "ite" {
			return nil, fmt.Errorf("not an accumulation step: %s", clip(t.Pretty(), 200))
		}
		src, sb, ok := bitTest(t.Args[0])
		if !ok {
			return nil, fmt.Errorf("step condition is not a single-bit test of a parameter: %s", clip(t.Args[0].Pretty(), 200))
		}
		x, y := t.Args[1], t.Args[2]
		db := -1
		if xv, xt, ok := x.constInt(); ok {
			// folded first step: ite(test, 2^d, 0)
			if yv, _, ok := y.constInt(); !ok || yv != 0 {
				return nil, fmt.Errorf("constant step over a non-zero accumulator")
			}
			b, ok := singleBit(xv, xt)
			if !ok {
				return nil, fmt.Errorf("step sets more than one bit")
			}
			db = b
		} else if x.Op == "or" && len(x.Args) == 2 {
			for j := 0; j < 2; j++ {
				m, p := x.Args[j], x.Args[1-j]
				mv, mt, ok := m.constInt()
				if !ok {
					continue
				}
				if !eqT(p, y) {
					return nil, fmt.Errorf("the set branch does not extend the unset branch")
				}
				b, ok := singleBit(mv, mt)
				if !ok {
					return nil, fmt.Errorf("step sets more than one bit")
				}
				db = b
			}
		}
		if db < 0 {
			return nil, fmt.Errorf("step is not acc | 2^d: %s", clip(x.Pretty(), 200))
		}
		out = append(out, bitCopy{src, sb, db})
		t = y
	}
	return nil, fmt.Errorf("chain too long")
}

func clip(s string, n int) string {
	if len(s) > n {
		return s[:n] + "…"
	}
	return s
}

// truncByte recognises the shift/truncate idiom int8(n >> 8k).
func truncByte(t *Term) ([]bitCopy, bool) {
	if t.Op != "conv" || t.S != "int8<int32" {
		return nil, false
	}
	x := t.Args[0]
	sh := 0
	if x.Op == "shr" && len(x.Args) == 2 {
		v, _, ok := x.Args[1].constInt()
		if !ok || v < 0 || v > 24 {
			return nil, false
		}
		sh = int(v)
		x = x.Args[0]
	}
	if x.Op == "conv" && x.S == "uint32<int32" {
		x = x.Args[0]
	}
	if x.Op != "param" {
		return nil, false
	}
	var out []bitCopy
	for j := 0; j < 8; j++ {
		out = append(out, bitCopy{x.S, sh + j, j})
	}
	return out, true
}

// orShifted recognises  int32(uint8(b_k)) << 8k  or-ed together.
func orShifted(t *Term) ([]bitCopy, bool) {
	var parts []*Term
	var flat func(t *Term)
	flat = func(t *Term) {
		if t.Op == "or" && t.S == "int32" {
			flat(t.Args[0])
			flat(t.Args[1])
			return
		}
		parts = append(parts, t)
	}
	flat(t)
	if len(parts) < 2 {
		return nil, false
	}
	var out []bitCopy
	for _, p := range parts {
		sh := 0
		if p.Op == "shl" && len(p.Args) == 2 {
			v, _, ok := p.Args[1].constInt()
			if !ok || v < 0 || v > 24 {
				return nil, false
			}
			sh = int(v)
			p = p.Args[0]
		}
		// zero extension of the byte is essential
		if !(p.Op == "conv" && p.S == "int32<uint8" && p.Args[0].Op == "conv" && p.Args[0].S == "uint8<int8" && p.Args[0].Args[0].Op == "param") {
			return nil, false
		}
		for j := 0; j < 8; j++ {
			out = append(out, bitCopy{p.Args[0].Args[0].S, j, sh + j})
		}
	}
	return out, true
}

func runC16(r *Run) {
	w := r.W
	const pk = "common/bytes"
	r.floor("R16.2", 5)
	r.floor("R16.3", 5)
	r.floor("R16.4", 2)
	// R16.1 — the bit helpers
	p0, p1 := &Term{Op: "param", S: "p0"}, &Term{Op: "param", S: "p1"}
	helper := func(name string, get bool, tn string) {
		fd, pkg := w.Func(pk, name)
		if fd == nil {
			// the helpers matter only through the codec functions, which inline them
			return
		}
		t, err := newInterp(w).FuncTerm(fd, pkg)
		if err != nil {
			r.undecided("R16.1", pk+"."+name, fd.Pos(), "%v", err)
			return
		}
		ok := false
		// accepted count forms: the parameter itself or a value-preserving conversion of it
		var counts []*Term
		counts = append(counts, p1)
		for ct := range intWidth {
			counts = append(counts, T("conv", ct+"<uint8", p1))
		}
		for _, c := range counts {
			ctn := "uint8"
			if c.Op == "conv" {
				ctn = c.S[:len(c.S)-len("<uint8")]
			}
			mask := T("shl", tn+","+ctn, cInt(1, tn), c)
			var want *Term
			if get {
				want = outRet(T("ne", tn, T("and", tn, p0, mask), cInt(0, tn)))
			} else {
				want = outRet(T("or", tn, p0, mask))
			}
			if eqT(t, want) {
				ok = true
			}
		}
		what := "x | (1<<i)"
		if get {
			what = "(x & (1<<n)) != 0"
		}
		r.check(ok, "R16.1", pk+"."+name, fd.Pos(), "%s ≡ %s on %s with a value-preserving count; term: %s", name, what, tn, clip(t.Pretty(), 300))
	}
	helper("getI8Bit", true, "int8")
	helper("getI32Bit", true, "int32")
	helper("setI8Bit", false, "int8")
	helper("setI32Bit", false, "int32")

	// R16.2 — BytesFromLowBits: every bit of every result byte, as a formula over the bits of the word
	split := map[int]int{} // n bit -> 8*byte + bit
	splitOK := false
	if fd, pkg := w.Func(pk, "BytesFromLowBits"); fd == nil {
		r.undecided("R16.2", pk+".BytesFromLowBits", token.NoPos, "function not found")
	} else {
		t, err := newInterp(w).FuncTerm(fd, pkg)
		if err != nil {
			r.undecided("R16.2", pk+".BytesFromLowBits", fd.Pos(), "not reducible to a term: %v", err)
		} else if !(t.Op == "out" && t.S == "return" && len(t.Args[0].Args) == 1 && t.Args[0].Args[0].Op == "arr" && len(t.Args[0].Args[0].Args) == 4 && emptyState(t.Args[1])) {
			r.undecided("R16.2", pk+".BytesFromLowBits", fd.Pos(), "does not return a literal [4]int8 without side effects")
		} else {
			ptypes := paramTypes(fd, pkg)
			bvCache = map[string]bvMemo{} // parameter names are per function
			word := firstParam(fd)
			splitOK = true
			for k, acc := range t.Args[0].Args[0].Args {
				key := fmt.Sprintf("%s.BytesFromLowBits.byte%d", pk, k)
				bv, _, err := bitvec(acc, ptypes)
				if err != nil || len(bv) != 8 {
					r.undecided("R16.2", key, fd.Pos(), "byte %d is outside the bit-level fragment: %v", k, err)
					splitOK = false
					continue
				}
				good, undec := true, false
				var wrong []string
				for j, f := range bv {
					switch sameAsVar(f, word, 8*k+j) {
					case 1:
						split[8*k+j] = 8*k + j
					case 0:
						good = false
						wrong = append(wrong, fmt.Sprintf("bit %d = %s", j, clip(f.key, 60)))
					default:
						good, undec = false, true
						wrong = append(wrong, fmt.Sprintf("bit %d = %s (not decided)", j, clip(f.key, 60)))
					}
				}
				if !good {
					splitOK = false
				}
				if undec {
					r.undecided("R16.2", key, fd.Pos(), "byte %d: %v", k, wrong)
				} else {
					r.check(good, "R16.2", key, fd.Pos(), "for every word, bit j of byte %d is bit %d+j of the word, j = 0..7 %v", k, 8*k, wrong)
				}
			}
			r.check(splitOK && len(split) == 32, "R16.2", pk+".BytesFromLowBits.partition", fd.Pos(), "the four bytes partition bits [0,32) of the word: %d distinct source bits", len(split))
		}
	}
	// R16.3 — I32FromBytes: every bit of the result, as a formula over the bits of the four bytes
	join := map[int]int{} // 8*byte+bit -> result bit
	joinOK := false
	if fd, pkg := w.Func(pk, "I32FromBytes"); fd == nil {
		r.undecided("R16.3", pk+".I32FromBytes", token.NoPos, "function not found")
	} else {
		t, err := newInterp(w).FuncTerm(fd, pkg)
		if err != nil {
			r.undecided("R16.3", pk+".I32FromBytes", fd.Pos(), "not reducible to a term: %v", err)
		} else if !(t.Op == "out" && t.S == "return" && len(t.Args[0].Args) == 1 && emptyState(t.Args[1])) {
			r.undecided("R16.3", pk+".I32FromBytes", fd.Pos(), "does not return one value without side effects: op=%s S=%s nargs=%d", t.Op, t.S, len(t.Args))
		} else {
			ptypes := paramTypes(fd, pkg)
			bvCache = map[string]bvMemo{} // parameter names are per function
			names := paramNames(fd)
			bv, _, err := bitvec(t.Args[0].Args[0], ptypes)
			if err != nil || len(bv) != 32 || len(names) != 4 {
				r.undecided("R16.3", pk+".I32FromBytes", fd.Pos(), "the result is outside the bit-level fragment: %v", err)
			} else {
				joinOK = true
				for k := 0; k < 4; k++ {
					good, undec := true, false
					var wrong []string
					for j := 0; j < 8; j++ {
						f := bv[8*k+j]
						switch sameAsVar(f, names[k], j) {
						case 1:
							join[8*k+j] = 8*k + j
						case 0:
							good = false
							wrong = append(wrong, fmt.Sprintf("result bit %d = %s", 8*k+j, clip(f.key, 60)))
						default:
							good, undec = false, true
							wrong = append(wrong, fmt.Sprintf("result bit %d = %s (not decided)", 8*k+j, clip(f.key, 60)))
						}
					}
					if !good {
						joinOK = false
					}
					key := fmt.Sprintf("%s.I32FromBytes.arg%d", pk, k)
					if undec {
						r.undecided("R16.3", key, fd.Pos(), "argument %d: %v", k, wrong)
					} else {
						r.check(good, "R16.3", key, fd.Pos(), "for all four bytes, bits %d..%d of the result are bits 0..7 of argument %d %v", 8*k, 8*k+7, k, wrong)
					}
				}
				r.check(joinOK && len(join) == 32, "R16.3", pk+".I32FromBytes.cover", fd.Pos(), "32 single-bit copies into 32 distinct result bits (%d)", len(join))
			}
		}
	}
	// R16.5 — the loads and stores use the codec little-endian in memory: byte k at address+k
	r.floor("R16.5", 6)
	ruleRunRows(r, "R16.5", map[string]bool{"lb": true, "lh": true, "lw": true, "sb": true, "sh": true, "sw": true})
	// R16.4 — the tables are mutually inverse and little-endian
	if splitOK && joinOK {
		inv := true
		for b := 0; b < 32; b++ {
			if join[split[b]] != b {
				inv = false
			}
		}
		for q := 0; q < 32; q++ {
			found := false
			for b := 0; b < 32; b++ {
				if split[b] == q && join[q] == b {
					found = true
				}
			}
			if !found {
				inv = false
			}
		}
		r.check(inv, "R16.4", "tables.inverse", token.NoPos, "join∘split = id on 32 word bits and split∘join = id on 32 byte bits")
		le := true
		for b := 0; b < 32; b++ {
			if split[b] != b {
				le = false
			}
		}
		r.check(le, "R16.4", "tables.little-endian", token.NoPos, "byte i holds bits 8i..8i+7")
	} else {
		r.undecided("R16.4", "tables.inverse", token.NoPos, "bit tables could not be derived (see R16.2/R16.3)")
		r.undecided("R16.4", "tables.little-endian", token.NoPos, "bit tables could not be derived (see R16.2/R16.3)")
	}
}

func fmtCopies(cps []bitCopy) string {
	s := append([]bitCopy{}, cps...)
	sort.Slice(s, func(i, j int) bool { return s[i].dstBit < s[j].dstBit })
	out := ""
	for _, c := range s {
		out += fmt.Sprintf("%s[%d]→%d ", c.src, c.srcBit, c.dstBit)
	}
	return out
}

// sameAsVar decides whether the formula is, for every assignment, the given input bit:
// 1 yes, 0 no, -1 undecided (too many variables to enumerate).
func sameAsVar(f bexp, p string, i int) int {
	if f.k == 2 {
		if f.p == p && f.i == i {
			return 1
		}
		return 0
	}
	if f.k == 0 || f.k == 1 {
		return 0
	}
	vars := map[string]bool{fmt.Sprintf("%s.%d", p, i): true}
	var collect func(g bexp)
	collect = func(g bexp) {
		if g.k == 2 {
			vars[g.key] = true
		}
		for _, a := range g.args {
			collect(a)
		}
	}
	collect(f)
	if len(vars) > 16 {
		return -1
	}
	var names []string
	for v := range vars {
		names = append(names, v)
	}
	sort.Strings(names)
	target := fmt.Sprintf("%s.%d", p, i)
	var eval func(g bexp, env map[string]bool) bool
	eval = func(g bexp, env map[string]bool) bool {
		switch g.k {
		case 0:
			return false
		case 1:
			return true
		case 2:
			return env[g.key]
		}
		switch g.op {
		case "not":
			return !eval(g.args[0], env)
		case "and":
			return eval(g.args[0], env) && eval(g.args[1], env)
		case "or":
			return eval(g.args[0], env) || eval(g.args[1], env)
		default:
			return eval(g.args[0], env) != eval(g.args[1], env)
		}
	}
	for m := 0; m < 1<<uint(len(names)); m++ {
		env := map[string]bool{}
		for k, n := range names {
			env[n] = m>>uint(k)&1 == 1
		}
		if eval(f, env) != env[target] {
			return 0
		}
	}
	return 1
}

func paramNames(fd *ast.FuncDecl) []string {
	var out []string
	k := 0
	for _, fl := range fd.Type.Params.List {
		for range fl.Names {
			out = append(out, fmt.Sprintf("p%d", k))
			k++
		}
	}
	return out
}

func firstParam(fd *ast.FuncDecl) string { return "p0" }

func paramTypes(fd *ast.FuncDecl, pkg *packages.Package) map[string]string {
	out := map[string]string{}
	k := 0
	for _, fl := range fd.Type.Params.List {
		tn := typeName(pkg.TypesInfo.TypeOf(fl.Type))
		for _, nm := range fl.Names {
			out[fmt.Sprintf("p%d", k)] = tn
			out[nm.Name] = tn
			k++
		}
	}
	return out
}
