package main

import (
	"go/ast"
	"go/types"
	"strings"
)

// canonExpr renders an expression for use in an obligation key: local
// variables, parameters and receivers are replaced by their type, so that
// renaming them does not change the key; fields, functions, constants and
// package-level names are kept.
func canonExpr(info *types.Info, e ast.Expr) string {
	var b strings.Builder
	var rec func(e ast.Expr)
	rec = func(e ast.Expr) {
		switch x := e.(type) {
		case nil:
		case *ast.ParenExpr:
			b.WriteString("(")
			rec(x.X)
			b.WriteString(")")
		case *ast.Ident:
			obj := info.Uses[x]
			if obj == nil {
				obj = info.Defs[x]
			}
			if v, ok := obj.(*types.Var); ok && !v.IsField() && v.Pkg() != nil && v.Parent() != v.Pkg().Scope() {
				b.WriteString("‹" + typeName(v.Type()) + "›")
				return
			}
			b.WriteString(x.Name)
		case *ast.SelectorExpr:
			rec(x.X)
			b.WriteString("." + x.Sel.Name)
		case *ast.CallExpr:
			rec(x.Fun)
			b.WriteString("(")
			for i, a := range x.Args {
				if i > 0 {
					b.WriteString(", ")
				}
				rec(a)
			}
			b.WriteString(")")
		case *ast.IndexExpr:
			rec(x.X)
			b.WriteString("[")
			rec(x.Index)
			b.WriteString("]")
		case *ast.SliceExpr:
			rec(x.X)
			b.WriteString("[")
			rec(x.Low)
			b.WriteString(":")
			rec(x.High)
			b.WriteString("]")
		case *ast.BinaryExpr:
			rec(x.X)
			b.WriteString(" " + x.Op.String() + " ")
			rec(x.Y)
		case *ast.UnaryExpr:
			b.WriteString(x.Op.String())
			rec(x.X)
		case *ast.StarExpr:
			b.WriteString("*")
			rec(x.X)
		case *ast.BasicLit:
			b.WriteString(x.Value)
		case *ast.FuncLit:
			b.WriteString("func(…)")
		case *ast.CompositeLit:
			b.WriteString("{…}")
		default:
			b.WriteString(types.ExprString(e))
		}
	}
	rec(e)
	return b.String()
}
