package main

// Structural rules added after a mutation sweep of the pipeline code showed which single dropped
// calls no rule noticed. Each is a necessary condition of the property it is registered under.

import (
	"fmt"
	"go/ast"
	"go/token"
	"go/types"
	"sort"
	"strings"

	"golang.org/x/tools/go/types/typeutil"
)

// ruleBusesConnected: every buffered bus of the CPU is connected (buffer -> queue) in the
// main loop; a bus that is never connected never delivers anything and the pipeline starves.
func ruleBusesConnected(r *Run, rule string) {
	w := r.W
	for _, v := range variants(w) {
		if v.pkg == nil || !v.pipelined() || v.mainLoop() == nil {
			continue
		}
		info := v.info
		connected := map[*types.Var]bool{}
		for _, st := range v.mainLoop().Body.List {
			es, ok := st.(*ast.ExprStmt)
			if !ok {
				continue
			}
			call, ok := es.X.(*ast.CallExpr)
			if !ok {
				continue
			}
			sel, ok := call.Fun.(*ast.SelectorExpr)
			if !ok || sel.Sel.Name != "Connect" {
				continue
			}
			if f := v.busFieldOf(sel.X); f != nil {
				connected[f.obj] = true
			}
		}
		for _, f := range v.fields {
			if f.kind != "bufferedbus" {
				continue
			}
			_ = info
			r.check(connected[f.obj], rule, fmt.Sprintf("%s.(CPU).Run:connect(%s)", v.rel, f.name), v.mainLoop().Pos(), "the buffered bus %s is connected unconditionally at the top level of the main loop (once per cycle)", f.name)
		}
	}
}

// ruleWriteUnitStores: the write unit performs the memory write of every store it accepts
// (WriteMemory of the recorded execution) and releases the scoreboard after it.
func ruleWriteUnitStores(r *Run, rule string) {
	w := r.W
	for _, v := range variants(w) {
		if v.pkg == nil || !v.pipelined() {
			continue
		}
		info := v.info
		for _, f := range v.fields {
			if !f.isUnit || !f.roles["write"] || f.roles["exec"] {
				continue
			}
			for i := 0; i < f.unitT.NumMethods(); i++ {
				fd, _ := w.FuncDecl(f.unitT.Method(i))
				if fd == nil || fd.Body == nil {
					continue
				}
				// the branch taken on MemoryChange
				ast.Inspect(fd.Body, func(n ast.Node) bool {
					is, ok := n.(*ast.IfStmt)
					if !ok {
						return true
					}
					sel, ok := ast.Unparen(is.Cond).(*ast.SelectorExpr)
					if !ok || sel.Sel.Name != "MemoryChange" {
						return true
					}
					writes, releases := token.NoPos, token.NoPos
					var recorded, written types.Object
					ast.Inspect(is.Body, func(m ast.Node) bool {
						switch x := m.(type) {
						case *ast.CallExpr:
							fn, ok := typeutil.Callee(info, x).(*types.Func)
							if !ok {
								return true
							}
							switch fn.Name() {
							case "WriteMemory":
								writes = x.Pos()
								if len(x.Args) == 1 {
									written = rootField(info, x.Args[0])
								}
							case "DeletePendingRegisters":
								releases = x.Pos()
							}
						case *ast.AssignStmt:
							// u.<field> = execution  (the accepted store is recorded for the delayed write)
							if len(x.Lhs) == 1 && len(x.Rhs) == 1 {
								if s2, ok := ast.Unparen(x.Lhs[0]).(*ast.SelectorExpr); ok {
									if s := info.Selections[s2]; s != nil && s.Kind() == types.FieldVal && typeName(s.Obj().Type()) == "ExecutionContext" {
										recorded = s.Obj()
									}
								}
							}
						}
						return true
					})
					key := fmt.Sprintf("%s.(%s).%s:store", v.rel, f.unitT.Obj().Name(), fd.Name.Name)
					// from the variants where stores are performed by the cache controllers the write unit refuses
					// memory changes (explicit panic): nothing to check there
					refuses := false
					ast.Inspect(is.Body, func(m ast.Node) bool {
						if c, ok := m.(*ast.CallExpr); ok {
							if id, ok := c.Fun.(*ast.Ident); ok && id.Name == "panic" {
								refuses = true
							}
						}
						return true
					})
					if refuses && writes == token.NoPos {
						return false
					}
					// the scoreboard is released here only where the unit releases it for register results too
					needsRelease := w.reaches(info, fd.Body, func(fn *types.Func) bool { return fn.Name() == "DeletePendingRegisters" })
					good := writes != token.NoPos && (!needsRelease || (releases != token.NoPos && writes < releases)) && (written == nil || written == recorded)
					// a unit that writes at acceptance (no delayed closure) records nothing: accept written == nil
					r.check(good, rule, key, is.Pos(), "an accepted store is written to memory (WriteMemory: %v) from the execution the unit recorded (%v) and the scoreboard is released after the write (%v)", writes != token.NoPos, written == recorded || recorded == nil, releases != token.NoPos && writes < releases)
					return false
				})
			}
		}
	}
}

// rootField: the struct field at the root of a selector chain like u.memoryWrite.Execution.
func rootField(info *types.Info, e ast.Expr) types.Object {
	var last types.Object
	for {
		sel, ok := ast.Unparen(e).(*ast.SelectorExpr)
		if !ok {
			return last
		}
		if s := info.Selections[sel]; s != nil && s.Kind() == types.FieldVal {
			if typeName(s.Obj().Type()) == "ExecutionContext" {
				last = s.Obj()
			}
		}
		e = sel.X
	}
}

// ruleEpochBumped: sequence ids are pc + epoch*1000; every redirect of the fetch unit (a jump
// resolution, a flush) starts a new epoch, otherwise an instruction fetched after a backward
// redirect carries a SMALLER id than the older instructions still in flight and the sequence
// filters and rollbacks order them the wrong way round.
func ruleEpochBumped(r *Run, rule string) {
	w := r.W
	for _, v := range variants(w) {
		if v.pkg == nil || !v.pipelined() {
			continue
		}
		info := v.info
		// does the variant tag instructions with sequence ids at all?
		uses := w.reaches(info, v.run, func(fn *types.Func) bool { return fn.Name() == "IncSequenceID" })
		if !uses {
			continue
		}
		for _, f := range v.pkg.Syntax {
			for _, d := range f.Decls {
				fd, ok := d.(*ast.FuncDecl)
				if !ok || fd.Body == nil || fd.Recv == nil || fd.Type.Params == nil {
					continue
				}
				// a method that assigns its int32 parameter to a field named like the fetch pc (u.pc = pc)
				var pcParam types.Object
				for _, fl := range fd.Type.Params.List {
					for _, nm := range fl.Names {
						if typeName(info.TypeOf(fl.Type)) == "int32" && pcParam == nil {
							pcParam = info.Defs[nm]
						}
					}
				}
				if pcParam == nil {
					continue
				}
				redirects := false
				for _, st := range fd.Body.List {
					as, ok := st.(*ast.AssignStmt)
					if !ok || len(as.Lhs) != 1 || len(as.Rhs) != 1 || as.Tok != token.ASSIGN {
						continue
					}
					if id, ok := ast.Unparen(as.Rhs[0]).(*ast.Ident); ok && info.Uses[id] == pcParam {
						if sel, ok := ast.Unparen(as.Lhs[0]).(*ast.SelectorExpr); ok {
							if s := info.Selections[sel]; s != nil && s.Kind() == types.FieldVal {
								redirects = true
							}
						}
					}
				}
				// only the fetch unit: its type has the step that reads that field and pushes pcs
				recvT := namedOf(info.TypeOf(fd.Recv.List[0].Type))
				if !redirects || recvT == nil || !strings.Contains(strings.ToLower(recvT.Obj().Name()), "fetch") {
					continue
				}
				bumps := false
				for _, st := range fd.Body.List {
					if es, ok := st.(*ast.ExprStmt); ok {
						if call, ok := es.X.(*ast.CallExpr); ok {
							if fn, ok := typeutil.Callee(info, call).(*types.Func); ok && fn.Name() == "IncSequenceID" {
								bumps = true
							}
						}
					}
				}
				r.check(bumps, rule, fmt.Sprintf("%s.%s:new-epoch", v.rel, declName(fd)), fd.Pos(), "a redirect of the fetch unit starts a new sequence epoch unconditionally (IncSequenceID at the top level of the method)")
			}
		}
	}
}

// ruleFlushTarget: the pipeline is flushed to the pc proposed by the execute unit that asked
// for the flush (the variable assigned from the unit's response), not to an expression of it.
func ruleFlushTarget(r *Run, rule string) {
	w := r.W
	for _, v := range variants(w) {
		if v.pkg == nil || !v.pipelined() {
			continue
		}
		info := v.info
		_, flush := v.retAndFlushBranches()
		if flush == nil {
			continue
		}
		n := 0
		for _, st := range flush.Body.List {
			es, ok := st.(*ast.ExprStmt)
			if !ok {
				continue
			}
			call, ok := es.X.(*ast.CallExpr)
			if !ok || len(call.Args) != 1 {
				continue
			}
			fn, ok := typeutil.Callee(info, call).(*types.Func)
			if !ok || fn.Pkg() != v.pkg.Types {
				continue
			}
			sig := fn.Type().(*types.Signature)
			if sig.Recv() == nil || sig.Params().Len() != 1 || typeName(sig.Params().At(0).Type()) != "int32" {
				continue
			}
			// the CPU's flush: reaches Clean on a bus
			fd, _ := w.FuncDecl(fn)
			if fd == nil || !w.reaches(info, fd.Body, func(g *types.Func) bool { return g.Name() == "Clean" }) {
				continue
			}
			n++
			_, isIdent := ast.Unparen(call.Args[0]).(*ast.Ident)
			r.check(isIdent, rule, fmt.Sprintf("%s.(CPU).Run:flush-target#%d", v.rel, n), call.Pos(), "the pipeline is flushed to the proposed pc itself (argument: %s)", types.ExprString(call.Args[0]))
		}
	}
}

// rulePredictionArmed: an execute unit arms the branch unit's check (assert) for the
// instruction it is about to run, before it runs it: without it a mispredicted branch or jump
// is never flushed.
func rulePredictionArmed(r *Run, rule string) {
	w := r.W
	for _, v := range variants(w) {
		if v.pkg == nil || !v.pipelined() {
			continue
		}
		info := v.info
		for _, f := range v.fields {
			if !f.isUnit || !f.roles["exec"] {
				continue
			}
			armedPos, runPos := token.NoPos, token.NoPos
			var first token.Pos
			for i := 0; i < f.unitT.NumMethods(); i++ {
				fd, _ := w.FuncDecl(f.unitT.Method(i))
				if fd == nil || fd.Body == nil {
					continue
				}
				ast.Inspect(fd.Body, func(n ast.Node) bool {
					call, ok := n.(*ast.CallExpr)
					if !ok {
						return true
					}
					fn, ok := typeutil.Callee(info, call).(*types.Func)
					if !ok {
						return true
					}
					sig := fn.Type().(*types.Signature)
					if fn.Name() == "assert" && sig.Recv() != nil && armedPos == token.NoPos {
						armedPos = call.Pos()
					}
					if fn.Name() == "Run" && sig.Recv() != nil && typeName(sig.Recv().Type()) == "InstructionRunner" && runPos == token.NoPos {
						runPos = call.Pos()
						first = fd.Pos()
					}
					return true
				})
			}
			if runPos == token.NoPos {
				continue
			}
			r.check(armedPos != token.NoPos, rule, fmt.Sprintf("%s.(%s):prediction-armed", v.rel, f.unitT.Obj().Name()), first, "the execute unit arms the branch unit's check (assert) for the instruction it runs")
		}
	}
}

// ruleBranchFlagCleared: the flag that holds ret (and stores) behind an unresolved conditional
// branch is cleared when the branch resolves, on BOTH outcomes: otherwise ret is held for ever.
func ruleBranchFlagCleared(r *Run, rule string) {
	w := r.W
	for _, v := range variants(w) {
		if v.pkg == nil || !v.pipelined() {
			continue
		}
		info := v.info
		// the flag: a bool field raised under IsConditionalBranch
		var flags []types.Object
		for _, f := range v.fields {
			if !f.isUnit {
				continue
			}
			if st := structOf(f.unitT); st != nil {
				for i := 0; i < st.NumFields(); i++ {
					if typeName(st.Field(i).Type()) == "bool" && raisedUnderConditionalBranch(w, v, st.Field(i)) {
						flags = append(flags, st.Field(i))
					}
				}
			}
		}
		for _, flag := range flags {
			// the clearing method(s): assign false to the flag, not the unit's flush
			var clearers []*types.Func
			for _, f := range v.pkg.Syntax {
				for _, d := range f.Decls {
					fd, ok := d.(*ast.FuncDecl)
					if !ok || fd.Body == nil || strings.EqualFold(fd.Name.Name, "flush") {
						continue
					}
					for _, st := range fd.Body.List {
						if as, ok := st.(*ast.AssignStmt); ok && len(as.Lhs) == 1 && len(as.Rhs) == 1 {
							if sel, ok := ast.Unparen(as.Lhs[0]).(*ast.SelectorExpr); ok {
								if s := info.Selections[sel]; s != nil && s.Obj() == flag {
									if tv := info.Types[as.Rhs[0]]; tv.Value != nil && tv.Value.String() == "false" {
										if fn, ok := info.Defs[fd.Name].(*types.Func); ok {
											clearers = append(clearers, fn)
										}
									}
								}
							}
						}
					}
				}
			}
			// both resolution notifications (the two methods of the branch unit that call commit / rollback) reach a clearer
			outcomes := map[string]bool{}
			for _, f := range v.pkg.Syntax {
				for _, d := range f.Decls {
					fd, ok := d.(*ast.FuncDecl)
					if !ok || fd.Body == nil {
						continue
					}
					kind := ""
					if w.reaches(info, fd.Body, func(fn *types.Func) bool { return fn.Name() == "Rollback" || fn.Name() == "RATRollback" }) {
						kind = "taken"
					}
					if w.reaches(info, fd.Body, func(fn *types.Func) bool { return fn.Name() == "Commit" || fn.Name() == "RATCommit" }) {
						if kind != "" {
							continue // Run itself reaches both
						}
						kind = "not-taken"
					}
					if kind == "" || fd == v.run || !strings.Contains(strings.ToLower(fd.Name.Name), "notify") {
						continue
					}
					clears := w.reaches(info, fd.Body, func(fn *types.Func) bool {
						for _, c := range clearers {
							if c == fn {
								return true
							}
						}
						return false
					})
					if clears {
						outcomes[kind] = true
					} else if !outcomes[kind] {
						outcomes[kind] = false
					}
				}
			}
			if len(outcomes) == 0 {
				continue
			}
			var bad []string
			for k, ok := range outcomes {
				if !ok {
					bad = append(bad, k)
				}
			}
			sort.Strings(bad)
			r.check(len(bad) == 0, rule, fmt.Sprintf("%s:%s-cleared", v.rel, flag.Name()), flag.Pos(), "the flag raised when a conditional branch is dispatched is cleared when the branch resolves, taken or not (outcomes that do not clear it: %v)", bad)
		}
	}
}

// ruleMutexPaired: every sync.Mutex acquired (Lock / TryLock) in a function of a variant is
// released (Unlock on the same variable) somewhere in that function, nested closures
// included. A line lock that is never released blocks the next access to the line for ever.
func ruleMutexPaired(r *Run, rule string) {
	w := r.W
	for _, v := range variants(w) {
		if v.pkg == nil || !v.pipelined() {
			continue
		}
		info := v.info
		for _, f := range v.pkg.Syntax {
			for _, d := range f.Decls {
				fd, ok := d.(*ast.FuncDecl)
				if !ok || fd.Body == nil {
					continue
				}
				acq := map[types.Object][]token.Pos{}
				rel := map[types.Object]int{}
				ast.Inspect(fd.Body, func(n ast.Node) bool {
					call, ok := n.(*ast.CallExpr)
					if !ok {
						return true
					}
					sel, ok := call.Fun.(*ast.SelectorExpr)
					if !ok {
						return true
					}
					fn, ok := typeutil.Callee(info, call).(*types.Func)
					if !ok || fn.Pkg() == nil || fn.Pkg().Path() != "sync" {
						return true
					}
					id, ok := ast.Unparen(sel.X).(*ast.Ident)
					if !ok {
						return true
					}
					switch fn.Name() {
					case "Lock", "TryLock":
						acq[info.Uses[id]] = append(acq[info.Uses[id]], call.Pos())
					case "Unlock":
						rel[info.Uses[id]]++
					}
					return true
				})
				k := 0
				var objs []types.Object
				for o := range acq {
					objs = append(objs, o)
				}
				sort.Slice(objs, func(i, j int) bool { return acq[objs[i]][0] < acq[objs[j]][0] })
				for _, o := range objs {
					k++
					// a TryLock used only as a test (`if !mu.TryLock() { panic }` followed by Unlock) is covered by the count
					r.check(rel[o] >= len(acq[o]), rule, fmt.Sprintf("%s.%s:mutex#%d", v.rel, declName(fd), k), acq[o][0], "every acquisition of the mutex (%d) has a release on the same variable in the function (%d)", len(acq[o]), rel[o])
				}
			}
		}
	}
}

// ruleReleaseForgets: when a cache controller's access completes it runs the completion
// closure handed out with the line lock (which releases the lock) and then FORGETS the handle
// it recorded for the flush. A handle that stays in the table is released a second time by the
// next flush (the lock counter goes negative).
func ruleReleaseForgets(r *Run, rule string) {
	w := r.W
	for _, v := range variants(w) {
		if v.pkg == nil || !v.pipelined() || !usesLineLocks(w, v) {
			continue
		}
		info := v.info
		for _, f := range v.pkg.Syntax {
			for _, d := range f.Decls {
				fd, ok := d.(*ast.FuncDecl)
				if !ok || fd.Body == nil {
					continue
				}
				// only units that record lock handles (a field of type map[…]*comp.Sem)
				if fdRecvType(fd) == nil {
					continue
				}
				recvT := namedOf(info.TypeOf(fdRecvType(fd)))
				hasTable := false
				if recvT == nil {
					continue
				}
				if st := structOf(recvT); st != nil {
					for i := 0; i < st.NumFields(); i++ {
						if mt, ok := st.Field(i).Type().Underlying().(*types.Map); ok && isCompType(mt.Elem(), "Sem") {
							hasTable = true
						}
					}
				}
				if !hasTable {
					continue
				}
				n := 0
				seen := map[token.Pos]bool{}
				var visit func(list []ast.Stmt)
				visit = func(list []ast.Stmt) {
					for i, st := range list {
						ast.Inspect(st, func(m ast.Node) bool {
							switch x := m.(type) {
							case *ast.BlockStmt:
								visit(x.List)
								return false
							case *ast.CaseClause:
								visit(x.Body)
								return false
							}
							return true
						})
						es, ok := st.(*ast.ExprStmt)
						if !ok {
							continue
						}
						call, ok := es.X.(*ast.CallExpr)
						if !ok || len(call.Args) != 0 {
							continue
						}
						// a call of a func-typed FIELD of the receiver: the completion closure (cc.post())
						sel, ok := call.Fun.(*ast.SelectorExpr)
						if !ok {
							continue
						}
						s := info.Selections[sel]
						if s == nil || s.Kind() != types.FieldVal {
							continue
						}
						if _, isFunc := s.Obj().Type().Underlying().(*types.Signature); !isFunc {
							continue
						}
						if seen[call.Pos()] {
							continue
						}
						seen[call.Pos()] = true
						n++
						forgets := false
						for _, later := range list[i+1:] {
							ast.Inspect(later, func(m ast.Node) bool {
								if c, ok := m.(*ast.CallExpr); ok && len(c.Args) == 2 {
									if id, ok := c.Fun.(*ast.Ident); ok && id.Name == "delete" {
										if s2, ok := ast.Unparen(c.Args[0]).(*ast.SelectorExpr); ok {
											if ss := info.Selections[s2]; ss != nil {
												if mt, ok := ss.Obj().Type().Underlying().(*types.Map); ok && isCompType(mt.Elem(), "Sem") {
													forgets = true
												}
											}
										}
									}
								}
								return true
							})
						}
						r.check(forgets, rule, fmt.Sprintf("%s.%s:completion#%d", v.rel, declName(fd), n), call.Pos(), "after the completion closure released the line lock, the handle recorded for the flush is deleted from its table")
					}
				}
				visit(fd.Body.List)
				// closures nested in expressions (return cc.read.ExecuteWithCheckpoint(r, func…{…}))
				ast.Inspect(fd.Body, func(m ast.Node) bool {
					if lit, ok := m.(*ast.FuncLit); ok {
						visit(lit.Body.List)
					}
					return true
				})
			}
		}
	}
}

// ruleFinalWriteBackBranches: in the final write-back of a cache controller every branch taken
// for a Modified line writes the line somewhere (the next level when it holds the line, memory
// otherwise): a branch without a write loses the data.
func ruleFinalWriteBackBranches(r *Run, rule string) {
	w := r.W
	for _, v := range variants(w) {
		if v.pkg == nil || !v.pipelined() || !usesLineLocks(w, v) {
			continue
		}
		info := v.info
		for _, f := range v.pkg.Syntax {
			for _, d := range f.Decls {
				fd, ok := d.(*ast.FuncDecl)
				if !ok || fd.Body == nil {
					continue
				}
				ast.Inspect(fd.Body, func(m ast.Node) bool {
					rs, ok := m.(*ast.RangeStmt)
					if !ok {
						return true
					}
					call, ok := ast.Unparen(rs.X).(*ast.CallExpr)
					if !ok {
						return true
					}
					if meth := lruMethod(info, call); meth != "Lines" && meth != "ExistingLines" {
						return true
					}
					// if/else at the top level of the loop body whose branches write the line
					n := 0
					for _, st := range rs.Body.List {
						is, ok := st.(*ast.IfStmt)
						if !ok || is.Else == nil {
							continue
						}
						writes := func(b ast.Node) bool {
							return w.reaches(info, b, func(fn *types.Func) bool {
								sig := fn.Type().(*types.Signature)
								if sig.Recv() != nil && isCompType(sig.Recv().Type(), "LRUCache") && fn.Name() == "Write" {
									return true
								}
								fd2, _ := w.FuncDecl(fn)
								if fd2 == nil || fd2.Body == nil {
									return false
								}
								stores := false
								ast.Inspect(fd2.Body, func(k ast.Node) bool {
									if as, ok := k.(*ast.AssignStmt); ok {
										for _, l := range as.Lhs {
											if ix, ok := ast.Unparen(l).(*ast.IndexExpr); ok && ctxFieldWritten(info, ix.X) == "Memory" {
												stores = true
											}
										}
									}
									return true
								})
								return stores
							})
						}
						n++
						r.check(writes(is.Body) && writes(is.Else), rule, fmt.Sprintf("%s.%s:write-back-branches#%d", v.rel, declName(fd), n), is.Pos(), "both branches of the final write-back of a modified line write it (to the next level: %v; to memory: %v)", writes(is.Body), writes(is.Else))
					}
					return true
				})
			}
		}
	}
}

func fdRecvType(fd *ast.FuncDecl) ast.Expr {
	if fd.Recv == nil || len(fd.Recv.List) == 0 {
		return nil
	}
	return fd.Recv.List[0].Type
}

// ruleWriteBackAddress (R06.11): a line read out of a cache with GetCacheLine(A) (or taken
// from a resident line with its Boundary) is written to the next level AT THE SAME ADDRESS A.
// A write-back to another address (the enclosing line of the next level, say) loses the store
// and overwrites unrelated bytes.
func ruleWriteBackAddress(r *Run, rule string) {
	w := r.W
	for _, v := range variants(w) {
		if v.pkg == nil || !v.pipelined() || !usesLineLocks(w, v) {
			continue
		}
		info := v.info
		for _, f := range v.pkg.Syntax {
			for _, d := range f.Decls {
				fd, ok := d.(*ast.FuncDecl)
				if !ok || fd.Body == nil {
					continue
				}
				// data variable -> the address expression it was read at
				readAt := map[types.Object]ast.Expr{}
				ast.Inspect(fd.Body, func(n ast.Node) bool {
					as, ok := n.(*ast.AssignStmt)
					if !ok || len(as.Rhs) != 1 || len(as.Lhs) < 1 {
						return true
					}
					call, ok := ast.Unparen(as.Rhs[0]).(*ast.CallExpr)
					if !ok || lruMethod(info, call) != "GetCacheLine" || len(call.Args) != 1 {
						return true
					}
					if id, ok := as.Lhs[0].(*ast.Ident); ok && id.Name != "_" {
						o := info.Defs[id]
						if o == nil {
							o = info.Uses[id]
						}
						readAt[o] = call.Args[0]
					}
					return true
				})
				if len(readAt) == 0 {
					continue
				}
				n := 0
				ast.Inspect(fd.Body, func(m ast.Node) bool {
					call, ok := m.(*ast.CallExpr)
					if !ok || len(call.Args) != 2 {
						return true
					}
					id, ok := ast.Unparen(call.Args[1]).(*ast.Ident)
					if !ok {
						return true
					}
					src, ok := readAt[info.Uses[id]]
					if !ok {
						return true
					}
					// only calls that store to the next level: a variant function that reaches a memory store or LRUCache.Write
					fn, ok := typeutil.Callee(info, call).(*types.Func)
					if !ok || fn.Pkg() != v.pkg.Types {
						return true
					}
					n++
					same := types.ExprString(ast.Unparen(stripConv(info, call.Args[0]))) == types.ExprString(ast.Unparen(stripConv(info, src)))
					r.check(same, rule, fmt.Sprintf("%s.%s:write-back-address#%d", v.rel, declName(fd), n), call.Pos(), "the bytes read out of the cache at %s are written to the next level at that same address (written at %s)", canonExpr(info, src), canonExpr(info, call.Args[0]))
					return true
				})
			}
		}
	}
}

// ruleWaitsForAllPendings (R06.12): the commands a controller sends to the other cores before
// it acts are ALL waited for: the pendings of a lock response are consumed only by a loop that
// leaves (waits) as soon as one of them is not done.
func ruleWaitsForAllPendings(r *Run, rule string) {
	w := r.W
	for _, v := range variants(w) {
		if v.pkg == nil || !v.pipelined() || !usesLineLocks(w, v) {
			continue
		}
		info := v.info
		for _, f := range v.pkg.Syntax {
			for _, d := range f.Decls {
				fd, ok := d.(*ast.FuncDecl)
				if !ok || fd.Body == nil {
					continue
				}
				// uses of a field named like the pendings of a response: a slice of pointers to a command-info type
				isPendings := func(e ast.Expr) bool {
					sel, ok := ast.Unparen(e).(*ast.SelectorExpr)
					if !ok {
						return false
					}
					s := info.Selections[sel]
					if s == nil || s.Kind() != types.FieldVal {
						return false
					}
					sl, ok := s.Obj().Type().Underlying().(*types.Slice)
					if !ok {
						return false
					}
					p, ok := sl.Elem().(*types.Pointer)
					if !ok {
						return false
					}
					n := namedOf(p.Elem())
					return n != nil && hasMethodNamed(n, "isDone") != nil
				}
				ranged := map[ast.Expr]bool{}
				n := 0
				ast.Inspect(fd.Body, func(m ast.Node) bool {
					rs, ok := m.(*ast.RangeStmt)
					if !ok || !isPendings(rs.X) {
						return true
					}
					ranged[rs.X] = true
					n++
					// body: if !x.isDone() { return … }
					good := false
					if len(rs.Body.List) == 1 {
						if is, ok := rs.Body.List[0].(*ast.IfStmt); ok && terminates(is.Body.List) {
							if u, ok := ast.Unparen(is.Cond).(*ast.UnaryExpr); ok && u.Op == token.NOT {
								if c, ok := ast.Unparen(u.X).(*ast.CallExpr); ok {
									if s2, ok := c.Fun.(*ast.SelectorExpr); ok && s2.Sel.Name == "isDone" {
										good = true
									}
								}
							}
						}
					}
					r.check(good, rule, fmt.Sprintf("%s.%s:all-pendings#%d", v.rel, declName(fd), n), rs.Pos(), "the controller waits while ANY of the commands it sent is not done")
					return true
				})
				// any other consumer of the pendings in this function (outside the builders that fill them)
				k := 0
				ast.Inspect(fd.Body, func(m ast.Node) bool {
					call, ok := m.(*ast.CallExpr)
					if !ok {
						return true
					}
					for _, a := range call.Args {
						if isPendings(a) && !ranged[a] {
							if id, ok := call.Fun.(*ast.Ident); ok && (id.Name == "len" || id.Name == "append") {
								continue
							}
							k++
							r.bad(rule, fmt.Sprintf("%s.%s:pendings-consumer#%d", v.rel, declName(fd), k), call.Pos(), "the pendings of a lock response are consumed by %s instead of the wait-for-all loop", types.ExprString(call.Fun))
						}
					}
					return true
				})
			}
		}
	}
}
