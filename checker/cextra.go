package main

// Structural rules added after a mutation sweep of the pipeline code showed which single dropped
// calls no rule noticed. Each is a necessary condition of the property it is registered under.

import (
	"fmt"
	"go/ast"
	"go/constant"
	"go/token"
	"go/types"
	"golang.org/x/tools/go/packages"
	"sort"
	"strings"

	"golang.org/x/tools/go/types/typeutil"
)

// ruleBusesConnected: every buffered bus of the CPU is connected (buffer -> queue) in the
// main loop; a bus that is never connected never delivers anything and the pipeline starves.
func ruleBusesConnected(r *Run, rule string) {
	w := r.W
	for _, v := range variants(w) {
		if v.pkg == nil || !v.pipelined() || v.mainLoop() == nil {
			continue
		}
		info := v.info
		connected := map[*types.Var]bool{}
		for _, st := range v.mainLoop().Body.List {
			es, ok := st.(*ast.ExprStmt)
			if !ok {
				continue
			}
			call, ok := es.X.(*ast.CallExpr)
			if !ok {
				continue
			}
			sel, ok := call.Fun.(*ast.SelectorExpr)
			if !ok || sel.Sel.Name != "Connect" {
				continue
			}
			if f := v.busFieldOf(sel.X); f != nil {
				connected[f.obj] = true
			}
		}
		for _, f := range v.fields {
			if f.kind != "bufferedbus" {
				continue
			}
			_ = info
			r.check(connected[f.obj], rule, fmt.Sprintf("%s.(CPU).Run:connect(%s)", v.rel, f.name), v.mainLoop().Pos(), "the buffered bus %s is connected unconditionally at the top level of the main loop (once per cycle)", f.name)
		}
	}
}

// ruleWriteUnitStores: the write unit performs the memory write of every store it accepts
// (WriteMemory of the recorded execution) and releases the scoreboard after it.
func ruleWriteUnitStores(r *Run, rule string) {
	w := r.W
	for _, v := range variants(w) {
		if v.pkg == nil || !v.pipelined() {
			continue
		}
		info := v.info
		for _, f := range v.fields {
			if !f.isUnit || !f.roles["write"] || f.roles["exec"] {
				continue
			}
			for i := 0; i < f.unitT.NumMethods(); i++ {
				fd, _ := w.FuncDecl(f.unitT.Method(i))
				if fd == nil || fd.Body == nil {
					continue
				}
				// the branch taken on MemoryChange
				ast.Inspect(fd.Body, func(n ast.Node) bool {
					is, ok := n.(*ast.IfStmt)
					if !ok {
						return true
					}
					sel, ok := ast.Unparen(is.Cond).(*ast.SelectorExpr)
					if !ok || sel.Sel.Name != "MemoryChange" {
						return true
					}
					writes, releases := token.NoPos, token.NoPos
					var recorded, written types.Object
					ast.Inspect(is.Body, func(m ast.Node) bool {
						switch x := m.(type) {
						case *ast.CallExpr:
							fn, ok := typeutil.Callee(info, x).(*types.Func)
							if !ok {
								return true
							}
							switch fn.Name() {
							case "WriteMemory":
								writes = x.Pos()
								if len(x.Args) == 1 {
									written = rootField(info, x.Args[0])
								}
							case "DeletePendingRegisters":
								releases = x.Pos()
							}
						case *ast.AssignStmt:
							// u.<field> = execution  (the accepted store is recorded for the delayed write)
							if len(x.Lhs) == 1 && len(x.Rhs) == 1 {
								if s2, ok := ast.Unparen(x.Lhs[0]).(*ast.SelectorExpr); ok {
									if s := info.Selections[s2]; s != nil && s.Kind() == types.FieldVal && typeName(s.Obj().Type()) == "ExecutionContext" {
										recorded = s.Obj()
									}
								}
							}
						}
						return true
					})
					key := fmt.Sprintf("%s.(%s).%s:store", v.rel, f.unitT.Obj().Name(), fd.Name.Name)
					// from the variants where stores are performed by the cache controllers the write unit refuses
					// memory changes (explicit panic): nothing to check there
					refuses := false
					ast.Inspect(is.Body, func(m ast.Node) bool {
						if c, ok := m.(*ast.CallExpr); ok {
							if id, ok := c.Fun.(*ast.Ident); ok && id.Name == "panic" {
								refuses = true
							}
						}
						return true
					})
					if refuses && writes == token.NoPos {
						return false
					}
					// the scoreboard is released here only where the unit releases it for register results too
					needsRelease := w.reaches(info, fd.Body, func(fn *types.Func) bool { return fn.Name() == "DeletePendingRegisters" })
					good := writes != token.NoPos && (!needsRelease || (releases != token.NoPos && writes < releases)) && (written == nil || written == recorded)
					// a unit that writes at acceptance (no delayed closure) records nothing: accept written == nil
					r.check(good, rule, key, is.Pos(), "an accepted store is written to memory (WriteMemory: %v) from the execution the unit recorded (%v) and the scoreboard is released after the write (%v)", writes != token.NoPos, written == recorded || recorded == nil, releases != token.NoPos && writes < releases)
					return false
				})
			}
		}
	}
}

// rootField: the struct field at the root of a selector chain like u.memoryWrite.Execution.
func rootField(info *types.Info, e ast.Expr) types.Object {
	var last types.Object
	for {
		sel, ok := ast.Unparen(e).(*ast.SelectorExpr)
		if !ok {
			return last
		}
		if s := info.Selections[sel]; s != nil && s.Kind() == types.FieldVal {
			if typeName(s.Obj().Type()) == "ExecutionContext" {
				last = s.Obj()
			}
		}
		e = sel.X
	}
}

// ruleEpochBumped: sequence ids are pc + epoch*1000; every redirect of the fetch unit (a jump
// resolution, a flush) starts a new epoch, otherwise an instruction fetched after a backward
// redirect carries a SMALLER id than the older instructions still in flight and the sequence
// filters and rollbacks order them the wrong way round.
func ruleEpochBumped(r *Run, rule string) {
	w := r.W
	for _, v := range variants(w) {
		if v.pkg == nil || !v.pipelined() {
			continue
		}
		info := v.info
		// does the variant tag instructions with sequence ids at all?
		uses := w.reaches(info, v.run, func(fn *types.Func) bool { return fn.Name() == "IncSequenceID" })
		if !uses {
			continue
		}
		// epochs matter only while the tag is computed from the pc; a decode counter needs none
		tk, _, _ := tagKind(w)
		for _, f := range v.pkg.Syntax {
			for _, d := range f.Decls {
				fd, ok := d.(*ast.FuncDecl)
				if !ok || fd.Body == nil || fd.Recv == nil || fd.Type.Params == nil {
					continue
				}
				// a method that assigns its int32 parameter to a field named like the fetch pc (u.pc = pc)
				var pcParam types.Object
				for _, fl := range fd.Type.Params.List {
					for _, nm := range fl.Names {
						if typeName(info.TypeOf(fl.Type)) == "int32" && pcParam == nil {
							pcParam = info.Defs[nm]
						}
					}
				}
				if pcParam == nil {
					continue
				}
				redirects := false
				for _, st := range fd.Body.List {
					as, ok := st.(*ast.AssignStmt)
					if !ok || len(as.Lhs) != 1 || len(as.Rhs) != 1 || as.Tok != token.ASSIGN {
						continue
					}
					if id, ok := ast.Unparen(as.Rhs[0]).(*ast.Ident); ok && info.Uses[id] == pcParam {
						if sel, ok := ast.Unparen(as.Lhs[0]).(*ast.SelectorExpr); ok {
							if s := info.Selections[sel]; s != nil && s.Kind() == types.FieldVal {
								redirects = true
							}
						}
					}
				}
				// only the fetch unit: its type has the step that reads that field and pushes pcs
				recvT := namedOf(info.TypeOf(fd.Recv.List[0].Type))
				if !redirects || recvT == nil || !strings.Contains(strings.ToLower(recvT.Obj().Name()), "fetch") {
					continue
				}
				bumps := false
				for _, st := range fd.Body.List {
					if es, ok := st.(*ast.ExprStmt); ok {
						if call, ok := es.X.(*ast.CallExpr); ok {
							if fn, ok := typeutil.Callee(info, call).(*types.Func); ok && fn.Name() == "IncSequenceID" {
								bumps = true
							}
						}
					}
				}
				if tk == "counter" {
					r.ok(rule, fmt.Sprintf("%s.%s:new-epoch", v.rel, declName(fd)), fd.Pos(), "tags are a decode counter: a redirect needs no new epoch")
					continue
				}
				r.check(bumps, rule, fmt.Sprintf("%s.%s:new-epoch", v.rel, declName(fd)), fd.Pos(), "a redirect of the fetch unit starts a new sequence epoch unconditionally (IncSequenceID at the top level of the method)")
			}
		}
	}
}

// ruleFlushTarget: the pipeline is flushed to the pc proposed by the execute unit that asked
// for the flush (the variable assigned from the unit's response), not to an expression of it.
func ruleFlushTarget(r *Run, rule string) {
	w := r.W
	for _, v := range variants(w) {
		if v.pkg == nil || !v.pipelined() {
			continue
		}
		info := v.info
		_, flush := v.retAndFlushBranches()
		if flush == nil {
			continue
		}
		n := 0
		for _, st := range flush.Body.List {
			es, ok := st.(*ast.ExprStmt)
			if !ok {
				continue
			}
			call, ok := es.X.(*ast.CallExpr)
			if !ok || len(call.Args) != 1 {
				continue
			}
			fn, ok := typeutil.Callee(info, call).(*types.Func)
			if !ok || fn.Pkg() != v.pkg.Types {
				continue
			}
			sig := fn.Type().(*types.Signature)
			if sig.Recv() == nil || sig.Params().Len() != 1 || typeName(sig.Params().At(0).Type()) != "int32" {
				continue
			}
			// the CPU's flush: reaches Clean on a bus
			fd, _ := w.FuncDecl(fn)
			if fd == nil || !w.reaches(info, fd.Body, func(g *types.Func) bool { return g.Name() == "Clean" }) {
				continue
			}
			n++
			_, isIdent := ast.Unparen(call.Args[0]).(*ast.Ident)
			r.check(isIdent, rule, fmt.Sprintf("%s.(CPU).Run:flush-target#%d", v.rel, n), call.Pos(), "the pipeline is flushed to the proposed pc itself (argument: %s)", types.ExprString(call.Args[0]))
		}
	}
}

// rulePredictionArmed: an execute unit arms the branch unit's check (assert) for the
// instruction it is about to run, before it runs it: without it a mispredicted branch or jump
// is never flushed.
func rulePredictionArmed(r *Run, rule string) {
	w := r.W
	for _, v := range variants(w) {
		if v.pkg == nil || !v.pipelined() {
			continue
		}
		info := v.info
		for _, f := range v.fields {
			if !f.isUnit || !f.roles["exec"] {
				continue
			}
			armedPos, runPos := token.NoPos, token.NoPos
			var first token.Pos
			for i := 0; i < f.unitT.NumMethods(); i++ {
				fd, _ := w.FuncDecl(f.unitT.Method(i))
				if fd == nil || fd.Body == nil {
					continue
				}
				ast.Inspect(fd.Body, func(n ast.Node) bool {
					call, ok := n.(*ast.CallExpr)
					if !ok {
						return true
					}
					fn, ok := typeutil.Callee(info, call).(*types.Func)
					if !ok {
						return true
					}
					sig := fn.Type().(*types.Signature)
					if fn.Name() == "assert" && sig.Recv() != nil && armedPos == token.NoPos {
						armedPos = call.Pos()
					}
					if fn.Name() == "Run" && sig.Recv() != nil && typeName(sig.Recv().Type()) == "InstructionRunner" && runPos == token.NoPos {
						runPos = call.Pos()
						first = fd.Pos()
					}
					return true
				})
			}
			if runPos == token.NoPos {
				continue
			}
			r.check(armedPos != token.NoPos, rule, fmt.Sprintf("%s.(%s):prediction-armed", v.rel, f.unitT.Obj().Name()), first, "the execute unit arms the branch unit's check (assert) for the instruction it runs")
		}
	}
}

// ruleBranchFlagCleared: the flag that holds ret (and stores) behind an unresolved conditional
// branch is cleared when the branch resolves, on BOTH outcomes: otherwise ret is held for ever.
func ruleBranchFlagCleared(r *Run, rule string) {
	w := r.W
	for _, v := range variants(w) {
		if v.pkg == nil || !v.pipelined() {
			continue
		}
		info := v.info
		// the flag: a bool field raised under IsConditionalBranch
		var flags []types.Object
		for _, f := range v.fields {
			if !f.isUnit {
				continue
			}
			if st := structOf(f.unitT); st != nil {
				for i := 0; i < st.NumFields(); i++ {
					if typeName(st.Field(i).Type()) == "bool" && raisedUnderConditionalBranch(w, v, st.Field(i)) {
						flags = append(flags, st.Field(i))
					}
				}
			}
		}
		for _, flag := range flags {
			// the clearing method(s): assign false to the flag, not the unit's flush
			var clearers []*types.Func
			for _, f := range v.pkg.Syntax {
				for _, d := range f.Decls {
					fd, ok := d.(*ast.FuncDecl)
					if !ok || fd.Body == nil || strings.EqualFold(fd.Name.Name, "flush") {
						continue
					}
					for _, st := range fd.Body.List {
						if as, ok := st.(*ast.AssignStmt); ok && len(as.Lhs) == 1 && len(as.Rhs) == 1 {
							if sel, ok := ast.Unparen(as.Lhs[0]).(*ast.SelectorExpr); ok {
								if s := info.Selections[sel]; s != nil && s.Obj() == flag {
									if tv := info.Types[as.Rhs[0]]; tv.Value != nil && tv.Value.String() == "false" {
										if fn, ok := info.Defs[fd.Name].(*types.Func); ok {
											clearers = append(clearers, fn)
										}
									}
								}
							}
						}
					}
				}
			}
			// both resolution notifications (the two methods of the branch unit that call commit / rollback) reach a clearer
			outcomes := map[string]bool{}
			for _, f := range v.pkg.Syntax {
				for _, d := range f.Decls {
					fd, ok := d.(*ast.FuncDecl)
					if !ok || fd.Body == nil {
						continue
					}
					kind := ""
					if w.reaches(info, fd.Body, func(fn *types.Func) bool { return fn.Name() == "Rollback" || fn.Name() == "RATRollback" }) {
						kind = "taken"
					}
					if w.reaches(info, fd.Body, func(fn *types.Func) bool { return fn.Name() == "Commit" || fn.Name() == "RATCommit" }) {
						if kind != "" {
							continue // Run itself reaches both
						}
						kind = "not-taken"
					}
					if kind == "" || fd == v.run || !strings.Contains(strings.ToLower(fd.Name.Name), "notify") {
						continue
					}
					clears := w.reaches(info, fd.Body, func(fn *types.Func) bool {
						for _, c := range clearers {
							if c == fn {
								return true
							}
						}
						return false
					})
					if clears {
						outcomes[kind] = true
					} else if !outcomes[kind] {
						outcomes[kind] = false
					}
				}
			}
			if len(outcomes) == 0 {
				// one notification for both outcomes (variants without commit/rollback): an execute unit reaches a clearer
				reached := false
				for _, f := range v.fields {
					if !f.isUnit || !f.roles["exec"] {
						continue
					}
					for i := 0; i < f.unitT.NumMethods(); i++ {
						if mfd, mpk := w.FuncDecl(f.unitT.Method(i)); mfd != nil && mfd.Body != nil {
							if w.reaches(mpk.TypesInfo, mfd.Body, func(fn *types.Func) bool {
								for _, c := range clearers {
									if c == fn {
										return true
									}
								}
								return false
							}) {
								reached = true
							}
						}
					}
				}
				r.check(reached, rule, fmt.Sprintf("%s:%s-cleared", v.rel, flag.Name()), flag.Pos(), "the flag raised when a conditional branch is dispatched is cleared when the execute unit resolves the branch")
				continue
			}
			var bad []string
			for k, ok := range outcomes {
				if !ok {
					bad = append(bad, k)
				}
			}
			sort.Strings(bad)
			r.check(len(bad) == 0, rule, fmt.Sprintf("%s:%s-cleared", v.rel, flag.Name()), flag.Pos(), "the flag raised when a conditional branch is dispatched is cleared when the branch resolves, taken or not (outcomes that do not clear it: %v)", bad)
			// a conditional branch dispatched on the wrong path is squashed before it resolves: the
			// flush of the unit that owns the flag clears it too
			flushClears := false
			for _, f := range v.pkg.Syntax {
				for _, d := range f.Decls {
					fd, ok := d.(*ast.FuncDecl)
					if !ok || fd.Body == nil || !strings.EqualFold(fd.Name.Name, "flush") {
						continue
					}
					ast.Inspect(fd.Body, func(k ast.Node) bool {
						if as, ok := k.(*ast.AssignStmt); ok && len(as.Lhs) == 1 && len(as.Rhs) == 1 {
							if sel, ok := ast.Unparen(as.Lhs[0]).(*ast.SelectorExpr); ok {
								if s := info.Selections[sel]; s != nil && s.Obj() == flag {
									if tv := info.Types[as.Rhs[0]]; tv.Value != nil && tv.Value.String() == "false" {
										flushClears = true
									}
								}
							}
						}
						return true
					})
				}
			}
			r.check(flushClears, rule, fmt.Sprintf("%s:%s-cleared-by-flush", v.rel, flag.Name()), flag.Pos(), "the flag raised when a conditional branch is dispatched is cleared by the flush (a squashed branch never resolves)")
		}
	}
}

// ruleMutexPaired: every sync.Mutex acquired (Lock / TryLock) in a function of a variant is
// released (Unlock on the same variable) somewhere in that function, nested closures
// included. A line lock that is never released blocks the next access to the line for ever.
func ruleMutexPaired(r *Run, rule string) {
	w := r.W
	for _, v := range variants(w) {
		if v.pkg == nil || !v.pipelined() {
			continue
		}
		info := v.info
		for _, f := range v.pkg.Syntax {
			for _, d := range f.Decls {
				fd, ok := d.(*ast.FuncDecl)
				if !ok || fd.Body == nil {
					continue
				}
				acq := map[types.Object][]token.Pos{}
				rel := map[types.Object]int{}
				ast.Inspect(fd.Body, func(n ast.Node) bool {
					call, ok := n.(*ast.CallExpr)
					if !ok {
						return true
					}
					sel, ok := call.Fun.(*ast.SelectorExpr)
					if !ok {
						return true
					}
					fn, ok := typeutil.Callee(info, call).(*types.Func)
					if !ok || fn.Pkg() == nil || fn.Pkg().Path() != "sync" {
						return true
					}
					id, ok := ast.Unparen(sel.X).(*ast.Ident)
					if !ok {
						return true
					}
					switch fn.Name() {
					case "Lock", "TryLock":
						acq[info.Uses[id]] = append(acq[info.Uses[id]], call.Pos())
					case "Unlock":
						rel[info.Uses[id]]++
					}
					return true
				})
				k := 0
				var objs []types.Object
				for o := range acq {
					objs = append(objs, o)
				}
				sort.Slice(objs, func(i, j int) bool { return acq[objs[i]][0] < acq[objs[j]][0] })
				for _, o := range objs {
					k++
					// a TryLock used only as a test (`if !mu.TryLock() { panic }` followed by Unlock) is covered by the count
					r.check(rel[o] >= len(acq[o]), rule, fmt.Sprintf("%s.%s:mutex#%d", v.rel, declName(fd), k), acq[o][0], "every acquisition of the mutex (%d) has a release on the same variable in the function (%d)", len(acq[o]), rel[o])
				}
			}
		}
	}
}

// ruleReleaseForgets: when a cache controller's access completes it runs the completion
// closure handed out with the line lock (which releases the lock) and then FORGETS the handle
// it recorded for the flush. A handle that stays in the table is released a second time by the
// next flush (the lock counter goes negative).
func ruleReleaseForgets(r *Run, rule string) {
	w := r.W
	for _, v := range variants(w) {
		if v.pkg == nil || !v.pipelined() || !usesLineLocks(w, v) {
			continue
		}
		info := v.info
		for _, f := range v.pkg.Syntax {
			for _, d := range f.Decls {
				fd, ok := d.(*ast.FuncDecl)
				if !ok || fd.Body == nil {
					continue
				}
				// only units that record lock handles (a field of type map[…]*comp.Sem)
				if fdRecvType(fd) == nil {
					continue
				}
				recvT := namedOf(info.TypeOf(fdRecvType(fd)))
				hasTable := false
				if recvT == nil {
					continue
				}
				if st := structOf(recvT); st != nil {
					for i := 0; i < st.NumFields(); i++ {
						if mt, ok := st.Field(i).Type().Underlying().(*types.Map); ok && isCompType(mt.Elem(), "Sem") {
							hasTable = true
						}
					}
				}
				if !hasTable {
					continue
				}
				n := 0
				seen := map[token.Pos]bool{}
				var visit func(list []ast.Stmt)
				visit = func(list []ast.Stmt) {
					for i, st := range list {
						ast.Inspect(st, func(m ast.Node) bool {
							switch x := m.(type) {
							case *ast.BlockStmt:
								visit(x.List)
								return false
							case *ast.CaseClause:
								visit(x.Body)
								return false
							}
							return true
						})
						es, ok := st.(*ast.ExprStmt)
						if !ok {
							continue
						}
						call, ok := es.X.(*ast.CallExpr)
						if !ok || len(call.Args) != 0 {
							continue
						}
						// a call of a func-typed FIELD of the receiver: the completion closure (cc.post())
						sel, ok := call.Fun.(*ast.SelectorExpr)
						if !ok {
							continue
						}
						s := info.Selections[sel]
						if s == nil || s.Kind() != types.FieldVal {
							continue
						}
						if _, isFunc := s.Obj().Type().Underlying().(*types.Signature); !isFunc {
							continue
						}
						if seen[call.Pos()] {
							continue
						}
						seen[call.Pos()] = true
						n++
						forgets := false
						for _, later := range list[i+1:] {
							ast.Inspect(later, func(m ast.Node) bool {
								if c, ok := m.(*ast.CallExpr); ok && len(c.Args) == 2 {
									if id, ok := c.Fun.(*ast.Ident); ok && id.Name == "delete" {
										if s2, ok := ast.Unparen(c.Args[0]).(*ast.SelectorExpr); ok {
											if ss := info.Selections[s2]; ss != nil {
												if mt, ok := ss.Obj().Type().Underlying().(*types.Map); ok && isCompType(mt.Elem(), "Sem") {
													forgets = true
												}
											}
										}
									}
								}
								return true
							})
						}
						r.check(forgets, rule, fmt.Sprintf("%s.%s:completion#%d", v.rel, declName(fd), n), call.Pos(), "after the completion closure released the line lock, the handle recorded for the flush is deleted from its table")
					}
				}
				visit(fd.Body.List)
				// closures nested in expressions (return cc.read.ExecuteWithCheckpoint(r, func…{…}))
				ast.Inspect(fd.Body, func(m ast.Node) bool {
					if lit, ok := m.(*ast.FuncLit); ok {
						visit(lit.Body.List)
					}
					return true
				})
			}
		}
	}
}

// ruleFinalWriteBackBranches: in the final write-back of a cache controller every branch taken
// for a Modified line writes the line somewhere (the next level when it holds the line, memory
// otherwise): a branch without a write loses the data.
func ruleFinalWriteBackBranches(r *Run, rule string) {
	w := r.W
	for _, v := range variants(w) {
		if v.pkg == nil || !v.pipelined() || !usesLineLocks(w, v) {
			continue
		}
		info := v.info
		for _, f := range v.pkg.Syntax {
			for _, d := range f.Decls {
				fd, ok := d.(*ast.FuncDecl)
				if !ok || fd.Body == nil {
					continue
				}
				ast.Inspect(fd.Body, func(m ast.Node) bool {
					rs, ok := m.(*ast.RangeStmt)
					if !ok {
						return true
					}
					call, ok := ast.Unparen(rs.X).(*ast.CallExpr)
					if !ok {
						return true
					}
					if meth := lruMethod(info, call); meth != "Lines" && meth != "ExistingLines" {
						return true
					}
					// if/else at the top level of the loop body whose branches write the line
					n := 0
					for si, st := range rs.Body.List {
						is, ok := st.(*ast.IfStmt)
						if !ok {
							continue
						}
						writes := func(b ast.Node) bool {
							if b == nil {
								return false
							}
							return w.reaches(info, b, func(fn *types.Func) bool {
								sig := fn.Type().(*types.Signature)
								if sig.Recv() != nil && isCompType(sig.Recv().Type(), "LRUCache") && fn.Name() == "Write" {
									return true
								}
								fd2, _ := w.FuncDecl(fn)
								if fd2 == nil || fd2.Body == nil {
									return false
								}
								stores := false
								ast.Inspect(fd2.Body, func(k ast.Node) bool {
									if as, ok := k.(*ast.AssignStmt); ok {
										for _, l := range as.Lhs {
											if ix, ok := ast.Unparen(l).(*ast.IndexExpr); ok && ctxFieldWritten(info, ix.X) == "Memory" {
												stores = true
											}
										}
									}
									return true
								})
								return stores
							})
						}
						if !writes(is.Body) {
							continue // not the routing of the write-back (e.g. the "not modified: skip" test)
						}
						n++
						other := false
						if is.Else != nil {
							other = writes(is.Else)
						} else {
							for _, nx := range rs.Body.List[si+1:] {
								if writes(nx) {
									other = true
								}
							}
						}
						r.check(other, rule, fmt.Sprintf("%s.%s:write-back-branches#%d", v.rel, declName(fd), n), is.Pos(), "both sides of the routing of the final write-back of a modified line write it (where the next level holds the line: true; otherwise: %v)", other)
					}
					return true
				})
			}
		}
	}
}

func fdRecvType(fd *ast.FuncDecl) ast.Expr {
	if fd.Recv == nil || len(fd.Recv.List) == 0 {
		return nil
	}
	return fd.Recv.List[0].Type
}

// ruleWriteBackAddress (R06.11): a line read out of a cache with GetCacheLine(A) (or taken
// from a resident line with its Boundary) is written to the next level AT THE SAME ADDRESS A.
// A write-back to another address (the enclosing line of the next level, say) loses the store
// and overwrites unrelated bytes.
func ruleWriteBackAddress(r *Run, rule string) {
	w := r.W
	for _, v := range variants(w) {
		if v.pkg == nil || !v.pipelined() || !usesLineLocks(w, v) {
			continue
		}
		info := v.info
		for _, f := range v.pkg.Syntax {
			for _, d := range f.Decls {
				fd, ok := d.(*ast.FuncDecl)
				if !ok || fd.Body == nil {
					continue
				}
				// data variable -> the address expression it was read at
				readAt := map[types.Object]ast.Expr{}
				ast.Inspect(fd.Body, func(n ast.Node) bool {
					as, ok := n.(*ast.AssignStmt)
					if !ok || len(as.Rhs) != 1 || len(as.Lhs) < 1 {
						return true
					}
					call, ok := ast.Unparen(as.Rhs[0]).(*ast.CallExpr)
					if !ok || lruMethod(info, call) != "GetCacheLine" || len(call.Args) != 1 {
						return true
					}
					if id, ok := as.Lhs[0].(*ast.Ident); ok && id.Name != "_" {
						o := info.Defs[id]
						if o == nil {
							o = info.Uses[id]
						}
						readAt[o] = call.Args[0]
					}
					return true
				})
				if len(readAt) == 0 {
					continue
				}
				n := 0
				ast.Inspect(fd.Body, func(m ast.Node) bool {
					call, ok := m.(*ast.CallExpr)
					if !ok || len(call.Args) != 2 {
						return true
					}
					id, ok := ast.Unparen(call.Args[1]).(*ast.Ident)
					if !ok {
						return true
					}
					src, ok := readAt[info.Uses[id]]
					if !ok {
						return true
					}
					// only calls that store to the next level: a variant function that reaches a memory store or LRUCache.Write
					fn, ok := typeutil.Callee(info, call).(*types.Func)
					if !ok || fn.Pkg() != v.pkg.Types {
						return true
					}
					n++
					same := types.ExprString(ast.Unparen(stripConv(info, call.Args[0]))) == types.ExprString(ast.Unparen(stripConv(info, src)))
					r.check(same, rule, fmt.Sprintf("%s.%s:write-back-address#%d", v.rel, declName(fd), n), call.Pos(), "the bytes read out of the cache at %s are written to the next level at that same address (written at %s)", canonExpr(info, src), canonExpr(info, call.Args[0]))
					return true
				})
			}
		}
	}
}

// ruleWaitsForAllPendings (R06.12): the commands a controller sends to the other cores before
// it acts are ALL waited for: the pendings of a lock response are consumed only by a loop that
// leaves (waits) as soon as one of them is not done.
func ruleWaitsForAllPendings(r *Run, rule string) {
	w := r.W
	for _, v := range variants(w) {
		if v.pkg == nil || !v.pipelined() || !usesLineLocks(w, v) {
			continue
		}
		info := v.info
		for _, f := range v.pkg.Syntax {
			for _, d := range f.Decls {
				fd, ok := d.(*ast.FuncDecl)
				if !ok || fd.Body == nil {
					continue
				}
				// uses of a field named like the pendings of a response: a slice of pointers to a command-info type
				isPendings := func(e ast.Expr) bool {
					sel, ok := ast.Unparen(e).(*ast.SelectorExpr)
					if !ok {
						return false
					}
					s := info.Selections[sel]
					if s == nil || s.Kind() != types.FieldVal {
						return false
					}
					sl, ok := s.Obj().Type().Underlying().(*types.Slice)
					if !ok {
						return false
					}
					p, ok := sl.Elem().(*types.Pointer)
					if !ok {
						return false
					}
					n := namedOf(p.Elem())
					return n != nil && hasMethodNamed(n, "isDone") != nil
				}
				ranged := map[ast.Expr]bool{}
				n := 0
				ast.Inspect(fd.Body, func(m ast.Node) bool {
					rs, ok := m.(*ast.RangeStmt)
					if !ok || !isPendings(rs.X) {
						return true
					}
					ranged[rs.X] = true
					n++
					// body: if !x.isDone() { return … }
					good := false
					if len(rs.Body.List) == 1 {
						if is, ok := rs.Body.List[0].(*ast.IfStmt); ok && terminates(is.Body.List) {
							if u, ok := ast.Unparen(is.Cond).(*ast.UnaryExpr); ok && u.Op == token.NOT {
								if c, ok := ast.Unparen(u.X).(*ast.CallExpr); ok {
									if s2, ok := c.Fun.(*ast.SelectorExpr); ok && s2.Sel.Name == "isDone" {
										good = true
									}
								}
							}
						}
					}
					r.check(good, rule, fmt.Sprintf("%s.%s:all-pendings#%d", v.rel, declName(fd), n), rs.Pos(), "the controller waits while ANY of the commands it sent is not done")
					return true
				})
				// any other consumer of the pendings in this function (outside the builders that fill them)
				k := 0
				ast.Inspect(fd.Body, func(m ast.Node) bool {
					call, ok := m.(*ast.CallExpr)
					if !ok {
						return true
					}
					for _, a := range call.Args {
						if isPendings(a) && !ranged[a] {
							if id, ok := call.Fun.(*ast.Ident); ok && (id.Name == "len" || id.Name == "append") {
								continue
							}
							k++
							r.bad(rule, fmt.Sprintf("%s.%s:pendings-consumer#%d", v.rel, declName(fd), k), call.Pos(), "the pendings of a lock response are consumed by %s instead of the wait-for-all loop", types.ExprString(call.Fun))
						}
					}
					return true
				})
			}
		}
	}
}

// ruleCoroutineConformance: the stepping primitive of every unit (common/coroutine) equals its
// reference model operation by operation.
func ruleCoroutineConformance(r *Run, rule string) {
	for _, m := range []string{"Pre", "Cycle", "Checkpoint", "Append", "ExecuteWithCheckpoint", "ExecuteWithCheckpointAfter", "Reset", "ExecuteWithReset", "IsStart"} {
		conform(r, rule, "common/coroutine", "Coroutine", m, "coroutine", nil)
	}
	conform(r, rule, "common/coroutine", "", "New", "coroutine", nil)
}

// ---- R07.23: a loop that waits for a component to become idle makes it progress

type idleTest struct {
	kind string // "bus", "co", "unit"
	fld  *types.Var
	typ  *types.Named
	desc string
}

func isCoroutineNamed(t types.Type) bool {
	n := namedOf(t)
	return n != nil && n.Obj().Pkg() != nil && n.Obj().Pkg().Path() == modPath+"/common/coroutine" && n.Obj().Name() == "Coroutine"
}

// idleTestsIn collects the idleness tests an expression (or a statement list) makes: IsEmpty of
// a buffered bus, IsStart of a coroutine field, isEmpty of a unit. Helper predicates of the
// CPU type are expanded (depth-bounded).
func idleTestsIn(w *World, v *variant, info *types.Info, n ast.Node, depth int, out map[string]idleTest) {
	ast.Inspect(n, func(m ast.Node) bool {
		if _, ok := m.(*ast.FuncLit); ok {
			return false
		}
		call, ok := m.(*ast.CallExpr)
		if !ok {
			return true
		}
		sel, ok := call.Fun.(*ast.SelectorExpr)
		if !ok {
			return true
		}
		s := info.Selections[sel]
		if s == nil || s.Kind() != types.MethodVal {
			return true
		}
		mf := s.Obj().(*types.Func)
		lastField := func() *types.Var {
			if inner, ok := ast.Unparen(sel.X).(*ast.SelectorExpr); ok {
				if is := info.Selections[inner]; is != nil && is.Kind() == types.FieldVal {
					return is.Obj().(*types.Var)
				}
			}
			return nil
		}
		switch {
		case mf.Name() == "IsEmpty" && isCompType(info.TypeOf(sel.X), "BufferedBus"):
			if f := lastField(); f != nil {
				out["bus:"+f.Name()] = idleTest{kind: "bus", fld: f, desc: "buffered bus " + f.Name()}
			}
		case mf.Name() == "IsStart" && mf.Pkg() != nil && mf.Pkg().Path() == modPath+"/common/coroutine":
			if len(s.Index()) > 1 {
				// promoted: the unit itself is the coroutine
				if t := namedOf(s.Recv()); t != nil {
					out["unit:"+t.Obj().Name()] = idleTest{kind: "unit", typ: t, desc: "unit " + t.Obj().Name()}
				}
			} else if f := lastField(); f != nil {
				out["co:"+f.Name()] = idleTest{kind: "co", fld: f, desc: "coroutine " + f.Name()}
			}
		case mf.Pkg() == v.pkg.Types && strings.EqualFold(mf.Name(), "isEmpty") || mf.Pkg() == v.pkg.Types && strings.HasPrefix(mf.Name(), "are") && strings.HasSuffix(mf.Name(), "Empty"):
			t := namedOf(s.Recv())
			if t == nil {
				return true
			}
			if t == v.cpu {
				if fd, pk := w.FuncDecl(mf); fd != nil && fd.Body != nil && depth < 3 {
					idleTestsIn(w, v, pk.TypesInfo, fd.Body, depth+1, out)
				}
			} else {
				out["unit:"+t.Obj().Name()] = idleTest{kind: "unit", typ: t, desc: "unit " + t.Obj().Name()}
			}
		}
		return true
	})
}

// progressIn reports whether node n (or a function it reaches) makes the component progress.
func progressIn(w *World, info *types.Info, n ast.Node, t idleTest) bool {
	calleeWorld = w
	seen := map[*types.Func]bool{}
	var rec func(info *types.Info, n ast.Node, depth int) bool
	rec = func(info *types.Info, n ast.Node, depth int) bool {
		found := false
		ast.Inspect(n, func(m ast.Node) bool {
			call, ok := m.(*ast.CallExpr)
			if !ok || found {
				return !found
			}
			sel, ok := call.Fun.(*ast.SelectorExpr)
			if !ok {
				return true
			}
			s := info.Selections[sel]
			if s == nil || s.Kind() != types.MethodVal {
				return true
			}
			name := s.Obj().Name()
			var last *types.Var
			if inner, ok := ast.Unparen(sel.X).(*ast.SelectorExpr); ok {
				if is := info.Selections[inner]; is != nil && is.Kind() == types.FieldVal {
					last = is.Obj().(*types.Var)
				}
			}
			switch t.kind {
			case "bus":
				if name == "Connect" && last == t.fld {
					found = true
				}
			case "co":
				if name == "Cycle" && last == t.fld {
					found = true
				}
			case "unit":
				if (name == "Cycle" || name == "cycle") && namedOf(s.Recv()) == t.typ {
					found = true
				}
			}
			return true
		})
		if found {
			return true
		}
		for _, f := range calleesIn(info, n) {
			f = f.Origin()
			if seen[f] || depth > 8 {
				continue
			}
			seen[f] = true
			if fd, pk := w.FuncDecl(f); fd != nil && fd.Body != nil {
				if rec(pk.TypesInfo, fd.Body, depth+1) {
					return true
				}
			}
		}
		return false
	}
	return rec(info, n, 0)
}

// ruleWaitLoopsProgress (R07.23): in the functions of the CPU type, a loop whose continuation
// depends on a component being busy — the test sits in the loop condition or in an `if` of the
// body that keeps the loop going (clears an exit flag, continues, breaks) — steps that
// component in its body: Connect for a buffered bus, Cycle for a coroutine or a unit. A loop
// that waits for something it never steps spins for ever.
func ruleWaitLoopsProgress(r *Run, rule string) {
	w := r.W
	for _, v := range variants(w) {
		if v.pkg == nil || !v.pipelined() || v.cpu == nil {
			continue
		}
		info := v.info
		for _, f := range v.pkg.Syntax {
			for _, d := range f.Decls {
				fd, ok := d.(*ast.FuncDecl)
				if !ok || fd.Body == nil || fd.Recv == nil || len(fd.Recv.List) != 1 || namedOf(info.TypeOf(fd.Recv.List[0].Type)) != v.cpu {
					continue
				}
				n := 0
				nGuard := 0
				ast.Inspect(fd.Body, func(m ast.Node) bool {
					fs, ok := m.(*ast.ForStmt)
					if !ok {
						return true
					}
					n++
					tests := map[string]idleTest{}
					if fs.Cond != nil {
						idleTestsIn(w, v, info, fs.Cond, 0, tests)
						// a loop condition made of idleness tests keeps the loop running while ANY of the components is busy
						if len(tests) > 0 {
							r.check(idlePolarity(w, v, info, fs.Cond) == "busy", rule, fmt.Sprintf("%s.%s:loop#%d:runs-while-any-busy", v.rel, declName(fd), n), fs.Pos(), "the loop condition holds whenever one of the components it waits for is busy (a disjunction of negated idleness tests)")
						}
					}
					// ifs of the body (not of nested condition loops, which are checked on their own)
					var walk func(list []ast.Stmt)
					walk = func(list []ast.Stmt) {
						for _, st := range list {
							switch x := st.(type) {
							case *ast.IfStmt:
								keeps := false
								ast.Inspect(x.Body, func(k ast.Node) bool {
									switch y := k.(type) {
									case *ast.BranchStmt:
										keeps = true
									case *ast.AssignStmt:
										for _, rhs := range y.Rhs {
											if tv, ok := info.Types[rhs]; ok && tv.Value != nil && typeName(tv.Type) == "bool" {
												keeps = true
											}
										}
									}
									return true
								})
								if keeps {
									idleTestsIn(w, v, info, x.Cond, 0, tests)
								}
								walk(x.Body.List)
								if e, ok := x.Else.(*ast.BlockStmt); ok {
									walk(e.List)
								}
							case *ast.RangeStmt:
								walk(x.Body.List)
							case *ast.BlockStmt:
								walk(x.List)
							}
						}
					}
					walk(fs.Body.List)
					for _, k := range sortedKeys(tests) {
						t := tests[k]
						r.check(progressIn(w, info, fs.Body, t), rule, fmt.Sprintf("%s.%s:loop#%d:steps(%s)", v.rel, declName(fd), n, k), fs.Pos(), "the loop keeps running while the %s is busy and steps it in its body", t.desc)
					}
					// a step guarded by an idleness test of the stepped unit is taken on the BUSY side
					ast.Inspect(fs.Body, func(k ast.Node) bool {
						is, ok := k.(*ast.IfStmt)
						if !ok {
							return true
						}
						guardTests := map[string]idleTest{}
						idleTestsIn(w, v, info, is.Cond, 0, guardTests)
						if len(guardTests) == 0 {
							return true
						}
						for _, gk := range sortedKeys(guardTests) {
							gt := guardTests[gk]
							if gt.kind != "unit" {
								continue
							}
							stepsHere := false
							for _, st := range is.Body.List {
								ast.Inspect(st, func(q ast.Node) bool {
									if c, ok := q.(*ast.CallExpr); ok {
										if sel, ok := c.Fun.(*ast.SelectorExpr); ok && strings.EqualFold(sel.Sel.Name, "cycle") {
											if s2 := info.Selections[sel]; s2 != nil && namedOf(s2.Recv()) == gt.typ {
												stepsHere = true
											}
										}
									}
									return true
								})
							}
							if stepsHere {
								nGuard++
								r.check(idlePolarity(w, v, info, is.Cond) == "busy", rule, fmt.Sprintf("%s.%s:loop#%d:step-guard(%s)#%d", v.rel, declName(fd), n, gk, nGuard), is.Pos(), "a step of the %s guarded by its idleness test is taken when the unit is BUSY", gt.desc)
							}
						}
						return true
					})
					return true
				})
			}
		}
	}
}

// ruleFlushResetsCoroutines (R03.24 / R07.24): a unit written as a coroutine that can be
// SUSPENDED (some Checkpoint / ExecuteWithCheckpoint* is performed on it) and that has a flush
// method is returned to its start by that flush. A unit left suspended at a continuation of a
// squashed instruction goes on executing it after the flush.
func ruleFlushResetsCoroutines(r *Run, rule string) {
	w := r.W
	for _, v := range variants(w) {
		if v.pkg == nil || !v.pipelined() {
			continue
		}
		info := v.info
		// coroutine "slots": (owner type, field) — field embedded or named
		type slot struct {
			owner *types.Named
			fld   *types.Var
		}
		suspended := map[slot]bool{}
		resetBy := map[slot]map[*types.Func]bool{} // functions that Reset the slot
		slotOfCall := func(call *ast.CallExpr) (slot, string, bool) {
			sel, ok := call.Fun.(*ast.SelectorExpr)
			if !ok {
				return slot{}, "", false
			}
			s := info.Selections[sel]
			if s == nil || s.Kind() != types.MethodVal {
				return slot{}, "", false
			}
			mf := s.Obj().(*types.Func)
			if mf.Pkg() == nil || mf.Pkg().Path() != modPath+"/common/coroutine" {
				return slot{}, "", false
			}
			if len(s.Index()) > 1 {
				owner := namedOf(s.Recv())
				st := structOf(s.Recv())
				if owner == nil || st == nil {
					return slot{}, "", false
				}
				return slot{owner, st.Field(s.Index()[0])}, mf.Name(), true
			}
			if inner, ok := ast.Unparen(sel.X).(*ast.SelectorExpr); ok {
				if is := info.Selections[inner]; is != nil && is.Kind() == types.FieldVal {
					return slot{namedOf(is.Recv()), is.Obj().(*types.Var)}, mf.Name(), true
				}
			}
			return slot{}, "", false
		}
		for _, f := range v.pkg.Syntax {
			for _, d := range f.Decls {
				fd, ok := d.(*ast.FuncDecl)
				if !ok || fd.Body == nil {
					continue
				}
				fn, _ := info.Defs[fd.Name].(*types.Func)
				ast.Inspect(fd.Body, func(m ast.Node) bool {
					call, ok := m.(*ast.CallExpr)
					if !ok {
						return true
					}
					sl, name, ok := slotOfCall(call)
					if !ok || sl.owner == nil {
						return true
					}
					switch name {
					case "Checkpoint", "ExecuteWithCheckpoint", "ExecuteWithCheckpointAfter":
						suspended[sl] = true
					case "Reset":
						if resetBy[sl] == nil {
							resetBy[sl] = map[*types.Func]bool{}
						}
						resetBy[sl][fn] = true
					}
					return true
				})
			}
		}
		var slots []slot
		for sl := range suspended {
			slots = append(slots, sl)
		}
		sort.Slice(slots, func(i, j int) bool {
			return slots[i].owner.Obj().Name()+"."+slots[i].fld.Name() < slots[j].owner.Obj().Name()+"."+slots[j].fld.Name()
		})
		for _, sl := range slots {
			fl := hasDeclMethod(sl.owner, "flush")
			if fl == nil {
				continue
			}
			fd, pk := w.FuncDecl(fl)
			if fd == nil {
				continue
			}
			ok := resetBy[sl][fl] || w.reaches(pk.TypesInfo, fd.Body, func(f *types.Func) bool { return resetBy[sl][f] })
			r.check(ok, rule, fmt.Sprintf("%s.(%s).flush:resets(%s)", v.rel, sl.owner.Obj().Name(), sl.fld.Name()), fd.Pos(), "the flush of %s returns its suspendable coroutine %s to the start", sl.owner.Obj().Name(), sl.fld.Name())
		}
	}
}

// ruleSnoopCommandsComplete (R06.13 / R07.25): the life cycle of a command sent to another
// core's controller. (a) Every job the snoop coroutine appends for a command completes the
// command (calls its done()) before it reports completion (return true): the requester waits
// on isDone(). (b) done() raises the flag isDone() reads and runs the completion callback.
// (c) The callback installed when the command is created removes the command from the table
// under the key it was inserted with: a completed command left in the table is handed out
// again, already done, to the next requester, which then proceeds without the snoop.
func ruleSnoopCommandsComplete(r *Run, rule string) {
	w := r.W
	for _, v := range variants(w) {
		if v.pkg == nil || !v.pipelined() || !usesLineLocks(w, v) {
			continue
		}
		info := v.info
		isCmdInfo := func(t types.Type) *types.Named {
			p, ok := t.(*types.Pointer)
			if !ok {
				return nil
			}
			n := namedOf(p.Elem())
			if n != nil && n.Obj().Pkg() == v.pkg.Types && hasMethodNamed(n, "done") != nil && hasMethodNamed(n, "isDone") != nil {
				return n
			}
			return nil
		}
		var cmdT *types.Named
		for _, f := range v.pkg.Syntax {
			for _, d := range f.Decls {
				fd, ok := d.(*ast.FuncDecl)
				if !ok || fd.Body == nil {
					continue
				}
				// (a)
				ast.Inspect(fd.Body, func(m ast.Node) bool {
					rs, ok := m.(*ast.RangeStmt)
					if !ok || rs.Value == nil {
						return true
					}
					vid, ok := rs.Value.(*ast.Ident)
					if !ok {
						return true
					}
					vobj := info.Defs[vid]
					if vobj == nil || isCmdInfo(vobj.Type()) == nil {
						return true
					}
					cmdT = isCmdInfo(vobj.Type())
					n := 0
					ast.Inspect(rs.Body, func(k ast.Node) bool {
						call, ok := k.(*ast.CallExpr)
						if !ok || len(call.Args) != 1 {
							return true
						}
						sel, ok := call.Fun.(*ast.SelectorExpr)
						if !ok || sel.Sel.Name != "Append" || !isCoroutineNamed(info.TypeOf(sel.X)) {
							return true
						}
						lit, ok := call.Args[0].(*ast.FuncLit)
						if !ok {
							return true
						}
						n++
						// every `return true` is preceded in its statement list by v.done()
						completes, total := 0, 0
						var walk func(list []ast.Stmt)
						walk = func(list []ast.Stmt) {
							doneSeen := false
							for _, st := range list {
								switch x := st.(type) {
								case *ast.ExprStmt:
									if c, ok := x.X.(*ast.CallExpr); ok {
										if s2, ok := c.Fun.(*ast.SelectorExpr); ok && s2.Sel.Name == "done" {
											if id, ok := ast.Unparen(s2.X).(*ast.Ident); ok && info.Uses[id] == vobj {
												doneSeen = true
											}
										}
									}
								case *ast.ReturnStmt:
									if len(x.Results) == 1 {
										if tv, ok := info.Types[x.Results[0]]; ok && tv.Value != nil && tv.Value.String() == "true" {
											total++
											if doneSeen {
												completes++
											}
										}
									}
								case *ast.IfStmt:
									walk(x.Body.List)
									if e, ok := x.Else.(*ast.BlockStmt); ok {
										walk(e.List)
									}
								case *ast.BlockStmt:
									walk(x.List)
								}
							}
						}
						walk(lit.Body.List)
						r.check(total > 0 && completes == total, rule, fmt.Sprintf("%s.%s:snoop-job#%d", v.rel, declName(fd), n), lit.Pos(), "every completion of a snoop job (return true: %d) first completes the command it serves (done(): %d)", total, completes)
						return true
					})
					return true
				})
				// (c)
				ast.Inspect(fd.Body, func(m ast.Node) bool {
					cl, ok := m.(*ast.CompositeLit)
					if !ok {
						return true
					}
					n := namedOf(info.TypeOf(cl))
					if n == nil || n.Obj().Pkg() != v.pkg.Types || hasMethodNamed(n, "done") == nil || hasMethodNamed(n, "isDone") == nil {
						return true
					}
					var cb *ast.FuncLit
					for _, e := range cl.Elts {
						if kv, ok := e.(*ast.KeyValueExpr); ok {
							if fl, ok := kv.Value.(*ast.FuncLit); ok {
								cb = fl
							}
						}
					}
					if cb == nil {
						return true
					}
					// insertions of this function into a map of commands: M[K] = …
					type ins struct {
						m *types.Var
						k types.Object
					}
					var inserts []ins
					ast.Inspect(fd.Body, func(k ast.Node) bool {
						as, ok := k.(*ast.AssignStmt)
						if !ok || len(as.Lhs) != 1 {
							return true
						}
						ix, ok := as.Lhs[0].(*ast.IndexExpr)
						if !ok {
							return true
						}
						mt, ok := info.TypeOf(ix.X).Underlying().(*types.Map)
						if !ok || isCmdInfo(mt.Elem()) == nil {
							return true
						}
						// the value stored is the command being created (the variable defined from the literal)
						isNew := false
						if vid, ok := ast.Unparen(as.Rhs[0]).(*ast.Ident); ok {
							ast.Inspect(fd.Body, func(q ast.Node) bool {
								if d2, ok := q.(*ast.AssignStmt); ok && len(d2.Lhs) == 1 && len(d2.Rhs) == 1 {
									if l, ok := d2.Lhs[0].(*ast.Ident); ok && (info.Defs[l] == info.Uses[vid] || info.Uses[l] == info.Uses[vid]) {
										if u, ok := ast.Unparen(d2.Rhs[0]).(*ast.UnaryExpr); ok && u.X == ast.Expr(cl) {
											isNew = true
										}
										if d2.Rhs[0] == ast.Expr(cl) {
											isNew = true
										}
									}
								}
								return true
							})
						}
						if !isNew {
							return true
						}
						if ms, ok := ast.Unparen(ix.X).(*ast.SelectorExpr); ok {
							if kid, ok := ast.Unparen(ix.Index).(*ast.Ident); ok {
								if s := info.Selections[ms]; s != nil {
									inserts = append(inserts, ins{s.Obj().(*types.Var), info.Uses[kid]})
								}
							}
						}
						return true
					})
					removed := false
					ast.Inspect(cb.Body, func(k ast.Node) bool {
						call, ok := k.(*ast.CallExpr)
						if !ok || len(call.Args) != 2 {
							return true
						}
						if id, ok := call.Fun.(*ast.Ident); !ok || id.Name != "delete" {
							return true
						}
						ms, ok1 := ast.Unparen(call.Args[0]).(*ast.SelectorExpr)
						kid, ok2 := ast.Unparen(call.Args[1]).(*ast.Ident)
						if !ok1 || !ok2 {
							return true
						}
						if s := info.Selections[ms]; s != nil {
							for _, in := range inserts {
								if in.m == s.Obj() && in.k == info.Uses[kid] {
									removed = true
								}
							}
						}
						return true
					})
					r.check(len(inserts) > 0 && removed, rule, fmt.Sprintf("%s.%s:completion-removes-command", v.rel, declName(fd)), cb.Pos(), "a new command is entered in the command table and its completion callback removes it under the key it is inserted with (insertions of the new command: %d)", len(inserts))
					return true
				})
			}
		}
		// (b)
		if cmdT != nil {
			dfn := hasMethodNamed(cmdT, "done")
			ifn := hasMethodNamed(cmdT, "isDone")
			dfd, _ := w.FuncDecl(dfn)
			ifd, _ := w.FuncDecl(ifn)
			ok := false
			if dfd != nil && ifd != nil {
				// the field isDone returns
				var flag types.Object
				ast.Inspect(ifd.Body, func(k ast.Node) bool {
					if rt, ok := k.(*ast.ReturnStmt); ok && len(rt.Results) == 1 {
						if sel, ok := ast.Unparen(rt.Results[0]).(*ast.SelectorExpr); ok {
							if s := info.Selections[sel]; s != nil && s.Kind() == types.FieldVal {
								flag = s.Obj()
							}
						}
					}
					return true
				})
				sets, calls := false, false
				for _, st := range dfd.Body.List {
					switch x := st.(type) {
					case *ast.AssignStmt:
						if len(x.Lhs) == 1 && len(x.Rhs) == 1 {
							if sel, ok := x.Lhs[0].(*ast.SelectorExpr); ok {
								if s := info.Selections[sel]; s != nil && flag != nil && s.Obj() == flag {
									if tv, ok := info.Types[x.Rhs[0]]; ok && tv.Value != nil && tv.Value.String() == "true" {
										sets = true
									}
								}
							}
						}
					case *ast.ExprStmt:
						if c, ok := x.X.(*ast.CallExpr); ok {
							if sel, ok := c.Fun.(*ast.SelectorExpr); ok {
								if s := info.Selections[sel]; s != nil && s.Kind() == types.FieldVal {
									if _, isF := s.Obj().Type().Underlying().(*types.Signature); isF {
										calls = true
									}
								}
							}
						}
					}
				}
				ok = sets && calls
			}
			pos := token.NoPos
			if dfd != nil {
				pos = dfd.Pos()
			}
			r.check(ok, rule, fmt.Sprintf("%s.(%s).done", v.rel, cmdT.Obj().Name()), pos, "done() unconditionally raises the flag isDone() reads and runs the completion callback")
		}
	}
}

// ruleDispatchConserves (R09.6 / R01.13 / R04.15): the control unit neither loses nor duplicates
// an instruction. Where the outcome of the dispatch decision is a bool (push, …) computed on
// an instruction: an instruction TAKEN FROM THE INPUT BUS that is not dispatched is put in the
// pending queue; an instruction READ FROM THE PENDING QUEUE that is dispatched is removed
// from it (and only then).
func ruleDispatchConserves(r *Run, rule string) {
	w := r.W
	for _, v := range variants(w) {
		if v.pkg == nil || !multiExec(v) {
			continue
		}
		info := v.info
		for _, f := range v.pkg.Syntax {
			for _, d := range f.Decls {
				fd, ok := d.(*ast.FuncDecl)
				if !ok || fd.Body == nil {
					continue
				}
				n := 0
				nStop := 0
				// loops (for / range) whose body defines an instruction variable, decides, and branches
				ast.Inspect(fd.Body, func(m ast.Node) bool {
					var body *ast.BlockStmt
					switch x := m.(type) {
					case *ast.ForStmt:
						body = x.Body
					case *ast.RangeStmt:
						body = x.Body
					}
					if body == nil {
						return true
					}
					var inst types.Object // the instruction variable
					var src string        // "bus" or "queue"
					var queueElem types.Object
					var queueFld, _ = (*types.Var)(nil), 0
					var pushVar types.Object
					for _, st := range body.List {
						as, ok := st.(*ast.AssignStmt)
						if ok && as.Tok == token.DEFINE && len(as.Rhs) == 1 {
							if call, ok := as.Rhs[0].(*ast.CallExpr); ok {
								if sel, ok := call.Fun.(*ast.SelectorExpr); ok {
									switch {
									case sel.Sel.Name == "Get" && len(as.Lhs) == 2 && isCompType(info.TypeOf(sel.X), "BufferedBus"):
										if id, ok := as.Lhs[0].(*ast.Ident); ok {
											inst, src = info.Defs[id], "bus"
										}
									case sel.Sel.Name == "Value" && len(as.Lhs) == 1 && len(call.Args) == 1 && isCompType(info.TypeOf(sel.X), "Queue"):
										if id, ok := as.Lhs[0].(*ast.Ident); ok {
											inst, src = info.Defs[id], "queue"
										}
										if eid, ok := ast.Unparen(call.Args[0]).(*ast.Ident); ok {
											queueElem = info.Uses[eid]
										}
										if qs, ok := ast.Unparen(sel.X).(*ast.SelectorExpr); ok {
											if s := info.Selections[qs]; s != nil {
												queueFld, _ = s.Obj().(*types.Var)
											}
										}
									}
								}
								// push, stop := decide(…, &inst)
								if inst != nil && len(as.Lhs) == 2 {
									uses := false
									for _, a := range call.Args {
										ast.Inspect(a, func(k ast.Node) bool {
											if id, ok := k.(*ast.Ident); ok && info.Uses[id] == inst {
												uses = true
											}
											return true
										})
									}
									if id, ok := as.Lhs[0].(*ast.Ident); ok && uses {
										if o := info.Defs[id]; o != nil && typeName(o.Type()) == "bool" {
											pushVar = o
											// the second answer: stop looking at younger instructions this cycle
											if id2, ok := as.Lhs[1].(*ast.Ident); ok {
												if o2 := info.Defs[id2]; o2 != nil && typeName(o2.Type()) == "bool" {
													honoured := false
													for _, st2 := range body.List {
														if is2, ok := st2.(*ast.IfStmt); ok && st2.Pos() > as.Pos() {
															if c2, ok := ast.Unparen(is2.Cond).(*ast.Ident); ok && info.Uses[c2] == o2 && terminates(is2.Body.List) {
																honoured = true
															}
														}
													}
													nStop++
													r.check(honoured, rule, fmt.Sprintf("%s.%s:stop-honoured#%d", v.rel, declName(fd), nStop), as.Pos(), "when the dispatch decision says stop, the loop over the instructions is left (nothing younger is looked at in this cycle)")
												}
											}
										}
									}
								}
							}
						}
						is, ok := st.(*ast.IfStmt)
						if !ok || pushVar == nil {
							continue
						}
						cid, ok := ast.Unparen(is.Cond).(*ast.Ident)
						if !ok || info.Uses[cid] != pushVar {
							continue
						}
						n++
						queueCall := func(list ast.Node, method string, arg types.Object, fld *types.Var) bool {
							found := false
							if list == nil {
								return false
							}
							ast.Inspect(list, func(k ast.Node) bool {
								call, ok := k.(*ast.CallExpr)
								if !ok || len(call.Args) != 1 {
									return true
								}
								sel, ok := call.Fun.(*ast.SelectorExpr)
								if !ok || sel.Sel.Name != method || !isCompType(info.TypeOf(sel.X), "Queue") {
									return true
								}
								if fld != nil {
									qs, ok := ast.Unparen(sel.X).(*ast.SelectorExpr)
									if !ok || info.Selections[qs] == nil || info.Selections[qs].Obj() != fld {
										return true
									}
								}
								if id, ok := ast.Unparen(call.Args[0]).(*ast.Ident); ok && info.Uses[id] == arg {
									found = true
								}
								return true
							})
							return found
						}
						var elseBlock ast.Node
						if is.Else != nil {
							elseBlock = is.Else
						}
						key := fmt.Sprintf("%s.%s:dispatch#%d(%s)", v.rel, declName(fd), n, src)
						// the unit keeps a list of the instructions it held back this cycle (consulted so that a
						// younger instruction is not dispatched past an older one it depends on): every
						// held-back instruction is appended to it
						if recvT := recvNamed(info, fd); recvT != nil {
							if st := structOf(recvT); st != nil {
								for i := 0; i < st.NumFields(); i++ {
									fv := st.Field(i)
									sl, ok := fv.Type().(*types.Slice)
									if !ok || !types.Identical(sl.Elem(), inst.Type()) {
										continue
									}
									recorded := false
									if elseBlock != nil {
										ast.Inspect(elseBlock, func(k ast.Node) bool {
											as, ok := k.(*ast.AssignStmt)
											if !ok || len(as.Lhs) != 1 || len(as.Rhs) != 1 {
												return true
											}
											ls, ok := ast.Unparen(as.Lhs[0]).(*ast.SelectorExpr)
											if !ok || info.Selections[ls] == nil || info.Selections[ls].Obj() != fv {
												return true
											}
											if call, ok := as.Rhs[0].(*ast.CallExpr); ok {
												if fid, ok := call.Fun.(*ast.Ident); ok && fid.Name == "append" && len(call.Args) == 2 {
													if a0, ok := ast.Unparen(call.Args[0]).(*ast.SelectorExpr); ok && info.Selections[a0] != nil && info.Selections[a0].Obj() == fv {
														if a1, ok := ast.Unparen(call.Args[1]).(*ast.Ident); ok && info.Uses[a1] == inst {
															recorded = true
														}
													}
												}
											}
											return true
										})
									}
									r.check(recorded, rule, key+":held-back-recorded("+fv.Name()+")", is.Pos(), "an instruction that is not dispatched is appended to the unit's list of held-back instructions %s", fv.Name())
								}
							}
						}
						switch src {
						case "bus":
							r.check(queueCall(elseBlock, "Push", inst, nil) && !queueCall(is.Body, "Push", inst, nil), rule, key, is.Pos(), "an instruction taken from the input bus that is not dispatched is put in the pending queue (and a dispatched one is not)")
						case "queue":
							r.check(queueCall(is.Body, "Remove", queueElem, queueFld) && !queueCall(elseBlock, "Remove", queueElem, queueFld), rule, key, is.Pos(), "an instruction read from the pending queue is removed from that queue when, and only when, it is dispatched")
						}
					}
					return true
				})
			}
		}
	}
}

// ruleSemConformance: the per-line reader/writer lock equals its reference model.
func ruleSemConformance(r *Run, rule string) {
	for _, m := range []string{"RLock", "RUnlock", "Lock", "Unlock"} {
		conform(r, rule, "proc/comp", "Sem", m, "sem", nil)
	}
}

// ruleOneLockPerLine: the function that hands out the lock of a line returns the semaphore
// STORED in the table under the line's key; when it creates one it stores it under that same
// key before returning it. A lock that is not stored is a different lock for every caller.
func ruleOneLockPerLine(r *Run, rule string) {
	w := r.W
	for _, v := range variants(w) {
		if v.pkg == nil || !v.pipelined() || !usesLineLocks(w, v) {
			continue
		}
		info := v.info
		for _, f := range v.pkg.Syntax {
			for _, d := range f.Decls {
				fd, ok := d.(*ast.FuncDecl)
				if !ok || fd.Body == nil || fd.Type.Results == nil || len(fd.Type.Results.List) != 1 {
					continue
				}
				rt := info.TypeOf(fd.Type.Results.List[0].Type)
				isLock := isCompType(rt, "Sem")
				if p, ok := rt.(*types.Pointer); ok && !isLock {
					if n := namedOf(p.Elem()); n != nil && n.Obj().Pkg() != nil && n.Obj().Pkg().Path() == "sync" && n.Obj().Name() == "Mutex" {
						isLock = true
					}
				}
				if !isLock {
					continue
				}
				// creations: x = &T{} / new(T); each must be followed by M[K] = x with K the key of the lookup x, _ = M[K]
				var lookupMap types.Object
				var lookupKey string
				var lockVar types.Object
				created, stored := false, false
				ast.Inspect(fd.Body, func(m ast.Node) bool {
					as, ok := m.(*ast.AssignStmt)
					if !ok || len(as.Rhs) != 1 {
						return true
					}
					if ix, ok := ast.Unparen(as.Rhs[0]).(*ast.IndexExpr); ok && len(as.Lhs) == 2 {
						if ms, ok := ast.Unparen(ix.X).(*ast.SelectorExpr); ok {
							if s := info.Selections[ms]; s != nil {
								if _, isMap := s.Obj().Type().Underlying().(*types.Map); isMap {
									lookupMap, lookupKey = s.Obj(), canonExpr(info, ix.Index)
									if id, ok := as.Lhs[0].(*ast.Ident); ok {
										lockVar = info.Defs[id]
										if lockVar == nil {
											lockVar = info.Uses[id]
										}
									}
								}
							}
						}
					}
					if len(as.Lhs) == 1 {
						if id, ok := as.Lhs[0].(*ast.Ident); ok && lockVar != nil && info.Uses[id] == lockVar {
							switch x := ast.Unparen(as.Rhs[0]).(type) {
							case *ast.UnaryExpr:
								if _, ok := x.X.(*ast.CompositeLit); ok && x.Op == token.AND {
									created = true
								}
							case *ast.CallExpr:
								if fid, ok := x.Fun.(*ast.Ident); ok && fid.Name == "new" {
									created = true
								}
							}
						}
						if ix, ok := as.Lhs[0].(*ast.IndexExpr); ok {
							if ms, ok := ast.Unparen(ix.X).(*ast.SelectorExpr); ok {
								if s := info.Selections[ms]; s != nil && s.Obj() == lookupMap && canonExpr(info, ix.Index) == lookupKey {
									if id, ok := ast.Unparen(as.Rhs[0]).(*ast.Ident); ok && info.Uses[id] == lockVar {
										stored = true
									}
								}
							}
						}
					}
					return true
				})
				if lookupMap == nil {
					continue
				}
				// the result is the looked-up variable
				returnsIt := true
				ast.Inspect(fd.Body, func(m ast.Node) bool {
					if rs, ok := m.(*ast.ReturnStmt); ok && len(rs.Results) == 1 {
						if id, ok := ast.Unparen(rs.Results[0]).(*ast.Ident); !ok || info.Uses[id] != lockVar {
							returnsIt = false
						}
					}
					return true
				})
				r.check(returnsIt && (!created || stored), rule, fmt.Sprintf("%s.%s:one-lock-per-line", v.rel, declName(fd)), fd.Pos(), "the lock handed out for a line is the one stored in the table under the line's key (created: %v, stored under the looked-up key: %v)", created, stored)
			}
		}
	}
}

// ruleExitFlagCleared (R09.7 / R03.25 / R07.26): a drain loop of the CPU that ends on a local
// flag (`done := true` at the top of the body, `if done { break }` at its end) must clear the
// flag wherever it finds a component busy: every `if` of the body that tests the idleness of
// a bus, coroutine or unit clears the flag on its busy side. A test that no longer clears the
// flag ends the drain while that component still holds older work.
func ruleExitFlagCleared(r *Run, rule string) {
	w := r.W
	for _, v := range variants(w) {
		if v.pkg == nil || !v.pipelined() || v.cpu == nil {
			continue
		}
		info := v.info
		for _, f := range v.pkg.Syntax {
			for _, d := range f.Decls {
				fd, ok := d.(*ast.FuncDecl)
				if !ok || fd.Body == nil || fd.Recv == nil || len(fd.Recv.List) != 1 || namedOf(info.TypeOf(fd.Recv.List[0].Type)) != v.cpu {
					continue
				}
				nLoop := 0
				ast.Inspect(fd.Body, func(m ast.Node) bool {
					fs, ok := m.(*ast.ForStmt)
					if !ok || fs.Cond != nil {
						return true
					}
					// flag := true among the top statements; if flag { break } among them too
					var flag types.Object
					for _, st := range fs.Body.List {
						if as, ok := st.(*ast.AssignStmt); ok && as.Tok == token.DEFINE && len(as.Lhs) == 1 && len(as.Rhs) == 1 {
							if tv, ok := info.Types[as.Rhs[0]]; ok && tv.Value != nil && tv.Value.String() == "true" {
								if id, ok := as.Lhs[0].(*ast.Ident); ok {
									flag = info.Defs[id]
								}
							}
						}
					}
					if flag == nil {
						return true
					}
					exits := false
					for _, st := range fs.Body.List {
						if is, ok := st.(*ast.IfStmt); ok {
							if id, ok := ast.Unparen(is.Cond).(*ast.Ident); ok && info.Uses[id] == flag && len(is.Body.List) == 1 {
								if b, ok := is.Body.List[0].(*ast.BranchStmt); ok && b.Tok == token.BREAK {
									exits = true
								}
							}
						}
					}
					if !exits {
						return true
					}
					nLoop++
					clears := func(list []ast.Stmt) bool {
						for _, st := range list {
							if as, ok := st.(*ast.AssignStmt); ok && len(as.Lhs) == 1 && len(as.Rhs) == 1 {
								if id, ok := as.Lhs[0].(*ast.Ident); ok && info.Uses[id] == flag {
									if tv, ok := info.Types[as.Rhs[0]]; ok && tv.Value != nil && tv.Value.String() == "false" {
										return true
									}
								}
							}
						}
						return false
					}
					polarity := func(e ast.Expr) string { return idlePolarity(w, v, info, e) }
					n := 0
					var walk func(list []ast.Stmt)
					walk = func(list []ast.Stmt) {
						for i, st := range list {
							switch x := st.(type) {
							case *ast.RangeStmt:
								walk(x.Body.List)
							case *ast.BlockStmt:
								walk(x.List)
							case *ast.IfStmt:
								tests := map[string]idleTest{}
								idleTestsIn(w, v, info, x.Cond, 0, tests)
								if len(tests) == 0 {
									walk(x.Body.List)
									continue
								}
								n++
								key := fmt.Sprintf("%s.%s:exit-flag#%d:busy(%s)#%d", v.rel, declName(fd), nLoop, strings.Join(sortedKeys(tests), ","), n)
								switch polarity(x.Cond) {
								case "busy":
									r.check(clears(x.Body.List), rule, key, x.Pos(), "the drain finds the component busy and clears its exit flag")
									walk(x.Body.List)
								case "idle":
									leaves := len(x.Body.List) > 0
									if leaves {
										b, ok := x.Body.List[len(x.Body.List)-1].(*ast.BranchStmt)
										leaves = ok && b.Tok == token.CONTINUE
									}
									if leaves {
										r.check(clears(list[i+1:]), rule, key, x.Pos(), "the drain skips an idle component and clears its exit flag for a busy one")
									} else {
										r.undecided(rule, key, x.Pos(), "idleness test of an unrecognised form in a drain loop with an exit flag")
									}
								default:
									r.undecided(rule, key, x.Pos(), "idleness test of an unrecognised form in a drain loop with an exit flag")
								}
							}
						}
					}
					walk(fs.Body.List)
					return true
				})
			}
		}
	}
}

// ruleFlushEmptiesContainers (R03.26): a unit's flush empties every CONTAINER of in-flight
// instructions the unit owns (queue, slice or map whose elements are instructions or
// executions) — unless the unit's step re-creates the container unconditionally at its top
// level every cycle. A wrong-path instruction left in a container is dispatched, or
// consulted for hazards and forwarding, after the flush.
func ruleFlushEmptiesContainers(r *Run, rule string) {
	w := r.W
	for _, v := range variants(w) {
		if v.pkg == nil || !v.pipelined() {
			continue
		}
		info := v.info
		var mentions func(t types.Type, depth int) bool
		mentions = func(t types.Type, depth int) bool {
			if depth > 4 {
				return false
			}
			switch x := t.(type) {
			case *types.Pointer:
				return mentions(x.Elem(), depth+1)
			case *types.Slice:
				return mentions(x.Elem(), depth+1)
			case *types.Map:
				return mentions(x.Key(), depth+1) || mentions(x.Elem(), depth+1)
			case *types.Named:
				if x.Obj().Pkg() != nil && x.Obj().Pkg().Path() == modPath+"/risc" && (x.Obj().Name() == "InstructionRunnerPc" || x.Obj().Name() == "ExecutionContext") {
					return true
				}
				if ta := x.TypeArgs(); ta != nil {
					for i := 0; i < ta.Len(); i++ {
						if mentions(ta.At(i), depth+1) {
							return true
						}
					}
				}
			}
			return false
		}
		isContainer := func(t types.Type) bool {
			if p, ok := t.(*types.Pointer); ok {
				t = p.Elem()
			}
			switch t.Underlying().(type) {
			case *types.Slice, *types.Map:
				return true
			}
			return isCompType(t, "Queue")
		}
		seenT := map[*types.Named]bool{}
		for _, f := range v.fields {
			if !f.isUnit || f.unitT == nil || seenT[f.unitT] {
				continue
			}
			seenT[f.unitT] = true
			T := f.unitT
			fl := hasDeclMethod(T, "flush")
			st := structOf(T)
			if fl == nil || st == nil {
				continue
			}
			ffd, _ := w.FuncDecl(fl)
			if ffd == nil {
				continue
			}
			// what a body resets: fields assigned, or on which Clean/Flush/Reset is called, or clear()ed
			resets := func(list []ast.Stmt, deep bool) map[*types.Var]bool {
				out := map[*types.Var]bool{}
				fieldOf := func(e ast.Expr) *types.Var {
					if sel, ok := ast.Unparen(e).(*ast.SelectorExpr); ok {
						if s := info.Selections[sel]; s != nil && s.Kind() == types.FieldVal {
							if fv, ok := s.Obj().(*types.Var); ok {
								return fv
							}
						}
					}
					return nil
				}
				visit := func(n ast.Node) {
					switch x := n.(type) {
					case *ast.AssignStmt:
						for _, l := range x.Lhs {
							if fv := fieldOf(l); fv != nil {
								out[fv] = true
							}
						}
					case *ast.CallExpr:
						if id, ok := x.Fun.(*ast.Ident); ok && id.Name == "clear" && len(x.Args) == 1 {
							if fv := fieldOf(x.Args[0]); fv != nil {
								out[fv] = true
							}
						}
						if sel, ok := x.Fun.(*ast.SelectorExpr); ok {
							switch sel.Sel.Name {
							case "Clean", "Flush", "Reset", "Clear":
								if fv := fieldOf(sel.X); fv != nil {
									out[fv] = true
								}
							}
						}
					}
				}
				for _, st := range list {
					if deep {
						ast.Inspect(st, func(n ast.Node) bool { visit(n); return true })
					} else {
						visit(st)
						if es, ok := st.(*ast.ExprStmt); ok {
							visit(es.X)
						}
					}
				}
				return out
			}
			byFlush := resets(ffd.Body.List, true)
			// methods of T called by flush
			for _, cf := range calleesIn(info, ffd.Body) {
				if sig, ok := cf.Type().(*types.Signature); ok && sig.Recv() != nil && namedOf(sig.Recv().Type()) == T {
					if cfd, _ := w.FuncDecl(cf); cfd != nil && cfd.Body != nil {
						for k := range resets(cfd.Body.List, true) {
							byFlush[k] = true
						}
					}
				}
			}
			byStep := map[*types.Var]bool{}
			stepFn := hasDeclMethod(T, "cycle")
			if stepFn == nil {
				stepFn = hasDeclMethod(T, "Cycle")
			}
			if stepFn != nil {
				if sfd, _ := w.FuncDecl(stepFn); sfd != nil && sfd.Body != nil {
					byStep = resets(sfd.Body.List, false)
				}
			}
			for i := 0; i < st.NumFields(); i++ {
				fv := st.Field(i)
				if !isContainer(fv.Type()) || !mentions(fv.Type(), 0) {
					continue
				}
				r.check(byFlush[fv] || byStep[fv], rule, fmt.Sprintf("%s.(%s).flush:empties(%s)", v.rel, T.Obj().Name(), fv.Name()), ffd.Pos(), "the flush of %s empties its container of in-flight instructions %s (or the unit's step re-creates it unconditionally every cycle)", T.Obj().Name(), fv.Name())
			}
		}
	}
}

func recvNamed(info *types.Info, fd *ast.FuncDecl) *types.Named {
	if fd.Recv == nil || len(fd.Recv.List) != 1 {
		return nil
	}
	return namedOf(info.TypeOf(fd.Recv.List[0].Type))
}

// ruleLoadDataReachesRun (R10.10 / R05.14 / R01.14): where the bytes a load reads are handed to
// the instruction through a field of the execute unit (Run(…, u.memory, …)), every transfer of
// control to the run step taken for an instruction WITH read addresses (inside the
// `len(MemoryRead(…)) != 0` branch) is preceded, on its own path, by an assignment of that
// field. A path that skips the assignment executes the load on the bytes of an earlier load.
func ruleLoadDataReachesRun(r *Run, rule string) {
	w := r.W
	for _, v := range variants(w) {
		if v.pkg == nil || !v.pipelined() {
			continue
		}
		info := v.info
		// the run step: a method that calls Runner.Run with a field of its receiver as the memory argument
		type runStep struct {
			fn  *types.Func
			fld *types.Var
		}
		var steps []runStep
		for _, f := range v.pkg.Syntax {
			for _, d := range f.Decls {
				fd, ok := d.(*ast.FuncDecl)
				if !ok || fd.Body == nil || fd.Recv == nil {
					continue
				}
				ast.Inspect(fd.Body, func(m ast.Node) bool {
					call, ok := m.(*ast.CallExpr)
					if !ok || len(call.Args) != 5 {
						return true
					}
					cf, ok := typeutil.Callee(info, call).(*types.Func)
					if !ok || cf.Name() != "Run" || cf.Pkg() == nil || cf.Pkg().Path() != modPath+"/risc" {
						return true
					}
					if sel, ok := ast.Unparen(call.Args[3]).(*ast.SelectorExpr); ok {
						if s := info.Selections[sel]; s != nil && s.Kind() == types.FieldVal {
							if fn, ok := info.Defs[fd.Name].(*types.Func); ok {
								steps = append(steps, runStep{fn, s.Obj().(*types.Var)})
							}
						}
					}
					return true
				})
			}
		}
		for _, rs := range steps {
			for _, f := range v.pkg.Syntax {
				for _, d := range f.Decls {
					fd, ok := d.(*ast.FuncDecl)
					if !ok || fd.Body == nil {
						continue
					}
					// addrs := X.MemoryRead(…)
					var addrs types.Object
					ast.Inspect(fd.Body, func(m ast.Node) bool {
						as, ok := m.(*ast.AssignStmt)
						if !ok || len(as.Lhs) != 1 || len(as.Rhs) != 1 {
							return true
						}
						if call, ok := as.Rhs[0].(*ast.CallExpr); ok {
							if cf, ok := typeutil.Callee(info, call).(*types.Func); ok && cf.Name() == "MemoryRead" {
								if id, ok := as.Lhs[0].(*ast.Ident); ok {
									addrs = info.Defs[id]
								}
							}
						}
						return true
					})
					if addrs == nil {
						continue
					}
					n := 0
					ast.Inspect(fd.Body, func(m ast.Node) bool {
						is, ok := m.(*ast.IfStmt)
						if !ok {
							return true
						}
						// len(addrs) != 0 / > 0
						b, ok := ast.Unparen(is.Cond).(*ast.BinaryExpr)
						if !ok || (b.Op != token.NEQ && b.Op != token.GTR) {
							return true
						}
						lc, ok := ast.Unparen(b.X).(*ast.CallExpr)
						if !ok || len(lc.Args) != 1 {
							return true
						}
						if id, ok := lc.Fun.(*ast.Ident); !ok || id.Name != "len" {
							return true
						}
						if id, ok := ast.Unparen(lc.Args[0]).(*ast.Ident); !ok || info.Uses[id] != addrs {
							return true
						}
						// references to the run step inside the branch
						var refs []ast.Node
						ast.Inspect(is.Body, func(k ast.Node) bool {
							if sel, ok := k.(*ast.SelectorExpr); ok {
								if s := info.Selections[sel]; s != nil && s.Kind() == types.MethodVal && s.Obj() == rs.fn {
									refs = append(refs, sel)
								}
							}
							return true
						})
						for _, ref := range refs {
							n++
							r.check(assignedBefore(info, is.Body, ref, rs.fld), rule, fmt.Sprintf("%s.%s:load-data#%d", v.rel, declName(fd), n), ref.Pos(), "on this path to the run step of an instruction that reads memory, the field %s handed to Run is assigned first", rs.fld.Name())
						}
						return false
					})
				}
			}
		}
	}
}

// assignedBefore: walking from root down to ref, some statement list on the way holds, before the
// statement that contains ref, a statement that IS an assignment to field fld (lexical dominance).
func assignedBefore(info *types.Info, root ast.Node, ref ast.Node, fld *types.Var) bool {
	contains := func(n ast.Node) bool { return n.Pos() <= ref.Pos() && ref.End() <= n.End() }
	isAssign := func(st ast.Stmt) bool {
		as, ok := st.(*ast.AssignStmt)
		if !ok {
			return false
		}
		for _, l := range as.Lhs {
			if sel, ok := ast.Unparen(l).(*ast.SelectorExpr); ok {
				if s := info.Selections[sel]; s != nil && s.Obj() == fld {
					return true
				}
			}
		}
		return false
	}
	found := false
	ast.Inspect(root, func(n ast.Node) bool {
		if n == nil || found || !contains(n) {
			return false
		}
		var list []ast.Stmt
		switch x := n.(type) {
		case *ast.BlockStmt:
			list = x.List
		case *ast.CaseClause:
			list = x.Body
		case *ast.CommClause:
			list = x.Body
		}
		for _, st := range list {
			if contains(st) {
				break
			}
			if isAssign(st) {
				found = true
			}
		}
		return true
	})
	return found
}

// ruleForwardedValueDelivered (R04.17): in the execute unit of a forwarding variant the operand
// handed to the instruction (Forward{Value, Register}) is the value RECEIVED on the forwarding
// channel, for the register recorded at dispatch (ForwardRegister). A received value that is
// dropped leaves the instruction computing on 0.
func ruleForwardedValueDelivered(r *Run, rule string) {
	w := r.W
	for _, v := range variants(w) {
		if v.pkg == nil || !v.pipelined() {
			continue
		}
		info := v.info
		for _, f := range v.pkg.Syntax {
			for _, d := range f.Decls {
				fd, ok := d.(*ast.FuncDecl)
				if !ok || fd.Body == nil {
					continue
				}
				n := 0
				ast.Inspect(fd.Body, func(m ast.Node) bool {
					cl, ok := m.(*ast.CompositeLit)
					if !ok || len(cl.Elts) == 0 {
						return true
					}
					nt := namedOf(info.TypeOf(cl))
					if nt == nil || nt.Obj().Pkg() == nil || nt.Obj().Pkg().Path() != modPath+"/risc" || nt.Obj().Name() != "Forward" {
						return true
					}
					n++
					var valE, regE ast.Expr
					for _, e := range cl.Elts {
						if kv, ok := e.(*ast.KeyValueExpr); ok {
							if k, ok := kv.Key.(*ast.Ident); ok {
								switch k.Name {
								case "Value":
									valE = kv.Value
								case "Register":
									regE = kv.Value
								}
							}
						}
					}
					// received variables: v := <-ch in a select/receive
					recv := map[types.Object]bool{}
					ast.Inspect(fd.Body, func(k ast.Node) bool {
						as, ok := k.(*ast.AssignStmt)
						if !ok || len(as.Rhs) != 1 {
							return true
						}
						if u, ok := ast.Unparen(as.Rhs[0]).(*ast.UnaryExpr); ok && u.Op == token.ARROW {
							if id, ok := as.Lhs[0].(*ast.Ident); ok {
								if o := info.Defs[id]; o != nil {
									recv[o] = true
								} else if o := info.Uses[id]; o != nil {
									recv[o] = true
								}
							}
						}
						return true
					})
					good := false
					if id, ok := ast.Unparen(valE).(*ast.Ident); ok {
						vo := info.Uses[id]
						if recv[vo] {
							good = true
						}
						// value = v with v received; and no other non-declaration assignment
						other := false
						ast.Inspect(fd.Body, func(k ast.Node) bool {
							as, ok := k.(*ast.AssignStmt)
							if !ok || len(as.Lhs) != 1 || len(as.Rhs) != 1 {
								return true
							}
							if l, ok := as.Lhs[0].(*ast.Ident); ok && info.Uses[l] == vo {
								if rid, ok := ast.Unparen(as.Rhs[0]).(*ast.Ident); ok && recv[info.Uses[rid]] {
									good = true
								} else {
									other = true
								}
							}
							return true
						})
						if other {
							good = false
						}
					}
					regOK := false
					if sel, ok := ast.Unparen(regE).(*ast.SelectorExpr); ok {
						if s := info.Selections[sel]; s != nil && s.Kind() == types.FieldVal && s.Obj().Name() == "ForwardRegister" {
							regOK = true
						}
					}
					r.check(good && regOK, rule, fmt.Sprintf("%s.%s:forwarded-operand#%d", v.rel, declName(fd), n), cl.Pos(), "the operand handed to the instruction is the value received on the forwarding channel (%v), for the register recorded at dispatch (%v)", good, regOK)
					return true
				})
			}
		}
	}
}

// ruleFlushResetsCompletionFlags (R03.27 / R09.8): a bool field that a unit's emptiness
// predicate reads and that the unit raises while it works (fetch complete, ret seen) is
// lowered by the unit's flush: after a flush the unit works again, and a predicate that still
// answers "done" lets the run end while the refilled pipeline holds instructions.
func ruleFlushResetsCompletionFlags(r *Run, rule string) {
	w := r.W
	for _, v := range variants(w) {
		if v.pkg == nil || !v.pipelined() {
			continue
		}
		seen := map[*types.Named]bool{}
		for _, f := range v.fields {
			if !f.isUnit || f.unitT == nil || seen[f.unitT] {
				continue
			}
			seen[f.unitT] = true
			T := f.unitT
			ie, fl := hasDeclMethod(T, "isEmpty"), hasDeclMethod(T, "flush")
			if ie == nil || fl == nil {
				continue
			}
			ifd, ipk := w.FuncDecl(ie)
			ffd, fpk := w.FuncDecl(fl)
			if ifd == nil || ffd == nil || ifd.Body == nil || ffd.Body == nil {
				continue
			}
			read := map[*types.Var]bool{}
			ast.Inspect(ifd.Body, func(n ast.Node) bool {
				if sel, ok := n.(*ast.SelectorExpr); ok {
					if s := ipk.TypesInfo.Selections[sel]; s != nil && s.Kind() == types.FieldVal && typeName(s.Obj().Type()) == "bool" {
						read[s.Obj().(*types.Var)] = true
					}
				}
				return true
			})
			assignedIn := func(fd *ast.FuncDecl, info *types.Info, fv *types.Var, val string) bool {
				found := false
				ast.Inspect(fd.Body, func(n ast.Node) bool {
					if as, ok := n.(*ast.AssignStmt); ok && len(as.Lhs) == 1 && len(as.Rhs) == 1 {
						if sel, ok := ast.Unparen(as.Lhs[0]).(*ast.SelectorExpr); ok {
							if s := info.Selections[sel]; s != nil && s.Obj() == fv {
								if tv := info.Types[as.Rhs[0]]; tv.Value != nil && tv.Value.String() == val {
									found = true
								}
							}
						}
					}
					return true
				})
				return found
			}
			var flds []*types.Var
			for fv := range read {
				flds = append(flds, fv)
			}
			sort.Slice(flds, func(i, j int) bool { return flds[i].Name() < flds[j].Name() })
			for _, fv := range flds {
				raised := false
				for i := 0; i < T.NumMethods(); i++ {
					if mfd, mpk := w.FuncDecl(T.Method(i)); mfd != nil && mfd.Body != nil && mfd != ffd {
						if assignedIn(mfd, mpk.TypesInfo, fv, "true") {
							raised = true
						}
					}
				}
				if !raised {
					continue
				}
				r.check(assignedIn(ffd, fpk.TypesInfo, fv, "false"), rule, fmt.Sprintf("%s.(%s).flush:lowers(%s)", v.rel, T.Obj().Name(), fv.Name()), ffd.Pos(), "the flag %s, which the emptiness predicate of %s reads and the unit raises while it works, is lowered by the unit's flush", fv.Name(), T.Obj().Name())
			}
		}
	}
}

// ruleDispatchDecision (R04.18 / R03.28 / R09.9): the control unit's dispatch decision — the
// function that consults the scoreboard classifier and puts an instruction on the execute bus
// — equals its reference model as a decision procedure: with the predicates it consults and
// the dispatch itself uninterpreted, the outcome (dispatched? stop looking at younger
// instructions?), the wiring of the forwarding channel and the order of the consultations are
// the reference's on EVERY combination of the answers. This fixes the polarity of every
// guard: the branch-per-cycle hold, the hold of ret behind the bus and behind an unresolved
// conditional branch, held-back dependences, no-hazard / forwarding / renaming.
func ruleDispatchDecision(r *Run, rule string) {
	w := r.W
	for _, v := range variants(w) {
		if v.pkg == nil || !multiExec(v) {
			continue
		}
		info := v.info
		for _, f := range v.fields {
			if !f.isUnit || f.unitT == nil {
				continue
			}
			var decide *ast.FuncDecl
			for i := 0; i < f.unitT.NumMethods(); i++ {
				fd, _ := w.FuncDecl(f.unitT.Method(i))
				if fd == nil || fd.Body == nil {
					continue
				}
				ast.Inspect(fd.Body, func(n ast.Node) bool {
					if c, ok := n.(*ast.CallExpr); ok {
						if fn, ok := typeutil.Callee(info, c).(*types.Func); ok && fn.Name() == "IsDataHazard3" {
							decide = fd
						}
					}
					return true
				})
			}
			if decide == nil {
				continue
			}
			tn := f.unitT.Obj().Name()
			opaque := map[string]bool{"(*Context).IsDataHazard3": true, "(InstructionType).IsBranch": true}
			for i := 0; i < f.unitT.NumMethods(); i++ {
				m := f.unitT.Method(i)
				if m.Name() != decide.Name.Name {
					opaque["(*"+tn+")."+m.Name()] = true
				}
			}
			// the predicates that change nothing (their own term has no write and no effect) may be consulted in any order
			pure := map[string]bool{"(*Context).IsDataHazard3": true, "(InstructionType).IsBranch": true}
			for _, mname := range []string{"IsDataHazard3"} {
				if mfd, mpk := w.Method("risc", "Context", mname); mfd != nil {
					pure["(*Context)."+mname] = termIsPure(w, mfd, mpk)
				}
			}
			for i := 0; i < f.unitT.NumMethods(); i++ {
				m := f.unitT.Method(i)
				if m.Name() == decide.Name.Name {
					continue
				}
				if mfd, mpk := w.FuncDecl(m); mfd != nil && mfd.Body != nil {
					if sig := m.Type().(*types.Signature); sig.Results().Len() > 0 && typeName(sig.Results().At(0).Type()) == "bool" {
						pure["(*"+tn+")."+m.Name()] = termIsPure(w, mfd, mpk)
					}
				}
			}
			setup := func(in *Interp) { in.opaqueMethods = opaque; in.pureOpaque = pure }
			var refs []string
			switch {
			case hasDeclMethod(f.unitT, "shouldUseRenaming") != nil:
				refs = []string{"cu_dispatch63"}
			case hasDeclMethod(f.unitT, "shouldUseForwarding") != nil:
				refs = []string{"cu_dispatch61", "cu_dispatch62"}
			default:
				refs = []string{"cu_dispatch60"}
			}
			conformAny(r, rule, v.rel, tn, decide.Name.Name, refs, setup)
		}
	}
}

// ruleLatencyClassConstant (R12.10): the flags of an instruction's Execution that select its
// write-back latency in the cost model (RegisterChange: register access; MemoryChange: memory
// access) are the same CONSTANT on every non-error outcome of the opcode's Run — they depend on
// the opcode, not on operand fields or values (an indirect jump with rd = zero is still charged
// the register access its class is charged).
func ruleLatencyClassConstant(r *Run, rule string) {
	a := analyseISA(r.W)
	for _, op := range a.ops {
		key := "risc.(*" + op.typeName + ").Run:latency-class"
		t := op.terms["Run"]
		if t == nil {
			r.undecided(rule, key, op.pos["Run"], "Run is not in a recognised form: %s", op.errs["Run"])
			continue
		}
		seen := map[string]bool{}
		nonConst := false
		var walk func(t *Term)
		walk = func(t *Term) {
			if t.Op == "ite" {
				walk(t.Args[1])
				walk(t.Args[2])
				return
			}
			if t.Op != "out" || len(t.Args) == 0 || len(t.Args[0].Args) != 2 {
				return
			}
			ex, errT := t.Args[0].Args[0], t.Args[0].Args[1]
			if errT.Op != "nil" && !(errT.Op == "const" && strings.HasPrefix(errT.S, "nil")) {
				return // an error outcome
			}
			if !strings.HasPrefix(ex.Op+":"+ex.S, "struct:Execution") && ex.Op != "struct" {
				nonConst = true
				return
			}
			flags := map[string]string{"RegisterChange": "false", "MemoryChange": "false"}
			for _, fv := range ex.Args {
				if fv.Op != "fv" {
					continue
				}
				if _, ok := flags[fv.Hint]; ok {
					if b, isC := fv.Args[0].constBool(); isC {
						flags[fv.Hint] = fmt.Sprint(b)
					} else {
						nonConst = true
					}
				}
			}
			seen["reg="+flags["RegisterChange"]+" mem="+flags["MemoryChange"]] = true
		}
		walk(t)
		r.check(!nonConst && len(seen) == 1, rule, key, op.pos["Run"], "%s: the flags that select the write-back latency are one constant pair on every successful outcome (seen: %v)", op.mnemonic, sortedKeys(seen))
	}
}

// ---- the program-order tag (R03.29 / R04.19 / R01.18)

// tagKind classifies risc.Context.SequenceID, the function whose result tags every decoded
// instruction: "counter" — the result is a field plus a positive constant and that same value is
// written back to the field (strictly increasing in decode order, whatever the pc);
// "pc-stride" — the result mentions the pc parameter (pc + epoch*K); "other".
func tagKind(w *World) (kind string, stride int64, pos token.Pos) {
	fd, pkg := w.Method("risc", "Context", "SequenceID")
	if fd == nil {
		return "missing", 0, token.NoPos
	}
	in := newInterp(w)
	t, err := in.FuncTerm(fd, pkg)
	if err != nil {
		return "other", 0, fd.Pos()
	}
	t = hoistAll(t)
	if t.Op != "out" || len(t.Args) < 2 || len(t.Args[0].Args) != 1 {
		return "other", 0, fd.Pos()
	}
	res := t.Args[0].Args[0]
	mentionsParam := false
	res.subst(func(x *Term) *Term {
		if x.Op == "param" {
			mentionsParam = true
		}
		if x.Op == "mul" && len(x.Args) == 2 {
			for _, a := range x.Args {
				if c, _, ok := a.constInt(); ok && c > 1 {
					stride = c
				}
			}
		}
		return nil
	})
	if mentionsParam {
		return "pc-stride", stride, fd.Pos()
	}
	// counter: res = add(const k>0, fld F) and the state writes F := res
	if res.Op == "add" && len(res.Args) == 2 {
		var k int64
		var f *Term
		for _, a := range res.Args {
			if c, _, ok := a.constInt(); ok {
				k = c
			} else if a.Op == "fld" {
				f = a
			}
		}
		if k > 0 && f != nil {
			wrote := false
			t.Args[1].subst(func(x *Term) *Term {
				if x.Op == "w" && len(x.Args) == 2 && x.Args[0].Key() == f.Key() && x.Args[1].Key() == res.Key() {
					wrote = true
				}
				return nil
			})
			if wrote {
				return "counter", 0, fd.Pos()
			}
		}
	}
	return "other", 0, fd.Pos()
}

// ruleTagMonotone: the tag given to an instruction at decode orders instructions by age: it
// is strictly larger than every tag given before. A counter is; a tag computed from the pc with
// a constant stride per epoch is only if every pc is below the stride, i.e. if something
// rejects programs longer than stride/4 instructions.
func ruleTagMonotone(r *Run, rule string) {
	w := r.W
	kind, stride, pos := tagKind(w)
	key := "risc.(Context).SequenceID:monotone"
	switch kind {
	case "counter":
		r.ok(rule, key, pos, "the tag is a counter incremented at every decode: strictly increasing in decode order")
	case "pc-stride":
		// a bound on the program length against the stride: a comparison of len(Instructions) (or of a pc) with a
		// constant >= the stride… in Parse or in a variant's Run
		bounded := false
		for path, p := range w.Pkgs {
			if !strings.HasPrefix(path, modPath) {
				continue
			}
			for _, f := range p.Syntax {
				ast.Inspect(f, func(n ast.Node) bool {
					b, ok := n.(*ast.BinaryExpr)
					if !ok || (b.Op != token.GTR && b.Op != token.GEQ && b.Op != token.LSS && b.Op != token.LEQ) {
						return true
					}
					for _, pair := range [][2]ast.Expr{{b.X, b.Y}, {b.Y, b.X}} {
						c, ok := constInt64(p.TypesInfo.Types[pair[1]])
						if !ok || stride == 0 || c*4 > stride || c < 16 {
							continue
						}
						if strings.Contains(types.ExprString(pair[0]), "Instructions") {
							bounded = true
						}
					}
					return true
				})
			}
		}
		r.check(bounded, rule, key, pos, "the tag is pc + epoch*%d: an instruction fetched after a backward redirect gets a smaller tag than an older in-flight instruction whose pc is >= %d, and nothing rejects programs of more than %d instructions", stride, stride, stride/4)
	default:
		r.undecided(rule, key, pos, "the tag function is of an unrecognised form (%s)", kind)
	}
}

// ruleErrorsNotSpeculative (R03.30): in the variants that execute instructions past an
// unresolved branch (several execute units), an error produced by an execute unit may be the
// error of a wrong-path instruction. Run must not return it in the step that produces it
// unconditionally: the return has to depend on the instruction's age (a sequence test against
// the pending flush, or a deferral to the write stage, which is sequence-filtered).
func ruleErrorsNotSpeculative(r *Run, rule string) {
	w := r.W
	for _, v := range variants(w) {
		if v.pkg == nil || !multiExec(v) || v.run == nil {
			continue
		}
		info := v.info
		loop := v.mainLoop()
		if loop == nil {
			continue
		}
		n := 0
		unconditional := 0
		ast.Inspect(loop, func(m ast.Node) bool {
			is, ok := m.(*ast.IfStmt)
			if !ok {
				return true
			}
			// if X.err != nil { return …, X.err }
			b, ok := ast.Unparen(is.Cond).(*ast.BinaryExpr)
			if !ok || b.Op != token.NEQ {
				return true
			}
			var errObj types.Object
			switch x := ast.Unparen(b.X).(type) {
			case *ast.SelectorExpr:
				s := info.Selections[x]
				if s == nil || s.Kind() != types.FieldVal || typeName(s.Obj().Type()) != "error" {
					return true
				}
				rt := namedOf(s.Recv())
				if rt == nil || !strings.HasSuffix(strings.ToLower(rt.Obj().Name()), "resp") {
					return true
				}
				errObj = s.Obj()
			case *ast.Ident:
				// err from `…, err := unit.cycle(…)` (in the if's init or just before)
				o := info.Uses[x]
				if o == nil || typeName(o.Type()) != "error" {
					return true
				}
				fromStep := false
				ast.Inspect(loop, func(k ast.Node) bool {
					as, ok := k.(*ast.AssignStmt)
					if !ok || len(as.Rhs) != 1 {
						return true
					}
					defines := false
					for _, l := range as.Lhs {
						if id, ok := l.(*ast.Ident); ok && (info.Defs[id] == o || info.Uses[id] == o) {
							defines = true
						}
					}
					if call, ok := as.Rhs[0].(*ast.CallExpr); ok && defines {
						if cs, ok := call.Fun.(*ast.SelectorExpr); ok && strings.EqualFold(cs.Sel.Name, "cycle") {
							fromStep = true
						}
					}
					return true
				})
				if !fromStep {
					return true
				}
				errObj = o
			default:
				return true
			}
			returnsIt := false
			for _, st := range is.Body.List {
				if rs, ok := st.(*ast.ReturnStmt); ok && len(rs.Results) == 2 {
					switch y := ast.Unparen(rs.Results[1]).(type) {
					case *ast.SelectorExpr:
						if info.Selections[y] != nil && info.Selections[y].Obj() == errObj {
							returnsIt = true
						}
					case *ast.Ident:
						if info.Uses[y] == errObj {
							returnsIt = true
						}
					}
				}
			}
			if returnsIt {
				n++
				unconditional++
			}
			return true
		})
		if n == 0 {
			// errors are not returned from the main loop at all: deferred (to the write stage) or lost — R07.17 decides the latter
			r.ok(rule, v.rel+".(CPU).Run:error-age", v.run.Pos(), "no execute-unit error is returned from the main loop in the step that produces it")
			continue
		}
		r.check(unconditional == 0, rule, v.rel+".(CPU).Run:error-age", v.run.Pos(), "an error handed over by an execute unit is returned by Run in the very step, whatever the age of the instruction (%d sites): the error of an instruction on the wrong path of an unresolved older branch fails the run", unconditional)
	}
}

// ruleInOrderStall (R04.20): in the variants whose execute unit consults the scoreboard itself
// (MVP-4, MVP-5), the instruction is executed only when the scoreboard reports no pending
// write of a register it READS: the test `if ctx.IsWriteDataHazard(<runner>.ReadRegisters()) {
// …leave }` — positive, its body leaving the step without running the instruction — stands, in
// its statement list, before everything that computes the read addresses or runs the
// instruction.
func ruleInOrderStall(r *Run, rule string) {
	w := r.W
	for _, v := range variants(w) {
		if v.pkg == nil || !v.pipelined() {
			continue
		}
		info := v.info
		for _, f := range v.pkg.Syntax {
			for _, d := range f.Decls {
				fd, ok := d.(*ast.FuncDecl)
				if !ok || fd.Body == nil {
					continue
				}
				// does the function consult the classifier at all (anywhere, any polarity)?
				consults := false
				ast.Inspect(fd.Body, func(m ast.Node) bool {
					if call, ok := m.(*ast.CallExpr); ok {
						if fn, ok := typeutil.Callee(info, call).(*types.Func); ok && fn.Name() == "IsWriteDataHazard" {
							consults = true
						}
					}
					return true
				})
				if !consults {
					continue
				}
				// the well-formed stall in a statement list, and what follows it
				good := false
				var walk func(list []ast.Stmt)
				walk = func(list []ast.Stmt) {
					stalled := false
					for _, st := range list {
						if is, ok := st.(*ast.IfStmt); ok {
							if call, ok := ast.Unparen(is.Cond).(*ast.CallExpr); ok && is.Else == nil {
								if fn, ok := typeutil.Callee(info, call).(*types.Func); ok && fn.Name() == "IsWriteDataHazard" && len(call.Args) == 1 {
									readsArg := false
									if ac, ok := ast.Unparen(call.Args[0]).(*ast.CallExpr); ok {
										if as, ok := ac.Fun.(*ast.SelectorExpr); ok && as.Sel.Name == "ReadRegisters" {
											readsArg = true
										}
									}
									runsInside := w.reaches(info, is.Body, func(fn *types.Func) bool {
										return fn.Name() == "Run" && fn.Pkg() != nil && fn.Pkg().Path() == modPath+"/risc"
									})
									if readsArg && terminates(is.Body.List) && !runsInside {
										stalled = true
										continue
									}
								}
							}
						}
						// anything that runs the instruction or computes its addresses
						runs := w.reaches(info, st, func(fn *types.Func) bool {
							return (fn.Name() == "Run" || fn.Name() == "MemoryRead") && fn.Pkg() != nil && fn.Pkg().Path() == modPath+"/risc"
						})
						if runs && stalled {
							good = true
						}
						if runs && !stalled {
							// the instruction is reached without the stall in this list: only acceptable in a list that is
							// itself behind a stall (the resumption of a pending memory read)
						}
					}
				}
				walk(fd.Body.List)
				r.check(good, rule, fmt.Sprintf("%s.%s:stall-on-pending-write", v.rel, declName(fd)), fd.Pos(), "the execute unit leaves the step while a register the instruction reads has a pending write (positive test on ReadRegisters(), before the instruction's addresses are computed and before it runs)")
			}
		}
	}
}

// ruleEveryExecutionReleased (R04.21 / R07.27): the scoreboard entries raised at dispatch are
// released for EVERY instruction that leaves the pipeline, whatever it did. (a) In the write
// unit's accept step, which branches on what the execution changed (register / memory /
// nothing), every branch — the final "nothing to write" one included — releases, directly or
// in its continuation, as soon as one of them does. (b) An execute unit that performs a store
// in place (the line is in the cache) and ends the instruction there releases in that branch.
// An entry that is never released holds every later instruction that touches the register.
func ruleEveryExecutionReleased(r *Run, rule string) {
	w := r.W
	for _, v := range variants(w) {
		if v.pkg == nil || !v.pipelined() {
			continue
		}
		info := v.info
		releases := func(n ast.Node) bool {
			found := false
			if n == nil {
				return false
			}
			ast.Inspect(n, func(m ast.Node) bool {
				if c, ok := m.(*ast.CallExpr); ok {
					if fn, ok := typeutil.Callee(info, c).(*types.Func); ok && strings.HasPrefix(fn.Name(), "DeletePending") {
						found = true
					}
				}
				return true
			})
			return found
		}
		mentionsFlag := func(e ast.Expr, name string) bool {
			found := false
			ast.Inspect(e, func(m ast.Node) bool {
				if sel, ok := m.(*ast.SelectorExpr); ok && sel.Sel.Name == name {
					if s := info.Selections[sel]; s != nil && s.Kind() == types.FieldVal {
						found = true
					}
				}
				return true
			})
			return found
		}
		variantReleases := false
		for _, sf := range v.pkg.Syntax {
			if releases(sf) {
				variantReleases = true
			}
		}
		// (b) matters where a leaked READ entry holds a later writer for ever: the scoreboard tracks read
		// registers (AddPendingRegisters) and write-after-read is not renamed away
		tracksReads := w.reaches(info, v.run, func(fn *types.Func) bool { return fn.Name() == "AddPendingRegisters" })
		renames := w.reaches(info, v.run, func(fn *types.Func) bool { return fn.Name() == "TransactionRATWrite" })
		inPlaceMatters := tracksReads && !renames
		for _, f := range v.fields {
			if !f.isUnit || f.unitT == nil {
				continue
			}
			for i := 0; i < f.unitT.NumMethods(); i++ {
				fd, _ := w.FuncDecl(f.unitT.Method(i))
				if fd == nil || fd.Body == nil || !variantReleases {
					continue
				}
				tn := f.unitT.Obj().Name()
				n := 0
				ast.Inspect(fd.Body, func(m ast.Node) bool {
					is, ok := m.(*ast.IfStmt)
					if !ok {
						return true
					}
					// (a) the head of a chain on RegisterChange … MemoryChange
					if f.roles["write"] && !f.roles["exec"] && mentionsFlag(is.Cond, "RegisterChange") {
						// only where the scoreboard tracks READ registers too: an execution that writes no register
						// then still holds entries (a write-only scoreboard has nothing to release for it)
						tracksReads := false
						ast.Inspect(fd.Body, func(k ast.Node) bool {
							if c, ok := k.(*ast.CallExpr); ok {
								if fn, ok := typeutil.Callee(info, c).(*types.Func); ok && strings.HasPrefix(fn.Name(), "DeletePending") && len(c.Args) == 2 {
									tracksReads = true
								}
							}
							return true
						})
						if !tracksReads {
							return false
						}
						n++
						var missing []string
						cur := is
						k := 0
						for {
							k++
							refuses := false
							for _, st := range cur.Body.List {
								if es, ok := st.(*ast.ExprStmt); ok {
									if c, ok := es.X.(*ast.CallExpr); ok {
										if id, ok := c.Fun.(*ast.Ident); ok && id.Name == "panic" {
											refuses = true // this kind of execution is not accepted here at all
										}
									}
								}
							}
							if !releases(cur.Body) && !refuses {
								missing = append(missing, fmt.Sprintf("branch %d", k))
							}
							switch e := cur.Else.(type) {
							case *ast.IfStmt:
								cur = e
								continue
							case *ast.BlockStmt:
								if !releases(e) {
									missing = append(missing, "else")
								}
							default:
								missing = append(missing, "no else (an execution that changes nothing falls through unreleased)")
							}
							break
						}
						r.check(len(missing) == 0, rule, fmt.Sprintf("%s.(%s).%s:release-every-kind#%d", v.rel, tn, fd.Name.Name, n), is.Pos(), "every kind of execution the write unit accepts (register result, store, nothing to write) releases the scoreboard (missing: %v)", missing)
						return false
					}
					// (b) a store performed in place by the execute unit
					if f.roles["exec"] && inPlaceMatters && mentionsFlag(is.Cond, "MemoryChange") && terminates(is.Body.List) {
						stores := w.reaches(info, is.Body, func(fn *types.Func) bool {
							sig := fn.Type().(*types.Signature)
							return sig.Recv() != nil && isCompType(sig.Recv().Type(), "LRUCache") && fn.Name() == "Write"
						})
						if stores {
							n++
							r.check(releases(is.Body), rule, fmt.Sprintf("%s.(%s).%s:release-in-place-store#%d", v.rel, tn, fd.Name.Name, n), is.Pos(), "a store the execute unit performs in place (the line is cached) and ends there releases the scoreboard in that branch")
						}
					}
					return true
				})
			}
		}
	}
}

// ruleFetchCleansAfterRedirect (R03.31): a redirect of the fetch unit that asks for it
// (reset(pc, cleanPending=true) at a jump resolution) removes the sequential pcs the unit had
// already pushed behind the jump: the bool field set from the redirect's flag guards a Clean of
// the unit's output bus and is lowered there. Otherwise the instructions behind the jump are
// decoded and executed as soon as the decode stall ends.
func ruleFetchCleansAfterRedirect(r *Run, rule string) {
	w := r.W
	for _, v := range variants(w) {
		if v.pkg == nil || !v.pipelined() {
			continue
		}
		info := v.info
		for _, f := range v.pkg.Syntax {
			for _, d := range f.Decls {
				fd, ok := d.(*ast.FuncDecl)
				if !ok || fd.Body == nil || fd.Recv == nil || fd.Type.Params == nil {
					continue
				}
				// redirect(pc int32, clean bool): u.F = clean
				var boolParam types.Object
				for _, fl := range fd.Type.Params.List {
					for _, nm := range fl.Names {
						if typeName(info.TypeOf(fl.Type)) == "bool" {
							boolParam = info.Defs[nm]
						}
					}
				}
				if boolParam == nil {
					continue
				}
				var flag *types.Var
				for _, st := range fd.Body.List {
					if as, ok := st.(*ast.AssignStmt); ok && len(as.Lhs) == 1 && len(as.Rhs) == 1 {
						if id, ok := ast.Unparen(as.Rhs[0]).(*ast.Ident); ok && info.Uses[id] == boolParam {
							if sel, ok := ast.Unparen(as.Lhs[0]).(*ast.SelectorExpr); ok {
								if s := info.Selections[sel]; s != nil && s.Kind() == types.FieldVal {
									flag, _ = s.Obj().(*types.Var)
								}
							}
						}
					}
				}
				recvT := recvNamed(info, fd)
				if flag == nil || recvT == nil || !strings.Contains(strings.ToLower(recvT.Obj().Name()), "fetch") {
					continue
				}
				good := false
				for _, f2 := range v.pkg.Syntax {
					ast.Inspect(f2, func(m ast.Node) bool {
						is, ok := m.(*ast.IfStmt)
						if !ok {
							return true
						}
						sel, ok := ast.Unparen(is.Cond).(*ast.SelectorExpr)
						if !ok || info.Selections[sel] == nil || info.Selections[sel].Obj() != flag {
							return true
						}
						cleans, lowers := false, false
						for _, st := range is.Body.List {
							switch x := st.(type) {
							case *ast.ExprStmt:
								if c, ok := x.X.(*ast.CallExpr); ok {
									if cs, ok := c.Fun.(*ast.SelectorExpr); ok && cs.Sel.Name == "Clean" && (isCompType(info.TypeOf(cs.X), "BufferedBus") || isCompType(info.TypeOf(cs.X), "SimpleBus")) {
										cleans = true
									}
								}
							case *ast.AssignStmt:
								if len(x.Lhs) == 1 && len(x.Rhs) == 1 {
									if ls, ok := ast.Unparen(x.Lhs[0]).(*ast.SelectorExpr); ok && info.Selections[ls] != nil && info.Selections[ls].Obj() == flag {
										if tv := info.Types[x.Rhs[0]]; tv.Value != nil && tv.Value.String() == "false" {
											lowers = true
										}
									}
								}
							}
						}
						if cleans && lowers {
							good = true
						}
						return true
					})
				}
				r.check(good, rule, fmt.Sprintf("%s.%s:cleans-fetched-pcs", v.rel, declName(fd)), fd.Pos(), "the flag set by a redirect that asks for it guards a Clean of the fetch unit's output bus and is lowered there")
			}
		}
	}
}

// ruleLimitInstalledPerUnit (R03.32): in the cycle in which an execute unit asks for a flush,
// the units stepped AFTER it in the same cycle must already see the limit (their pre-step
// squashes a younger instruction instead of running it: a younger branch must not ask for a
// flush of its own and override the restart pc). In the execute loop of the main loop the
// sequence limit is stored into each unit before the unit is stepped.
func ruleLimitInstalledPerUnit(r *Run, rule string) {
	w := r.W
	for _, v := range variants(w) {
		if v.pkg == nil || !multiExec(v) {
			continue
		}
		info := v.info
		_, flush := v.retAndFlushBranches()
		loop := v.mainLoop()
		if flush == nil || loop == nil {
			continue
		}
		fsv := flushStateVars(v, flush)
		if len(fsv) == 0 {
			continue
		}
		n := 0
		for _, st := range loop.Body.List {
			rs, ok := st.(*ast.RangeStmt)
			if !ok || rs.Pos() >= flush.Pos() {
				continue
			}
			// a range over the execute units that steps them and records flush requests
			steps := false
			var stepPos token.Pos
			ast.Inspect(rs.Body, func(m ast.Node) bool {
				if c, ok := m.(*ast.CallExpr); ok {
					if sel, ok := c.Fun.(*ast.SelectorExpr); ok && strings.EqualFold(sel.Sel.Name, "cycle") {
						if id, ok := ast.Unparen(sel.X).(*ast.Ident); ok && rs.Value != nil {
							if vid, ok := rs.Value.(*ast.Ident); ok && info.Uses[id] == info.Defs[vid] {
								steps = true
								if stepPos == 0 {
									stepPos = c.Pos()
								}
							}
						}
					}
				}
				return true
			})
			assignsState := false
			ast.Inspect(rs.Body, func(m ast.Node) bool {
				if as, ok := m.(*ast.AssignStmt); ok {
					for _, l := range as.Lhs {
						if id, ok := ast.Unparen(l).(*ast.Ident); ok {
							if o, ok := info.Uses[id].(*types.Var); ok && fsv[o] {
								assignsState = true
							}
						}
					}
				}
				return true
			})
			if !steps || !assignsState {
				continue
			}
			n++
			installed := false
			for _, bs := range rs.Body.List {
				if bs.Pos() >= stepPos {
					break
				}
				if as, ok := bs.(*ast.AssignStmt); ok && len(as.Lhs) == 1 && len(as.Rhs) == 1 {
					if sel, ok := ast.Unparen(as.Lhs[0]).(*ast.SelectorExpr); ok {
						if id, ok := ast.Unparen(sel.X).(*ast.Ident); ok && rs.Value != nil {
							if vid, ok := rs.Value.(*ast.Ident); ok && info.Uses[id] == info.Defs[vid] {
								if rid, ok := ast.Unparen(as.Rhs[0]).(*ast.Ident); ok {
									if o, ok := info.Uses[rid].(*types.Var); ok && fsv[o] {
										installed = true
									}
								}
							}
						}
					}
				}
			}
			r.check(installed, rule, fmt.Sprintf("%s.(CPU).Run:execute-loop#%d:limit-installed", v.rel, n), rs.Pos(), "the sequence limit of a flush requested earlier in the same cycle is stored into each execute unit before the unit is stepped")
		}
	}
}

// rulePerCycleFlagsLowered (R07.28): a bool field that the control unit's step raises when it
// dispatches (a branch was pushed this cycle, a conditional branch is unresolved) and that its
// dispatch decision tests is lowered again somewhere: unconditionally at the top level of the
// step (a per-cycle flag), by a notification method, or by the flush (R07.20 decides WHICH for
// the unresolved-branch flag). A flag that is only ever raised holds the instructions it guards
// for ever.
func rulePerCycleFlagsLowered(r *Run, rule string) {
	w := r.W
	for _, v := range variants(w) {
		if v.pkg == nil || !multiExec(v) {
			continue
		}
		for _, f := range v.fields {
			if !f.isUnit || f.unitT == nil {
				continue
			}
			st := structOf(f.unitT)
			stepFn := hasDeclMethod(f.unitT, "cycle")
			if st == nil || stepFn == nil {
				continue
			}
			sfd, spk := w.FuncDecl(stepFn)
			if sfd == nil || sfd.Body == nil {
				continue
			}
			info := spk.TypesInfo
			assigned := func(n ast.Node, fv *types.Var, val string, topOnly bool) bool {
				found := false
				check := func(s ast.Node) {
					if as, ok := s.(*ast.AssignStmt); ok && len(as.Lhs) == 1 && len(as.Rhs) == 1 {
						if sel, ok := ast.Unparen(as.Lhs[0]).(*ast.SelectorExpr); ok {
							if s2 := info.Selections[sel]; s2 != nil && s2.Obj() == fv {
								if tv := info.Types[as.Rhs[0]]; tv.Value != nil && tv.Value.String() == val {
									found = true
								}
							}
						}
					}
				}
				if topOnly {
					if b, ok := n.(*ast.BlockStmt); ok {
						for _, s := range b.List {
							check(s)
						}
					}
				} else {
					ast.Inspect(n, func(m ast.Node) bool { check(m); return true })
				}
				return found
			}
			for i := 0; i < st.NumFields(); i++ {
				fv := st.Field(i)
				if typeName(fv.Type()) != "bool" || !assigned(sfd.Body, fv, "true", false) {
					continue
				}
				lowered := assigned(sfd.Body, fv, "false", true)
				for j := 0; j < f.unitT.NumMethods() && !lowered; j++ {
					m := f.unitT.Method(j)
					if m == stepFn {
						continue
					}
					if mfd, mpk := w.FuncDecl(m); mfd != nil && mfd.Body != nil && mpk == spk {
						if assigned(mfd.Body, fv, "false", false) {
							lowered = true
						}
					}
				}
				r.check(lowered, rule, fmt.Sprintf("%s.(%s):%s-lowered", v.rel, f.unitT.Obj().Name(), fv.Name()), sfd.Pos(), "the flag %s, raised by the unit's step, is lowered at the top level of every step, by a notification or by the flush", fv.Name())
			}
		}
	}
}

// ruleStoreRoutingPolarity (R05.15): a store is applied to the data cache IN PLACE only on
// the side of the presence test on which every byte of it is resident: the call that writes the
// cached line stands in the then-branch of an `if` one of whose POSITIVE conjuncts is the
// presence test (a bool function that probes the cache). Routed the other way round, a store to
// an absent line is lost in the cache layer and a store to a resident line goes around the
// cache, whose stale copy later wins.
func ruleStoreRoutingPolarity(r *Run, rule string) {
	w := r.W
	for _, v := range variants(w) {
		if v.pkg == nil || usesLineLocks(w, v) {
			continue
		}
		info := v.info
		isCacheMethod := func(fn *types.Func, name string) bool {
			sig, ok := fn.Type().(*types.Signature)
			return ok && sig.Recv() != nil && isCompType(sig.Recv().Type(), "LRUCache") && fn.Name() == name
		}
		for _, f := range v.pkg.Syntax {
			for _, d := range f.Decls {
				fd, ok := d.(*ast.FuncDecl)
				if !ok || fd.Body == nil {
					continue
				}
				n := 0
				ast.Inspect(fd.Body, func(m ast.Node) bool {
					is, ok := m.(*ast.IfStmt)
					if !ok {
						return true
					}
					// the body performs an in-place store: a direct call (statement of the body) to a variant function that reaches LRUCache.Write
					inPlace := false
					for _, st := range is.Body.List {
						es, ok := st.(*ast.ExprStmt)
						if !ok {
							continue
						}
						call, ok := es.X.(*ast.CallExpr)
						if !ok {
							continue
						}
						fn, ok := typeutil.Callee(info, call).(*types.Func)
						if !ok || fn.Pkg() != v.pkg.Types {
							continue
						}
						if cfd, cpk := w.FuncDecl(fn); cfd != nil && cfd.Body != nil {
							if w.reaches(cpk.TypesInfo, cfd.Body, func(g *types.Func) bool { return isCacheMethod(g, "Write") }) {
								inPlace = true
							}
						}
					}
					if !inPlace {
						return true
					}
					// the condition consults a presence test at all?
					var probes []ast.Expr
					ast.Inspect(is.Cond, func(k ast.Node) bool {
						call, ok := k.(*ast.CallExpr)
						if !ok {
							return true
						}
						fn, ok := typeutil.Callee(info, call).(*types.Func)
						if !ok || fn.Pkg() != v.pkg.Types {
							return true
						}
						if sig := fn.Type().(*types.Signature); sig.Results().Len() != 1 || typeName(sig.Results().At(0).Type()) != "bool" {
							return true
						}
						if cfd, cpk := w.FuncDecl(fn); cfd != nil && cfd.Body != nil {
							if w.reaches(cpk.TypesInfo, cfd.Body, func(g *types.Func) bool { return isCacheMethod(g, "Get") }) {
								probes = append(probes, call)
							}
						}
						return true
					})
					if len(probes) == 0 {
						return true
					}
					n++
					positive := false
					for _, c := range conjuncts(is.Cond) {
						for _, p := range probes {
							if ast.Unparen(c) == p {
								positive = true
							}
						}
					}
					r.check(positive, rule, fmt.Sprintf("%s.%s:in-place-store#%d", v.rel, declName(fd), n), is.Pos(), "the store is written into the cached line on the side of the presence test on which all its bytes are resident (the test is a positive conjunct of the condition)")
					return true
				})
			}
		}
	}
}

// guardedBy reports whether node use, inside root, executes only when the bool variable bv is
// true: an enclosing `if` has bv as a positive conjunct of its condition and use lies in its
// then-branch, or use lies in the else-branch of an `if !bv`, or an earlier statement of an
// enclosing statement list is `if !bv { …leave }`.
func guardedBy(info *types.Info, root ast.Node, use ast.Node, bv types.Object) bool {
	contains := func(n ast.Node) bool { return n != nil && n.Pos() <= use.Pos() && use.End() <= n.End() }
	isPos := func(c ast.Expr) bool {
		for _, k := range conjuncts(c) {
			if id, ok := ast.Unparen(k).(*ast.Ident); ok && info.Uses[id] == bv {
				return true
			}
		}
		return false
	}
	isNeg := func(c ast.Expr) bool {
		if u, ok := ast.Unparen(c).(*ast.UnaryExpr); ok && u.Op == token.NOT {
			if id, ok := ast.Unparen(u.X).(*ast.Ident); ok && info.Uses[id] == bv {
				return true
			}
		}
		return false
	}
	ok := false
	ast.Inspect(root, func(n ast.Node) bool {
		if n == nil || ok || !contains(n) {
			return false
		}
		switch x := n.(type) {
		case *ast.IfStmt:
			if contains(x.Body) && isPos(x.Cond) {
				ok = true
			}
			if x.Else != nil && contains(x.Else) && isNeg(x.Cond) {
				ok = true
			}
		case *ast.BlockStmt:
			for _, st := range x.List {
				if contains(st) {
					break
				}
				if is, isIf := st.(*ast.IfStmt); isIf && isNeg(is.Cond) && terminates(is.Body.List) {
					ok = true
				}
			}
		}
		return true
	})
	return ok
}

// ruleProbeResultChecked (R05.16): the bytes a cache probe returns are used only where the
// probe's "found" result is known to be true.
func ruleProbeResultChecked(r *Run, rule string) {
	w := r.W
	for _, v := range variants(w) {
		if v.pkg == nil || !v.pipelined() {
			continue
		}
		info := v.info
		for _, f := range v.pkg.Syntax {
			for _, d := range f.Decls {
				fd, ok := d.(*ast.FuncDecl)
				if !ok || fd.Body == nil {
					continue
				}
				n := 0
				ast.Inspect(fd.Body, func(m ast.Node) bool {
					as, ok := m.(*ast.AssignStmt)
					if !ok || len(as.Rhs) != 1 || len(as.Lhs) < 2 {
						return true
					}
					call, ok := as.Rhs[0].(*ast.CallExpr)
					if !ok {
						return true
					}
					fn, ok := typeutil.Callee(info, call).(*types.Func)
					if !ok || fn.Pkg() != v.pkg.Types {
						return true
					}
					sig := fn.Type().(*types.Signature)
					if sig.Results().Len() < 2 || typeName(sig.Results().At(sig.Results().Len()-1).Type()) != "bool" || typeName(sig.Results().At(0).Type()) != "[]int8" {
						return true
					}
					cfd, cpk := w.FuncDecl(fn)
					if cfd == nil || cfd.Body == nil || !w.reaches(cpk.TypesInfo, cfd.Body, func(g *types.Func) bool {
						s2, ok := g.Type().(*types.Signature)
						return ok && s2.Recv() != nil && isCompType(s2.Recv().Type(), "LRUCache") && g.Name() == "Get"
					}) {
						return true
					}
					did, ok1 := as.Lhs[0].(*ast.Ident)
					eid, ok2 := as.Lhs[len(as.Lhs)-1].(*ast.Ident)
					if !ok1 || !ok2 || did.Name == "_" || eid.Name == "_" {
						return true
					}
					obj := func(id *ast.Ident) types.Object {
						if o := info.Defs[id]; o != nil {
							return o
						}
						return info.Uses[id]
					}
					data, found := obj(did), obj(eid)
					// the scope of the result: the if statement whose init this is, or the enclosing function
					var scope ast.Node = fd.Body
					ast.Inspect(fd.Body, func(k ast.Node) bool {
						if is, ok := k.(*ast.IfStmt); ok && is.Init == ast.Stmt(as) {
							scope = is
						}
						return true
					})
					ast.Inspect(scope, func(k ast.Node) bool {
						id, ok := k.(*ast.Ident)
						if !ok || info.Uses[id] != data || id.Pos() <= as.End() {
							return true
						}
						n++
						r.check(guardedBy(info, scope, id, found), rule, fmt.Sprintf("%s.%s:probe-bytes-use#%d", v.rel, declName(fd), n), id.Pos(), "the bytes returned by the cache probe are used only where the probe's found result is true")
						return true
					})
					return true
				})
			}
		}
	}
}

// rulePendingRangeClosed (R05.17): a line fetch in progress is registered as the address
// interval [start, end). The test "is this address being fetched already?" must include the
// start itself (start <= addr): the access that registered the fetch asked for exactly that
// address, and a second access to it that is not recognised fetches the line a second time —
// two copies of one line, of which a store updates one and the write-back of the other wins.
func rulePendingRangeClosed(r *Run, rule string) {
	w := r.W
	for _, v := range variants(w) {
		if v.pkg == nil || !v.pipelined() {
			continue
		}
		info := v.info
		for _, f := range v.pkg.Syntax {
			for _, d := range f.Decls {
				fd, ok := d.(*ast.FuncDecl)
				if !ok || fd.Body == nil {
					continue
				}
				n := 0
				ast.Inspect(fd.Body, func(m ast.Node) bool {
					rs, ok := m.(*ast.RangeStmt)
					if !ok || rs.Value == nil {
						return true
					}
					// elements are [2]int32 intervals
					at, ok := info.TypeOf(rs.Value).Underlying().(*types.Array)
					if !ok || at.Len() != 2 || typeName(at.Elem()) != "int32" {
						return true
					}
					vid, ok := rs.Value.(*ast.Ident)
					if !ok {
						return true
					}
					vobj := info.Defs[vid]
					endOf := func(e ast.Expr) (int64, bool) {
						ix, ok := ast.Unparen(e).(*ast.IndexExpr)
						if !ok {
							return 0, false
						}
						if id, ok := ast.Unparen(ix.X).(*ast.Ident); !ok || info.Uses[id] != vobj {
							return 0, false
						}
						return constInt64(info.Types[ix.Index])
					}
					ast.Inspect(rs.Body, func(k ast.Node) bool {
						is, ok := k.(*ast.IfStmt)
						if !ok {
							return true
						}
						var lowOK, hasLow, hasHigh bool
						for _, c := range conjuncts(is.Cond) {
							b, ok := c.(*ast.BinaryExpr)
							if !ok {
								continue
							}
							if i, ok := endOf(b.X); ok && i == 0 { // start OP addr
								hasLow = true
								lowOK = b.Op == token.LEQ
							}
							if i, ok := endOf(b.Y); ok && i == 0 { // addr OP start
								hasLow = true
								lowOK = b.Op == token.GEQ
							}
							if i, ok := endOf(b.X); ok && i == 1 {
								hasHigh = true
							}
							if i, ok := endOf(b.Y); ok && i == 1 {
								hasHigh = true
							}
						}
						if hasLow && hasHigh {
							n++
							r.check(lowOK, rule, fmt.Sprintf("%s.%s:pending-interval#%d", v.rel, declName(fd), n), is.Pos(), "the membership test of a pending fetch interval includes its start address (start <= addr)")
						}
						return true
					})
					return true
				})
			}
		}
	}
}

// ruleBusyFlagLoweredAfterRun (R09.10): an execute unit whose emptiness predicate is the
// negation of a busy flag lowers that flag only once the instruction has been executed: every
// `flag = false` outside the unit's flush stands, in its function, after the call that runs the
// instruction (InstructionRunner.Run). A unit that reports empty while a load still waits for
// memory lets the run end before the loaded value is written.
func ruleBusyFlagLoweredAfterRun(r *Run, rule string) {
	w := r.W
	for _, v := range variants(w) {
		if v.pkg == nil || !v.pipelined() {
			continue
		}
		seen := map[*types.Named]bool{}
		for _, f := range v.fields {
			if !f.isUnit || f.unitT == nil || !f.roles["exec"] || seen[f.unitT] {
				continue
			}
			seen[f.unitT] = true
			ie := hasDeclMethod(f.unitT, "isEmpty")
			if ie == nil {
				continue
			}
			ifd, ipk := w.FuncDecl(ie)
			if ifd == nil || ifd.Body == nil || len(ifd.Body.List) != 1 {
				continue
			}
			rs, ok := ifd.Body.List[0].(*ast.ReturnStmt)
			if !ok || len(rs.Results) != 1 {
				continue
			}
			u, ok := ast.Unparen(rs.Results[0]).(*ast.UnaryExpr)
			if !ok || u.Op != token.NOT {
				continue
			}
			sel, ok := ast.Unparen(u.X).(*ast.SelectorExpr)
			if !ok || ipk.TypesInfo.Selections[sel] == nil {
				continue
			}
			flag := ipk.TypesInfo.Selections[sel].Obj()
			n := 0
			for i := 0; i < f.unitT.NumMethods(); i++ {
				m := f.unitT.Method(i)
				mfd, mpk := w.FuncDecl(m)
				if mfd == nil || mfd.Body == nil || strings.EqualFold(m.Name(), "flush") {
					continue
				}
				info := mpk.TypesInfo
				var runPos token.Pos
				ast.Inspect(mfd.Body, func(k ast.Node) bool {
					if c, ok := k.(*ast.CallExpr); ok {
						if fn, ok := typeutil.Callee(info, c).(*types.Func); ok && fn.Name() == "Run" && fn.Pkg() != nil && fn.Pkg().Path() == modPath+"/risc" {
							if runPos == 0 || c.Pos() < runPos {
								runPos = c.Pos()
							}
						}
					}
					return true
				})
				ast.Inspect(mfd.Body, func(k ast.Node) bool {
					as, ok := k.(*ast.AssignStmt)
					if !ok || len(as.Lhs) != 1 || len(as.Rhs) != 1 {
						return true
					}
					ls, ok := ast.Unparen(as.Lhs[0]).(*ast.SelectorExpr)
					if !ok || info.Selections[ls] == nil || info.Selections[ls].Obj() != flag {
						return true
					}
					if tv := info.Types[as.Rhs[0]]; tv.Value == nil || tv.Value.String() != "false" {
						return true
					}
					n++
					r.check(runPos != 0 && as.Pos() > runPos, rule, fmt.Sprintf("%s.(%s).%s:busy-flag-lowered#%d", v.rel, f.unitT.Obj().Name(), m.Name(), n), as.Pos(), "the busy flag %s, whose negation is the unit's emptiness, is lowered after the instruction has been run", flag.Name())
					return true
				})
			}
		}
	}
}

// ruleDirtyFlagLifeCycle (R05.18): a per-line dirty table (a map from line address to bool in
// the coherence layer). (a) Some function raises the flag of its parameter address, and it is
// called by a function that writes bytes into a cache (the line becomes dirty when it is
// written). (b) Where the flag decides what happens to a displaced line, the branch taken
// when the flag is SET sends the request whose handler writes the line to memory, and the other
// branch sends one whose handler does not.
func ruleDirtyFlagLifeCycle(r *Run, rule string) {
	w := r.W
	for _, v := range variants(w) {
		if v.pkg == nil || !v.pipelined() {
			continue
		}
		info := v.info
		// dirty tables: fields of type map[AlignedAddress]bool
		isDirtyMap := func(e ast.Expr) *types.Var {
			sel, ok := ast.Unparen(e).(*ast.SelectorExpr)
			if !ok {
				return nil
			}
			s := info.Selections[sel]
			if s == nil || s.Kind() != types.FieldVal {
				return nil
			}
			mt, ok := s.Obj().Type().Underlying().(*types.Map)
			if !ok || typeName(mt.Elem()) != "bool" || !strings.Contains(typeName(mt.Key()), "AlignedAddress") {
				return nil
			}
			return s.Obj().(*types.Var)
		}
		tables := map[*types.Var]bool{}
		raisers := map[*types.Var][]*types.Func{}
		type decision struct {
			fd  *ast.FuncDecl
			is  *ast.IfStmt
			t   *types.Var
			neg bool
		}
		var decisions []decision
		for _, f := range v.pkg.Syntax {
			for _, d := range f.Decls {
				fd, ok := d.(*ast.FuncDecl)
				if !ok || fd.Body == nil {
					continue
				}
				fn, _ := info.Defs[fd.Name].(*types.Func)
				ast.Inspect(fd.Body, func(m ast.Node) bool {
					switch x := m.(type) {
					case *ast.AssignStmt:
						if len(x.Lhs) == 1 && len(x.Rhs) == 1 {
							if ix, ok := ast.Unparen(x.Lhs[0]).(*ast.IndexExpr); ok {
								if t := isDirtyMap(ix.X); t != nil {
									tables[t] = true
									if tv := info.Types[x.Rhs[0]]; tv.Value != nil && tv.Value.String() == "true" {
										// the key is a parameter of the function
										if id, ok := ast.Unparen(ix.Index).(*ast.Ident); ok && isParamOf(info, fd, id) {
											raisers[t] = append(raisers[t], fn)
										}
									}
								}
							}
						}
					case *ast.IfStmt:
						c := ast.Unparen(x.Cond)
						neg := false
						if u, ok := c.(*ast.UnaryExpr); ok && u.Op == token.NOT {
							c, neg = ast.Unparen(u.X), true
						}
						if ix, ok := c.(*ast.IndexExpr); ok {
							if t := isDirtyMap(ix.X); t != nil {
								tables[t] = true
								decisions = append(decisions, decision{fd, x, t, neg})
							}
						}
					}
					return true
				})
			}
		}
		var ts []*types.Var
		for t := range tables {
			ts = append(ts, t)
		}
		sort.Slice(ts, func(i, j int) bool { return ts[i].Name() < ts[j].Name() })
		for _, t := range ts {
			// (a)
			raisedOnWrite := false
			for _, f := range v.pkg.Syntax {
				for _, d := range f.Decls {
					fd, ok := d.(*ast.FuncDecl)
					if !ok || fd.Body == nil {
						continue
					}
					callsRaiser, writesCache := false, false
					ast.Inspect(fd.Body, func(m ast.Node) bool {
						if c, ok := m.(*ast.CallExpr); ok {
							if fn, ok := typeutil.Callee(info, c).(*types.Func); ok {
								for _, rf := range raisers[t] {
									if fn == rf {
										callsRaiser = true
									}
								}
								if sig, ok := fn.Type().(*types.Signature); ok && sig.Recv() != nil && isCompType(sig.Recv().Type(), "LRUCache") && fn.Name() == "Write" {
									writesCache = true
								}
							}
						}
						return true
					})
					if callsRaiser && writesCache {
						raisedOnWrite = true
					}
				}
			}
			r.check(raisedOnWrite, rule, fmt.Sprintf("%s:dirty(%s):raised-on-write", v.rel, t.Name()), t.Pos(), "the dirty flag of a line is raised (flag[addr] = true) by the function that writes bytes into the cached line")
		}
		// (b)
		writesMemory := func(n ast.Node) bool {
			return w.reaches(info, n, func(fn *types.Func) bool {
				fd, pk := w.FuncDecl(fn)
				if fd == nil || fd.Body == nil {
					return false
				}
				found := false
				ast.Inspect(fd.Body, func(k ast.Node) bool {
					if as, ok := k.(*ast.AssignStmt); ok {
						for _, l := range as.Lhs {
							if ix, ok := ast.Unparen(l).(*ast.IndexExpr); ok && ctxFieldWritten(pk.TypesInfo, ix.X) == "Memory" {
								found = true
							}
						}
					}
					return true
				})
				return found
			})
		}
		constOfCall := func(n ast.Node) (types.Object, bool) {
			var out types.Object
			ast.Inspect(n, func(k ast.Node) bool {
				if c, ok := k.(*ast.CallExpr); ok {
					for _, a := range c.Args {
						if id, ok := ast.Unparen(a).(*ast.Ident); ok {
							if co, ok := info.Uses[id].(*types.Const); ok && co.Pkg() == v.pkg.Types {
								out = co
							}
						}
					}
				}
				return true
			})
			return out, out != nil
		}
		handlerWrites := func(c types.Object) (bool, bool) {
			found, writes := false, false
			for _, f := range v.pkg.Syntax {
				ast.Inspect(f, func(k ast.Node) bool {
					cc, ok := k.(*ast.CaseClause)
					if !ok {
						return true
					}
					for _, e := range cc.List {
						if id, ok := ast.Unparen(e).(*ast.Ident); ok && info.Uses[id] == c {
							found = true
							for _, st := range cc.Body {
								if writesMemory(st) {
									writes = true
								}
							}
						}
					}
					return true
				})
			}
			return found, writes
		}
		for i, dc := range decisions {
			thenC, ok1 := constOfCall(dc.is.Body)
			// the other side: else branch, or the statements after the if in the function
			var elseC types.Object
			ok2 := false
			if dc.is.Else != nil {
				elseC, ok2 = constOfCall(dc.is.Else)
			} else {
				for _, st := range dc.fd.Body.List {
					if st.Pos() > dc.is.End() {
						if c, ok := constOfCall(st); ok {
							elseC, ok2 = c, true
							break
						}
					}
				}
			}
			key := fmt.Sprintf("%s.%s:dirty(%s):decision#%d", v.rel, declName(dc.fd), dc.t.Name(), i+1)
			if !ok1 || !ok2 {
				r.undecided(rule, key, dc.is.Pos(), "the requests sent on the two sides of the dirty test were not recognised")
				continue
			}
			if dc.neg {
				thenC, elseC = elseC, thenC // the side taken when the flag is SET is the other one
			}
			f1, w1 := handlerWrites(thenC)
			f2, w2 := handlerWrites(elseC)
			r.check(f1 && f2 && w1 && !w2, rule, key, dc.is.Pos(), "the line is written to memory when its dirty flag is SET (request %s: handler writes memory %v) and dropped when it is not (request %s: handler writes memory %v)", thenC.Name(), w1, elseC.Name(), w2)
		}
	}
}

// ruleProceedHoldsLock (R10.14 / R06.17): the functions of the coherence layer that answer an
// access with (response, release, lock) either tell the access to WAIT or hand out the line
// lock they acquired for it: a return whose lock result is nil carries the wait response. An
// access that proceeds without the line lock does not wait for an older store to the line that
// another core still has in flight.
func ruleProceedHoldsLock(r *Run, rule string) {
	w := r.W
	for _, v := range variants(w) {
		if v.pkg == nil || !v.pipelined() || !usesLineLocks(w, v) {
			continue
		}
		info := v.info
		for _, f := range v.pkg.Syntax {
			for _, d := range f.Decls {
				fd, ok := d.(*ast.FuncDecl)
				if !ok || fd.Body == nil || fd.Type.Results == nil {
					continue
				}
				// results: (struct with a bool field `wait`, func(), *comp.Sem)
				var rts []types.Type
				for _, fl := range fd.Type.Results.List {
					k := len(fl.Names)
					if k == 0 {
						k = 1
					}
					for i := 0; i < k; i++ {
						rts = append(rts, info.TypeOf(fl.Type))
					}
				}
				if len(rts) != 3 || !isCompType(rts[2], "Sem") {
					continue
				}
				n := 0
				ast.Inspect(fd.Body, func(m ast.Node) bool {
					if _, ok := m.(*ast.FuncLit); ok {
						return false
					}
					rs, ok := m.(*ast.ReturnStmt)
					if !ok || len(rs.Results) != 3 {
						return true
					}
					tv := info.Types[rs.Results[2]]
					if !tv.IsNil() {
						return true
					}
					n++
					waits := false
					if cl, ok := ast.Unparen(rs.Results[0]).(*ast.CompositeLit); ok {
						for _, e := range cl.Elts {
							if kv, ok := e.(*ast.KeyValueExpr); ok {
								if k, ok := kv.Key.(*ast.Ident); ok && strings.EqualFold(k.Name, "wait") {
									if tv2 := info.Types[kv.Value]; tv2.Value != nil && tv2.Value.String() == "true" {
										waits = true
									}
								}
							}
						}
					}
					r.check(waits, rule, fmt.Sprintf("%s.%s:no-lock-return#%d", v.rel, declName(fd), n), rs.Pos(), "a return that hands out no line lock tells the access to wait")
					return true
				})
			}
		}
	}
}

// ruleParserErrorsPropagate (R11.9): in the assembler front end every error a helper returns is
// tested with the right polarity and leaves the function as an error: after `…, err := f(…)`
// (or in the init of the `if`), the same statement list holds, before err is assigned again,
// `if err != nil { return …, <non-nil error> }`. A malformed operand otherwise parses silently
// as 0 / zero register.
func ruleParserErrorsPropagate(r *Run, rule string) {
	w := r.W
	p := w.Pkg("risc")
	if p == nil {
		r.undecided(rule, "risc", token.NoPos, "package risc not loaded")
		return
	}
	info := p.TypesInfo
	for _, f := range p.Syntax {
		if !strings.HasSuffix(w.Fset.Position(f.Pos()).Filename, "parser.go") {
			continue
		}
		for _, d := range f.Decls {
			fd, ok := d.(*ast.FuncDecl)
			if !ok || fd.Body == nil || fd.Type.Results == nil {
				continue
			}
			last := fd.Type.Results.List[len(fd.Type.Results.List)-1]
			if typeName(info.TypeOf(last.Type)) != "error" {
				continue
			}
			n := 0
			returnsErr := func(list []ast.Stmt) bool {
				for _, st := range list {
					if rs, ok := st.(*ast.ReturnStmt); ok && len(rs.Results) > 0 {
						lastR := rs.Results[len(rs.Results)-1]
						if !info.Types[lastR].IsNil() {
							return true
						}
					}
				}
				return false
			}
			isErrNeqNil := func(c ast.Expr, errObj types.Object) bool {
				b, ok := ast.Unparen(c).(*ast.BinaryExpr)
				if !ok || b.Op != token.NEQ || !info.Types[b.Y].IsNil() {
					return false
				}
				id, ok := ast.Unparen(b.X).(*ast.Ident)
				return ok && info.Uses[id] == errObj
			}
			var walk func(list []ast.Stmt)
			walk = func(list []ast.Stmt) {
				for i, st := range list {
					// nested lists
					switch x := st.(type) {
					case *ast.IfStmt:
						if as, ok := x.Init.(*ast.AssignStmt); ok {
							if errObj := errDefinedBy(info, as); errObj != nil {
								n++
								r.check(isErrNeqNil(x.Cond, errObj) && returnsErr(x.Body.List), rule, fmt.Sprintf("risc.%s:error-checked#%d", declName(fd), n), as.Pos(), "the error returned by the helper is tested (err != nil) and leaves the function as an error")
							}
						}
						walk(x.Body.List)
						if e, ok := x.Else.(*ast.BlockStmt); ok {
							walk(e.List)
						}
					case *ast.ForStmt:
						walk(x.Body.List)
					case *ast.RangeStmt:
						walk(x.Body.List)
					case *ast.BlockStmt:
						walk(x.List)
					case *ast.SwitchStmt:
						for _, c := range x.Body.List {
							if cc, ok := c.(*ast.CaseClause); ok {
								walk(cc.Body)
							}
						}
					case *ast.AssignStmt:
						errObj := errDefinedBy(info, x)
						if errObj == nil {
							continue
						}
						n++
						good := false
						for _, nx := range list[i+1:] {
							if as2, ok := nx.(*ast.AssignStmt); ok && errDefinedBy(info, as2) == errObj {
								break
							}
							if is, ok := nx.(*ast.IfStmt); ok && is.Init == nil && isErrNeqNil(is.Cond, errObj) && returnsErr(is.Body.List) {
								good = true
								break
							}
						}
						r.check(good, rule, fmt.Sprintf("risc.%s:error-checked#%d", declName(fd), n), x.Pos(), "the error returned by the helper is tested (err != nil) and leaves the function as an error")
					}
				}
			}
			walk(fd.Body.List)
		}
	}
}

// errDefinedBy: the error variable an assignment from a call defines or re-assigns (its last LHS).
func errDefinedBy(info *types.Info, as *ast.AssignStmt) types.Object {
	if len(as.Rhs) != 1 || len(as.Lhs) == 0 {
		return nil
	}
	if _, ok := as.Rhs[0].(*ast.CallExpr); !ok {
		return nil
	}
	id, ok := as.Lhs[len(as.Lhs)-1].(*ast.Ident)
	if !ok || id.Name == "_" {
		return nil
	}
	o := info.Defs[id]
	if o == nil {
		o = info.Uses[id]
	}
	if o == nil || typeName(o.Type()) != "error" {
		return nil
	}
	return o
}

// termIsPure: the function's own normal form writes nothing and has no effect on any outcome.
func termIsPure(w *World, fd *ast.FuncDecl, pkg *packages.Package) bool {
	in := newInterp(w)
	t, err := in.FuncTerm(fd, pkg)
	if err != nil {
		return false
	}
	pure := true
	t.subst(func(x *Term) *Term {
		switch x.Op {
		case "w", "callfx":
			pure = false
		case "fx":
			if len(x.Args) > 0 {
				pure = false
			}
		}
		return nil
	})
	return pure
}

// idlePolarity classifies a condition made of idleness tests: "busy" — it holds whenever the
// component is busy (a disjunction with a negated idleness test); "idle" — it fails whenever
// the component is busy (a conjunction with a positive idleness test); "" otherwise.
func idlePolarity(w *World, v *variant, info *types.Info, e ast.Expr) string {
	e = ast.Unparen(e)
	switch x := e.(type) {
	case *ast.BinaryExpr:
		l, rr := idlePolarity(w, v, info, x.X), idlePolarity(w, v, info, x.Y)
		if x.Op == token.LOR && (l == "busy" || rr == "busy") && l != "idle" && rr != "idle" {
			return "busy"
		}
		if x.Op == token.LAND && (l == "idle" || rr == "idle") && l != "busy" && rr != "busy" {
			return "idle"
		}
		return ""
	case *ast.UnaryExpr:
		if x.Op == token.NOT && idlePolarity(w, v, info, x.X) == "idle" {
			return "busy"
		}
		return ""
	case *ast.CallExpr:
		t := map[string]idleTest{}
		idleTestsIn(w, v, info, x, 0, t)
		if len(t) > 0 {
			return "idle"
		}
	}
	return ""
}

// ruleCommitRespectsOlderReaders (R04.23): the committed register table keeps ONE value per
// register. Folding a renamed write into it destroys the value an OLDER instruction that has
// not read the register yet still needs (it is dispatched, holds a pending-read entry, and
// waits for another operand). The functions that fold the rename table at the resolution of a
// branch must therefore take the older readers into account: skip registers that have a
// pending read, or be bounded by the tag of the oldest in-flight instruction.
func ruleCommitRespectsOlderReaders(r *Run, rule string) {
	w := r.W
	p := w.Pkg("risc")
	if p == nil {
		r.undecided(rule, "risc", token.NoPos, "package risc not loaded")
		return
	}
	info := p.TypesInfo
	// only meaningful if some variant folds the rename table at branch resolution
	used := false
	for _, v := range variants(w) {
		if v.pkg != nil && v.run != nil && w.reaches(v.info, v.run, func(fn *types.Func) bool { return fn.Name() == "RATCommit" || fn.Name() == "RATRollback" }) {
			used = true
		}
	}
	if !used {
		return
	}
	for _, name := range []string{"RATCommit", "RATRollback"} {
		fd, _ := w.Method("risc", "Context", name)
		if fd == nil || fd.Body == nil {
			r.undecided(rule, "risc.(Context)."+name+":older-readers", token.NoPos, "function not found")
			continue
		}
		// does the fold consult the pending reads (here or in what it calls)?
		consults := false
		var visit func(n ast.Node, depth int)
		seen := map[*ast.FuncDecl]bool{}
		visit = func(n ast.Node, depth int) {
			ast.Inspect(n, func(m ast.Node) bool {
				if sel, ok := m.(*ast.SelectorExpr); ok && sel.Sel.Name == "PendingReadRegisters" {
					consults = true
				}
				if c, ok := m.(*ast.CallExpr); ok && depth < 3 {
					if fn, ok := typeutil.Callee(info, c).(*types.Func); ok && fn.Pkg() == p.Types {
						if cfd, _ := w.FuncDecl(fn); cfd != nil && cfd.Body != nil && !seen[cfd] {
							seen[cfd] = true
							visit(cfd.Body, depth+1)
						}
					}
				}
				return true
			})
		}
		visit(fd.Body, 0)
		r.check(consults, rule, "risc.(Context)."+name+":older-readers", fd.Pos(), "%s folds renamed writes into the one-value-per-register committed table without regard to older in-flight instructions that have not read the register yet (it consults neither the pending reads nor the age of the oldest in-flight instruction)", name)
	}
}

// ruleLineFillLength (R05.20): a line fill builds exactly one line: the loop that appends the
// bytes of the line (from the image, or padding) runs `for i := 0; i < <line size>; i++` — from
// 0, strictly below the size, by one. One byte more and the write-back of the line overwrites
// the first byte of the NEXT line with the value it had when the line was fetched.
func ruleLineFillLength(r *Run, rule string) {
	w := r.W
	for _, v := range variants(w) {
		if v.pkg == nil {
			continue
		}
		info := v.info
		for _, f := range v.pkg.Syntax {
			for _, d := range f.Decls {
				fd, ok := d.(*ast.FuncDecl)
				if !ok || fd.Body == nil || fd.Type.Results == nil {
					continue
				}
				n := 0
				ast.Inspect(fd.Body, func(m ast.Node) bool {
					fs, ok := m.(*ast.ForStmt)
					if !ok || fs.Cond == nil || fs.Init == nil || fs.Post == nil {
						return true
					}
					// the body reads the memory image and appends to a []int8
					readsImage, appends := false, false
					ast.Inspect(fs.Body, func(k ast.Node) bool {
						switch x := k.(type) {
						case *ast.IndexExpr:
							if ctxFieldWritten(info, x.X) == "Memory" {
								readsImage = true
							}
						case *ast.CallExpr:
							if id, ok := x.Fun.(*ast.Ident); ok && id.Name == "append" && len(x.Args) == 2 {
								if typeName(info.TypeOf(x.Args[0])) == "[]int8" {
									appends = true
								}
							}
						}
						return true
					})
					if !readsImage || !appends {
						return true
					}
					n++
					fromZero, strict, byOne := false, false, false
					if as, ok := fs.Init.(*ast.AssignStmt); ok && len(as.Rhs) == 1 {
						if c, ok := constInt64(info.Types[as.Rhs[0]]); ok && c == 0 {
							fromZero = true
						}
					}
					if b, ok := ast.Unparen(fs.Cond).(*ast.BinaryExpr); ok && b.Op == token.LSS {
						strict = true
					}
					if inc, ok := fs.Post.(*ast.IncDecStmt); ok && inc.Tok == token.INC {
						byOne = true
					}
					r.check(fromZero && strict && byOne, rule, fmt.Sprintf("%s.%s:fill-loop#%d", v.rel, declName(fd), n), fs.Pos(), "the fill loop runs from 0 (%v), strictly below the line size (%v), by one (%v)", fromZero, strict, byOne)
					return true
				})
			}
		}
	}
}

// ruleIdleHelpersTruthful (R09.12 / R07.31): the bool helpers of the CPU that the drain loops
// consult ("are the execute units empty?") are truthful in the direction that matters: when
// the helper answers true, every component whose emptiness it tests did test empty (the same
// implication R09.4 demands of the completion predicate).
func ruleIdleHelpersTruthful(r *Run, rule string) {
	w := r.W
	for _, v := range variants(w) {
		if v.pkg == nil || !v.pipelined() || v.cpu == nil {
			continue
		}
		info := v.info
		memo := map[*ast.FuncDecl]map[*types.Var]bool{}
		for i := 0; i < v.cpu.NumMethods(); i++ {
			m := v.cpu.Method(i)
			sig := m.Type().(*types.Signature)
			if sig.Params().Len() != 0 || sig.Results().Len() != 1 || typeName(sig.Results().At(0).Type()) != "bool" {
				continue
			}
			fd, _ := w.FuncDecl(m)
			if fd == nil || fd.Body == nil || fd == v.isEmpty {
				continue
			}
			// the components whose emptiness the body tests
			tested := map[*types.Var]string{}
			ast.Inspect(fd.Body, func(n ast.Node) bool {
				switch x := n.(type) {
				case *ast.RangeStmt:
					if f := v.cpuFieldOf(x.X); f != nil {
						has := false
						ast.Inspect(x.Body, func(k ast.Node) bool {
							if c, ok := k.(*ast.CallExpr); ok {
								if s, ok := c.Fun.(*ast.SelectorExpr); ok && strings.EqualFold(s.Sel.Name, "isEmpty") {
									has = true
								}
							}
							return true
						})
						if has {
							tested[f.obj] = f.name
						}
					}
				case *ast.CallExpr:
					if s, ok := x.Fun.(*ast.SelectorExpr); ok && strings.EqualFold(s.Sel.Name, "isEmpty") {
						if f := v.cpuFieldOf(s.X); f != nil {
							tested[f.obj] = f.name
						}
					}
				}
				return true
			})
			if len(tested) == 0 {
				continue
			}
			_ = info
			g := idleGuarantee(w, v, fd, memo, 0)
			var names []string
			for fv, nm := range tested {
				if !g[fv] {
					names = append(names, nm)
				}
			}
			sort.Strings(names)
			r.check(len(names) == 0, rule, fmt.Sprintf("%s.(CPU).%s:truthful", v.rel, m.Name()), fd.Pos(), "when the helper answers true every component it tests did test empty (not implied for: %v)", names)
		}
	}
}

// ruleProbeTruthful (R05.21): a cache probe — a function that looks every byte address of an
// access up in a cache and returns (bytes, …, found) — answers found = true only after every
// byte was found: inside the branch taken when a byte is ABSENT every return carries found =
// false, and the return after the loop carries found = true together with the bytes collected.
func ruleProbeTruthful(r *Run, rule string) {
	w := r.W
	for _, v := range variants(w) {
		if v.pkg == nil {
			continue
		}
		info := v.info
		for _, f := range v.pkg.Syntax {
			for _, d := range f.Decls {
				fd, ok := d.(*ast.FuncDecl)
				if !ok || fd.Body == nil || fd.Type.Results == nil {
					continue
				}
				var rts []types.Type
				for _, fl := range fd.Type.Results.List {
					k := len(fl.Names)
					if k == 0 {
						k = 1
					}
					for i := 0; i < k; i++ {
						rts = append(rts, info.TypeOf(fl.Type))
					}
				}
				if len(rts) < 2 || typeName(rts[0]) != "[]int8" || typeName(rts[len(rts)-1]) != "bool" {
					continue
				}
				// a range loop whose body probes a cache: v, exists := X.Get(addr)
				var loop *ast.RangeStmt
				var existsObj types.Object
				ast.Inspect(fd.Body, func(m ast.Node) bool {
					rs, ok := m.(*ast.RangeStmt)
					if !ok || loop != nil {
						return true
					}
					for _, st := range rs.Body.List {
						if as, ok := st.(*ast.AssignStmt); ok && len(as.Lhs) == 2 && len(as.Rhs) == 1 {
							if call, ok := as.Rhs[0].(*ast.CallExpr); ok {
								if fn, ok := typeutil.Callee(info, call).(*types.Func); ok && fn.Name() == "Get" {
									if sig := fn.Type().(*types.Signature); sig.Recv() != nil && isCompType(sig.Recv().Type(), "LRUCache") {
										loop = rs
										if id, ok := as.Lhs[1].(*ast.Ident); ok {
											existsObj = info.Defs[id]
										}
									}
								}
							}
						}
					}
					return true
				})
				if loop == nil || existsObj == nil {
					continue
				}
				lastIs := func(rs *ast.ReturnStmt, val string) bool {
					if len(rs.Results) != len(rts) {
						return false
					}
					tv := info.Types[rs.Results[len(rs.Results)-1]]
					return tv.Value != nil && tv.Value.String() == val
				}
				absentOK, absentSeen := true, false
				ast.Inspect(loop.Body, func(m ast.Node) bool {
					is, ok := m.(*ast.IfStmt)
					if !ok {
						return true
					}
					u, ok := ast.Unparen(is.Cond).(*ast.UnaryExpr)
					if !ok || u.Op != token.NOT {
						return true
					}
					if id, ok := ast.Unparen(u.X).(*ast.Ident); !ok || info.Uses[id] != existsObj {
						return true
					}
					absentSeen = true
					ast.Inspect(is.Body, func(k ast.Node) bool {
						if rs, ok := k.(*ast.ReturnStmt); ok && !lastIs(rs, "false") {
							absentOK = false
						}
						return true
					})
					if !terminates(is.Body.List) {
						absentOK = false
					}
					return false
				})
				finalOK := false
				for _, st := range fd.Body.List {
					if st.Pos() > loop.End() {
						if rs, ok := st.(*ast.ReturnStmt); ok && lastIs(rs, "true") {
							if _, isNil := ast.Unparen(rs.Results[0]).(*ast.Ident); isNil && !info.Types[rs.Results[0]].IsNil() {
								finalOK = true
							}
						}
					}
				}
				r.check(absentSeen && absentOK && finalOK, rule, fmt.Sprintf("%s.%s:probe-truthful", v.rel, declName(fd)), fd.Pos(), "the probe leaves with found = false as soon as a byte is absent (%v) and answers found = true with the collected bytes only after the loop (%v)", absentSeen && absentOK, finalOK)
			}
		}
	}
}

// ruleSnoopActsOnItsLevel (R06.18): where the coherence layer has two kinds of commands (one
// constructor per cache level), the handler of a command operates on the cache of that level:
// within one case of the snoop dispatch every direct cache operation (GetCacheLine,
// EvictCacheLine, …) targets ONE cache field; the cases of commands built by the same
// constructor share that field; the two constructors' cases use different fields. An L1 evict
// handler that evicts from L3 leaves the stale L1 copy readable although its state is Invalid.
func ruleSnoopActsOnItsLevel(r *Run, rule string) {
	w := r.W
	for _, v := range variants(w) {
		if v.pkg == nil || !v.pipelined() || !usesLineLocks(w, v) {
			continue
		}
		info := v.info
		// constant -> constructor that sends it
		ctorOf := map[types.Object]*types.Func{}
		ctors := map[*types.Func]bool{}
		mixed := map[types.Object]bool{}
		for _, f := range v.pkg.Syntax {
			ast.Inspect(f, func(n ast.Node) bool {
				call, ok := n.(*ast.CallExpr)
				if !ok || len(call.Args) < 1 {
					return true
				}
				fn, ok := typeutil.Callee(info, call).(*types.Func)
				if !ok || fn.Pkg() != v.pkg.Types {
					return true
				}
				sig := fn.Type().(*types.Signature)
				if sig.Results().Len() != 1 {
					return true
				}
				if p, ok := sig.Results().At(0).Type().(*types.Pointer); !ok || namedOf(p.Elem()) == nil || hasMethodNamed(namedOf(p.Elem()), "done") == nil {
					return true
				}
				if id, ok := ast.Unparen(call.Args[len(call.Args)-1]).(*ast.Ident); ok {
					if c, ok := info.Uses[id].(*types.Const); ok {
						if prev, seen := ctorOf[c]; seen && prev != fn {
							mixed[c] = true
						}
						ctorOf[c] = fn
						ctors[fn] = true
					}
				}
				return true
			})
		}
		if len(ctors) < 2 {
			continue
		}
		var cs []types.Object
		for c := range ctorOf {
			cs = append(cs, c)
		}
		sort.Slice(cs, func(i, j int) bool { return cs[i].Name() < cs[j].Name() })
		for _, c := range cs {
			r.check(!mixed[c], rule, fmt.Sprintf("%s:command(%s):one-constructor", v.rel, c.Name()), c.Pos(), "every command of kind %s is built by one constructor (the constructor decides which level's state the completion invalidates)", c.Name())
		}
		// snoop dispatch cases
		cacheOfCtor := map[*types.Func]map[*types.Var]bool{}
		for _, f := range v.pkg.Syntax {
			ast.Inspect(f, func(n ast.Node) bool {
				cc, ok := n.(*ast.CaseClause)
				if !ok || len(cc.List) != 1 {
					return true
				}
				id, ok := ast.Unparen(cc.List[0]).(*ast.Ident)
				if !ok {
					return true
				}
				c, ok := info.Uses[id].(*types.Const)
				if !ok || ctorOf[c] == nil {
					return true
				}
				used := map[*types.Var]bool{}
				for _, st := range cc.Body {
					ast.Inspect(st, func(k ast.Node) bool {
						call, ok := k.(*ast.CallExpr)
						if !ok {
							return true
						}
						sel, ok := call.Fun.(*ast.SelectorExpr)
						if !ok || !isCompType(info.TypeOf(sel.X), "LRUCache") {
							return true
						}
						if fs, ok := ast.Unparen(sel.X).(*ast.SelectorExpr); ok {
							if s := info.Selections[fs]; s != nil && s.Kind() == types.FieldVal {
								used[s.Obj().(*types.Var)] = true
							}
						}
						return true
					})
				}
				if len(used) == 0 {
					return true
				}
				var names []string
				for fv := range used {
					names = append(names, fv.Name())
				}
				sort.Strings(names)
				r.check(len(used) == 1, rule, fmt.Sprintf("%s:snoop-case(%s):one-cache", v.rel, c.Name()), cc.Pos(), "the handler of %s operates on one cache (operated on: %v)", c.Name(), names)
				if cacheOfCtor[ctorOf[c]] == nil {
					cacheOfCtor[ctorOf[c]] = map[*types.Var]bool{}
				}
				for fv := range used {
					cacheOfCtor[ctorOf[c]][fv] = true
				}
				return true
			})
		}
		var cl []*types.Func
		for c := range cacheOfCtor {
			cl = append(cl, c)
		}
		sort.Slice(cl, func(i, j int) bool { return cl[i].Name() < cl[j].Name() })
		seen := map[*types.Var]*types.Func{}
		for _, c := range cl {
			var names []string
			for fv := range cacheOfCtor[c] {
				names = append(names, fv.Name())
			}
			sort.Strings(names)
			shared := ""
			for fv := range cacheOfCtor[c] {
				if o, ok := seen[fv]; ok && o != c {
					shared = o.Name()
				}
				seen[fv] = c
			}
			r.check(len(cacheOfCtor[c]) == 1 && shared == "", rule, fmt.Sprintf("%s:commands(%s):level", v.rel, c.Name()), c.Pos(), "the handlers of the commands built by %s all operate on one cache, which no other kind of command operates on (caches: %v; also used by: %q)", c.Name(), names, shared)
		}
	}
}

// rulePresenceGuardsSameCache (R06.19 / R05.22): in a memory system with several data caches, a
// presence test and the operation it guards concern the SAME cache: after `if present-in-X`
// the first cache operation of the governed branch is on X; after `if present-in-X { leave }`
// (or `if !present-in-X { … } else`) the first cache operation that follows is on X (a line is
// inserted into the cache it was found absent from, read from the cache it was found in).
func rulePresenceGuardsSameCache(r *Run, rule string) {
	w := r.W
	for _, v := range variants(w) {
		if v.pkg == nil || !v.pipelined() {
			continue
		}
		info := v.info
		// cache fields directly operated on by a node (no descent into callees)
		directCaches := func(n ast.Node) []*types.Var {
			var out []*types.Var
			ast.Inspect(n, func(k ast.Node) bool {
				call, ok := k.(*ast.CallExpr)
				if !ok {
					return true
				}
				sel, ok := call.Fun.(*ast.SelectorExpr)
				if !ok || !isCompType(info.TypeOf(sel.X), "LRUCache") {
					return true
				}
				if fs, ok := ast.Unparen(sel.X).(*ast.SelectorExpr); ok {
					if s := info.Selections[fs]; s != nil && s.Kind() == types.FieldVal {
						out = append(out, s.Obj().(*types.Var))
					}
				}
				return true
			})
			return out
		}
		// helper -> the one cache it operates on
		helperCache := map[*types.Func]*types.Var{}
		nCaches := map[*types.Var]bool{}
		for _, f := range v.pkg.Syntax {
			for _, d := range f.Decls {
				fd, ok := d.(*ast.FuncDecl)
				if !ok || fd.Body == nil {
					continue
				}
				cs := directCaches(fd.Body)
				uniq := map[*types.Var]bool{}
				for _, c := range cs {
					uniq[c] = true
					nCaches[c] = true
				}
				if len(uniq) == 1 {
					if fn, ok := info.Defs[fd.Name].(*types.Func); ok {
						helperCache[fn] = cs[0]
					}
				}
			}
		}
		if len(nCaches) < 2 {
			continue
		}
		// the cache an expression/statement operates on first (direct op or a helper call), in source order
		firstCache := func(nodes []ast.Node) *types.Var {
			var best *types.Var
			var bestPos token.Pos
			for _, n := range nodes {
				ast.Inspect(n, func(k ast.Node) bool {
					call, ok := k.(*ast.CallExpr)
					if !ok {
						return true
					}
					var c *types.Var
					if sel, ok := call.Fun.(*ast.SelectorExpr); ok && isCompType(info.TypeOf(sel.X), "LRUCache") {
						if fs, ok := ast.Unparen(sel.X).(*ast.SelectorExpr); ok {
							if s := info.Selections[fs]; s != nil && s.Kind() == types.FieldVal {
								c = s.Obj().(*types.Var)
							}
						}
					} else if fn, ok := typeutil.Callee(info, call).(*types.Func); ok {
						c = helperCache[fn]
					}
					if c != nil && (best == nil || call.Pos() < bestPos) {
						best, bestPos = c, call.Pos()
					}
					return true
				})
			}
			return best
		}
		presenceOf := func(e ast.Expr) (*types.Var, bool) { // cache probed, negated?
			neg := false
			e = ast.Unparen(e)
			if u, ok := e.(*ast.UnaryExpr); ok && u.Op == token.NOT {
				neg = true
				e = ast.Unparen(u.X)
			}
			call, ok := e.(*ast.CallExpr)
			if !ok {
				return nil, false
			}
			fn, ok := typeutil.Callee(info, call).(*types.Func)
			if !ok || fn.Pkg() != v.pkg.Types {
				return nil, false
			}
			sig := fn.Type().(*types.Signature)
			if sig.Results().Len() != 1 || typeName(sig.Results().At(0).Type()) != "bool" {
				return nil, false
			}
			return helperCache[fn], neg
		}
		for _, f := range v.pkg.Syntax {
			for _, d := range f.Decls {
				fd, ok := d.(*ast.FuncDecl)
				if !ok || fd.Body == nil {
					continue
				}
				n := 0
				var walk func(list []ast.Stmt)
				walk = func(list []ast.Stmt) {
					for i, st := range list {
						switch x := st.(type) {
						case *ast.IfStmt:
							if c, neg := presenceOf(x.Cond); c != nil {
								var governed []ast.Node
								switch {
								case !neg && (!terminates(x.Body.List) || firstCache([]ast.Node{x.Body}) != nil):
									governed = []ast.Node{x.Body}
								case !neg && terminates(x.Body.List):
									for _, nx := range list[i+1:] {
										governed = append(governed, nx)
									}
								case neg && x.Else != nil:
									governed = []ast.Node{x.Else}
								case neg && terminates(x.Body.List):
									for _, nx := range list[i+1:] {
										governed = append(governed, nx)
									}
								}
								if fc := firstCache(governed); fc != nil {
									n++
									r.check(fc == c, rule, fmt.Sprintf("%s.%s:presence-guard#%d", v.rel, declName(fd), n), x.Pos(), "the presence test concerns cache %s and the first cache operation it governs is on %s", c.Name(), fc.Name())
								}
							}
							walk(x.Body.List)
							if e, ok := x.Else.(*ast.BlockStmt); ok {
								walk(e.List)
							}
							if e, ok := x.Else.(*ast.IfStmt); ok {
								walk([]ast.Stmt{e})
							}
						case *ast.BlockStmt:
							walk(x.List)
						case *ast.ForStmt:
							walk(x.Body.List)
						case *ast.RangeStmt:
							walk(x.Body.List)
						case *ast.ReturnStmt, *ast.ExprStmt, *ast.AssignStmt:
							ast.Inspect(x, func(k ast.Node) bool {
								if fl, ok := k.(*ast.FuncLit); ok {
									walk(fl.Body.List)
									return false
								}
								return true
							})
						case *ast.SwitchStmt:
							for _, cc := range x.Body.List {
								if c2, ok := cc.(*ast.CaseClause); ok {
									walk(c2.Body)
								}
							}
						}
					}
				}
				walk(fd.Body.List)
			}
		}
	}
}

// ruleLockCoversItsLine (R06.20): a per-line lock is handed out by a getter that keys its table
// with an alignment function. Where a function takes such a lock and, holding it, operates
// directly on a cache, the alignment of the lock's key is the line size of that cache: a lock
// keyed at a finer grain than the line it protects does not exclude an access to the other
// part of the line.
func ruleLockCoversItsLine(r *Run, rule string) {
	w := r.W
	for _, v := range variants(w) {
		if v.pkg == nil || !v.pipelined() || !usesLineLocks(w, v) {
			continue
		}
		info := v.info
		pe := newProvEngine(w, v.pkg)
		_, byVar := resolvedCaches(w, v)
		// lock getters: functions returning *sync.Mutex or *comp.Sem whose body calls an alignment function
		getterAlign := map[*types.Func]int64{}
		for _, f := range v.pkg.Syntax {
			for _, d := range f.Decls {
				fd, ok := d.(*ast.FuncDecl)
				if !ok || fd.Body == nil || fd.Type.Results == nil || len(fd.Type.Results.List) != 1 {
					continue
				}
				rt := info.TypeOf(fd.Type.Results.List[0].Type)
				isLock := isCompType(rt, "Sem")
				if p, ok := rt.(*types.Pointer); ok && !isLock {
					if n := namedOf(p.Elem()); n != nil && n.Obj().Pkg() != nil && n.Obj().Pkg().Path() == "sync" && n.Obj().Name() == "Mutex" {
						isLock = true
					}
				}
				if !isLock {
					continue
				}
				var size int64
				ast.Inspect(fd.Body, func(k ast.Node) bool {
					if c, ok := k.(*ast.CallExpr); ok {
						if fn, ok := typeutil.Callee(info, c).(*types.Func); ok {
							if sz, ok := pe.alignmentFunc(fn); ok {
								size = sz
							}
						}
					}
					return true
				})
				if size != 0 {
					if fn, ok := info.Defs[fd.Name].(*types.Func); ok {
						getterAlign[fn] = size
					}
				}
			}
		}
		if len(getterAlign) == 0 {
			continue
		}
		for _, f := range v.pkg.Syntax {
			for _, d := range f.Decls {
				fd, ok := d.(*ast.FuncDecl)
				if !ok || fd.Body == nil {
					continue
				}
				n := 0
				// every function literal / body: lock variables defined from a getter, and caches operated on after
				var scan func(body *ast.BlockStmt)
				scan = func(body *ast.BlockStmt) {
					type held struct {
						obj  types.Object
						size int64
						pos  token.Pos
						g    string
					}
					var locks []held
					ast.Inspect(body, func(k ast.Node) bool {
						if fl, ok := k.(*ast.FuncLit); ok && fl.Body != body {
							scan(fl.Body)
							return false
						}
						as, ok := k.(*ast.AssignStmt)
						if !ok || len(as.Lhs) != 1 || len(as.Rhs) != 1 {
							return true
						}
						call, ok := as.Rhs[0].(*ast.CallExpr)
						if !ok {
							return true
						}
						fn, ok := typeutil.Callee(info, call).(*types.Func)
						if !ok || getterAlign[fn] == 0 {
							return true
						}
						if id, ok := as.Lhs[0].(*ast.Ident); ok {
							o := info.Defs[id]
							if o == nil {
								o = info.Uses[id]
							}
							locks = append(locks, held{o, getterAlign[fn], as.End(), fn.Name()})
						}
						return true
					})
					for _, lk := range locks {
						// the lock must be acquired here (Lock/TryLock/RLock on the variable)
						acquired := false
						ast.Inspect(body, func(k ast.Node) bool {
							if c, ok := k.(*ast.CallExpr); ok {
								if sel, ok := c.Fun.(*ast.SelectorExpr); ok && (sel.Sel.Name == "TryLock" || sel.Sel.Name == "Lock" || sel.Sel.Name == "RLock") {
									if id, ok := ast.Unparen(sel.X).(*ast.Ident); ok && info.Uses[id] == lk.obj {
										acquired = true
									}
								}
							}
							return true
						})
						if !acquired {
							continue
						}
						sizes := map[int64]string{}
						ast.Inspect(body, func(k ast.Node) bool {
							if fl, ok := k.(*ast.FuncLit); ok && fl.Body != body {
								return false
							}
							c, ok := k.(*ast.CallExpr)
							if !ok || c.Pos() < lk.pos {
								return true
							}
							sel, ok := c.Fun.(*ast.SelectorExpr)
							if !ok || !isCompType(info.TypeOf(sel.X), "LRUCache") {
								return true
							}
							if ci := cacheOfExpr(v, byVar, sel.X); ci != nil && ci.lineSize > 0 {
								sizes[ci.lineSize] = ci.field.Name()
							}
							return true
						})
						for sz, cname := range sizes {
							n++
							r.check(sz == lk.size, rule, fmt.Sprintf("%s.%s:lock(%s)-covers(%s)#%d", v.rel, declName(fd), lk.g, cname, n), lk.pos, "the lock taken from %s is keyed at %d bytes and protects operations on cache %s, whose lines are %d bytes", lk.g, lk.size, cname, sz)
						}
					}
				}
				scan(fd.Body)
			}
		}
	}
}

// ruleModifiedLeavesByWriteBack (R06.21 / R05.23): wherever the coherence layer decides, by
// the MSI state of a line, which command removes the line from a core's cache, the case of the
// MODIFIED state sends the command whose handler writes the line to the next level (memory
// or the outer cache); the cases of the other states send one whose handler does not. A
// modified line removed by a plain evict loses its stores.
func ruleModifiedLeavesByWriteBack(r *Run, rule string) {
	w := r.W
	for _, v := range variants(w) {
		if v.pkg == nil || !v.pipelined() || !usesLineLocks(w, v) {
			continue
		}
		info := v.info
		writesOut := func(n ast.Node) bool {
			return w.reaches(info, n, func(fn *types.Func) bool {
				// writes the memory image, or writes into a cache (the outer level)
				if sig, ok := fn.Type().(*types.Signature); ok && sig.Recv() != nil && isCompType(sig.Recv().Type(), "LRUCache") && fn.Name() == "Write" {
					return true
				}
				fd, pk := w.FuncDecl(fn)
				if fd == nil || fd.Body == nil {
					return false
				}
				found := false
				ast.Inspect(fd.Body, func(k ast.Node) bool {
					if as, ok := k.(*ast.AssignStmt); ok {
						for _, l := range as.Lhs {
							if ix, ok := ast.Unparen(l).(*ast.IndexExpr); ok && ctxFieldWritten(pk.TypesInfo, ix.X) == "Memory" {
								found = true
							}
						}
					}
					return true
				})
				return found
			})
		}
		handlerWrites := func(c types.Object) (bool, bool) {
			found, writes := false, false
			for _, f := range v.pkg.Syntax {
				ast.Inspect(f, func(k ast.Node) bool {
					cc, ok := k.(*ast.CaseClause)
					if !ok {
						return true
					}
					for _, e := range cc.List {
						if id, ok := ast.Unparen(e).(*ast.Ident); ok && info.Uses[id] == c {
							// only the snoop dispatch: the case body appends a job / handles the request
							found = true
							for _, st := range cc.Body {
								if writesOut(st) {
									writes = true
								}
							}
						}
					}
					return true
				})
			}
			return found, writes
		}
		// the state constants: the type of the switch tag; "modified" is the state whose lock acquisition is exclusive…
		// identified structurally: the state constant under which an evict-helper sends the write-back-capable command
		// is what we check; so enumerate switch statements over the state type whose cases return a send(...) call.
		for _, f := range v.pkg.Syntax {
			for _, d := range f.Decls {
				fd, ok := d.(*ast.FuncDecl)
				if !ok || fd.Body == nil {
					continue
				}
				n := 0
				ast.Inspect(fd.Body, func(m ast.Node) bool {
					sw, ok := m.(*ast.SwitchStmt)
					if !ok || sw.Tag == nil {
						return true
					}
					// the const group (one `const ( … )` declaration) a constant belongs to
					groupOf := func(o types.Object) *ast.GenDecl {
						for _, f2 := range v.pkg.Syntax {
							for _, d2 := range f2.Decls {
								if gd, ok := d2.(*ast.GenDecl); ok && gd.Tok == token.CONST && gd.Pos() <= o.Pos() && o.Pos() < gd.End() {
									return gd
								}
							}
						}
						return nil
					}
					// the switch is over the coherence STATE: all its case constants come from one const group,
					// and that group also holds the constant the state table's default (zero) value names
					var stateGroup *ast.GenDecl
					okSwitch := true
					for _, c := range sw.Body.List {
						for _, e := range c.(*ast.CaseClause).List {
							id, ok := ast.Unparen(e).(*ast.Ident)
							if !ok {
								okSwitch = false
								continue
							}
							co, ok := info.Uses[id].(*types.Const)
							if !ok || co.Pkg() != v.pkg.Types {
								okSwitch = false
								continue
							}
							g := groupOf(co)
							if stateGroup == nil {
								stateGroup = g
							} else if g != stateGroup {
								okSwitch = false
							}
						}
					}
					if !okSwitch || stateGroup == nil {
						return true
					}
					type arm struct {
						states []string
						c      types.Object
					}
					var arms []arm
					for _, c := range sw.Body.List {
						cc := c.(*ast.CaseClause)
						if len(cc.List) == 0 || len(cc.Body) != 1 {
							continue
						}
						rs, ok := cc.Body[0].(*ast.ReturnStmt)
						if !ok || len(rs.Results) != 1 {
							continue
						}
						call, ok := ast.Unparen(rs.Results[0]).(*ast.CallExpr)
						if !ok || len(call.Args) == 0 {
							continue
						}
						id, ok := ast.Unparen(call.Args[len(call.Args)-1]).(*ast.Ident)
						if !ok {
							continue
						}
						co, ok := info.Uses[id].(*types.Const)
						if !ok {
							continue
						}
						var names []string
						for _, e := range cc.List {
							if sid, ok := ast.Unparen(e).(*ast.Ident); ok {
								names = append(names, sid.Name)
							}
						}
						arms = append(arms, arm{names, co})
					}
					if len(arms) < 2 {
						return true
					}
					n++
					// exactly the arms whose handler writes out must be the arms of the exclusive (dirty-capable) state: the
					// state under which the lock functions take the EXCLUSIVE lock for a read — structurally, the last
					// declared constant of the state type
					var dirtyState string
					scope := v.pkg.Types.Scope()
					var best int64 = -1
					for _, nm := range scope.Names() {
						if c, ok := scope.Lookup(nm).(*types.Const); ok && groupOf(c) == stateGroup {
							if val, ok := constant.Int64Val(c.Val()); ok && val > best {
								best, dirtyState = val, nm
							}
						}
					}
					good := true
					var desc []string
					for _, a := range arms {
						isDirtyArm := false
						for _, s := range a.states {
							if s == dirtyState {
								isDirtyArm = true
							}
						}
						found, writes := handlerWrites(a.c)
						desc = append(desc, fmt.Sprintf("%v->%s(writes out: %v)", a.states, a.c.Name(), writes))
						if !found || writes != isDirtyArm {
							good = false
						}
					}
					r.check(good, rule, fmt.Sprintf("%s.%s:state-switch#%d", v.rel, declName(fd), n), sw.Pos(), "a line in the %s state leaves a cache by the command whose handler writes it out, a line in another state by one that does not: %v", dirtyState, desc)
					return true
				})
			}
		}
	}
}

// ruleAccessOwnsItsBookkeeping (R07.32): the function that performs one kind of access (the
// entry of the read coroutine, of the write coroutine) keeps to its own bookkeeping: (a) it
// resets / suspends only the coroutine it is the entry of, never a sibling coroutine of the
// same unit (a read that resets the write coroutine abandons a store in flight and never
// returns to its own start); (b) the lock handles it forgets are deleted from a table it
// records handles in (a handle deleted from the other table stays recorded and is released a
// second time by the next flush).
func ruleAccessOwnsItsBookkeeping(r *Run, rule string) {
	w := r.W
	bind := w.coroutineBindings()
	entryOf := map[*types.Func]*types.Var{}
	for fld, fns := range bind {
		for _, fn := range fns {
			entryOf[fn] = fld
		}
	}
	for _, v := range variants(w) {
		if v.pkg == nil || !v.pipelined() || !usesLineLocks(w, v) {
			continue
		}
		info := v.info
		for _, f := range v.pkg.Syntax {
			for _, d := range f.Decls {
				fd, ok := d.(*ast.FuncDecl)
				if !ok || fd.Body == nil {
					continue
				}
				fn, _ := info.Defs[fd.Name].(*types.Func)
				own := entryOf[fn]
				if own == nil {
					continue
				}
				// (a)
				var foreign []string
				nOps := 0
				ast.Inspect(fd.Body, func(k ast.Node) bool {
					call, ok := k.(*ast.CallExpr)
					if !ok {
						return true
					}
					sel, ok := call.Fun.(*ast.SelectorExpr)
					if !ok || !isCoroutineNamed(info.TypeOf(sel.X)) {
						return true
					}
					switch sel.Sel.Name {
					case "Reset", "Checkpoint", "ExecuteWithCheckpoint", "ExecuteWithCheckpointAfter", "ExecuteWithReset":
					default:
						return true
					}
					if fs, ok := ast.Unparen(sel.X).(*ast.SelectorExpr); ok {
						if s := info.Selections[fs]; s != nil && s.Kind() == types.FieldVal {
							nOps++
							if s.Obj() != own {
								foreign = append(foreign, s.Obj().Name()+"."+sel.Sel.Name)
							}
						}
					}
					return true
				})
				if nOps > 0 {
					sort.Strings(foreign)
					r.check(len(foreign) == 0, rule, fmt.Sprintf("%s.%s:own-coroutine(%s)", v.rel, declName(fd), own.Name()), fd.Pos(), "the entry of coroutine %s resets and suspends only that coroutine (operations on sibling coroutines: %v)", own.Name(), foreign)
				}
				_ = own
			}
		}
		// (c) the step that completes an access — it runs the release closure handed out with the lock (a call of a
		// func-typed field of the unit) — returns a coroutine of the unit to its start in the same statement list:
		// a completed access left suspended at its last continuation runs that continuation again at the next step
		for _, f := range v.pkg.Syntax {
			for _, d := range f.Decls {
				fd, ok := d.(*ast.FuncDecl)
				if !ok || fd.Body == nil || strings.EqualFold(fd.Name.Name, "flush") {
					continue
				}
				n := 0
				ast.Inspect(fd.Body, func(k ast.Node) bool {
					blk, ok := k.(*ast.BlockStmt)
					if !ok {
						return true
					}
					releases, resets := false, false
					for _, st := range blk.List {
						es, ok := st.(*ast.ExprStmt)
						if !ok {
							continue
						}
						c, ok := es.X.(*ast.CallExpr)
						if !ok {
							continue
						}
						sel, ok := c.Fun.(*ast.SelectorExpr)
						if !ok {
							continue
						}
						if s2 := info.Selections[sel]; s2 != nil && s2.Kind() == types.FieldVal && len(c.Args) == 0 {
							if _, isF := s2.Obj().Type().Underlying().(*types.Signature); isF {
								if rt := namedOf(s2.Recv()); rt != nil && structOf(rt) != nil {
									// the field belongs to a unit that owns coroutine fields
									st := structOf(rt)
									for i := 0; i < st.NumFields(); i++ {
										if isCoroutineNamed(st.Field(i).Type()) {
											releases = true
										}
									}
								}
							}
						}
						if sel.Sel.Name == "Reset" && isCoroutineNamed(info.TypeOf(sel.X)) {
							resets = true
						}
					}
					if releases {
						n++
						r.check(resets, rule, fmt.Sprintf("%s.%s:completion-resets#%d", v.rel, declName(fd), n), blk.Pos(), "the step that completes an access (it runs the release closure) returns the access coroutine to its start")
					}
					return true
				})
			}
		}
		// (b) per function that forgets a handle: the coroutine it resets in the same function names the access kind;
		// the entry of that coroutine (and the methods it hands control to) must record handles in the table deleted from
		semTable := func(e ast.Expr) *types.Var {
			sel, ok := ast.Unparen(e).(*ast.SelectorExpr)
			if !ok {
				return nil
			}
			s := info.Selections[sel]
			if s == nil || s.Kind() != types.FieldVal {
				return nil
			}
			if mt, ok := s.Obj().Type().Underlying().(*types.Map); ok && isCompType(mt.Elem(), "Sem") {
				return s.Obj().(*types.Var)
			}
			return nil
		}
		recordedBy := func(fld *types.Var) map[*types.Var]bool {
			out := map[*types.Var]bool{}
			seen := map[*types.Func]bool{}
			var visit func(fn *types.Func, depth int)
			visit = func(fn *types.Func, depth int) {
				if seen[fn] || depth > 3 {
					return
				}
				seen[fn] = true
				fd, pk := w.FuncDecl(fn)
				if fd == nil || fd.Body == nil || pk != v.pkg {
					return
				}
				ast.Inspect(fd.Body, func(k ast.Node) bool {
					if as, ok := k.(*ast.AssignStmt); ok {
						for _, l := range as.Lhs {
							if ix, ok := ast.Unparen(l).(*ast.IndexExpr); ok {
								if t := semTable(ix.X); t != nil {
									out[t] = true
								}
							}
						}
					}
					return true
				})
				for _, c := range calleesIn(info, fd.Body) {
					if sig, ok := c.Type().(*types.Signature); ok && sig.Recv() != nil && c.Pkg() == v.pkg.Types {
						visit(c.Origin(), depth+1)
					}
				}
			}
			for _, e := range bind[fld] {
				visit(e, 0)
			}
			return out
		}
		for _, f := range v.pkg.Syntax {
			for _, d := range f.Decls {
				fd, ok := d.(*ast.FuncDecl)
				if !ok || fd.Body == nil || strings.EqualFold(fd.Name.Name, "flush") {
					continue
				}
				var deleted []*types.Var
				var resets []*types.Var
				ast.Inspect(fd.Body, func(k ast.Node) bool {
					x, ok := k.(*ast.CallExpr)
					if !ok {
						return true
					}
					if id, ok := x.Fun.(*ast.Ident); ok && id.Name == "delete" && len(x.Args) == 2 {
						if t := semTable(x.Args[0]); t != nil {
							deleted = append(deleted, t)
						}
					}
					if sel, ok := x.Fun.(*ast.SelectorExpr); ok && sel.Sel.Name == "Reset" && isCoroutineNamed(info.TypeOf(sel.X)) {
						if fs, ok := ast.Unparen(sel.X).(*ast.SelectorExpr); ok {
							if s := info.Selections[fs]; s != nil && s.Kind() == types.FieldVal {
								resets = append(resets, s.Obj().(*types.Var))
							}
						}
					}
					return true
				})
				if len(deleted) == 0 || len(resets) == 0 {
					continue
				}
				{
					recorded := map[*types.Var]bool{}
					for _, fld := range resets {
						for t := range recordedBy(fld) {
							recorded[t] = true
						}
					}
					var wrong []string
					for _, t := range deleted {
						if !recorded[t] {
							wrong = append(wrong, t.Name())
						}
					}
					sort.Strings(wrong)
					r.check(len(wrong) == 0, rule, fmt.Sprintf("%s.%s:own-lock-table", v.rel, declName(fd)), fd.Pos(), "the lock handles the access forgets are deleted from a table the access records handles in (deleted from tables it never records in: %v)", wrong)
				}
			}
		}
	}
}

// ruleAccessTakesItsLock (R06.23): the entry of the READ coroutine of a cache controller asks the
// coherence layer for the read lock, the entry of the WRITE coroutine for the write lock. The
// kinds are read off the code: an access is a write if its request carries the bytes to store
// (a []int8 field); a lock function is the write lock if one of its outcomes leaves the line in
// the exclusive (highest) state.
func ruleAccessTakesItsLock(r *Run, rule string) {
	w := r.W
	bind := w.coroutineBindings()
	for _, v := range variants(w) {
		if v.pkg == nil || !v.pipelined() || !usesLineLocks(w, v) {
			continue
		}
		info := v.info
		// the exclusive state: the largest constant of the const group the state switch uses
		var exclusive types.Object
		{
			scope := v.pkg.Types.Scope()
			for _, nm := range scope.Names() {
				if c, ok := scope.Lookup(nm).(*types.Const); ok && strings.EqualFold(nm, "modified") {
					exclusive = c
				}
			}
		}
		if exclusive == nil {
			continue
		}
		lockKind := func(fn *types.Func) string {
			fd, _ := w.FuncDecl(fn)
			if fd == nil || fd.Body == nil {
				return ""
			}
			kind := "read"
			ast.Inspect(fd.Body, func(k ast.Node) bool {
				if c, ok := k.(*ast.CallExpr); ok {
					for _, a := range c.Args {
						if id, ok := ast.Unparen(a).(*ast.Ident); ok && info.Uses[id] == exclusive {
							if cf, ok := typeutil.Callee(info, c).(*types.Func); ok && strings.HasPrefix(strings.ToLower(cf.Name()), "set") && strings.HasSuffix(strings.ToLower(cf.Name()), "state") {
								kind = "write"
							}
						}
					}
				}
				return true
			})
			return kind
		}
		for fld, fns := range bind {
			for _, fn := range fns {
				if fn.Pkg() != v.pkg.Types {
					continue
				}
				fd, _ := w.FuncDecl(fn)
				if fd == nil || fd.Body == nil || fd.Type.Params == nil || len(fd.Type.Params.List) != 1 {
					continue
				}
				// the access kind from the request type
				pt := structOf(info.TypeOf(fd.Type.Params.List[0].Type))
				if pt == nil {
					continue
				}
				access := "read"
				for i := 0; i < pt.NumFields(); i++ {
					if typeName(pt.Field(i).Type()) == "[]int8" {
						access = "write"
					}
				}
				// the lock function called: returns (…, func(), *comp.Sem)
				var called []*types.Func
				ast.Inspect(fd.Body, func(k ast.Node) bool {
					if c, ok := k.(*ast.CallExpr); ok {
						if cf, ok := typeutil.Callee(info, c).(*types.Func); ok && cf.Pkg() == v.pkg.Types {
							if sig := cf.Type().(*types.Signature); sig.Results().Len() == 3 && isCompType(sig.Results().At(2).Type(), "Sem") {
								called = append(called, cf)
							}
						}
					}
					return true
				})
				if len(called) == 0 {
					continue
				}
				good := true
				var kinds []string
				for _, cf := range called {
					k := lockKind(cf)
					kinds = append(kinds, cf.Name()+":"+k)
					if k != access {
						good = false
					}
				}
				r.check(good, rule, fmt.Sprintf("%s.%s:lock-kind(%s)", v.rel, declName(fd), fld.Name()), fd.Pos(), "the %s access takes the %s lock of the line (lock functions called: %v)", access, access, kinds)
			}
		}
	}
}

// ruleLockResultTested (R06.24 / R10.17): an attempt to take a line lock (Sem.Lock, Sem.RLock)
// can be refused; its result is never discarded: every such call is the operand of a condition.
// An access that goes on after a refused attempt works on a line another core has locked and
// later releases a lock it does not hold.
func ruleLockResultTested(r *Run, rule string) {
	w := r.W
	for _, v := range variants(w) {
		if v.pkg == nil || !v.pipelined() || !usesLineLocks(w, v) {
			continue
		}
		info := v.info
		for _, f := range v.pkg.Syntax {
			for _, d := range f.Decls {
				fd, ok := d.(*ast.FuncDecl)
				if !ok || fd.Body == nil {
					continue
				}
				n := 0
				// calls used as whole statements or assigned to blank
				ast.Inspect(fd.Body, func(m ast.Node) bool {
					var call *ast.CallExpr
					discarded := false
					switch x := m.(type) {
					case *ast.ExprStmt:
						if c, ok := x.X.(*ast.CallExpr); ok {
							call, discarded = c, true
						}
					case *ast.AssignStmt:
						if len(x.Rhs) == 1 && len(x.Lhs) == 1 {
							if c, ok := x.Rhs[0].(*ast.CallExpr); ok {
								if id, ok := x.Lhs[0].(*ast.Ident); ok && id.Name == "_" {
									call, discarded = c, true
								}
							}
						}
					}
					if call == nil || !discarded {
						return true
					}
					fn, ok := typeutil.Callee(info, call).(*types.Func)
					if !ok || (fn.Name() != "Lock" && fn.Name() != "RLock") {
						return true
					}
					sig := fn.Type().(*types.Signature)
					if sig.Recv() == nil || !isCompType(sig.Recv().Type(), "Sem") {
						return true
					}
					n++
					r.bad(rule, fmt.Sprintf("%s.%s:lock-result-discarded#%d", v.rel, declName(fd), n), call.Pos(), "the result of %s on a line lock is discarded: a refused attempt goes unnoticed", fn.Name())
					return true
				})
			}
		}
		// positive instances: the tested acquisitions (so that the rule cannot pass vacuously)
		for _, f := range v.pkg.Syntax {
			for _, d := range f.Decls {
				fd, ok := d.(*ast.FuncDecl)
				if !ok || fd.Body == nil {
					continue
				}
				n := 0
				ast.Inspect(fd.Body, func(m ast.Node) bool {
					is, ok := m.(*ast.IfStmt)
					if !ok {
						return true
					}
					ast.Inspect(is.Cond, func(k ast.Node) bool {
						if c, ok := k.(*ast.CallExpr); ok {
							if fn, ok := typeutil.Callee(info, c).(*types.Func); ok && (fn.Name() == "Lock" || fn.Name() == "RLock") {
								if sig := fn.Type().(*types.Signature); sig.Recv() != nil && isCompType(sig.Recv().Type(), "Sem") {
									n++
									r.ok(rule, fmt.Sprintf("%s.%s:lock-result-tested#%d", v.rel, declName(fd), n), c.Pos(), "the result of %s decides whether the access proceeds", fn.Name())
								}
							}
						}
						return true
					})
					return true
				})
			}
		}
	}
}

// rulePendingIntervalCoversLine (R05.24 / R10.18): the interval registered for a line fetch in
// progress, [start, start + k), covers the whole line being fetched: k is not smaller than the
// line size of the cache the fetch fills. A shorter interval lets an access to the last bytes
// of the line start a second fetch of it.
func rulePendingIntervalCoversLine(r *Run, rule string) {
	w := r.W
	for _, v := range variants(w) {
		if v.pkg == nil || !v.pipelined() {
			continue
		}
		info := v.info
		_, byVar := resolvedCaches(w, v)
		for _, f := range v.pkg.Syntax {
			for _, d := range f.Decls {
				fd, ok := d.(*ast.FuncDecl)
				if !ok || fd.Body == nil {
					continue
				}
				// the cache this function probes
				var line int64
				ast.Inspect(fd.Body, func(m ast.Node) bool {
					if c, ok := m.(*ast.CallExpr); ok {
						if sel, ok := c.Fun.(*ast.SelectorExpr); ok && isCompType(info.TypeOf(sel.X), "LRUCache") {
							if ci := cacheOfExpr(v, byVar, sel.X); ci != nil && ci.lineSize > 0 {
								line = ci.lineSize
							}
						}
					}
					return true
				})
				if line == 0 {
					continue
				}
				n := 0
				ast.Inspect(fd.Body, func(m ast.Node) bool {
					cl, ok := m.(*ast.CompositeLit)
					if !ok || len(cl.Elts) != 2 {
						return true
					}
					at, ok := info.TypeOf(cl).Underlying().(*types.Array)
					if !ok || at.Len() != 2 || typeName(at.Elem()) != "int32" {
						return true
					}
					// end = start + constants
					start := types.ExprString(ast.Unparen(cl.Elts[0]))
					var sum int64
					okForm := true
					var walk func(e ast.Expr, sign int64)
					walk = func(e ast.Expr, sign int64) {
						e = ast.Unparen(e)
						if c, ok := constInt64(info.Types[e]); ok {
							sum += sign * c
							return
						}
						if b, ok := e.(*ast.BinaryExpr); ok && (b.Op == token.ADD || b.Op == token.SUB) {
							walk(b.X, sign)
							if b.Op == token.ADD {
								walk(b.Y, sign)
							} else {
								walk(b.Y, -sign)
							}
							return
						}
						if types.ExprString(e) != start {
							okForm = false
						}
					}
					walk(cl.Elts[1], 1)
					if !okForm {
						return true
					}
					n++
					r.check(sum >= line, rule, fmt.Sprintf("%s.%s:pending-interval-length#%d", v.rel, declName(fd), n), cl.Pos(), "the interval registered for a line fetch spans at least the line (%d bytes registered, line of %d)", sum, line)
					return true
				})
			}
		}
	}
}

// ruleUnitResetsWhenAccessDone (R07.33): an execute unit that waits for its cache controller
// (it steps the controller's read or write coroutine and tests the "done" answer) returns ITS
// OWN coroutine to the start once the access is done — `Reset()` / `ExecuteWithReset` on the
// side where done holds. A unit left suspended never takes another instruction and never
// reports empty.
func ruleUnitResetsWhenAccessDone(r *Run, rule string) {
	w := r.W
	for _, v := range variants(w) {
		if v.pkg == nil || !v.pipelined() || !usesLineLocks(w, v) {
			continue
		}
		info := v.info
		for _, f := range v.pkg.Syntax {
			for _, d := range f.Decls {
				fd, ok := d.(*ast.FuncDecl)
				if !ok || fd.Body == nil {
					continue
				}
				n := 0
				var scan func(list []ast.Stmt)
				scan = func(list []ast.Stmt) {
					for i, st := range list {
						// resp := X.Cycle(…) on a coroutine FIELD (another unit's access coroutine)
						as, ok := st.(*ast.AssignStmt)
						if ok && len(as.Lhs) == 1 && len(as.Rhs) == 1 {
							if c, ok := as.Rhs[0].(*ast.CallExpr); ok {
								if sel, ok := c.Fun.(*ast.SelectorExpr); ok && sel.Sel.Name == "Cycle" && isCoroutineNamed(info.TypeOf(sel.X)) {
									if _, isField := ast.Unparen(sel.X).(*ast.SelectorExpr); isField {
										if id, ok := as.Lhs[0].(*ast.Ident); ok {
											resp := info.Defs[id]
											// the test of a bool field of resp in the following statements
											for j, nx := range list[i+1:] {
												is, ok := nx.(*ast.IfStmt)
												if !ok {
													continue
												}
												c2 := ast.Unparen(is.Cond)
												neg := false
												if u, ok := c2.(*ast.UnaryExpr); ok && u.Op == token.NOT {
													c2, neg = ast.Unparen(u.X), true
												}
												fs, ok := c2.(*ast.SelectorExpr)
												if !ok {
													continue
												}
												if rid, ok := ast.Unparen(fs.X).(*ast.Ident); !ok || info.Uses[rid] != resp || typeName(info.TypeOf(fs)) != "bool" {
													continue
												}
												var doneSide []ast.Node
												if !neg {
													doneSide = []ast.Node{is.Body}
												} else if terminates(is.Body.List) {
													for _, q := range list[i+1+j+1:] {
														doneSide = append(doneSide, q)
													}
												}
												resets := false
												for _, q := range doneSide {
													ast.Inspect(q, func(k ast.Node) bool {
														if cc, ok := k.(*ast.CallExpr); ok {
															if s2, ok := cc.Fun.(*ast.SelectorExpr); ok && (s2.Sel.Name == "Reset" || s2.Sel.Name == "ExecuteWithReset") {
																if sl := info.Selections[s2]; sl != nil && len(sl.Index()) > 1 {
																	resets = true // promoted from the unit's own embedded coroutine
																}
															}
														}
														return true
													})
												}
												n++
												r.check(resets, rule, fmt.Sprintf("%s.%s:done-resets#%d", v.rel, declName(fd), n), is.Pos(), "once the controller's access is done the unit returns its own coroutine to the start")
												break
											}
										}
									}
								}
							}
						}
						// nested lists and closures
						ast.Inspect(st, func(k ast.Node) bool {
							switch x := k.(type) {
							case *ast.FuncLit:
								scan(x.Body.List)
								return false
							case *ast.BlockStmt:
								if k != ast.Node(st) {
									scan(x.List)
									return false
								}
							}
							return true
						})
					}
				}
				scan(fd.Body.List)
			}
		}
	}
}

// ruleDispatchTruthful (R04.24 / R01.19): the function that puts an instruction on the execute
// bus and raises the scoreboard for it tells its caller the truth: it answers true after it has
// done so and false when it left before. A "not dispatched" answer for an instruction that was
// dispatched keeps it in the pending queue, from which it is dispatched, and executed, again.
func ruleDispatchTruthful(r *Run, rule string) {
	w := r.W
	for _, v := range variants(w) {
		if v.pkg == nil || !multiExec(v) {
			continue
		}
		info := v.info
		for _, f := range v.pkg.Syntax {
			for _, d := range f.Decls {
				fd, ok := d.(*ast.FuncDecl)
				if !ok || fd.Body == nil || fd.Type.Results == nil || len(fd.Type.Results.List) != 1 || typeName(info.TypeOf(fd.Type.Results.List[0].Type)) != "bool" {
					continue
				}
				var addPos token.Pos
				marks := false
				for _, st := range fd.Body.List {
					es, ok := st.(*ast.ExprStmt)
					if !ok {
						continue
					}
					c, ok := es.X.(*ast.CallExpr)
					if !ok {
						continue
					}
					if sel, ok := c.Fun.(*ast.SelectorExpr); ok {
						if sel.Sel.Name == "Add" && isCompType(info.TypeOf(sel.X), "BufferedBus") {
							addPos = c.Pos()
						}
						if sel.Sel.Name == "AddPendingRegisters" {
							marks = true
						}
					}
				}
				if addPos == token.NoPos || !marks {
					continue
				}
				good := true
				seenAfter := false
				ast.Inspect(fd.Body, func(k ast.Node) bool {
					if _, ok := k.(*ast.FuncLit); ok {
						return false
					}
					rs, ok := k.(*ast.ReturnStmt)
					if !ok || len(rs.Results) != 1 {
						return true
					}
					tv := info.Types[rs.Results[0]]
					if tv.Value == nil {
						good = false
						return true
					}
					if rs.Pos() > addPos {
						seenAfter = true
						if tv.Value.String() != "true" {
							good = false
						}
					} else if tv.Value.String() != "false" {
						good = false
					}
					return true
				})
				r.check(good && seenAfter, rule, fmt.Sprintf("%s.%s:dispatch-answer", v.rel, declName(fd)), fd.Pos(), "the dispatch function answers true after it put the instruction on the bus and false when it left before")
			}
		}
	}
}
