package main

// Core plumbing: loading /repo, obligations, known findings, evidence.

import (
	"encoding/json"
	"fmt"
	"go/ast"
	"go/token"
	"go/types"
	"os"
	"path/filepath"
	"sort"
	"strings"
	"time"

	"golang.org/x/tools/go/callgraph"
	"golang.org/x/tools/go/callgraph/cha"
	"golang.org/x/tools/go/packages"
	"golang.org/x/tools/go/ssa"
	"golang.org/x/tools/go/ssa/ssautil"
)

const modPath = "github.com/teivah/majorana"

// Status of one obligation.
type Status string

const (
	Discharged Status = "discharged"
	Violated   Status = "violated"
	Undecided  Status = "undecided"
)

// Obligation is one rule instance: a rule template with its slots filled from
// the repository.
type Obligation struct {
	Prop   string `json:"property"`
	Rule   string `json:"rule"`
	Key    string `json:"key"` // Cxx/Rxx.k@construct — position free
	Status Status `json:"status"`
	Detail string `json:"detail,omitempty"`
	Pos    string `json:"pos,omitempty"` // file:line, information only
	Known  bool   `json:"known,omitempty"`
}

// World is everything loaded from /repo once per invocation.
type World struct {
	RepoDir string
	Fset    *token.FileSet
	Pkgs    map[string]*packages.Package // by import path
	Prog    *ssa.Program
	SSAPkgs map[string]*ssa.Package
	cg      *callgraph.Graph
	GOARCH  string

	// lazily built indexes
	funcDecls map[types.Object]*ast.FuncDecl
	declPkg   map[*ast.FuncDecl]*packages.Package
}

// variantPkgs are the twelve microarchitecture packages, in order.
var variantNames = []string{"mvp1", "mvp2", "mvp3", "mvp4", "mvp5", "mvp6-0", "mvp6-1", "mvp6-2", "mvp6-3", "mvp7-0", "mvp7-1", "mvp8-0"}

var requiredPkgs = []string{
	"common/bytes", "common/cache", "common/coroutine", "common/ds", "common/latency", "common/log", "common/option",
	"proc", "proc/comp", "risc",
}

func loadWorld(repo string, goarch string, overlay map[string][]byte) (*World, error) {
	env := []string{}
	for _, e := range os.Environ() {
		if strings.HasPrefix(e, "GOFLAGS=") || strings.HasPrefix(e, "GOWORK=") || strings.HasPrefix(e, "GOPROXY=") ||
			strings.HasPrefix(e, "GOSUMDB=") || strings.HasPrefix(e, "GOTOOLCHAIN=") || strings.HasPrefix(e, "GOARCH=") ||
			strings.HasPrefix(e, "GOOS=") || strings.HasPrefix(e, "CGO_ENABLED=") {
			continue
		}
		env = append(env, e)
	}
	env = append(env, "GOFLAGS=-mod=mod", "GOWORK=off", "GOPROXY=off", "GOSUMDB=off", "GOTOOLCHAIN=local", "CGO_ENABLED=0")
	if goarch != "" {
		env = append(env, "GOARCH="+goarch)
	}
	fset := token.NewFileSet()
	cfg := &packages.Config{
		Mode:    packages.LoadAllSyntax,
		Dir:     repo,
		Tests:   false,
		Env:     env,
		Fset:    fset,
		Overlay: overlay,
	}
	pkgs, err := packages.Load(cfg, "./...")
	if err != nil {
		return nil, fmt.Errorf("packages.Load: %v", err)
	}
	w := &World{RepoDir: repo, Fset: fset, Pkgs: map[string]*packages.Package{}, SSAPkgs: map[string]*ssa.Package{}, GOARCH: goarch}
	var errs []string
	packages.Visit(pkgs, nil, func(p *packages.Package) {
		for _, e := range p.Errors {
			errs = append(errs, e.Error())
		}
	})
	if len(errs) > 0 {
		return nil, fmt.Errorf("load/type errors: %s", strings.Join(errs, "; "))
	}
	for _, p := range pkgs {
		w.Pkgs[p.PkgPath] = p
	}
	var missing []string
	need := append([]string{}, requiredPkgs...)
	for _, v := range variantNames {
		need = append(need, "proc/"+v)
	}
	for _, n := range need {
		if w.Pkgs[modPath+"/"+n] == nil {
			missing = append(missing, n)
		}
	}
	if len(missing) > 0 {
		return nil, fmt.Errorf("packages missing from the load (a static tool sees only what was parsed): %v", missing)
	}
	prog, spkgs := ssautil.AllPackages(pkgs, ssa.InstantiateGenerics)
	prog.Build()
	w.Prog = prog
	for i, sp := range spkgs {
		if sp != nil {
			w.SSAPkgs[pkgs[i].PkgPath] = sp
		}
	}
	computeWriteOnlyFields(w)
	return w, nil
}

func (w *World) CG() *callgraph.Graph {
	if w.cg == nil {
		w.cg = cha.CallGraph(w.Prog)
	}
	return w.cg
}

func (w *World) Pkg(rel string) *packages.Package { return w.Pkgs[modPath+"/"+rel] }

func (w *World) pos(p token.Pos) string {
	if !p.IsValid() {
		return ""
	}
	ps := w.Fset.Position(p)
	rel, err := filepath.Rel(w.RepoDir, ps.Filename)
	if err != nil {
		rel = ps.Filename
	}
	return fmt.Sprintf("%s:%d", rel, ps.Line)
}

// indexDecls maps function objects to their declarations.
func (w *World) indexDecls() {
	if w.funcDecls != nil {
		return
	}
	w.funcDecls = map[types.Object]*ast.FuncDecl{}
	w.declPkg = map[*ast.FuncDecl]*packages.Package{}
	for _, p := range w.Pkgs {
		if !strings.HasPrefix(p.PkgPath, modPath) {
			continue
		}
		for _, f := range p.Syntax {
			for _, d := range f.Decls {
				if fd, ok := d.(*ast.FuncDecl); ok {
					if obj := p.TypesInfo.Defs[fd.Name]; obj != nil {
						w.funcDecls[obj] = fd
						w.declPkg[fd] = p
					}
				}
			}
		}
	}
}

// FuncDecl finds the declaration of a function or method object (generic
// origin for instantiated methods).
func (w *World) FuncDecl(obj types.Object) (*ast.FuncDecl, *packages.Package) {
	w.indexDecls()
	if f, ok := obj.(*types.Func); ok {
		obj = f.Origin()
	}
	fd := w.funcDecls[obj]
	if fd == nil {
		return nil, nil
	}
	return fd, w.declPkg[fd]
}

// Method finds a method declared on named type tname (pointer or value
// receiver) in package rel.
func (w *World) Method(rel, tname, mname string) (*ast.FuncDecl, *packages.Package) {
	p := w.Pkg(rel)
	if p == nil {
		return nil, nil
	}
	obj := p.Types.Scope().Lookup(tname)
	if obj == nil {
		return nil, nil
	}
	named, ok := obj.Type().(*types.Named)
	if !ok {
		return nil, nil
	}
	for i := 0; i < named.NumMethods(); i++ {
		m := named.Method(i)
		if m.Name() == mname {
			return w.FuncDecl(m)
		}
	}
	return nil, nil
}

func (w *World) Func(rel, fname string) (*ast.FuncDecl, *packages.Package) {
	p := w.Pkg(rel)
	if p == nil {
		return nil, nil
	}
	obj := p.Types.Scope().Lookup(fname)
	if obj == nil {
		return nil, nil
	}
	return w.FuncDecl(obj)
}

// ---------------------------------------------------------------------------

// Run context for one property.
type Run struct {
	W       *World
	Prop    string
	Tier    string
	Obs     []*Obligation
	Anchors map[string]string // role -> what it resolved to (audit)
	Info    []string          // informational notes (never verdicts)
	Floors  map[string]int    // rule -> minimal instance count
	seen    map[string]bool
}

func (r *Run) add(rule, construct string, st Status, pos token.Pos, format string, args ...any) *Obligation {
	key := fmt.Sprintf("%s/%s@%s", r.Prop, rule, construct)
	if r.seen == nil {
		r.seen = map[string]bool{}
	}
	if r.seen[key] {
		// keys must be unique: disambiguate deterministically
		for i := 2; ; i++ {
			k2 := fmt.Sprintf("%s#%d", key, i)
			if !r.seen[k2] {
				key = k2
				break
			}
		}
	}
	r.seen[key] = true
	o := &Obligation{Prop: r.Prop, Rule: rule, Key: key, Status: st, Detail: fmt.Sprintf(format, args...), Pos: r.W.pos(pos)}
	r.Obs = append(r.Obs, o)
	return o
}

func (r *Run) ok(rule, construct string, pos token.Pos, format string, args ...any) {
	r.add(rule, construct, Discharged, pos, format, args...)
}
func (r *Run) bad(rule, construct string, pos token.Pos, format string, args ...any) {
	r.add(rule, construct, Violated, pos, format, args...)
}
func (r *Run) undecided(rule, construct string, pos token.Pos, format string, args ...any) {
	r.add(rule, construct, Undecided, pos, format, args...)
}

// check records discharged/violated depending on cond.
func (r *Run) check(cond bool, rule, construct string, pos token.Pos, format string, args ...any) bool {
	if cond {
		r.ok(rule, construct, pos, format, args...)
	} else {
		r.bad(rule, construct, pos, format, args...)
	}
	return cond
}

func (r *Run) anchor(role, resolved string) {
	if r.Anchors == nil {
		r.Anchors = map[string]string{}
	}
	r.Anchors[role] = resolved
}

func (r *Run) floor(rule string, n int) {
	if r.Floors == nil {
		r.Floors = map[string]int{}
	}
	r.Floors[rule] = n
}

func (r *Run) info(format string, args ...any) { r.Info = append(r.Info, fmt.Sprintf(format, args...)) }

// ---------------------------------------------------------------------------
// Known findings

type KnownFinding struct {
	Property      string `json:"property"`
	Key           string `json:"key"`
	WhatFails     string `json:"what_fails"`
	Demonstration string `json:"demonstration"`
}

type KnownFile struct {
	Comment  string         `json:"comment"`
	Findings []KnownFinding `json:"findings"`
	Fixed    []string       `json:"fixed"`
}

func loadKnown(verifDir string) (*KnownFile, error) {
	b, err := os.ReadFile(filepath.Join(verifDir, "known_findings.json"))
	if err != nil {
		if os.IsNotExist(err) {
			return &KnownFile{}, nil
		}
		return nil, err
	}
	var k KnownFile
	if err := json.Unmarshal(b, &k); err != nil {
		return nil, fmt.Errorf("known_findings.json: %v", err)
	}
	return &k, nil
}

// ---------------------------------------------------------------------------
// Evidence

type Evidence struct {
	PropertyID  string         `json:"property_id"`
	Tier        string         `json:"tier"`
	Seed        int            `json:"seed"`
	Level       string         `json:"level"`
	Coverage    map[string]any `json:"coverage"`
	Assumptions []string       `json:"assumptions"`
	WallS       float64        `json:"wall_s"`
	Violations  int            `json:"violations"`
}

type propSpec struct {
	ID          string
	Level       string
	Run         func(r *Run)
	Explanation string
	Assumptions []string
	Trusted     []string
}

var props = map[string]*propSpec{}

func register(p *propSpec) { props[p.ID] = p }

func sanitize(s string) string {
	var b strings.Builder
	for _, c := range s {
		switch {
		case c >= 'a' && c <= 'z', c >= 'A' && c <= 'Z', c >= '0' && c <= '9', c == '.', c == '-', c == '_':
			b.WriteRune(c)
		default:
			b.WriteByte('_')
		}
	}
	out := b.String()
	if len(out) > 150 {
		out = out[:150]
	}
	return out
}

// finish compares obligations with floors and known findings, prints the
// verdict lines, writes evidence and violation files, returns the exit code.
func finish(r *Run, ps *propSpec, verifDir string, start time.Time, seed int, extra map[string]any) int {
	known, kerr := loadKnown(verifDir)
	exit := 0
	var lines []string
	violDir := filepath.Join(verifDir, "evidence", "violations")
	os.MkdirAll(violDir, 0o755)
	// remove stale violation files of this property
	if ents, err := os.ReadDir(violDir); err == nil {
		for _, e := range ents {
			if strings.HasPrefix(e.Name(), r.Prop+"-") {
				os.Remove(filepath.Join(violDir, e.Name()))
			}
		}
	}
	report := func(o *Obligation, reason string) {
		path := filepath.Join(violDir, r.Prop+"-"+sanitize(strings.TrimPrefix(o.Key, r.Prop+"/"))+".json")
		b, _ := json.MarshalIndent(map[string]any{"obligation": o, "reason": reason}, "", " ")
		os.WriteFile(path, b, 0o644)
		lines = append(lines, fmt.Sprintf("VIOLATION property=%s replay=%s", r.Prop, path))
		lines = append(lines, fmt.Sprintf("  rule=%s key=%s status=%s reason=%s at %s: %s", o.Rule, o.Key, o.Status, reason, o.Pos, o.Detail))
		exit = 1
	}
	if kerr != nil {
		report(&Obligation{Prop: r.Prop, Rule: "plumbing", Key: r.Prop + "/known_findings", Status: Undecided, Detail: kerr.Error()}, "known-findings file unreadable")
	}
	knownByKey := map[string]KnownFinding{}
	for _, k := range known.Findings {
		if k.Property == r.Prop {
			knownByKey[k.Key] = k
		}
	}
	counts := map[string]int{}
	nDis, nKnown, nViol := 0, 0, 0
	for _, o := range r.Obs {
		counts[o.Rule]++
		switch o.Status {
		case Discharged:
			nDis++
		case Violated:
			if k, ok := knownByKey[o.Key]; ok {
				o.Known = true
				nKnown++
				lines = append(lines, fmt.Sprintf("KNOWN-FINDING: property=%s %s [%s]", r.Prop, k.WhatFails, o.Key))
			} else {
				nViol++
				report(o, "violated")
			}
		case Undecided:
			nViol++
			report(o, "undecided")
		}
	}
	// floors
	var rules []string
	for rule := range r.Floors {
		rules = append(rules, rule)
	}
	sort.Strings(rules)
	for _, rule := range rules {
		if counts[rule] < r.Floors[rule] {
			nViol++
			report(&Obligation{Prop: r.Prop, Rule: rule, Key: fmt.Sprintf("%s/%s@instance-floor", r.Prop, rule), Status: Undecided,
				Detail: fmt.Sprintf("rule matched %d constructs, fewer than the %d confirmed by hand: the rule would pass vacuously", counts[rule], r.Floors[rule])}, "instance-floor")
		}
	}
	// evidence
	perRule := map[string]map[string]int{}
	for _, o := range r.Obs {
		m := perRule[o.Rule]
		if m == nil {
			m = map[string]int{}
			perRule[o.Rule] = m
		}
		m["instances"]++
		if o.Status == Discharged {
			m["discharged"]++
		} else if o.Known {
			m["known"]++
		} else {
			m["failed"]++
		}
	}
	for rule, f := range r.Floors {
		if perRule[rule] == nil {
			perRule[rule] = map[string]int{}
		}
		perRule[rule]["floor"] = f
	}
	var samples []any
	step := 1
	if len(r.Obs) > 12 {
		step = len(r.Obs) / 12
	}
	for i := 0; i < len(r.Obs); i += step {
		samples = append(samples, r.Obs[i])
	}
	var failing []any
	for _, o := range r.Obs {
		if o.Status != Discharged {
			failing = append(failing, o)
		}
	}
	nfuncs := 0
	for _, sp := range r.W.SSAPkgs {
		if strings.HasPrefix(sp.Pkg.Path(), modPath) {
			for _, m := range sp.Members {
				if _, ok := m.(*ssa.Function); ok {
					nfuncs++
				}
			}
		}
	}
	npk := 0
	for p := range r.W.Pkgs {
		if strings.HasPrefix(p, modPath) {
			npk++
		}
	}
	cov := map[string]any{
		"explanation":          ps.Explanation,
		"obligations":          len(r.Obs),
		"discharged":           nDis,
		"known_findings":       nKnown,
		"failed":               nViol,
		"evaluations":          len(r.Obs),
		"distinct_nontrivial":  len(r.seen),
		"rule":                 "one obligation per rule instance (rule template with slots filled from /repo: a function, call site, switch, field or loop); distinct = distinct position-free keys",
		"per_rule":             perRule,
		"samples":              samples,
		"not_discharged":       failing,
		"anchors":              r.Anchors,
		"information":          r.Info,
		"packages_analysed":    npk,
		"functions_in_program": nfuncs,
		"checker_cmd":          fmt.Sprintf("./bin/majcheck -prop %s -tier %s", r.Prop, r.Tier),
		"trusted_base":         ps.Trusted,
		"exhaustive":           true,
	}
	for k, v := range extra {
		cov[k] = v
	}
	ev := Evidence{PropertyID: r.Prop, Tier: r.Tier, Seed: seed, Level: ps.Level, Coverage: cov, Assumptions: ps.Assumptions,
		WallS: time.Since(start).Seconds(), Violations: nViol}
	if ev.Assumptions == nil {
		ev.Assumptions = []string{}
	}
	b, _ := json.MarshalIndent(ev, "", " ")
	os.MkdirAll(filepath.Join(verifDir, "evidence"), 0o755)
	if err := os.WriteFile(filepath.Join(verifDir, "evidence", r.Prop+".json"), b, 0o644); err != nil {
		fmt.Println("cannot write evidence:", err)
		exit = 1
	}
	fmt.Printf("majcheck %s tier=%s: %d obligations, %d discharged, %d known findings, %d failing; %d packages; %.1fs\n",
		r.Prop, r.Tier, len(r.Obs), nDis, nKnown, nViol, npk, time.Since(start).Seconds())
	var rs []string
	for rule := range perRule {
		rs = append(rs, rule)
	}
	sort.Strings(rs)
	for _, rule := range rs {
		m := perRule[rule]
		fmt.Printf("  %-10s instances=%d discharged=%d known=%d failed=%d floor=%d\n", rule, m["instances"], m["discharged"], m["known"], m["failed"], m["floor"])
	}
	for _, l := range lines {
		fmt.Println(l)
	}
	return exit
}

// importRules runs another property's rule set on a scratch Run and copies the obligations of the
// rules named in mapping into r under new rule ids (a property whose behaviour depends on those
// clauses includes them as its own necessary conditions).
func importRules(r *Run, from func(*Run), mapping map[string]string) {
	sub := &Run{W: r.W, Prop: r.Prop, Tier: r.Tier}
	from(sub)
	for _, o := range sub.Obs {
		nr, ok := mapping[o.Rule]
		if !ok {
			continue
		}
		construct := strings.TrimPrefix(o.Key, fmt.Sprintf("%s/%s@", r.Prop, o.Rule))
		no := r.add(nr, construct, o.Status, token.NoPos, "%s", o.Detail)
		no.Pos = o.Pos
	}
}
