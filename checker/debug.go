package main

import (
	"bytes"
	"encoding/json"
	"fmt"
	"go/ast"
	"go/printer"
	"go/types"
	"os"
	"sort"
	"strings"
)

// dumpTerm prints the outcome term of rel:Type.Method or rel:Func.
func dumpRoles(w *World) {
	for _, v := range variants(w) {
		fmt.Printf("%s: cpu=%v run=%v flush=%v isEmpty=%v problems=%v\n", v.name, v.cpu != nil, v.run != nil, v.flush != nil, v.isEmpty != nil, v.problems)
		for _, f := range v.fields {
			if f.isBus || f.isUnit {
				fmt.Printf("    %-22s %-12s roles=%v\n", f.name, f.kind, sortedKeys(f.roles))
			}
		}
	}
}

func dumpTerm(w *World, spec string) {
	if spec == "roles" {
		dumpRoles(w)
		return
	}
	if strings.HasPrefix(spec, "cost:") {
		for _, v := range variants(w) {
			if v.name == strings.TrimPrefix(spec, "cost:") {
				paths, e := costPaths(w, v)
				fmt.Println(len(paths), e)
				for i, cp := range paths {
					if i > 12 {
						break
					}
					fmt.Printf("--- path %d flow=%d retErr=%v\n", i, cp.flow, cp.retErr)
					for _, c := range cp.conds {
						fmt.Printf("    %v %s\n", c.pos, clip(c.c.Pretty(), 160))
					}
					for _, a := range cp.addends {
						fmt.Printf("    + %s\n", clip(a.Pretty(), 100))
					}
				}
			}
		}
		return
	}
	if spec == "renamefuncs" {
		// experiment: every unexported function and method of the variant packages renamed (suffix Rn)
		ov := map[string]string{}
		for _, p := range modulePkgs(w) {
			if !strings.Contains(p.PkgPath, "/proc/mvp") {
				continue
			}
			for _, f := range p.Syntax {
				changed := false
				ast.Inspect(f, func(n ast.Node) bool {
					id, ok := n.(*ast.Ident)
					if !ok {
						return true
					}
					obj := p.TypesInfo.Defs[id]
					if obj == nil {
						obj = p.TypesInfo.Uses[id]
					}
					fn, ok := obj.(*types.Func)
					if !ok || fn.Pkg() != p.Types || fn.Exported() || fn.Name() == "init" {
						return true
					}
					id.Name = id.Name + "Rn"
					changed = true
					return true
				})
				if changed {
					var buf bytes.Buffer
					if err := printer.Fprint(&buf, w.Fset, f); err == nil {
						ov[w.Fset.Position(f.Pos()).Filename] = buf.String()
					}
				}
			}
		}
		b, _ := json.Marshal(ov)
		fmt.Println(string(b))
		return
	}
	if spec == "mapranges" {
		dumpMapRanges(w)
		return
	}
	parts := strings.SplitN(spec, ":", 2)
	if len(parts) != 2 {
		fmt.Println("want pkg:Type.Method")
		return
	}
	in := newInterp(w)
	if op := os.Getenv("MAJ_OPAQUE"); op != "" {
		in.opaqueMethods = map[string]bool{}
		for _, m := range strings.Split(op, ",") {
			in.opaqueMethods[m] = true
		}
	}
	tm := strings.SplitN(parts[1], ".", 2)
	var t *Term
	var err error
	if len(tm) == 2 {
		fd, pkg := w.Method(parts[0], tm[0], tm[1])
		if fd == nil {
			fmt.Println("not found")
			return
		}
		t, err = in.FuncTerm(fd, pkg)
	} else {
		fd, pkg := w.Func(parts[0], tm[0])
		if fd == nil {
			fmt.Println("not found")
			return
		}
		t, err = in.FuncTerm(fd, pkg)
	}
	if err != nil {
		fmt.Println("ERROR", err)
		return
	}
	fmt.Println(t.Pretty())
	fmt.Println("--- hoisted")
	fmt.Println(hoistAll(t).Pretty())
}

func dumpMapRanges(w *World) {
	var paths []string
	for p := range w.Pkgs {
		if strings.HasPrefix(p, modPath) {
			paths = append(paths, p)
		}
	}
	sort.Strings(paths)
	n := 0
	for _, path := range paths {
		p := w.Pkgs[path]
		for _, f := range p.Syntax {
			for _, d := range f.Decls {
				fd, ok := d.(*ast.FuncDecl)
				if !ok || fd.Body == nil {
					continue
				}
				ast.Inspect(fd.Body, func(nd ast.Node) bool {
					rs, ok := nd.(*ast.RangeStmt)
					if !ok {
						return true
					}
					t := p.TypesInfo.TypeOf(rs.X)
					if t == nil {
						return true
					}
					if _, isMap := t.Underlying().(*types.Map); !isMap {
						return true
					}
					n++
					fmt.Printf("%3d %s %s range %s\n", n, strings.TrimPrefix(path, modPath+"/"), declName(fd), types.ExprString(rs.X))
					return true
				})
			}
		}
	}
}
