package main

import (
	"fmt"
	"strings"
)

// dumpTerm prints the outcome term of rel:Type.Method or rel:Func.
func dumpRoles(w *World) {
	for _, v := range variants(w) {
		fmt.Printf("%s: cpu=%v run=%v flush=%v isEmpty=%v problems=%v\n", v.name, v.cpu != nil, v.run != nil, v.flush != nil, v.isEmpty != nil, v.problems)
		for _, f := range v.fields {
			if f.isBus || f.isUnit {
				fmt.Printf("    %-22s %-12s roles=%v\n", f.name, f.kind, sortedKeys(f.roles))
			}
		}
	}
}

func dumpTerm(w *World, spec string) {
	if spec == "roles" {
		dumpRoles(w)
		return
	}
	parts := strings.SplitN(spec, ":", 2)
	if len(parts) != 2 {
		fmt.Println("want pkg:Type.Method")
		return
	}
	in := newInterp(w)
	tm := strings.SplitN(parts[1], ".", 2)
	var t *Term
	var err error
	if len(tm) == 2 {
		fd, pkg := w.Method(parts[0], tm[0], tm[1])
		if fd == nil {
			fmt.Println("not found")
			return
		}
		t, err = in.FuncTerm(fd, pkg)
	} else {
		fd, pkg := w.Func(parts[0], tm[0])
		if fd == nil {
			fmt.Println("not found")
			return
		}
		t, err = in.FuncTerm(fd, pkg)
	}
	if err != nil {
		fmt.Println("ERROR", err)
		return
	}
	fmt.Println(t.Pretty())
	fmt.Println("--- hoisted")
	fmt.Println(hoistAll(t).Pretty())
}

func thorough(ps *propSpec, r *Run, repo string, extra map[string]any) {}
