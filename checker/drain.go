package main

// Exit conditions of drain loops: which emptiness facts hold when a loop that
// cycles pipeline units stops. Atoms: "exec", "write" (all units of that role
// report empty), "bus:<field>" (a CPU bus reports empty), "cc" (a cache
// controller coroutine is idle).

import (
	"go/ast"
	"go/token"
	"go/types"
	"strings"

	"golang.org/x/tools/go/types/typeutil"
)

// atomOf classifies an emptiness call.
func (v *variant) atomOf(w *World, e ast.Expr) string {
	call, ok := ast.Unparen(e).(*ast.CallExpr)
	if !ok {
		return ""
	}
	sel, ok := call.Fun.(*ast.SelectorExpr)
	if !ok {
		return ""
	}
	ln := strings.ToLower(sel.Sel.Name)
	if ln == "isempty" {
		if f := v.cpuFieldOf(sel.X); f != nil && f.isBus {
			return "bus:" + f.name
		}
		if t := v.info.TypeOf(sel.X); t != nil {
			nt := namedOf(t)
			for _, f := range v.fields {
				if f.isUnit && f.unitT == nt {
					if f.roles["exec"] {
						return "exec"
					}
					if f.roles["write"] {
						return "write"
					}
					return "unit:" + f.name
				}
			}
		}
	}
	if ln == "isstart" {
		return "cc"
	}
	// a CPU helper that ranges over the units of one role and tests isEmpty
	if f, ok := typeutil.Callee(v.info, call).(*types.Func); ok {
		if fd, _ := w.FuncDecl(f); fd != nil && fd.Body != nil && fd.Recv != nil && fd != v.isEmpty {
			role := ""
			ast.Inspect(fd.Body, func(n ast.Node) bool {
				if rs, ok := n.(*ast.RangeStmt); ok {
					if fr := v.cpuFieldOf(rs.X); fr != nil && fr.isUnit {
						has := false
						ast.Inspect(rs.Body, func(m ast.Node) bool {
							if c, ok := m.(*ast.CallExpr); ok {
								if s, ok := c.Fun.(*ast.SelectorExpr); ok && strings.EqualFold(s.Sel.Name, "isEmpty") {
									has = true
								}
							}
							return true
						})
						if has {
							if fr.roles["exec"] {
								role = "exec"
							} else if fr.roles["write"] {
								role = "write"
							}
						}
					}
				}
				return true
			})
			return role
		}
	}
	return ""
}

func splitOn(e ast.Expr, op token.Token) []ast.Expr {
	e = ast.Unparen(e)
	if b, ok := e.(*ast.BinaryExpr); ok && b.Op == op {
		return append(splitOn(b.X, op), splitOn(b.Y, op)...)
	}
	return []ast.Expr{e}
}

// negatedAtoms reads a condition of the form !A || !B || … (the loop keeps
// going while something is non-empty); unknown disjuncts only make the loop
// run longer and are ignored. A top-level && is reported.
func (v *variant) negatedAtoms(w *World, cond ast.Expr) (map[string]bool, string) {
	out := map[string]bool{}
	if b, ok := ast.Unparen(cond).(*ast.BinaryExpr); ok && b.Op == token.LAND {
		return out, "the condition is a conjunction: the loop stops as soon as ONE stage is empty"
	}
	for _, d := range splitOn(cond, token.LOR) {
		if u, ok := ast.Unparen(d).(*ast.UnaryExpr); ok && u.Op == token.NOT {
			if a := v.atomOf(w, u.X); a != "" {
				out[a] = true
			}
		}
	}
	return out, ""
}

// conjunctAtoms reads a skip guard A && B && …; a top-level || is reported.
func (v *variant) conjunctAtoms(w *World, cond ast.Expr) (map[string]bool, string) {
	out := map[string]bool{}
	if b, ok := ast.Unparen(cond).(*ast.BinaryExpr); ok && b.Op == token.LOR {
		return out, "the skip guard is a disjunction: a unit is skipped as soon as ONE of the facts holds"
	}
	for _, c := range splitOn(cond, token.LAND) {
		if a := v.atomOf(w, c); a != "" {
			out[a] = true
		}
	}
	return out, ""
}

// exitAtoms computes the emptiness facts that hold when the drain loop stops.
func (v *variant) exitAtoms(w *World, loop *ast.ForStmt) (map[string]bool, []string) {
	var problems []string
	if loop.Cond != nil {
		a, p := v.negatedAtoms(w, loop.Cond)
		if p != "" {
			problems = append(problems, p)
		}
		return a, problems
	}
	out := map[string]bool{}
	// for { flag := true; …; if flag { break } }
	var flag types.Object
	for _, st := range loop.Body.List {
		if as, ok := st.(*ast.AssignStmt); ok && as.Tok == token.DEFINE && len(as.Lhs) == 1 && len(as.Rhs) == 1 {
			if tv := v.info.Types[as.Rhs[0]]; tv.Value != nil && tv.Value.String() == "true" {
				if id, ok := as.Lhs[0].(*ast.Ident); ok && flag == nil {
					flag = v.info.Defs[id]
				}
			}
		}
	}
	if flag == nil {
		return out, []string{"unconditional loop without an emptiness flag"}
	}
	// every `flag = false`
	var visit func(n ast.Node, guards []ast.Node)
	visit = func(n ast.Node, guards []ast.Node) {
		switch x := n.(type) {
		case *ast.IfStmt:
			for _, s := range x.Body.List {
				visit(s, append(guards, x))
			}
			if x.Else != nil {
				visit(x.Else, guards)
			}
		case *ast.RangeStmt:
			// a `continue` guard at the top of the body
			var skip *ast.IfStmt
			for _, s := range x.Body.List {
				if is, ok := s.(*ast.IfStmt); ok && skip == nil && len(is.Body.List) == 1 {
					if b, ok := is.Body.List[0].(*ast.BranchStmt); ok && b.Tok == token.CONTINUE {
						skip = is
						continue
					}
				}
				g := guards
				if skip != nil {
					g = append(append([]ast.Node{}, guards...), &ast.LabeledStmt{Stmt: skip})
				}
				visit(s, g)
			}
		case *ast.BlockStmt:
			for _, s := range x.List {
				visit(s, guards)
			}
		case *ast.ForStmt:
			visit(x.Body, guards)
		case *ast.AssignStmt:
			if len(x.Lhs) != 1 || len(x.Rhs) != 1 {
				return
			}
			id, ok := x.Lhs[0].(*ast.Ident)
			if !ok || v.info.Uses[id] != flag {
				return
			}
			if tv := v.info.Types[x.Rhs[0]]; tv.Value == nil || tv.Value.String() != "false" {
				return
			}
			if len(guards) == 0 {
				return
			}
			switch g := guards[len(guards)-1].(type) {
			case *ast.IfStmt:
				a, p := v.negatedAtoms(w, g.Cond)
				if p != "" {
					problems = append(problems, p)
				}
				for k := range a {
					out[k] = true
				}
			case *ast.LabeledStmt: // skip guard marker
				a, p := v.conjunctAtoms(w, g.Stmt.(*ast.IfStmt).Cond)
				if p != "" {
					problems = append(problems, p)
				}
				for k := range a {
					out[k] = true
				}
			}
		}
	}
	visit(loop.Body, nil)
	return out, problems
}

// resultBus is the bus that carries execution results to the write units.
func (v *variant) resultBus() *fieldRole {
	for _, f := range v.fields {
		if f.isBus && strings.Contains(typeName(f.obj.Type()), "ExecutionContext") {
			return f
		}
	}
	return nil
}
