package main

import (
	"encoding/json"
	"flag"
	"fmt"
	"os"
	"runtime/debug"
	"sort"
	"strconv"
	"time"
)

func main() {
	prop := flag.String("prop", "", "property id (C01..C16)")
	tier := flag.String("tier", "quick", "quick|thorough")
	repo := flag.String("repo", "/repo", "repository root")
	verif := flag.String("verif", "/verif", "verification directory (known_findings.json, evidence/)")
	explain := flag.String("explain", "", "violation file to re-check and explain")
	dump := flag.String("dump", "", "debug: dump the term of pkg:Type.Method")
	noEvidence := flag.Bool("selftest-child", false, "internal: run rules and print obligations as JSON (used by the thorough tier on overlays)")
	overlayFile := flag.String("overlay", "", "internal: JSON file {path: contents} overlaid on the repo")
	flag.Parse()
	if env := os.Getenv("VERIF_TIER"); env != "" && !isFlagSet("tier") {
		*tier = env
	}
	seed := 0
	if s := os.Getenv("VERIF_SEED"); s != "" {
		seed, _ = strconv.Atoi(s)
	}
	start := time.Now()

	if *explain != "" {
		b, err := os.ReadFile(*explain)
		if err != nil {
			fmt.Println(err)
			os.Exit(2)
		}
		var v struct {
			Obligation Obligation `json:"obligation"`
		}
		json.Unmarshal(b, &v)
		*prop = v.Obligation.Prop
		fmt.Printf("re-running %s and looking for %s\n", *prop, v.Obligation.Key)
		ps := props[*prop]
		if ps == nil {
			fmt.Println("unknown property", *prop)
			os.Exit(2)
		}
		w, err := loadWorld(*repo, "", nil)
		if err != nil {
			fmt.Println(err)
			os.Exit(1)
		}
		r := &Run{W: w, Prop: *prop, Tier: "quick"}
		runProp(ps, r)
		for _, o := range r.Obs {
			if o.Key == v.Obligation.Key {
				fmt.Printf("rule %s\nconstruct %s\nstatus %s\nat %s\n%s\n", o.Rule, o.Key, o.Status, o.Pos, o.Detail)
				if o.Status == Discharged {
					os.Exit(0)
				}
				os.Exit(1)
			}
		}
		fmt.Println("obligation no longer exists on this tree")
		os.Exit(0)
	}

	var overlay map[string][]byte
	if *overlayFile != "" {
		b, err := os.ReadFile(*overlayFile)
		if err != nil {
			fmt.Println(err)
			os.Exit(2)
		}
		var m map[string]string
		if err := json.Unmarshal(b, &m); err != nil {
			fmt.Println(err)
			os.Exit(2)
		}
		overlay = map[string][]byte{}
		for k, v := range m {
			overlay[k] = []byte(v)
		}
	}

	if *dump != "" {
		w, err := loadWorld(*repo, "", overlay)
		if err != nil {
			fmt.Println(err)
			os.Exit(1)
		}
		dumpTerm(w, *dump)
		return
	}

	ps := props[*prop]
	if ps == nil {
		var ids []string
		for id := range props {
			ids = append(ids, id)
		}
		sort.Strings(ids)
		fmt.Println("usage: majcheck -prop <id> -tier quick|thorough; properties:", ids)
		os.Exit(2)
	}
	w, err := loadWorld(*repo, os.Getenv("MAJCHECK_GOARCH"), overlay)
	if err != nil {
		// a load failure fails the check: a static tool sees only what was parsed
		r := &Run{W: &World{RepoDir: *repo}, Prop: *prop, Tier: *tier}
		r.undecided("load", "repo", 0, "%v", err)
		if *noEvidence {
			printObligations(r)
			os.Exit(1)
		}
		os.Exit(finish(r, ps, *verif, start, seed, nil))
	}
	r := &Run{W: w, Prop: *prop, Tier: *tier}
	runProp(ps, r)
	if *noEvidence {
		printObligations(r)
		return
	}
	extra := map[string]any{}
	if *tier == "thorough" {
		thorough(ps, r, *repo, *verif, extra)
	}
	os.Exit(finish(r, ps, *verif, start, seed, extra))
}

func printObligations(r *Run) {
	// instance floors count as obligations here too (a rule that lost an instance is not silent)
	counts := map[string]int{}
	for _, o := range r.Obs {
		counts[o.Rule]++
	}
	var rules []string
	for rule := range r.Floors {
		rules = append(rules, rule)
	}
	sort.Strings(rules)
	for _, rule := range rules {
		if counts[rule] < r.Floors[rule] {
			r.Obs = append(r.Obs, &Obligation{Prop: r.Prop, Rule: rule, Key: fmt.Sprintf("%s/%s@instance-floor", r.Prop, rule), Status: Undecided,
				Detail: fmt.Sprintf("rule matched %d constructs, fewer than the %d confirmed by hand", counts[rule], r.Floors[rule])})
		}
	}
	b, _ := json.Marshal(r.Obs)
	fmt.Println(string(b))
}

func isFlagSet(name string) bool {
	set := false
	flag.Visit(func(f *flag.Flag) {
		if f.Name == name {
			set = true
		}
	})
	return set
}

// runProp runs the rules of one property; a panic inside the analyser is an
// undecided obligation, never a silent pass.
func runProp(ps *propSpec, r *Run) {
	defer func() {
		if e := recover(); e != nil {
			r.undecided("analyser", "panic", 0, "analyser panic: %v\n%s", e, debug.Stack())
		}
	}()
	ps.Run(r)
}
