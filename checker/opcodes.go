package main

// Shared analysis of the ISA layer (package risc): the implementers of
// InstructionRunner, the parser's operand binding per mnemonic, and the terms
// of Run / MemoryRead / MemoryWrite / ReadRegisters / WriteRegisters expressed
// over assembly operands. Used by C02, C04 (R04.6), C11 (R11.3/4), C07 (R07.2).

import (
	"fmt"
	"go/ast"
	"go/token"
	"go/types"
	"sort"
	"strings"

	"golang.org/x/tools/go/packages"
)

type parseCase struct {
	label     string
	clause    *ast.CaseClause
	typeName  string           // constructed type
	bind      map[string]*Term // field name -> operand leaf
	nargs     int              // validateArgs expected count (-1: none)
	maxElem   int              // largest elements[k] index used
	problems  []string         // error-discipline / shape problems
	elemUses  int              // number of elements[k] uses
	libCalls  int              // operand parser calls whose error is checked
	untrimmed int              // operands used without strings.TrimSpace
}

type opcodeInfo struct {
	named    *types.Named
	typeName string
	constVal int64
	mnemonic string // lower-cased constant name
	pcase    *parseCase
	terms    map[string]*Term // method -> hoisted outcome term over operands
	errs     map[string]string
	pos      map[string]token.Pos
}

type iscAnalysis struct {
	w        *World
	pkg      *packages.Package
	ops      []*opcodeInfo
	byMnem   map[string]*opcodeInfo
	cases    map[string]*parseCase
	caseDups []string
	enum     map[int64]string
	problems []string
	parseFD  *ast.FuncDecl
	lineLoop *ast.RangeStmt
	sw       *ast.SwitchStmt
}

var iscCache = map[*World]*iscAnalysis{}

func riscModels(in *Interp) {
	risc := modPath + "/risc."
	in.models[risc+"registerRead"] = func(in *Interp, fr *frame, call *ast.CallExpr, recv *Term, args []*Term, st *State) ([]*Term, bool) {
		// R(reg) — the other arguments must be the context, the instruction's
		// own forward slot and the caller's sequence id; anything else is kept
		// visible in the term.
		extra := []*Term{}
		if args[0].Op != "param" {
			extra = append(extra, args[0])
		}
		if !(args[1].Op == "fld" && args[1].Hint == "forward" && args[1].Args[0].Op == "recv") {
			extra = append(extra, args[1])
		}
		if args[3].Op != "param" {
			extra = append(extra, args[3])
		}
		return []*Term{{Op: "R", Args: append([]*Term{args[2]}, extra...)}}, true
	}
	in.models[modPath+"/common/bytes.I32FromBytes"] = func(in *Interp, fr *frame, call *ast.CallExpr, recv *Term, args []*Term, st *State) ([]*Term, bool) {
		return []*Term{{Op: "i32le", Args: args}}, true
	}
	in.models[modPath+"/common/bytes.BytesFromLowBits"] = func(in *Interp, fr *frame, call *ast.CallExpr, recv *Term, args []*Term, st *State) ([]*Term, bool) {
		return []*Term{{Op: "bytesle", Args: args}}, true
	}
}

func parserModels(in *Interp) {
	risc := modPath + "/risc."
	in.models[risc+"parseRegister"] = func(in *Interp, fr *frame, call *ast.CallExpr, recv *Term, args []*Term, st *State) ([]*Term, bool) {
		v := &Term{Op: "lib", S: "parseRegister", Args: args}
		return []*Term{T("proj", "0", v), T("proj", "1", v)}, true
	}
	in.models[risc+"parseOffsetReg"] = func(in *Interp, fr *frame, call *ast.CallExpr, recv *Term, args []*Term, st *State) ([]*Term, bool) {
		v := &Term{Op: "lib", S: "parseOffsetReg", Args: args}
		return []*Term{T("proj", "0", v), T("proj", "1", v), T("proj", "2", v)}, true
	}
	in.models[risc+"validateArgs"] = func(in *Interp, fr *frame, call *ast.CallExpr, recv *Term, args []*Term, st *State) ([]*Term, bool) {
		return []*Term{{Op: "lib", S: "validateArgs", Args: args}}, true
	}
}

func analyseISA(w *World) *iscAnalysis {
	if a, ok := iscCache[w]; ok {
		return a
	}
	a := &iscAnalysis{w: w, pkg: w.Pkg("risc"), byMnem: map[string]*opcodeInfo{}, cases: map[string]*parseCase{}}
	iscCache[w] = a
	p := a.pkg
	a.enum = enumConsts(p, "InstructionType")
	ifaceObj := p.Types.Scope().Lookup("InstructionRunner")
	if ifaceObj == nil {
		a.problems = append(a.problems, "interface risc.InstructionRunner not found")
		return a
	}
	iface, _ := ifaceObj.Type().Underlying().(*types.Interface)
	if iface == nil {
		a.problems = append(a.problems, "risc.InstructionRunner is not an interface")
		return a
	}
	// parser cases first (bindings are needed to express terms over operands)
	a.analyseParser()

	names := p.Types.Scope().Names()
	sort.Strings(names)
	for _, n := range names {
		tn, ok := p.Types.Scope().Lookup(n).(*types.TypeName)
		if !ok {
			continue
		}
		named, ok := tn.Type().(*types.Named)
		if !ok {
			continue
		}
		if _, isIface := named.Underlying().(*types.Interface); isIface {
			continue
		}
		if !types.Implements(types.NewPointer(named), iface) {
			continue
		}
		op := &opcodeInfo{named: named, typeName: n, terms: map[string]*Term{}, errs: map[string]string{}, pos: map[string]token.Pos{}, constVal: -1}
		a.ops = append(a.ops, op)
		// mnemonic from InstructionType()
		in := newInterp(w)
		if fd, pk := w.Method("risc", n, "InstructionType"); fd != nil {
			t, err := in.FuncTerm(fd, pk)
			if err == nil {
				t = hoistAll(t)
				if t.Op == "out" && len(t.Args[0].Args) == 1 {
					if v, _, ok := t.Args[0].Args[0].constInt(); ok {
						op.constVal = v
						op.mnemonic = strings.ToLower(a.enum[v])
					}
				}
			}
		}
		if op.mnemonic == "" {
			op.mnemonic = "?" + n
		}
		a.byMnem[op.mnemonic] = op
	}
	// bind parser cases by constructed type
	for _, op := range a.ops {
		for _, pc := range a.cases {
			if pc.typeName == op.typeName && pc.label == op.mnemonic {
				op.pcase = pc
			}
		}
	}
	for _, op := range a.ops {
		a.opcodeTerms(op)
	}
	return a
}

// analyseParser interprets each case of Parse's mnemonic switch.
func (a *iscAnalysis) analyseParser() {
	fd, pkg := a.w.Func("risc", "Parse")
	if fd == nil {
		a.problems = append(a.problems, "risc.Parse not found")
		return
	}
	a.parseFD = fd
	// the line loop: the range statement containing a switch with string cases
	ast.Inspect(fd.Body, func(n ast.Node) bool {
		if rs, ok := n.(*ast.RangeStmt); ok && a.lineLoop == nil {
			ast.Inspect(rs.Body, func(m ast.Node) bool {
				if sw, ok := m.(*ast.SwitchStmt); ok && a.sw == nil && sw.Tag != nil {
					if b, ok := pkg.TypesInfo.TypeOf(sw.Tag).Underlying().(*types.Basic); ok && b.Info()&types.IsString != 0 && len(sw.Body.List) > 10 {
						a.sw = sw
						a.lineLoop = rs
					}
				}
				return true
			})
		}
		return true
	})
	if a.sw == nil {
		a.problems = append(a.problems, "mnemonic switch of risc.Parse not found")
		return
	}
	info := pkg.TypesInfo
	for _, c := range a.sw.Body.List {
		cc := c.(*ast.CaseClause)
		if cc.List == nil {
			continue
		}
		for _, le := range cc.List {
			tv := info.Types[le]
			if tv.Value == nil {
				a.problems = append(a.problems, "non-constant case label in the mnemonic switch")
				continue
			}
			label := strings.Trim(tv.Value.ExactString(), `"`)
			pc := a.interpretCase(cc, label, pkg)
			if _, dup := a.cases[label]; dup {
				a.caseDups = append(a.caseDups, label)
			}
			a.cases[label] = pc
		}
	}
}

var untrimmedOperands int

func elemIndex(t *Term) (int, bool) {
	// lib:strings.TrimSpace(elem(free:elements, k)); an untrimmed operand is
	// recognised too but counted (R11.7)
	if t.Op == "lib" && t.S == "strings.TrimSpace" && len(t.Args) == 1 {
		t = t.Args[0]
	} else if t.Op == "elem" {
		untrimmedOperands++
	}
	if t.Op == "elem" && t.Args[0].Op == "free" {
		if v, _, ok := t.Args[1].constInt(); ok {
			return int(v), true
		}
	}
	return 0, false
}

// operandOf recognises how a field value derives from the operand strings.
func operandOf(t *Term) (*Term, *Term) { // operand leaf, the lib call whose error must have been checked
	// register
	if t.Op == "proj" && t.S == "0" && t.Args[0].Op == "lib" && t.Args[0].S == "parseRegister" {
		if k, ok := elemIndex(t.Args[0].Args[0]); ok {
			return leaf("Reg", fmt.Sprint(k)), t.Args[0]
		}
	}
	if t.Op == "proj" && (t.S == "0" || t.S == "1") && t.Args[0].Op == "lib" && t.Args[0].S == "parseOffsetReg" {
		if k, ok := elemIndex(t.Args[0].Args[0]); ok {
			if t.S == "0" {
				return leaf("OffImm", fmt.Sprint(k)), t.Args[0]
			}
			return leaf("OffReg", fmt.Sprint(k)), t.Args[0]
		}
	}
	if t.Op == "conv" && t.S == "int32<int64" {
		x := t.Args[0]
		if x.Op == "proj" && x.S == "0" && x.Args[0].Op == "lib" && x.Args[0].S == "strconv.ParseInt" && len(x.Args[0].Args) == 3 {
			c := x.Args[0]
			base, _, ok1 := c.Args[1].constInt()
			bits, _, ok2 := c.Args[2].constInt()
			if k, ok := elemIndex(c.Args[0]); ok && ok1 && ok2 && base == 10 && bits == 32 {
				return leaf("Imm", fmt.Sprint(k)), c
			}
		}
	}
	if t.Op == "lib" && t.S == "strings.TrimSpace" {
		if k, ok := elemIndex(t); ok {
			return leaf("Label", fmt.Sprint(k)), nil
		}
	}
	return nil, nil
}

type condLit struct {
	c   *Term
	pos bool
}

func treePaths(t *Tree, pre []condLit, f func(conds []condLit, l *Tree)) {
	if t.Cond == nil {
		f(pre, t)
		return
	}
	treePaths(t.Then, append(append([]condLit{}, pre...), condLit{t.Cond, true}), f)
	treePaths(t.Else, append(append([]condLit{}, pre...), condLit{t.Cond, false}), f)
}

func (a *iscAnalysis) interpretCase(cc *ast.CaseClause, label string, pkg *packages.Package) *parseCase {
	pc := &parseCase{label: label, clause: cc, bind: map[string]*Term{}, nargs: -1, maxElem: -1}
	untrimmedOperands = 0
	defer func() { pc.untrimmed = untrimmedOperands }()
	in := newInterp(a.w)
	parserModels(in)
	fr := &frame{pkg: pkg, info: pkg.TypesInfo, name: "Parse"}
	st := newState()
	// free variables of the clause
	var instrObj types.Object
	for _, s := range cc.Body {
		ast.Inspect(s, func(n ast.Node) bool {
			id, ok := n.(*ast.Ident)
			if !ok {
				return true
			}
			obj, ok := pkg.TypesInfo.Uses[id].(*types.Var)
			if !ok || obj.IsField() {
				return true
			}
			if obj.Pos() >= cc.Pos() && obj.Pos() <= cc.End() {
				return true
			}
			if obj.Pkg() != nil && obj.Parent() == obj.Pkg().Scope() {
				return true
			}
			if _, ok := st.env[obj]; !ok {
				st.env[obj] = &Term{Op: "free", S: obj.Name()}
			}
			return true
		})
	}
	var tree *Tree
	func() {
		defer func() {
			if e := recover(); e != nil {
				if se, ok := e.(symErr); ok {
					pc.problems = append(pc.problems, fmt.Sprintf("case not interpretable: %s at %s", se.msg, a.w.pos(se.pos)))
					return
				}
				panic(e)
			}
		}()
		tree = in.execBlock(fr, cc.Body, st)
	}()
	if tree == nil {
		return pc
	}
	_ = instrObj
	nFall := 0
	treePaths(tree, nil, func(conds []condLit, l *Tree) {
		switch l.Flow {
		case flowPanic:
			pc.problems = append(pc.problems, "a path of the case panics")
		case flowReturn:
			// must return (zero Application, non-nil error) and be guarded by a failed check
			if len(l.Vals) != 2 || !(l.Vals[1].Op == "error" || l.Vals[1].Op == "lib" || l.Vals[1].Op == "proj") {
				pc.problems = append(pc.problems, "an early return does not return an error value")
			} else if !(l.Vals[0].Op == "struct" && len(l.Vals[0].Args) == 0) {
				pc.problems = append(pc.problems, "an error return carries a non-zero Application")
			}
		case flowFall:
			nFall++
			// which variable got the appended instruction
			var appended *Term
			for obj, v := range l.St.env {
				if v.Op == "cat" && len(v.Args) == 2 && v.Args[0].Op == "free" && v.Args[0].S == obj.Name() && v.Args[1].Op == "seq" {
					if appended != nil || len(v.Args[1].Args) != 1 {
						pc.problems = append(pc.problems, "more than one instruction appended")
					}
					appended = v.Args[1].Args[0]
				}
			}
			if appended == nil {
				pc.problems = append(pc.problems, "the case falls through without appending an instruction")
				return
			}
			if appended.Op == "ref" {
				appended = appended.Args[0]
			}
			if appended.Op != "struct" {
				pc.problems = append(pc.problems, "appended instruction is not a composite literal")
				return
			}
			pc.typeName = appended.S
			// checks passed on this path
			checked := map[string]bool{}
			for _, c := range conds {
				if c.pos {
					continue
				}
				// !(err != nil)
				if c.c.Op == "ne" && len(c.c.Args) == 2 {
					for i := 0; i < 2; i++ {
						x, y := c.c.Args[i], c.c.Args[1-i]
						if y.Op == "nil" {
							if x.Op == "proj" {
								checked[x.Args[0].Key()] = true
							} else {
								checked[x.Key()] = true
							}
						}
					}
				}
			}
			for k := range checked {
				if strings.Contains(k, "lib:validateArgs") {
					// (lib:validateArgs n elements line)
				}
			}
			for _, c := range conds {
				if !c.pos && c.c.Op == "ne" {
					for _, x := range c.c.Args {
						if x.Op == "lib" && x.S == "validateArgs" && len(x.Args) >= 2 {
							if n, _, ok := x.Args[0].constInt(); ok && x.Args[1].Op == "free" {
								pc.nargs = int(n)
							}
						}
					}
				}
			}
			for _, fv := range appended.Args {
				opd, libc := operandOf(fv.Args[0])
				if opd == nil {
					pc.problems = append(pc.problems, fmt.Sprintf("field %s is not bound to an operand by a recognised parser (%s)", fv.Hint, fv.Args[0].Pretty()))
					continue
				}
				if libc != nil {
					if !checked[libc.Key()] {
						pc.problems = append(pc.problems, fmt.Sprintf("field %s uses the result of %s without testing its error", fv.Hint, libc.S))
					} else {
						pc.libCalls++
					}
				}
				pc.bind[fv.Hint] = opd
				var k int
				fmt.Sscanf(opd.S, "%d", &k)
				pc.elemUses++
				if k > pc.maxElem {
					pc.maxElem = k
				}
			}
		}
	})
	if nFall != 1 {
		pc.problems = append(pc.problems, fmt.Sprintf("%d fall-through paths (want exactly one)", nFall))
	}
	if pc.maxElem >= 0 && pc.nargs <= pc.maxElem {
		pc.problems = append(pc.problems, fmt.Sprintf("operand %d is read but validateArgs guarantees only %d operands", pc.maxElem, pc.nargs))
	}
	return pc
}

// opcodeTerms computes the method terms of one opcode over operand leaves.
func (a *iscAnalysis) opcodeTerms(op *opcodeInfo) {
	for _, m := range []string{"Run", "MemoryRead", "MemoryWrite", "ReadRegisters", "WriteRegisters", "Forward"} {
		fd, pk := a.w.Method("risc", op.typeName, m)
		if fd == nil {
			op.errs[m] = "method not found"
			continue
		}
		op.pos[m] = fd.Pos()
		in := newInterp(a.w)
		riscModels(in)
		t, err := in.FuncTerm(fd, pk)
		if err != nil {
			op.errs[m] = err.Error()
			continue
		}
		t = a.toOperands(op, t)
		op.terms[m] = hoistAll(t)
	}
}

// toOperands rewrites receiver fields into operand leaves via the parser
// binding and abstracts error messages.
func (a *iscAnalysis) toOperands(op *opcodeInfo, t *Term) *Term {
	return t.subst(func(x *Term) *Term {
		if x.Op == "fld" && len(x.Args) == 1 && x.Args[0].Op == "recv" {
			if op.pcase != nil {
				if b, ok := op.pcase.bind[x.Hint]; ok {
					return b
				}
			}
			return nil
		}
		if x.Op == "error" {
			return leaf("error", "")
		}
		return nil
	})
}
