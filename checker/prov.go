package main

// Address provenance: where does an address expression come from? Used to
// decide that line bases and per-line map keys are produced by the alignment
// function of their cache level (R05.3, R06.5) and that the bytes written back
// on an eviction are the victim's (R05.2).
//
// Tags: "align:<C>" produced by a - a%C with the constant C; "boundary" read
// from a resident line's Boundary; "raw:<expr>" anything else; "param:<f>.<p>"
// a parameter whose callers could not be followed (depth bound).

import (
	"fmt"
	"go/ast"
	"go/token"
	"go/types"
	"strings"

	"golang.org/x/tools/go/packages"
	"golang.org/x/tools/go/types/typeutil"
)

type provSet map[string]bool

func (p provSet) add(q provSet) {
	for k := range q {
		p[k] = true
	}
}

func (p provSet) String() string { return strings.Join(sortedKeys(p), ",") }

func (p provSet) onlyPrefix(prefixes ...string) bool {
	if len(p) == 0 {
		return false
	}
	for k := range p {
		ok := false
		for _, pre := range prefixes {
			if strings.HasPrefix(k, pre) {
				ok = true
			}
		}
		if !ok {
			return false
		}
	}
	return true
}

type provEngine struct {
	w     *World
	pkg   *packages.Package
	info  *types.Info
	seen  map[string]bool
	funcs map[*types.Func]*ast.FuncDecl
	// enclosing function (decl or literal) of every node position
	encl []enclFn
	// constants bound to parameters while following a call (context sensitivity for size parameters)
	consts map[types.Object]int64
	// line size of the cache a receiver expression denotes (set by the caller)
	cacheLine func(e ast.Expr) int64
	// fieldsNeutral: values read from struct fields are not followed (tag "field")
	fieldsNeutral bool
}

type enclFn struct {
	pos, end token.Pos
	decl     *ast.FuncDecl
	lit      *ast.FuncLit
}

func newProvEngine(w *World, pkg *packages.Package) *provEngine {
	pe := &provEngine{w: w, pkg: pkg, info: pkg.TypesInfo, seen: map[string]bool{}, funcs: map[*types.Func]*ast.FuncDecl{}, consts: map[types.Object]int64{}}
	for _, f := range pkg.Syntax {
		ast.Inspect(f, func(n ast.Node) bool {
			switch x := n.(type) {
			case *ast.FuncDecl:
				if x.Body != nil {
					pe.encl = append(pe.encl, enclFn{x.Pos(), x.End(), x, nil})
					if o, ok := pkg.TypesInfo.Defs[x.Name].(*types.Func); ok {
						pe.funcs[o] = x
					}
				}
			case *ast.FuncLit:
				pe.encl = append(pe.encl, enclFn{x.Pos(), x.End(), nil, x})
			}
			return true
		})
	}
	return pe
}

// innermost enclosing function of pos.
func (pe *provEngine) enclosing(pos token.Pos) *enclFn {
	var best *enclFn
	for i := range pe.encl {
		e := &pe.encl[i]
		if e.pos <= pos && pos <= e.end {
			if best == nil || (e.end-e.pos) < (best.end-best.pos) {
				best = e
			}
		}
	}
	return best
}

func (pe *provEngine) outerDecl(pos token.Pos) *ast.FuncDecl {
	for i := range pe.encl {
		e := &pe.encl[i]
		if e.decl != nil && e.pos <= pos && pos <= e.end {
			return e.decl
		}
	}
	return nil
}

// constOf: the constant value of an expression, or of a parameter bound by the call being followed.
func (pe *provEngine) constOf(e ast.Expr) (int64, bool) {
	if c, ok := constInt64(pe.info.Types[e]); ok {
		return c, true
	}
	if id, ok := ast.Unparen(e).(*ast.Ident); ok {
		if c, ok := pe.consts[pe.info.Uses[id]]; ok {
			return c, true
		}
	}
	return 0, false
}

// bind records the constant arguments of a call for the callee's parameters; returns an undo function.
func (pe *provEngine) bind(f *types.Func, call *ast.CallExpr) func() {
	fd := pe.funcs[f.Origin()]
	if fd == nil {
		return func() {}
	}
	var bound []types.Object
	k := 0
	for _, fl := range fd.Type.Params.List {
		for _, nm := range fl.Names {
			if k < len(call.Args) {
				if c, ok := pe.constOf(call.Args[k]); ok {
					if o := pe.info.Defs[nm]; o != nil {
						pe.consts[o] = c
						bound = append(bound, o)
					}
				}
			}
			k++
		}
	}
	return func() {
		for _, o := range bound {
			delete(pe.consts, o)
		}
	}
}

// alignConst recognises  T(X - (X % C))  and returns C.
func (pe *provEngine) alignConst(e ast.Expr) (int64, ast.Expr, bool) {
	e = ast.Unparen(e)
	if call, ok := e.(*ast.CallExpr); ok {
		if tv, ok := pe.info.Types[call.Fun]; ok && tv.IsType() && len(call.Args) == 1 {
			return pe.alignConst(call.Args[0])
		}
	}
	b, ok := e.(*ast.BinaryExpr)
	if !ok || b.Op != token.SUB {
		return 0, nil, false
	}
	m, ok := ast.Unparen(b.Y).(*ast.BinaryExpr)
	if !ok || m.Op != token.REM {
		return 0, nil, false
	}
	if types.ExprString(ast.Unparen(b.X)) != types.ExprString(ast.Unparen(m.X)) {
		return 0, nil, false
	}
	tv := pe.info.Types[m.Y]
	c, ok := constInt64(tv)
	if !ok || c <= 0 {
		return 0, nil, false
	}
	return c, b.X, true
}

// alignParam recognises a function whose result is  T(a - a % p)  with p one
// of its parameters, and returns the index of p.
func (pe *provEngine) alignParam(f *types.Func) (int, bool) {
	fd := pe.funcs[f.Origin()]
	if fd == nil || fd.Type.Results == nil || len(fd.Type.Results.List) != 1 {
		return 0, false
	}
	idx, found := 0, false
	ast.Inspect(fd.Body, func(n ast.Node) bool {
		rs, ok := n.(*ast.ReturnStmt)
		if !ok || len(rs.Results) != 1 {
			return true
		}
		e := ast.Unparen(rs.Results[0])
		if call, ok := e.(*ast.CallExpr); ok {
			if tv, ok := pe.info.Types[call.Fun]; ok && tv.IsType() && len(call.Args) == 1 {
				e = ast.Unparen(call.Args[0])
			}
		}
		b, ok := e.(*ast.BinaryExpr)
		if !ok || b.Op != token.SUB {
			return true
		}
		m, ok := ast.Unparen(b.Y).(*ast.BinaryExpr)
		if !ok || m.Op != token.REM || types.ExprString(ast.Unparen(b.X)) != types.ExprString(ast.Unparen(m.X)) {
			return true
		}
		id, ok := ast.Unparen(m.Y).(*ast.Ident)
		if !ok {
			return true
		}
		k := 0
		for _, fl := range fd.Type.Params.List {
			for _, nm := range fl.Names {
				if pe.info.Defs[nm] == pe.info.Uses[id] {
					idx, found = k, true
				}
				k++
			}
		}
		return true
	})
	return idx, found
}

// alignmentFunc: a function whose single result is a - a%C of (an element of) its parameter.
func (pe *provEngine) alignmentFunc(f *types.Func) (int64, bool) {
	fd := pe.funcs[f.Origin()]
	if fd == nil || fd.Type.Results == nil || len(fd.Type.Results.List) != 1 {
		return 0, false
	}
	var c int64
	found := false
	ast.Inspect(fd.Body, func(n ast.Node) bool {
		if rs, ok := n.(*ast.ReturnStmt); ok && len(rs.Results) == 1 {
			if k, _, ok := pe.alignConst(rs.Results[0]); ok {
				c, found = k, true
			}
			if call, ok := ast.Unparen(rs.Results[0]).(*ast.CallExpr); ok {
				if g, ok := typeutil.Callee(pe.info, call).(*types.Func); ok && g.Origin() != f.Origin() {
					if pi, ok := pe.alignParam(g); ok && pi < len(call.Args) {
						if k, ok := constInt64(pe.info.Types[call.Args[pi]]); ok && k > 0 {
							c, found = k, true
						}
					}
				}
			}
		}
		return true
	})
	return c, found
}

func (pe *provEngine) of(e ast.Expr, depth int) provSet {
	out := provSet{}
	if e == nil {
		return out
	}
	e = ast.Unparen(e)
	if depth > 7 {
		out["raw:depth"] = true
		return out
	}
	if c, _, ok := pe.alignConst(e); ok {
		out[fmt.Sprintf("align:%d", c)] = true
		return out
	}
	switch x := e.(type) {
	case *ast.CallExpr:
		if tv, ok := pe.info.Types[x.Fun]; ok && tv.IsType() && len(x.Args) == 1 {
			return pe.of(x.Args[0], depth)
		}
		if f, ok := typeutil.Callee(pe.info, x).(*types.Func); ok {
			if c, ok := pe.alignmentFunc(f); ok {
				out[fmt.Sprintf("align:%d", c)] = true
				return out
			}
			if pi, ok := pe.alignParam(f); ok && pi < len(x.Args) {
				if c, ok := pe.constOf(x.Args[pi]); ok && c > 0 {
					out[fmt.Sprintf("align:%d", c)] = true
					return out
				}
			}
			if pe.funcs[f.Origin()] == nil {
				// a function of another package: its result is identified by the call site
				out[fmt.Sprintf("raw:call %s@%d", f.Name(), x.Pos())] = true
				return out
			}
			undo := pe.bind(f, x)
			defer undo()
			return pe.resultOf(f, 0, depth+1)
		}
	case *ast.IndexExpr:
		if sel, ok := ast.Unparen(x.X).(*ast.SelectorExpr); ok && sel.Sel.Name == "Boundary" {
			// the boundary of a line of a known cache is aligned to that cache's line size (R05.3 decides the insertions)
			if c := pe.lineOrigin(sel.X, depth+1); c > 0 {
				out[fmt.Sprintf("align:%d", c)] = true
			} else {
				out["boundary"] = true
			}
			return out
		}
		// addrs[0]: an element of an address list is a raw address
		out["raw:"+types.ExprString(e)] = true
		return out
	case *ast.SelectorExpr:
		if s := pe.info.Selections[x]; s != nil && s.Kind() == types.FieldVal {
			if pe.fieldsNeutral {
				out["field"] = true
				return out
			}
			return pe.fieldProv(s.Obj().(*types.Var), depth+1)
		}
	case *ast.Ident:
		obj := pe.info.Uses[x]
		if obj == nil {
			obj = pe.info.Defs[x]
		}
		if v, ok := obj.(*types.Var); ok {
			return pe.varProv(v, x.Pos(), depth+1)
		}
	}
	out["raw:"+types.ExprString(e)] = true
	return out
}

// resultOf follows the return statements of f for result index i.
func (pe *provEngine) resultOf(f *types.Func, i int, depth int) provSet {
	out := provSet{}
	fd := pe.funcs[f.Origin()]
	key := fmt.Sprintf("res:%s:%d", f.FullName(), i)
	if fd == nil || pe.seen[key] {
		out["raw:call "+f.Name()] = true
		return out
	}
	pe.seen[key] = true
	defer delete(pe.seen, key)
	ast.Inspect(fd.Body, func(n ast.Node) bool {
		if _, ok := n.(*ast.FuncLit); ok {
			return false
		}
		if rs, ok := n.(*ast.ReturnStmt); ok && i < len(rs.Results) {
			out.add(pe.of(rs.Results[i], depth))
		}
		return true
	})
	if len(out) == 0 {
		out["raw:call "+f.Name()] = true
	}
	return out
}

// varProv: definitions of a local, or call-site arguments of a parameter.
func (pe *provEngine) varProv(v *types.Var, usePos token.Pos, depth int) provSet {
	out := provSet{}
	key := fmt.Sprintf("var:%s@%d", v.Name(), v.Pos())
	if pe.seen[key] {
		return out
	}
	pe.seen[key] = true
	defer delete(pe.seen, key)
	if v.IsField() {
		return pe.fieldProv(v, depth)
	}
	fn := pe.enclosing(v.Pos())
	if fn == nil {
		out["raw:global "+v.Name()] = true
		return out
	}
	// parameter?
	var ft *ast.FuncType
	var body *ast.BlockStmt
	if fn.decl != nil {
		ft, body = fn.decl.Type, fn.decl.Body
	} else {
		ft, body = fn.lit.Type, fn.lit.Body
	}
	pidx := -1
	k := 0
	for _, fl := range ft.Params.List {
		for _, nm := range fl.Names {
			if pe.info.Defs[nm] == v {
				pidx = k
			}
			k++
		}
		if len(fl.Names) == 0 {
			k++
		}
	}
	if pidx >= 0 {
		if fn.decl == nil {
			out["param:closure."+v.Name()] = true
			return out
		}
		fobj, _ := pe.info.Defs[fn.decl.Name].(*types.Func)
		n := 0
		for _, f := range pe.pkg.Syntax {
			ast.Inspect(f, func(m ast.Node) bool {
				call, ok := m.(*ast.CallExpr)
				if !ok {
					return true
				}
				if cf, ok := typeutil.Callee(pe.info, call).(*types.Func); ok && cf.Origin() == fobj && pidx < len(call.Args) {
					n++
					out.add(pe.of(call.Args[pidx], depth))
				}
				return true
			})
		}
		if n == 0 {
			out["param:"+fn.decl.Name.Name+"."+v.Name()] = true
		}
		return out
	}
	// local: every assignment in the enclosing function
	ast.Inspect(body, func(m ast.Node) bool {
		switch s := m.(type) {
		case *ast.AssignStmt:
			for i, l := range s.Lhs {
				id, ok := l.(*ast.Ident)
				if !ok || (pe.info.Defs[id] != v && pe.info.Uses[id] != v) {
					continue
				}
				if len(s.Rhs) == len(s.Lhs) {
					out.add(pe.of(s.Rhs[i], depth))
				} else if len(s.Rhs) == 1 {
					if call, ok := ast.Unparen(s.Rhs[0]).(*ast.CallExpr); ok {
						if f, ok := typeutil.Callee(pe.info, call).(*types.Func); ok {
							undo := pe.bind(f, call)
							defer undo()
							// comp.LRUCache.GetSubCacheLine(addrs, L) reports the L-aligned base of the sub-line (C13 decides the operation)
							if f.Name() == "GetSubCacheLine" && i == 0 && len(call.Args) == 2 {
								if sig := f.Type().(*types.Signature); sig.Recv() != nil && isCompType(sig.Recv().Type(), "LRUCache") {
									if c, ok := constInt64(pe.info.Types[call.Args[1]]); ok {
										out[fmt.Sprintf("align:%d", c)] = true
										continue
									}
								}
							}
							out.add(pe.resultOf(f, i, depth))
							continue
						}
					}
					out["raw:"+types.ExprString(s.Rhs[0])] = true
				}
			}
		case *ast.ValueSpec:
			for i, nm := range s.Names {
				if pe.info.Defs[nm] == v && i < len(s.Values) {
					out.add(pe.of(s.Values[i], depth))
				}
			}
		case *ast.RangeStmt:
			for _, kv := range []ast.Expr{s.Key, s.Value} {
				if id, ok := kv.(*ast.Ident); ok && pe.info.Defs[id] == v {
					// ranging over a map keyed by aligned addresses / over struct keys
					out.add(pe.rangeProv(s, id == s.Key, depth))
				}
			}
		}
		return true
	})
	if len(out) == 0 {
		out["raw:undefined "+v.Name()] = true
	}
	return out
}

func (pe *provEngine) rangeProv(s *ast.RangeStmt, isKey bool, depth int) provSet {
	out := provSet{}
	// for k := range <map field>: keys of the map = provenance of the expressions it was indexed with on stores
	if sel, ok := ast.Unparen(s.X).(*ast.SelectorExpr); ok && isKey {
		if sl := pe.info.Selections[sel]; sl != nil && sl.Kind() == types.FieldVal {
			if _, isMap := sl.Obj().Type().Underlying().(*types.Map); isMap {
				return pe.mapKeyProv(sl.Obj().(*types.Var), depth)
			}
		}
	}
	out["raw:range "+types.ExprString(s.X)] = true
	return out
}

// mapKeyProv: provenance of the keys stored into a map-typed field.
func (pe *provEngine) mapKeyProv(field *types.Var, depth int) provSet {
	out := provSet{}
	key := "mapkeys:" + field.Name()
	if pe.seen[key] {
		return out
	}
	pe.seen[key] = true
	defer delete(pe.seen, key)
	for _, f := range pe.pkg.Syntax {
		ast.Inspect(f, func(m ast.Node) bool {
			as, ok := m.(*ast.AssignStmt)
			if !ok {
				return true
			}
			for _, l := range as.Lhs {
				if ix, ok := l.(*ast.IndexExpr); ok {
					if sel, ok := ast.Unparen(ix.X).(*ast.SelectorExpr); ok {
						if sl := pe.info.Selections[sel]; sl != nil && sl.Obj() == field {
							out.add(pe.of(ix.Index, depth))
						}
					}
				}
			}
			return true
		})
	}
	return out
}

// fieldProv: provenance of the values a struct field is given (composite literals and assignments).
func (pe *provEngine) fieldProv(field *types.Var, depth int) provSet {
	out := provSet{}
	key := "field:" + field.Name() + fmt.Sprint(field.Pos())
	if pe.seen[key] {
		return out
	}
	pe.seen[key] = true
	defer delete(pe.seen, key)
	for _, f := range pe.pkg.Syntax {
		ast.Inspect(f, func(m ast.Node) bool {
			switch x := m.(type) {
			case *ast.CompositeLit:
				t := pe.info.TypeOf(x)
				st := structOf(t)
				if st == nil {
					return true
				}
				for i, el := range x.Elts {
					if kv, ok := el.(*ast.KeyValueExpr); ok {
						if id, ok := kv.Key.(*ast.Ident); ok && pe.info.Uses[id] == field {
							out.add(pe.of(kv.Value, depth))
						}
					} else if i < st.NumFields() && st.Field(i) == field {
						out.add(pe.of(el, depth))
					}
				}
			case *ast.AssignStmt:
				for i, l := range x.Lhs {
					if sel, ok := l.(*ast.SelectorExpr); ok {
						if sl := pe.info.Selections[sel]; sl != nil && sl.Obj() == field && i < len(x.Rhs) {
							out.add(pe.of(x.Rhs[i], depth))
						}
					}
				}
			}
			return true
		})
	}
	if len(out) == 0 {
		out["raw:field "+field.Name()] = true
	}
	return out
}

// lineOrigin: the line size of the cache a comp.Line value was obtained from
// (PushLineWithEvictionWarning result, element of Lines()/ExistingLines()), 0 if unknown.
func (pe *provEngine) lineOrigin(e ast.Expr, depth int) int64 {
	if pe.cacheLine == nil || depth > 6 {
		return 0
	}
	e = ast.Unparen(e)
	switch x := e.(type) {
	case *ast.StarExpr:
		return pe.lineOrigin(x.X, depth)
	case *ast.CallExpr:
		if sel, ok := x.Fun.(*ast.SelectorExpr); ok {
			if f, ok := typeutil.Callee(pe.info, x).(*types.Func); ok {
				if sig := f.Type().(*types.Signature); sig.Recv() != nil && isCompType(sig.Recv().Type(), "LRUCache") {
					return pe.cacheLine(sel.X)
				}
			}
		}
		if f, ok := typeutil.Callee(pe.info, x).(*types.Func); ok {
			if fd := pe.funcs[f.Origin()]; fd != nil {
				var c int64
				ast.Inspect(fd.Body, func(n ast.Node) bool {
					if _, ok := n.(*ast.FuncLit); ok {
						return false
					}
					if rs, ok := n.(*ast.ReturnStmt); ok && len(rs.Results) >= 1 {
						if k := pe.lineOrigin(rs.Results[0], depth+1); k > 0 {
							c = k
						}
					}
					return true
				})
				return c
			}
		}
	case *ast.Ident:
		v, ok := pe.info.Uses[x].(*types.Var)
		if !ok {
			return 0
		}
		fn := pe.enclosing(v.Pos())
		if fn == nil {
			return 0
		}
		var body ast.Node
		if fn.decl != nil {
			body = fn.decl.Body
		} else {
			body = fn.lit.Body
		}
		// closures capture variables of outer functions: search the outermost declaration
		if od := pe.outerDecl(v.Pos()); od != nil {
			body = od.Body
		}
		var c int64
		ast.Inspect(body, func(n ast.Node) bool {
			switch s := n.(type) {
			case *ast.AssignStmt:
				for i, l := range s.Lhs {
					if id, ok := l.(*ast.Ident); ok && (pe.info.Defs[id] == v || pe.info.Uses[id] == v) && len(s.Rhs) == len(s.Lhs) {
						if k := pe.lineOrigin(s.Rhs[i], depth+1); k > 0 {
							c = k
						}
					}
				}
			case *ast.RangeStmt:
				if id, ok := s.Value.(*ast.Ident); ok && pe.info.Defs[id] == v {
					if k := pe.lineOrigin(s.X, depth+1); k > 0 {
						c = k
					}
				}
			}
			return true
		})
		return c
	}
	return 0
}
