package main

import (
	"go/ast"
	"go/token"
	"go/types"
)

// queueIteratorRule decides the shape of comp.Queue.Iterator (shared by C14
// and R08.2): the channel is created with capacity q.queue.Len(); the only
// goroutine walks the list from Front() with Next(), sends each element
// exactly once, never touches anything else, and closes the channel when done
// (so the element sequence is fixed by the list at call time and the producer
// can never block).
func queueIteratorRule(r *Run, rule string) {
	fd, pkg := r.W.Method("proc/comp", "Queue", "Iterator")
	if fd == nil {
		r.undecided(rule, "proc/comp.(Queue).Iterator", token.NoPos, "method not found")
		return
	}
	info := pkg.TypesInfo
	var makeCap ast.Expr
	var goStmts []*ast.GoStmt
	ast.Inspect(fd.Body, func(n ast.Node) bool {
		switch x := n.(type) {
		case *ast.CallExpr:
			if id, ok := x.Fun.(*ast.Ident); ok && id.Name == "make" && len(x.Args) == 2 {
				if _, isChan := info.TypeOf(x.Args[0]).Underlying().(*types.Chan); isChan {
					makeCap = x.Args[1]
				}
			}
		case *ast.GoStmt:
			goStmts = append(goStmts, x)
		}
		return true
	})
	capOK := false
	if c, ok := makeCap.(*ast.CallExpr); ok {
		if sel, ok := c.Fun.(*ast.SelectorExpr); ok && sel.Sel.Name == "Len" {
			if inner, ok := sel.X.(*ast.SelectorExpr); ok {
				if s := info.Selections[inner]; s != nil && s.Kind() == types.FieldVal {
					capOK = true
				}
			}
		}
	}
	shapeOK := len(goStmts) == 1
	sends, closes, fronts, nexts, other := 0, 0, 0, 0, 0
	if shapeOK {
		lit, ok := goStmts[0].Call.Fun.(*ast.FuncLit)
		if !ok {
			shapeOK = false
		} else {
			ast.Inspect(lit.Body, func(n ast.Node) bool {
				switch x := n.(type) {
				case *ast.SendStmt:
					sends++
				case *ast.CallExpr:
					switch f := x.Fun.(type) {
					case *ast.Ident:
						if f.Name == "close" {
							closes++
						} else {
							other++
						}
					case *ast.SelectorExpr:
						switch f.Sel.Name {
						case "Front":
							fronts++
						case "Next":
							nexts++
						default:
							other++
						}
					}
				case *ast.AssignStmt:
					for _, l := range x.Lhs {
						if _, isIdent := l.(*ast.Ident); !isIdent {
							other++ // a store through a field, index or pointer
						}
					}
				case *ast.IncDecStmt, *ast.GoStmt:
					other++
				}
				return true
			})
		}
	}
	good := capOK && shapeOK && sends == 1 && closes == 1 && fronts == 1 && nexts == 1 && other == 0
	r.check(good, rule, "proc/comp.(Queue).Iterator", fd.Pos(),
		"channel capacity is the list length (%v); one goroutine (%d) that only walks Front()/Next() (%d/%d), sends once per element (%d send statement), closes the channel (%d) and performs no other call or store (%d)",
		capOK, len(goStmts), fronts, nexts, sends, closes, other)
}
