package main

// Reference models written as Go source (spec/*.go.txt, embedded): the
// per-operation oracles of C13, C14, C15 and R04.1. They are parsed and
// type-checked against the loaded program's packages and interpreted by the
// same E-TERM engine as the repository code; an operation conforms when the
// two normal forms are equal.

import (
	"embed"
	"fmt"
	"go/ast"
	"go/parser"
	"go/token"
	"go/types"
	"strings"

	"golang.org/x/tools/go/packages"
)

//go:embed spec/*.go.txt
var specFS embed.FS

type refPkg struct {
	pkg   *packages.Package
	decls map[string]*ast.FuncDecl // "Type.Method" or "Func"
	objs  map[types.Object]*ast.FuncDecl
}

type worldImporter struct {
	all map[string]*types.Package
}

func (wi worldImporter) Import(path string) (*types.Package, error) {
	if p, ok := wi.all[path]; ok {
		return p, nil
	}
	return nil, fmt.Errorf("package %s is not part of the loaded program", path)
}

func (w *World) allTypes() map[string]*types.Package {
	all := map[string]*types.Package{}
	var roots []*packages.Package
	for _, p := range w.Pkgs {
		roots = append(roots, p)
	}
	packages.Visit(roots, nil, func(p *packages.Package) {
		if p.Types != nil {
			all[p.PkgPath] = p.Types
		}
	})
	return all
}

var refCache = map[*World]map[string]*refPkg{}

func loadRef(w *World, name string) (*refPkg, error) {
	if refCache[w] == nil {
		refCache[w] = map[string]*refPkg{}
	}
	if r, ok := refCache[w][name]; ok {
		return r, nil
	}
	src, err := specFS.ReadFile("spec/" + name + ".go.txt")
	if err != nil {
		return nil, err
	}
	f, err := parser.ParseFile(w.Fset, "spec/"+name+".go", src, parser.SkipObjectResolution)
	if err != nil {
		return nil, err
	}
	info := &types.Info{
		Types:      map[ast.Expr]types.TypeAndValue{},
		Defs:       map[*ast.Ident]types.Object{},
		Uses:       map[*ast.Ident]types.Object{},
		Selections: map[*ast.SelectorExpr]*types.Selection{},
		Implicits:  map[ast.Node]types.Object{},
		Instances:  map[*ast.Ident]types.Instance{},
		Scopes:     map[ast.Node]*types.Scope{},
	}
	conf := types.Config{Importer: worldImporter{w.allTypes()}}
	tp, err := conf.Check("majcheck/spec/"+name, w.Fset, []*ast.File{f}, info)
	if err != nil {
		return nil, fmt.Errorf("reference model %s does not type-check against the loaded program: %v", name, err)
	}
	rp := &refPkg{pkg: &packages.Package{PkgPath: tp.Path(), Types: tp, TypesInfo: info, Syntax: []*ast.File{f}, Fset: w.Fset},
		decls: map[string]*ast.FuncDecl{}, objs: map[types.Object]*ast.FuncDecl{}}
	for _, d := range f.Decls {
		fd, ok := d.(*ast.FuncDecl)
		if !ok {
			continue
		}
		key := fd.Name.Name
		if fd.Recv != nil && len(fd.Recv.List) == 1 {
			t := fd.Recv.List[0].Type
			if s, ok := t.(*ast.StarExpr); ok {
				t = s.X
			}
			if ix, ok := t.(*ast.IndexExpr); ok {
				t = ix.X
			}
			if ix, ok := t.(*ast.IndexListExpr); ok {
				t = ix.X
			}
			key = types.ExprString(t) + "." + key
		}
		rp.decls[key] = fd
		if obj := info.Defs[fd.Name]; obj != nil {
			rp.objs[obj] = fd
		}
	}
	refCache[w][name] = rp
	return rp, nil
}

func (rp *refPkg) interp(w *World) *Interp {
	in := newInterp(w)
	in.extraDecls = map[types.Object]*ast.FuncDecl{}
	in.extraPkg = map[types.Object]*packages.Package{}
	for o, fd := range rp.objs {
		in.extraDecls[o] = fd
		in.extraPkg[o] = rp.pkg
	}
	return in
}

// conform compares one repository function with its reference operation.
func conform(r *Run, rule, rel, tname, mname, refName string, setup func(*Interp)) {
	w := r.W
	construct := rel + "." + mname
	if tname != "" {
		construct = rel + ".(" + tname + ")." + mname
	}
	var fd *ast.FuncDecl
	var pkg *packages.Package
	if tname != "" {
		fd, pkg = w.Method(rel, tname, mname)
	} else {
		fd, pkg = w.Func(rel, mname)
	}
	if fd == nil {
		r.undecided(rule, construct, token.NoPos, "operation not found in the repository")
		return
	}
	rp, err := loadRef(w, refName)
	if err != nil {
		r.undecided(rule, construct, fd.Pos(), "%v", err)
		return
	}
	key := mname
	if tname != "" {
		key = tname + "." + mname
	}
	rfd := rp.decls[key]
	if rfd == nil {
		r.undecided(rule, construct, fd.Pos(), "the reference model %s has no operation %s", refName, key)
		return
	}
	in := newInterp(w)
	if setup != nil {
		setup(in)
	}
	got, err := in.FuncTerm(fd, pkg)
	if err != nil {
		r.undecided(rule, construct, fd.Pos(), "operation is not in a form the term engine recognises: %v", err)
		return
	}
	rin := rp.interp(w)
	if setup != nil {
		setup(rin)
	}
	want, err := rin.FuncTerm(rfd, rp.pkg)
	if err != nil {
		r.undecided(rule, construct, fd.Pos(), "reference model not interpretable: %v", err)
		return
	}
	g, s := hoistAll(dropGlobalWrites(got)), hoistAll(dropGlobalWrites(want))
	eq, diff := equivTrees(g, s)
	if eq {
		r.ok(rule, construct, fd.Pos(), "normal form equals the reference operation %s.%s for every state and argument", refName, key)
		return
	}
	if diff == "" || strings.HasPrefix(diff, "decision trees differ") {
		diff = "\n      code: " + clip(g.Pretty(), 1500) + "\n      spec: " + clip(s.Pretty(), 1500)
	}
	r.bad(rule, construct, fd.Pos(), "differs from the reference operation %s.%s %s", refName, key, diff)
}

// dropGlobalWrites removes writes of package-level variables (statistics
// counters such as comp.Delta) from outcome terms: the data-structure
// properties do not speak about them (C08/R08.3 does).
func dropGlobalWrites(t *Term) *Term {
	return t.subst(func(x *Term) *Term {
		if x.Op == "writes" {
			var keep []*Term
			changed := false
			for _, w := range x.Args {
				if w.Op == "w" && w.Args[0].Op == "global" {
					changed = true
					continue
				}
				// a write-only field (statistics) is not part of the behaviour
				if w.Op == "w" && w.Args[0].Op == "fld" && strings.HasPrefix(w.Args[0].S, "wo:") {
					changed = true
					continue
				}
				keep = append(keep, w)
			}
			if changed {
				return &Term{Op: "writes", Args: keep}
			}
		}
		return nil
	})
}

// conformAny: the operation equals ONE of several admissible reference operations (sibling
// variants that differ in a policy both of which preserve the property).
func conformAny(r *Run, rule, rel, tname, mname string, refNames []string, setup func(*Interp)) {
	w := r.W
	construct := rel + ".(" + tname + ")." + mname
	fd, pkg := w.Method(rel, tname, mname)
	if fd == nil {
		r.undecided(rule, construct, token.NoPos, "operation not found in the repository")
		return
	}
	in := newInterp(w)
	if setup != nil {
		setup(in)
	}
	got, err := in.FuncTerm(fd, pkg)
	if err != nil {
		r.undecided(rule, construct, fd.Pos(), "operation is not in a form the term engine recognises: %v", err)
		return
	}
	g := hoistAll(dropGlobalWrites(got))
	var diffs []string
	for _, refName := range refNames {
		rp, err := loadRef(w, refName)
		if err != nil {
			r.undecided(rule, construct, fd.Pos(), "%v", err)
			return
		}
		rfd := rp.decls[tname+"."+mname]
		if rfd == nil {
			r.undecided(rule, construct, fd.Pos(), "the reference model %s has no operation %s.%s", refName, tname, mname)
			return
		}
		rin := rp.interp(w)
		if setup != nil {
			setup(rin)
		}
		want, err := rin.FuncTerm(rfd, rp.pkg)
		if err != nil {
			r.undecided(rule, construct, fd.Pos(), "reference model %s not interpretable: %v", refName, err)
			return
		}
		s := hoistAll(dropGlobalWrites(want))
		eq, diff := equivTrees(g, s)
		if eq {
			r.ok(rule, construct, fd.Pos(), "normal form equals the reference operation %s.%s.%s for every state and argument", refName, tname, mname)
			return
		}
		if diff == "" || strings.HasPrefix(diff, "decision trees differ") {
			diff = "\n      code: " + clip(g.Pretty(), 1500) + "\n      spec: " + clip(s.Pretty(), 1500)
		}
		diffs = append(diffs, refName+": "+diff)
	}
	r.bad(rule, construct, fd.Pos(), "differs from every admissible reference operation: %s", strings.Join(diffs, "\n    "))
}
