package main

// Thorough tier: self-validation of the rules of one property on overlays of the
// CURRENT tree (never a frozen copy):
//   * seeded faults (a catalogue of small source rewrites located by unique
//     snippets of the current source, plus the confirmed seeded changes kept
//     under /verif/seeded) — the property's check must report a NEW violation;
//   * behaviour-preserving refactorings (every local variable, parameter and
//     receiver renamed; comment and blank lines inserted at the top of every
//     file) — the check must return exactly the verdicts of the unmodified tree;
//   * a second load under GOARCH=386 (32-bit int; proves no build-tagged file
//     escapes analysis) — same verdicts.
// Each overlay is analysed by a child process (bounded pool), nothing is
// written under /repo.

import (
	"bytes"
	"encoding/json"
	"fmt"
	"go/ast"
	"go/printer"
	"go/token"
	"go/types"
	"os"
	"os/exec"
	"path/filepath"
	"sort"
	"strings"
	"sync"
)

type mutant struct {
	Name string
	File string // relative to the repository root
	Old  string
	New  string
	Nth  int // 1-based occurrence (0 = first)
}

// the catalogue: for each property, rewrites that break it while still compiling.
var mutantCatalogue = map[string][]mutant{
	"C02": {
		{Name: "sub operands swapped", File: "risc/opcodes.go", Old: "rs1-rs2", New: "rs2-rs1"},
		{Name: "xori uses or", File: "risc/opcodes.go", Old: "rs^op.imm", New: "rs|op.imm"},
		{Name: "slti uses <=", File: "risc/opcodes.go", Old: "if rs < op.imm {", New: "if rs <= op.imm {"},
		{Name: "lui shifts by 11", File: "risc/opcodes.go", Old: "op.imm<<12)\n\treturn Execution{\n\t\tRegisterChange: true,\n\t\tRegister:       register,\n\t\tRegisterValue:  value,\n\t}, nil\n}\n\nfunc (op *lui)", New: "op.imm<<11)\n\treturn Execution{\n\t\tRegisterChange: true,\n\t\tRegister:       register,\n\t\tRegisterValue:  value,\n\t}, nil\n}\n\nfunc (op *lui)"},
		{Name: "sltu signed again", File: "risc/opcodes.go", Old: "if uint32(rs1) < uint32(rs2) {", New: "if rs1 < rs2 {"},
		{Name: "srl arithmetic again", File: "risc/opcodes.go", Old: "int32(uint32(rs1)>>(uint32(rs2)&31))", New: "rs1>>(uint32(rs2)&31)"},
		{Name: "shift count unmasked", File: "risc/opcodes.go", Old: "rs1<<(uint32(rs2)&31)", New: "rs1<<uint32(rs2)"},
		{Name: "lw reads three addresses", File: "risc/opcodes.go", Old: "return []int32{idx, idx + 1, idx + 2, idx + 3}\n}\n\nfunc (op *lw) MemoryWrite", New: "return []int32{idx, idx + 1, idx + 2}\n}\n\nfunc (op *lw) MemoryWrite"},
		{Name: "sw writes byte 3 at a+2", File: "risc/opcodes.go", Old: "idx + 2: b[2],", New: "idx + 2: b[3],"},
		{Name: "zero register filter dropped", File: "risc/risc.go", Old: "\tif register == Zero {\n\t\treturn Zero, 0\n\t}\n", New: ""},
		{Name: "add declares rs1 only", File: "risc/opcodes.go", Old: "return []RegisterType{op.rs1, op.rs2}", New: "return []RegisterType{op.rs1}"},
	},
	"C16": {
		{Name: "third loop bound 23", File: "common/bytes/bytes.go", Old: "for i := 16; i < 24; i++", New: "for i := 16; i < 23; i++"},
		{Name: "bytes 2 and 3 swapped", File: "common/bytes/bytes.go", Old: "return [4]int8{i1, i2, i3, i4}", New: "return [4]int8{i1, i3, i2, i4}"},
		{Name: "setter uses xor", File: "common/bytes/bytes.go", Old: "return n | (1 << int8(i))", New: "return n ^ (1 << int8(i))"},
		{Name: "index reset in I32FromBytes", File: "common/bytes/bytes.go", Old: "\tfor i := 0; i < 8; i++ {\n\t\tif getI8Bit(i2, uint8(i)) {", New: "\tindex = 0\n\tfor i := 0; i < 8; i++ {\n\t\tif getI8Bit(i2, uint8(i)) {"},
		{Name: "getter tests bit n+1", File: "common/bytes/bytes.go", Old: "return input&(1<<n) != 0\n}\n\nfunc getI32Bit", New: "return input&(1<<(n+1)) != 0\n}\n\nfunc getI32Bit"},
	},
	"C11": {
		{Name: "offset parse error ignored", File: "risc/parser.go", Old: "\timm, err := strconv.ParseInt(immString, 10, 32)\n\tif err != nil {", New: "\timm, err := strconv.ParseInt(immString, 10, 32)\n\tif err == nil {"},
		{Name: "validateArgs(2) before elements[2]", File: "risc/parser.go", Old: "validateArgs(3, elements", New: "validateArgs(2, elements"},
		{Name: "ParseInt 64 bits", File: "risc/parser.go", Old: "strings.TrimSpace(elements[2]), 10, 32)", New: "strings.TrimSpace(elements[2]), 10, 64)"},
		{Name: "label stores pc+4", File: "risc/parser.go", Old: "= pc\n", New: "= pc + 4\n"},
		{Name: "case or builds xor", File: "risc/parser.go", Old: "instructions = append(instructions, &or{", New: "instructions = append(instructions, &xor{"},
		{Name: "sub operands bound swapped", File: "risc/parser.go", Old: "instructions = append(instructions, &sub{\n\t\t\t\trd:  rd,\n\t\t\t\trs1: rs1,\n\t\t\t\trs2: rs2,", New: "instructions = append(instructions, &sub{\n\t\t\t\trd:  rd,\n\t\t\t\trs1: rs2,\n\t\t\t\trs2: rs1,"},
		{Name: "operand not trimmed", File: "risc/parser.go", Old: "rs2, err := parseRegister(strings.TrimSpace(elements[2]))", New: "rs2, err := parseRegister(elements[2])"},
		{Name: "closing parenthesis unchecked", File: "risc/parser.go", Old: "\tif !strings.HasSuffix(s, \")\") {\n\t\treturn 0, 0, fmt.Errorf(\"invalid offset register: %s\", s)\n\t}\n", New: ""},
		{Name: "offset parsed with 64 bits", File: "risc/parser.go", Old: "imm, err := strconv.ParseInt(immString, 10, 32)", New: "imm, err := strconv.ParseInt(immString, 10, 64)"},
		{Name: "mnemonic case kept", File: "risc/parser.go", Old: "switch strings.ToLower(line[:del]) {", New: "switch line[:del] {"},
	},
	"C13": {
		{Name: "line covers hi inclusive", File: "proc/comp/cache.go", Old: "addr < int32(l.Boundary[1])", New: "addr <= int32(l.Boundary[1])"},
		{Name: "capacity test >=", File: "proc/comp/cache.go", Old: "if len(c.lines) > c.numberOfLines {\n\t\t// Return the evicted line", New: "if len(c.lines) >= c.numberOfLines {\n\t\t// Return the evicted line"},
		{Name: "Put evicts on update", File: "common/cache/lru.go", Old: "if _, ok := l.cache[key]; !ok && len(l.cache) == l.capacity {", New: "if _, ok := l.cache[key]; ok || len(l.cache) == l.capacity {"},
		{Name: "Put evicts the most recent", File: "common/cache/lru.go", Old: "delete(l.cache, l.order[0])", New: "delete(l.cache, l.order[len(l.order)-1])"},
		{Name: "PushLine reports a retained line", File: "proc/comp/cache.go", Old: "evicted := c.lines[len(c.lines)-1]\n\t\tc.lines = c.lines[:c.numberOfLines]", New: "c.lines = c.lines[:c.numberOfLines]\n\t\tevicted := c.lines[len(c.lines)-1]"},
		{Name: "Get without move-to-front", File: "proc/comp/cache.go", Old: "\t\t\tc.lines = append(append([]Line{l}, c.lines[:i]...), c.lines[i+1:]...)\n", New: ""},
	},
	"C14": {
		{Name: "Add stamps current cycle", File: "proc/comp/bus.go", Old: "availableFromCycle: currentCycle + 1", New: "availableFromCycle: currentCycle"},
		{Name: "Connect uses >=", File: "proc/comp/bus.go", Old: "if entry.availableFromCycle > currentCycle {", New: "if entry.availableFromCycle >= currentCycle {"},
		{Name: "Get returns the tail", File: "proc/comp/bus.go", Old: "elem := b.queue[0]\n\tb.queue = b.queue[1:]", New: "elem := b.queue[len(b.queue)-1]\n\tb.queue = b.queue[:len(b.queue)-1]"},
		{Name: "Pick removes every match", File: "proc/comp/bus.go", Old: "\t\tif found {\n\t\t\treturn false\n\t\t}\n", New: ""},
		{Name: "SimpleBus.Get drops the latch", File: "proc/comp/bus.go", Old: "b.current = b.pending", New: "b.current = entry[T]{}"},
		{Name: "iterator channel unbuffered", File: "proc/comp/queue.go", Old: "iter := make(chan *list.Element, q.queue.Len())", New: "iter := make(chan *list.Element)"},
	},
	"C15": {
		{Name: "Rollback uses <=", File: "risc/app.go", Old: "if tu.sequenceID < sequenceID {", New: "if tu.sequenceID <= sequenceID {"},
		{Name: "RATRollback uses <=", File: "risc/app.go", Old: "return u.sequenceID < sequenceID", New: "return u.sequenceID <= sequenceID"},
		{Name: "tag-bounded read strict", File: "risc/opcodes.go", Old: "return v.sequenceID <= sequenceID", New: "return v.sequenceID < sequenceID"},
		{Name: "scan skips slot 0", File: "proc/comp/rat.go", Old: "for i := v; i >= 0; i-- {", New: "for i := v; i > 0; i-- {"},
		{Name: "Find ignores its index", File: "proc/comp/rat.go", Old: "\tfor i := idx; i >= 0; i-- {\n\t\tv := r.values[k][i]", New: "\tfor i := idx; i >= 0; i-- {\n\t\tv := r.values[k][idx]"},
		{Name: "Commit keeps the table", File: "risc/app.go", Old: "\tctx.Transaction = make(map[RegisterType]transactionUnit)\n\tctx.transactionOverwritten = make(map[RegisterType][]transactionUnit)\n}\n\nfunc (ctx *Context) Rollback", New: "\tctx.transactionOverwritten = make(map[RegisterType][]transactionUnit)\n}\n\nfunc (ctx *Context) Rollback"},
		{Name: "rollback forgets the replaced writes", File: "risc/app.go", Old: "\t\tfor _, overwritten := range ctx.transactionOverwritten[register] {\n\t\t\tif overwritten.sequenceID < sequenceID && (tu.sequenceID >= sequenceID || overwritten.sequenceID > tu.sequenceID) {\n\t\t\t\ttu = overwritten\n\t\t\t}\n\t\t}\n", New: ""},
	},
	"C07": {
		{Name: "execute unit stays suspended after its store is done", File: "proc/mvp8-0/eu.go", Old: "\t\t\tif resp.done {\n\t\t\t\tu.Reset()\n\t\t\t}", New: "\t\t\tif resp.done {\n\t\t\t\t_ = u\n\t\t\t}"},
		{Name: "completed read stays suspended at its last step", File: "proc/mvp7-1/cc.go", Old: "\t\tcc.read.Reset()\n\t\tdelete", New: "\t\tdelete"},
		{Name: "completed read forgets its handle from the write-lock table", File: "proc/mvp7-0/cc.go", Old: "\t\tdelete(cc.rlockSems, getAlignedMemoryAddress(r.addrs))", New: "\t\tdelete(cc.lockSems, getAlignedMemoryAddress(r.addrs))"},
		{Name: "decode fetches the instruction at index len", File: "proc/mvp7-0/du.go", Old: "if int(pc)/4 >= len(app.Instructions) {", New: "if int(pc)/4 > len(app.Instructions) {"},
		{Name: "write-back stores at index len (7.0)", File: "proc/mvp7-0/mmu.go", Old: "\t\tif int(addr)+i >= len(u.ctx.Memory) {\n\t\t\treturn", New: "\t\tif int(addr)+i > len(u.ctx.Memory) {\n\t\t\treturn"},
		{Name: "ret drain steps only the idle units", File: "proc/mvp6-1/cpu.go", Old: "\t\t\t\t\tif !eu.isEmpty() {\n\t\t\t\t\t\tresp := eu.Cycle", New: "\t\t\t\t\tif eu.isEmpty() {\n\t\t\t\t\t\tresp := eu.Cycle"},
		{Name: "per-cycle branch flag never lowered", File: "proc/mvp6-1/cu.go", Old: "\tu.pushedBranchInCurrentCycle = false\n", New: ""},
		{Name: "jump resolution never ends the decode stall", File: "proc/mvp6-1/bu.go", Old: "u.du.notifyBranchResolved()", New: "_ = u"},
		{Name: "resolved branch leaves the flag raised (6.1)", File: "proc/mvp6-1/bu.go", Old: "u.cu.notifyConditionalBranch()", New: "_ = u"},
		{Name: "no-effect instruction never released", File: "proc/mvp6-2/wu.go", Old: "\t} else {\n\t\tu.ctx.DeletePendingRegisters(execution.ReadRegisters, execution.WriteRegisters)\n", New: "\t} else {\n"},
		{Name: "write-unit emptiness test inverted", File: "proc/mvp7-0/cpu.go", Old: "\t\tif !wu.isEmpty() {\n\t\t\treturn false", New: "\t\tif wu.isEmpty() {\n\t\t\treturn false"},
		{Name: "flush leaves the branch flag raised", File: "proc/mvp7-0/cu.go", Old: "\tu.pushedRunnersInPreviousCycle = nil\n\tu.pendingConditionalBranch = false\n}", New: "\tu.pushedRunnersInPreviousCycle = nil\n}"},
		{Name: "refused writer still counted", File: "proc/comp/semaphore.go", Old: "\tif s.write > 0 || s.read > 0 {\n\t\treturn false\n\t}\n\ts.write++", New: "\ts.write++\n\tif s.write > 1 || s.read > 0 {\n\t\treturn false\n\t}"},
		{Name: "final drain never steps the snoops", File: "proc/mvp7-0/cpu.go", Old: "\t\t\tcc.snoop.Cycle(struct{}{})\n\t\t}\n\t\tfor i, eu", New: "\t\t}\n\t\tfor i, eu"},
		{Name: "final drain never connects the write bus", File: "proc/mvp7-1/cpu.go", Old: "\t\t// What the execute units completed still has to be written\n\t\tm.writeBus.Connect(cycle)\n", New: ""},
		{Name: "execute unit stays suspended across a flush", File: "proc/mvp7-0/eu.go", Old: "func (u *executeUnit) flush() {\n\tu.Reset()\n", New: "func (u *executeUnit) flush() {\n"},
		{Name: "resolved jump not reported", File: "proc/mvp7-0/eu.go", Old: "\t\t\tu.bu.notifyUnconditionalJumpAddressResolved(u.runner.Pc, execution.NextPc)\n", New: ""},
		{Name: "evict snoop never completes its command", File: "proc/mvp7-1/cc.go", Old: "\t\t\t\t_, _ = cc.l1d.EvictCacheLine(req.alignedAddr)\n\t\t\t\tinfo.done()\n", New: "\t\t\t\t_, _ = cc.l1d.EvictCacheLine(req.alignedAddr)\n"},
		{Name: "idleness ignores the side jobs", File: "common/coroutine/coroutine.go", Old: "return c.isStart && len(c.list) == 0", New: "return c.isStart"},
		{Name: "Reset leaves the coroutine suspended", File: "common/coroutine/coroutine.go", Old: "func (c *Coroutine[A, B]) Reset() {\n\tc.current = c.start\n\tc.isStart = true\n", New: "func (c *Coroutine[A, B]) Reset() {\n\tc.current = c.start\n"},
		{Name: "side jobs run while suspended", File: "common/coroutine/coroutine.go", Old: "\tif !c.isStart {\n", New: "\tif !c.isStart && len(c.list) == 0 {\n"},
		{Name: "decode bus never connected", File: "proc/mvp6-1/cpu.go", Old: "\t\tm.decodeBus.Connect(cycle)\n", New: ""},
		{Name: "not-taken branch leaves the flag raised", File: "proc/mvp7-1/bu.go", Old: "func (u *btbBranchUnit) notifyConditionalBranchNotTaken() {\n\tu.cu.notifyConditionalBranch()\n", New: "func (u *btbBranchUnit) notifyConditionalBranchNotTaken() {\n"},
		{Name: "L3 lock kept after the access", File: "proc/mvp8-0/cc.go", Old: "\t\t\t\t\t\t\t\t\tcc.l3Lock = nil\n\t\t\t\t\t\t\t\t\tmu.Unlock()\n", New: "\t\t\t\t\t\t\t\t\tcc.l3Lock = nil\n"},
		{Name: "released read lock stays in the table", File: "proc/mvp7-0/cc.go", Old: "\t\tcc.read.Reset()\n\t\tdelete(cc.rlockSems, getAlignedMemoryAddress(r.addrs))\n", New: "\t\tcc.read.Reset()\n"},
		{Name: "inner loop swallows the error", File: "proc/mvp6-2/cpu.go", Old: "\t\t\t\t\t\t\treturn 0, resp.err\n", New: "\t\t\t\t\t\t\treturn 0, nil\n"},
		{Name: "rem without zero test", File: "risc/opcodes.go", Old: "\tif rs2 == 0 {\n\t\treturn Execution{}, fmt.Errorf(\"division by zero\")\n\t}\n\tregister, value := IsRegisterChange(op.rd, rs1%rs2)", New: "\tregister, value := IsRegisterChange(op.rd, rs1%rs2)"},
		{Name: "Cycles lacks a case", File: "risc/risc.go", Old: "\tcase Xori:\n\t\treturn 1\n\tdefault:", New: "\tdefault:"},
		{Name: "flush deletes from the other table", File: "proc/mvp7-1/cc.go", Old: "\t\tsem.Unlock()\n\t\tdelete(cc.lockSems, k)", New: "\t\tsem.Unlock()\n\t\tdelete(cc.rlockSems, k)"},
		{Name: "write lock released as read lock", File: "proc/mvp7-0/msi.go", Old: "\t\treturn msiResponse{writeToL1: true}, func() {\n\t\t\tm.getSem(addrs).Unlock()", New: "\t\treturn msiResponse{writeToL1: true}, func() {\n\t\t\tm.getSem(addrs).RUnlock()"},
		{Name: "flush keeps pending fetches", File: "proc/mvp6-1/cpu.go", Old: "\tm.memoryManagementUnit.flushPendings()\n", New: ""},
		{Name: "completion predicate forgets the write bus", File: "proc/mvp6-3/cpu.go", Old: "\t\tm.executeBus.IsEmpty() &&\n\t\tm.writeBus.IsEmpty()", New: "\t\tm.executeBus.IsEmpty()"},
		{Name: "drain loop connects the bus only before the loop", File: "proc/mvp6-3/cpu.go", Old: "\t\t\t\tfor _, wu := range m.writeUnits {\n\t\t\t\t\tfor !wu.isEmpty() || !m.writeBus.IsEmpty() {\n\t\t\t\t\t\t// The queue of the bus may be smaller than what the execute units\n\t\t\t\t\t\t// have buffered\n\t\t\t\t\t\tm.writeBus.Connect(cycle + 1)\n", New: "\t\t\t\tm.writeBus.Connect(cycle + 1)\n\t\t\t\tfor _, wu := range m.writeUnits {\n\t\t\t\t\tfor !wu.isEmpty() || !m.writeBus.IsEmpty() {\n"},
		{Name: "final drain discards the unit's result", File: "proc/mvp7-1/cpu.go", Old: "\t\t\tresp := eu.Cycle(euReq{cycle, app})\n\t\t\tif resp.err != nil {\n\t\t\t\treturn 0, resp.err\n\t\t\t}\n\t\t}\n\t\t// What the execute units completed", New: "\t\t\teu.Cycle(euReq{cycle, app})\n\t\t}\n\t\t// What the execute units completed"},
		{Name: "pending fetch keyed by the missing byte", File: "proc/mvp6-1/mmu.go", Old: "[2]int32{addrs[0], addrs[0] + l3CacheLineSize + 1}", New: "[2]int32{addr, addr + l3CacheLineSize + 1}"},
		{Name: "flush leaves the L3 line locked", File: "proc/mvp8-0/cc.go", Old: "\tif cc.l3Lock != nil {\n\t\tcc.l3Lock.Unlock()\n\t\tcc.l3Lock = nil\n\t}\n", New: ""},
		{Name: "nop costs zero cycles", File: "risc/risc.go", Old: "\tcase Nop:\n\t\treturn 1", New: "\tcase Nop:\n\t\treturn 0"},
	},
	"C09": {
		{Name: "drain helper answers empty while a unit is busy", File: "proc/mvp6-2/cpu.go", Old: "func (m *CPU) areExecuteUnitsEmpty() bool {\n\tfor _, eu := range m.executeUnits {\n\t\tif !eu.isEmpty() {\n\t\t\treturn false", New: "func (m *CPU) areExecuteUnitsEmpty() bool {\n\tfor _, eu := range m.executeUnits {\n\t\tif !eu.isEmpty() {\n\t\t\treturn true"},
		{Name: "pre-flush drain stops while the write bus still holds results", File: "proc/mvp6-3/cpu.go", Old: "for !wu.isEmpty() || !m.writeBus.IsEmpty() {", New: "for !wu.isEmpty() && !m.writeBus.IsEmpty() {"},
		{Name: "completion predicate inverted on the control bus", File: "proc/mvp6-1/cpu.go", Old: "\t\tm.controlBus.IsEmpty() &&", New: "\t\t!m.controlBus.IsEmpty() &&"},
		{Name: "ret not held behind an unresolved branch", File: "proc/mvp7-1/cu.go", Old: "risc.Ret && (!u.outBus.IsEmpty() || u.pendingConditionalBranch)", New: "risc.Ret && (!u.outBus.IsEmpty() && u.pendingConditionalBranch)"},
		{Name: "flush keeps the fetch unit complete", File: "proc/mvp6-2/fu.go", Old: "\tu.complete = false\n", New: ""},
		{Name: "final drain ignores a busy write unit", File: "proc/mvp8-0/cpu.go", Old: "\t\t\tif !wu.isEmpty() || !m.writeBus.IsEmpty() {\n\t\t\t\tempty = false\n\t\t\t}\n", New: "\t\t\tif !wu.isEmpty() || !m.writeBus.IsEmpty() {\n\t\t\t}\n"},
		{Name: "undispatched instruction dropped", File: "proc/mvp7-0/cu.go", Old: "\t\t\tu.pendings.Push(runner)\n", New: ""},
		{Name: "ret drain forgets the write bus", File: "proc/mvp6-3/cpu.go", Old: "for !m.areExecuteUnitsEmpty() || !m.areWriteUnitsEmpty() || !m.writeBus.IsEmpty() {", New: "for !m.areExecuteUnitsEmpty() || !m.areWriteUnitsEmpty() {"},
		{Name: "ret drain forgets the execute units", File: "proc/mvp6-1/cpu.go", Old: "for !m.areExecuteUnitsEmpty() || !m.areWriteUnitsEmpty() || !m.writeBus.IsEmpty() {", New: "for !m.areWriteUnitsEmpty() || !m.writeBus.IsEmpty() {"},
		{Name: "ret hold ignores the execute bus", File: "proc/mvp6-2/cu.go", Old: "risc.Ret && (!u.outBus.IsEmpty() || u.pendingConditionalBranch)", New: "risc.Ret && u.pendingConditionalBranch"},
		{Name: "decode keeps going after ret", File: "proc/mvp7-0/du.go", Old: "\t\t\tu.ret = true\n\t\t\treturn\n", New: "\t\t\treturn\n"},
		{Name: "final drain skips on either fact", File: "proc/mvp7-1/cpu.go", Old: "if eu.isEmpty() && m.cacheControllers[i].read.IsStart() && m.cacheControllers[i].write.IsStart() {", New: "if eu.isEmpty() || m.cacheControllers[i].read.IsStart() && m.cacheControllers[i].write.IsStart() {"},
		{Name: "queue dispatch forgets the branch flag", File: "proc/mvp7-1/cu.go", Old: "\t\t\tif runner.Runner.InstructionType().IsConditionalBranch() {\n\t\t\t\tu.pendingConditionalBranch = true\n\t\t\t}\n\t\t} else {\n\t\t\tu.skippedInCurrentCycle = append(u.skippedInCurrentCycle, runner)", New: "\t\t} else {\n\t\t\tu.skippedInCurrentCycle = append(u.skippedInCurrentCycle, runner)"},
	},
	"C03": {
		{Name: "pre-flush drain needs BOTH the unit and the bus busy", File: "proc/mvp7-0/cpu.go", Old: "for !wu.isEmpty() || !m.writeBus.IsEmpty() {", New: "for !wu.isEmpty() && !m.writeBus.IsEmpty() {"},
		{Name: "stop answer of the dispatch decision inverted", File: "proc/mvp6-1/cu.go", Old: "\t\tif stop {\n", New: "\t\tif !stop {\n"},
		{Name: "units stepped after a flush request do not see the limit", File: "proc/mvp6-1/cpu.go", Old: "\t\t\teu.sequenceID = sequenceID\n\t\t\tresp := eu.Cycle(euReq{cycle, m.ctx, app})", New: "\t\t\tresp := eu.Cycle(euReq{cycle, m.ctx, app})"},
		{Name: "fetched pcs behind a jump are kept", File: "proc/mvp6-1/fu.go", Old: "fu.outBus.Clean()", New: "_ = fu"},
		{Name: "sequence filter applies when NO limit is set", File: "proc/mvp6-3/wu.go", Old: "if r.sequenceID != -1 && execution.SequenceID > r.sequenceID {", New: "if r.sequenceID == -1 && execution.SequenceID > r.sequenceID {"},
		{Name: "sequence filter negated", File: "proc/mvp7-0/wu.go", Old: "if r.sequenceID != -1 && execution.SequenceID > r.sequenceID {", New: "if !(r.sequenceID != -1 && execution.SequenceID > r.sequenceID) {"},
		{Name: "second branch of a cycle not held", File: "proc/mvp6-2/cu.go", Old: "IsBranch() && u.pushedBranchInCurrentCycle {", New: "IsBranch() && !u.pushedBranchInCurrentCycle {"},
		{Name: "decode goes on behind a jump in the same step", File: "proc/mvp7-0/du.go", Old: "\t\t\tjump = true\n", New: ""},
		{Name: "flush keeps the pending queue", File: "proc/mvp7-0/cu.go", Old: "func (u *controlUnit) flush() {\n\tu.pendings = comp.NewQueue[risc.InstructionRunnerPc](pendingLength)\n", New: "func (u *controlUnit) flush() {\n"},
		{Name: "flush drain ends while a unit is busy", File: "proc/mvp6-2/cpu.go", Old: "\t\t\t\t\t\tisEmpty = false\n", New: ""},
		{Name: "flush restarts one instruction later", File: "proc/mvp6-1/cpu.go", Old: "\t\t\tm.flush(pc)\n", New: "\t\t\tm.flush(pc + 4)\n"},
		{Name: "execute unit never arms the check", File: "proc/mvp6-1/eu.go", Old: "\tu.bu.assert(u.runner)\n", New: ""},
		{Name: "inner flush keeps the younger limit", File: "proc/mvp7-1/cpu.go", Old: "\t\t\t\t\t\t\tsequenceID = resp.sequenceID\n\t\t\t\t\t\t\tflush = resp.flush", New: "\t\t\t\t\t\t\tflush = resp.flush"},
		{Name: "flush forgets the execute bus", File: "proc/mvp6-1/cpu.go", Old: "\tm.executeBus.Clean()\n", New: ""},
		{Name: "write unit drops the sequence filter", File: "proc/mvp6-2/wu.go", Old: "\tif r.sequenceID != -1 && execution.SequenceID > r.sequenceID {\n\t\treturn nil\n\t}\n", New: ""},
		{Name: "commit and rollback swapped", File: "proc/mvp6-2/eu.go", Old: "\t\t\t\tu.bu.notifyConditionalBranchTaken(u.runner.SequenceID)\n\t\t\t} else {\n\t\t\t\t// Branch not taken (next PC)\n\t\t\t\tu.bu.notifyConditionalBranchNotTaken()", New: "\t\t\t\tu.bu.notifyConditionalBranchNotTaken()\n\t\t\t} else {\n\t\t\t\t// Branch not taken (next PC)\n\t\t\t\tu.bu.notifyConditionalBranchTaken(u.runner.SequenceID)"},
		{Name: "execute unit writes a register", File: "proc/mvp6-1/eu.go", Old: "\tif execution.Return {\n\t\treturn euResp{isReturn: true}\n\t}\n", New: "\tif execution.Return {\n\t\treturn euResp{isReturn: true}\n\t}\n\tif execution.RegisterChange {\n\t\tr.ctx.WriteRegister(execution)\n\t}\n"},
		{Name: "Bltu leaves the branch table", File: "risc/risc.go", Old: "case Beq, Beqz, Bne, Bnez, Blt, Bltu, Ble, Bge, Bgeu:", New: "case Beq, Beqz, Bne, Bnez, Blt, Ble, Bge, Bgeu:"},
		{Name: "flush decision uses >", File: "proc/mvp6-1/bu.go", Old: "return u.expectation != pc", New: "return u.expectation > pc"},
		{Name: "line fetch slices past the image", File: "proc/mvp7-0/mmu.go", Old: "\tfor i := 0; i < int(cacheLineSize); i++ {\n\t\tif int(alignedAddr)+i < 0 || int(alignedAddr)+i >= len(u.ctx.Memory) {\n\t\t\tmemory = append(memory, 0)\n\t\t} else {\n\t\t\tmemory = append(memory, u.ctx.Memory[int(alignedAddr)+i])\n\t\t}\n\t}\n", New: "\tmemory = append(memory, u.ctx.Memory[alignedAddr:]...)\n"},
		{Name: "MVP-6.0 dispatches past a held-back instruction", File: "proc/mvp6-0/cu.go", Old: "\t\tu.blockedDataHazard++\n\t\treturn false, true\n", New: "\t\tu.blockedDataHazard++\n\t\treturn false, false\n"},
		{Name: "line fetch loses its lower bound", File: "proc/mvp6-2/mmu.go", Old: "if int(addr)+i < 0 || int(addr)+i >= len(u.ctx.Memory) {\n\t\t\tmemory = append(memory, 0)", New: "if int(addr)+i >= len(u.ctx.Memory) {\n\t\t\tmemory = append(memory, 0)"},
		{Name: "jump resolution skips a known jump", File: "proc/mvp7-0/bu.go", Old: "\tu.btb.add(pc, pcTo)\n\tu.fu.reset(pcTo, true)\n\tu.du.notifyBranchResolved()", New: "\tif _, exists := u.btb.get(pc); !exists {\n\t\tu.btb.add(pc, pcTo)\n\t\tu.fu.reset(pcTo, true)\n\t}\n\tu.du.notifyBranchResolved()"},
		{Name: "decode does not stall after a jump", File: "proc/mvp6-0/du.go", Old: "\t\t\tu.pendingBranchResolution = true\n", New: ""},
	},
	"C04": {
		{Name: "dispatched instruction reported as not dispatched", File: "proc/mvp7-0/cu.go", Old: "\tlog.Infoi(ctx, \"CU\", runner.Runner.InstructionType(), runner.Pc, \"pushing runner\")\n\treturn true", New: "\tlog.Infoi(ctx, \"CU\", runner.Runner.InstructionType(), runner.Pc, \"pushing runner\")\n\treturn false"},
		{Name: "in-place store never released", File: "proc/mvp6-1/eu.go", Old: "\t\tr.ctx.DeletePendingRegisters(u.runner.Runner.ReadRegisters(), u.runner.Runner.WriteRegisters())\n", New: ""},
		{Name: "in-order stall inverted", File: "proc/mvp5/eu.go", Old: "\tif ctx.IsWriteDataHazard(runner.Runner.ReadRegisters()) {", New: "\tif !ctx.IsWriteDataHazard(runner.Runner.ReadRegisters()) {"},
		{Name: "in-order stall on the write set", File: "proc/mvp4/eu.go", Old: "\tif ctx.IsWriteDataHazard(runner.Runner.ReadRegisters()) {", New: "\tif ctx.IsWriteDataHazard(runner.Runner.WriteRegisters()) {"},
		{Name: "dispatch when there ARE hazards", File: "proc/mvp7-0/cu.go", Old: "\tif len(hazards) == 0 {\n\t\tpushed := u.pushRunner", New: "\tif len(hazards) != 0 {\n\t\tpushed := u.pushRunner"},
		{Name: "held-back dependence test inverted", File: "proc/mvp8-0/cu.go", Old: "\tif u.isDataHazardWithSkippedRunners(runner) {", New: "\tif !u.isDataHazardWithSkippedRunners(runner) {"},
		{Name: "received forward value dropped", File: "proc/mvp7-0/eu.go", Old: "\t\t\tvalue = v\n", New: "\t\t\t_ = v\n"},
		{Name: "held-back instruction not recorded", File: "proc/mvp7-1/cu.go", Old: "\t\t\tu.pendings.Push(runner)\n\t\t\tu.skippedInCurrentCycle = append(u.skippedInCurrentCycle, runner)\n", New: "\t\t\tu.pendings.Push(runner)\n"},
		{Name: "dispatch window never re-created", File: "proc/mvp6-3/cu.go", Old: "func (u *controlUnit) cycle(cycle int) {\n\tu.pushedRunnersInCurrentCycle = make(map[*risc.InstructionRunnerPc]bool)\n", New: "func (u *controlUnit) cycle(cycle int) {\n"},
		{Name: "renaming on RAW", File: "proc/mvp6-3/cu.go", Old: "\tif hazardTypes[risc.ReadAfterWrite] {\n\t\treturn false\n\t}\n\treturn true", New: "\treturn true"},
		{Name: "forwarding with two hazards", File: "proc/mvp6-1/cu.go", Old: "if len(hazardTypes) > 1 || !hazardTypes[risc.ReadAfterWrite] || len(hazards) > 1 {", New: "if len(hazardTypes) > 1 || !hazardTypes[risc.ReadAfterWrite] {"},
		{Name: "scoreboard released before the write", File: "proc/mvp6-1/wu.go", Old: "\t\tr.ctx.WriteRegister(execution.Execution)\n\t\tr.ctx.DeletePendingRegisters(execution.ReadRegisters, execution.WriteRegisters)", New: "\t\tr.ctx.DeletePendingRegisters(execution.ReadRegisters, execution.WriteRegisters)\n\t\tr.ctx.WriteRegister(execution.Execution)"},
		{Name: "WAR not classified", File: "risc/app.go", Old: "\t\tif v, exists := ctx.PendingReadRegisters[register]; exists && v > 0 {\n\t\t\thazards = append(hazards, Hazard{Type: WriteAfterRead, Register: register})\n\t\t\thazardTypes[WriteAfterRead] = true\n\t\t}\n", New: ""},
		{Name: "forward channel unbuffered", File: "proc/mvp6-2/cu.go", Old: "ch := make(chan int32, 1)", New: "ch := make(chan int32)"},
		{Name: "address computed with tag 0", File: "proc/mvp8-0/eu.go", Old: "addrs := u.runner.Runner.MemoryRead(u.ctx, u.runner.SequenceID)", New: "addrs := u.runner.Runner.MemoryRead(u.ctx, 0)"},
		{Name: "wiring clobbers the producer's register", File: "proc/mvp6-2/cu.go", Old: "\t\tpreviousRunner.Forwarder = ch\n", New: "\t\tpreviousRunner.Forwarder = ch\n\t\tpreviousRunner.ForwardRegister = register\n"},
		{Name: "sync step keeps a stale forwarding window", File: "proc/mvp8-0/cu.go", Old: "\t\tu.pushedRunnersInPreviousCycle = nil\n\t\treturn\n", New: "\t\treturn\n"},
		{Name: "rename table back to completion order", File: "risc/app.go", Old: "ctx.transactionRAT.WriteSorted(exe.Register, transactionUnit{sequenceID, exe.RegisterValue}, func(a, b transactionUnit) bool {\n\t\treturn a.sequenceID < b.sequenceID\n\t})", New: "ctx.transactionRAT.Write(exe.Register, transactionUnit{sequenceID, exe.RegisterValue})"},
		{Name: "commit over a younger value", File: "risc/app.go", Old: "exists && tu.sequenceID < sequenceID {\n\t\treturn\n\t}", New: "exists && tu.sequenceID > sequenceID {\n\t\treturn\n\t}"},
		{Name: "forwarding ignores current-cycle writers", File: "proc/mvp7-0/cu.go", Old: "\tfor currentRunner := range u.pushedRunnersInCurrentCycle {\n\t\tif slices.Contains(currentRunner.Runner.WriteRegisters(), register) {\n\t\t\treturn false, nil, risc.Zero\n\t\t}\n\t}\n", New: ""},
		{Name: "renaming variant reads the latest value", File: "proc/mvp6-3/eu.go", Old: "u.runner.Runner.Run(r.ctx, r.app.Labels, u.runner.Pc, u.memory, u.runner.SequenceID)", New: "u.runner.Runner.Run(r.ctx, r.app.Labels, u.runner.Pc, u.memory, 0)"},
		{Name: "pending write deleted outright", File: "risc/app.go", Old: "\t\tctx.PendingWriteRegisters[register]--\n\t\tif ctx.PendingWriteRegisters[register] <= 0 {\n\t\t\tdelete(ctx.PendingWriteRegisters, register)\n\t\t}\n\t}\n}\n\n// IsWriteDataHazard", New: "\t\tdelete(ctx.PendingWriteRegisters, register)\n\t}\n}\n\n// IsWriteDataHazard"},
	},
	"C05": {
		{Name: "victim dropped when the pending entry is removed", File: "proc/mvp6-1/mmu.go", Old: "\t\t\t\tu.pendings = append(u.pendings[:i], u.pendings[i+1:]...)\n\t\t\t}\n\t\t\tbreak\n", New: "\t\t\t\tu.pendings = append(u.pendings[:i], u.pendings[i+1:]...)\n\t\t\t}\n\t\t\treturn\n"},
		{Name: "sub-line read from L1 under an L3 presence test", File: "proc/mvp8-0/cc.go", Old: "l1Addr, l1Data, exists := cc.l3.GetSubCacheLine(r.addrs, l1DCacheLineSize)", New: "l1Addr, l1Data, exists := cc.l1d.GetSubCacheLine(r.addrs, l1DCacheLineSize)"},
		{Name: "probe answers found on a miss", File: "proc/mvp6-1/mmu.go", Old: "\t\t\tu.pendings = append(u.pendings, [2]int32{addrs[0], addrs[0] + l3CacheLineSize + 1})\n\t\t\treturn nil, false, false\n", New: "\t\t\tu.pendings = append(u.pendings, [2]int32{addrs[0], addrs[0] + l3CacheLineSize + 1})\n\t\t\treturn nil, false, true\n"},
		{Name: "line fill one byte too long", File: "proc/mvp6-1/mmu.go", Old: "for i := 0; i < l3CacheLineSize; i++ {\n\t\tif int(addr)+i < 0", New: "for i := 0; i <= l3CacheLineSize; i++ {\n\t\tif int(addr)+i < 0"},
		{Name: "write-back stores at index len", File: "proc/mvp6-2/mmu.go", Old: "\t\tif int(addr)+i >= len(u.ctx.Memory) {\n\t\t\treturn", New: "\t\tif int(addr)+i > len(u.ctx.Memory) {\n\t\t\treturn"},
		{Name: "L3 dirty flag never raised", File: "proc/mvp8-0/msi.go", Old: "\tm.l3Write[addr] = true\n", New: ""},
		{Name: "dirty L3 lines dropped, clean ones written back", File: "proc/mvp8-0/msi.go", Old: "if m.l3Write[alignedAddr] {", New: "if !m.l3Write[alignedAddr] {"},
		{Name: "load miss taken for a hit", File: "proc/mvp6-2/eu.go", Old: "} else if exists {", New: "} else if !exists {"},
		{Name: "store routed to the cache when the line is ABSENT", File: "proc/mvp6-3/eu.go", Old: "if execution.MemoryChange && u.mmu.doesExecutionMemoryChangesExistsInL3(execution) {", New: "if execution.MemoryChange && !u.mmu.doesExecutionMemoryChangesExistsInL3(execution) {"},
		{Name: "miss path runs the load on stale bytes", File: "proc/mvp6-2/eu.go", Old: "\t\t\t\tu.memory = m\n", New: "\t\t\t\t_ = m\n"},
		{Name: "final write-back skips the evicted-from-L3 case", File: "proc/mvp8-0/cc.go", Old: "\t\t\tadditionalCycles += latency.MemoryAccess\n\t\t\tcc.mmu.writeToMemory(line.Boundary[0], line.Data)\n", New: "\t\t\tadditionalCycles += latency.MemoryAccess\n"},
		{Name: "L3 miss snapshots the line at issue", File: "proc/mvp6-3/eu.go", Old: "\t\t\tu.Checkpoint(func(r euReq) euResp {\n\t\t\t\tif remainingCycles > 0 {\n\t\t\t\t\tlog.Infoi(r.ctx, \"EU\", u.runner.Runner.InstructionType(), u.runner.Pc, \"pending memory access %d\", remainingCycles)\n\t\t\t\t\tremainingCycles--\n\t\t\t\t\treturn euResp{}\n\t\t\t\t}\n\t\t\t\tline := u.mmu.fetchCacheLine(addrs[0])\n", New: "\t\t\tline := u.mmu.fetchCacheLine(addrs[0])\n\t\t\tu.Checkpoint(func(r euReq) euResp {\n\t\t\t\tif remainingCycles > 0 {\n\t\t\t\t\tlog.Infoi(r.ctx, \"EU\", u.runner.Runner.InstructionType(), u.runner.Pc, \"pending memory access %d\", remainingCycles)\n\t\t\t\t\tremainingCycles--\n\t\t\t\t\treturn euResp{}\n\t\t\t\t}\n"},
		{Name: "no final write-back", File: "proc/mvp3/cpu.go", Old: "\tm.cycle += m.mmu.flush()\n", New: ""},
		{Name: "L3 written back before L1", File: "proc/mvp8-0/cpu.go", Old: "\tfor _, cc := range m.cacheControllers {\n\t\tcycle += cc.writeBack()\n\t}\n\tcycle += m.l3WriteBack()\n", New: "\tcycle += m.l3WriteBack()\n\tfor _, cc := range m.cacheControllers {\n\t\tcycle += cc.writeBack()\n\t}\n"},
		{Name: "MVP-7 pushes at the raw address", File: "proc/mvp7-0/cc.go", Old: "shouldEvict := cc.pushLineToL1(lineAddr, data)", New: "shouldEvict := cc.pushLineToL1(comp.AlignedAddress(r.addrs[0]), data)"},
		{Name: "store routed on the first byte only", File: "proc/mvp4/mmu.go", Old: "\t_, exists := u.getFromL1D(addrs)\n\treturn exists\n}", New: "\t_, exists := u.getFromL1D(addrs[:1])\n\treturn exists\n}"},
		{Name: "duplicate line allowed", File: "proc/mvp7-1/cc.go", Old: "\tif cc.isAddressInL1([]int32{int32(addr)}) {\n\t\t// No need to wait if it was already in L1\n\t\treturn nil\n\t}\n", New: ""},
		{Name: "victim written at the new address", File: "proc/mvp6-3/mmu.go", Old: "u.writeToMemory(int32(evicted.Boundary[0]), evicted.Data)", New: "u.writeToMemory(int32(addr), evicted.Data)"},
		{Name: "the new line written instead of the victim", File: "proc/mvp4/mmu.go", Old: "u.writeToMemory(evicted.Boundary[0], evicted.Data)", New: "u.writeToMemory(addr, line)"},
		{Name: "L3 dirty flag keyed by the L1 alignment", File: "proc/mvp8-0/cc.go", Old: "\tl3Addr := getL3AlignedMemoryAddress([]int32{int32(l1Addr)})\n\tcc.msi.l3WriteNotify(l3Addr)", New: "\tl3Addr := getL1AlignedMemoryAddress([]int32{int32(l1Addr)})\n\tcc.msi.l3WriteNotify(l3Addr)"},
	},
	"C06": {
		{Name: "owner stores without testing the line lock", File: "proc/mvp7-1/msi.go", Old: "\tcase modified:\n\t\tif !m.getSem(addrs).Lock() {\n\t\t\treturn msiResponse{wait: true}, noop, nil\n\t\t}\n\t\treturn msiResponse{writeToL1: true}", New: "\tcase modified:\n\t\tm.getSem(addrs).Lock()\n\t\treturn msiResponse{writeToL1: true}"},
		{Name: "a read takes the write lock", File: "proc/mvp8-0/cc.go", Old: "resp, post, sem := cc.msi.l1RLock(cc.id, r.addrs)", New: "resp, post, sem := cc.msi.l1Lock(cc.id, r.addrs)"},
		{Name: "an L1 command built by the L3 constructor", File: "proc/mvp8-0/msi.go", Old: "pendings = append(pendings, m.sendNewL1MSICommand(e.id, alignedAddr, l1Evict))", New: "pendings = append(pendings, m.sendNewL3MSICommand(e.id, alignedAddr, l1Evict))"},
		{Name: "a Modified line displaced by a plain evict", File: "proc/mvp7-1/msi.go", Old: "\t\treturn m.sendNewMSICommand(id, alignedAddr, writeBack)\n\tdefault:\n\t\treturn nil", New: "\t\treturn m.sendNewMSICommand(id, alignedAddr, evict)\n\tdefault:\n\t\treturn nil"},
		{Name: "L3 line lock keyed at the L1 line size", File: "proc/mvp8-0/msi.go", Old: "\taddr := getL3AlignedMemoryAddress(addrs)\n", New: "\taddr := getL1AlignedMemoryAddress(addrs)\n"},
		{Name: "L1 insertion guarded by an L3 presence test", File: "proc/mvp8-0/cc.go", Old: "if cc.isAddressInL1([]int32{int32(addr)}) {", New: "if cc.isAddressInL3([]int32{int32(addr)}) {"},
		{Name: "L1 evict handler evicts from L3", File: "proc/mvp8-0/cc.go", Old: "\t\t\t\t_, _ = cc.l1d.EvictCacheLine(req.alignedAddr)\n\t\t\t\tinfo.done()", New: "\t\t\t\t_, _ = cc.l3.EvictCacheLine(req.alignedAddr)\n\t\t\t\tinfo.done()"},
		{Name: "writer admitted among readers", File: "proc/comp/semaphore.go", Old: "if s.write > 0 || s.read > 0 {", New: "if s.write > 0 {"},
		{Name: "line lock not stored", File: "proc/mvp7-1/msi.go", Old: "\t\tsem = &comp.Sem{}\n\t\tm.pendings[alignedAddr] = sem\n", New: "\t\tsem = &comp.Sem{}\n"},
		{Name: "completed command stays in the table", File: "proc/mvp7-0/msi.go", Old: "\t\t\t\tdelete(m.commands, cmdRequest)\n", New: ""},
		{Name: "done() without the callback", File: "proc/mvp8-0/msi.go", Old: "\tr.doneFlag = true\n\tr.callback()\n", New: "\tr.doneFlag = true\n"},
		{Name: "snoop write-back at the L3 line address", File: "proc/mvp8-0/cc.go", Old: "cc.mmu.writeToMemory(req.alignedAddr, memory)", New: "cc.mmu.writeToMemory(getL3AlignedMemoryAddress([]int32{int32(req.alignedAddr)}), memory)"},
		{Name: "read@I ends Modified", File: "proc/mvp7-0/msi.go", Old: "m.setState(id, addrs, shared)", New: "m.setState(id, addrs, modified)"},
		{Name: "read@I evicts the Modified holder", File: "proc/mvp7-1/msi.go", Old: "\t\tcase modified:\n\t\t\tpendings = append(pendings, m.sendNewMSICommand(e.id, alignedAddr, writeBack))\n\t\t}\n\t}\n\treturn pendings\n}\n\n// lock is", New: "\t\tcase modified:\n\t\t\tpendings = append(pendings, m.sendNewMSICommand(e.id, alignedAddr, evict))\n\t\t}\n\t}\n\treturn pendings\n}\n\n// lock is"},
		{Name: "write-back removes before writing", File: "proc/mvp7-0/cc.go", Old: "\t\t\t\tcc.mmu.writeToMemory(req.alignedAddr, memory)\n\t\t\t\t_, evicted := cc.l1d.EvictCacheLine(req.alignedAddr)", New: "\t\t\t\t_, evicted := cc.l1d.EvictCacheLine(req.alignedAddr)\n\t\t\t\tcc.mmu.writeToMemory(req.alignedAddr, memory)"},
		{Name: "state set at lock time", File: "proc/mvp7-0/msi.go", Old: "\t\tpendings := m.writeRequest(id, alignedAddr)\n", New: "\t\tpendings := m.writeRequest(id, alignedAddr)\n\t\tm.setState(id, addrs, modified)\n"},
		{Name: "state keyed by the raw address", File: "proc/mvp7-0/msi.go", Old: "\te := msiEntry{\n\t\tid:          id,\n\t\talignedAddr: getAlignedMemoryAddress(addrs),\n\t}\n\tm.states[e] = state", New: "\te := msiEntry{\n\t\tid:          id,\n\t\talignedAddr: comp.AlignedAddress(addrs[0]),\n\t}\n\tm.states[e] = state"},
	},
	"C08": {
		{Name: "victim chosen in map order", File: "proc/mvp7-0/msi.go", Old: "func (m *msi) getSem(addrs []int32) *comp.Sem {", New: "func (m *msi) anyModified() comp.AlignedAddress {\n\tfor e, s := range m.states {\n\t\tif s == modified {\n\t\t\treturn e.alignedAddr\n\t\t}\n\t}\n\treturn 0\n}\n\nfunc (m *msi) getSem(addrs []int32) *comp.Sem {"},
		{Name: "decode keeps the forward slot", File: "proc/mvp6-1/du.go", Old: "\t\trunner.Forward(risc.Forward{})\n", New: ""},
		{Name: "goroutine in a unit", File: "proc/mvp6-0/wu.go", Old: "func (u *writeUnit) isEmpty() bool {", New: "func (u *writeUnit) spawn() {\n\tgo func() {}()\n}\n\nfunc (u *writeUnit) isEmpty() bool {"},
		{Name: "projection dropped from less", File: "proc/mvp7-1/msi.go", Old: "\t\tfunc(m msiEntry) int { return m.id },\n\t\tfunc(m msiEntry) int { return int(m.alignedAddr) },", New: "\t\tfunc(m msiEntry) int { return m.id },"},
		{Name: "store probe unsorted again", File: "proc/mvp6-0/mmu.go", Old: "\tsort.Slice(addrs, func(i, j int) bool {\n\t\treturn addrs[i] < addrs[j]\n\t})\n\t// A presence test", New: "\t// A presence test"},
		{Name: "latency read from a global counter", File: "proc/comp/cache.go", Old: "func (c *LRUCache) Lines() []Line {", New: "func (c *LRUCache) Skew() int {\n\treturn Delta % 2\n}\n\nfunc (c *LRUCache) Lines() []Line {"},
	},
	"C10": {
		{Name: "pending fetch interval one word short of the line", File: "proc/mvp6-1/mmu.go", Old: "[2]int32{addrs[0], addrs[0] + l3CacheLineSize + 1}", New: "[2]int32{addrs[0], addrs[0] + l3CacheLineSize - 4}"},
		{Name: "store goes around a resident line", File: "proc/mvp4/eu.go", Old: "if execution.MemoryChange && eu.mmu.doesExecutionMemoryChangesExistsInL1D(execution) {", New: "if execution.MemoryChange && !eu.mmu.doesExecutionMemoryChangesExistsInL1D(execution) {"},
		{Name: "load data never reaches Run", File: "proc/mvp8-0/eu.go", Old: "\t\t\tu.memory = resp.data\n", New: ""},
		{Name: "reader admitted beside a writer", File: "proc/comp/semaphore.go", Old: "func (s *Sem) RLock() bool {\n\tif s.write > 0 {\n\t\treturn false\n\t}\n", New: "func (s *Sem) RLock() bool {\n"},
		{Name: "write unit forgets the store", File: "proc/mvp6-1/wu.go", Old: "\t\t\tr.ctx.WriteMemory(u.memoryWrite.Execution)\n", New: ""},
		{Name: "L3 miss snapshots the line at issue", File: "proc/mvp6-3/eu.go", Old: "\t\t\tu.Checkpoint(func(r euReq) euResp {\n\t\t\t\tif remainingCycles > 0 {\n\t\t\t\t\tlog.Infoi(r.ctx, \"EU\", u.runner.Runner.InstructionType(), u.runner.Pc, \"pending memory access %d\", remainingCycles)\n\t\t\t\t\tremainingCycles--\n\t\t\t\t\treturn euResp{}\n\t\t\t\t}\n\t\t\t\tline := u.mmu.fetchCacheLine(addrs[0])\n", New: "\t\t\tline := u.mmu.fetchCacheLine(addrs[0])\n\t\t\tu.Checkpoint(func(r euReq) euResp {\n\t\t\t\tif remainingCycles > 0 {\n\t\t\t\t\tlog.Infoi(r.ctx, \"EU\", u.runner.Runner.InstructionType(), u.runner.Pc, \"pending memory access %d\", remainingCycles)\n\t\t\t\t\tremainingCycles--\n\t\t\t\t\treturn euResp{}\n\t\t\t\t}\n"},
		{Name: "store becomes visible after the latency only", File: "proc/mvp4/wu.go", Old: "\t\twu.pendingMemoryWrite = true\n\t\twu.cycles = latency.MemoryAccess\n\t\tctx.WriteMemory(execution.Execution)", New: "\t\tctx.WriteMemory(execution.Execution)"},
		{Name: "write lock released as read lock", File: "proc/mvp7-0/msi.go", Old: "\t\treturn msiResponse{writeToL1: true}, func() {\n\t\t\tm.getSem(addrs).Unlock()", New: "\t\treturn msiResponse{writeToL1: true}, func() {\n\t\t\tm.getSem(addrs).RUnlock()"},
	},
	"C12": {
		{Name: "indirect jump to zero skips the register access", File: "risc/opcodes.go", Old: "\trs := registerRead(ctx, op.forward, op.rs, sequenceID)\n\tregister, value := IsRegisterChange(op.rd, pc+4)\n\treturn Execution{\n\t\tRegisterChange: true,", New: "\trs := registerRead(ctx, op.forward, op.rs, sequenceID)\n\tregister, value := IsRegisterChange(op.rd, pc+4)\n\treturn Execution{\n\t\tRegisterChange: op.rd != Zero,"},
		{Name: "delay idles one step more", File: "common/coroutine/coroutine.go", Old: "\t\tif remaining > 0 {\n", New: "\t\tif remaining >= 0 {\n"},
		{Name: "a step with side jobs also runs the entry", File: "common/coroutine/coroutine.go", Old: "\tif length == 0 {\n\t\treturn c.current(a)\n\t}\n\treturn zero\n", New: "\treturn c.current(a)\n"},
		{Name: "write-back latency dropped", File: "proc/mvp1/cpu.go", Old: "m.cycle += latency.RegisterAccess", New: "m.cycle += 0"},
		{Name: "memory read charged on the wrong test", File: "proc/mvp1/cpu.go", Old: "\tif len(addrs) != 0 {", New: "\tif len(addrs) == 4 {"},
		{Name: "MVP-2 fetch above MemoryAccess", File: "proc/mvp2/cpu.go", Old: "m.cycle += latency.L1Access", New: "m.cycle += latency.MemoryAccess + 1"},
		{Name: "counter decremented", File: "proc/mvp6-1/cpu.go", Old: "\t\t\tcycle += latency.Flush\n", New: "\t\t\tcycle -= latency.Flush\n"},
		{Name: "result-dependent latency", File: "proc/mvp1/cpu.go", Old: "\t\tif exe.RegisterChange {\n\t\t\tm.ctx.WriteRegister(exe)", New: "\t\tif exe.RegisterValue == 0 {\n\t\t\tm.cycle++\n\t\t}\n\t\tif exe.RegisterChange {\n\t\t\tm.ctx.WriteRegister(exe)"},
		{Name: "early-out on a zero operand", File: "proc/mvp4/eu.go", Old: "\teu.remainingCycles--\n\tif eu.remainingCycles != 0 {", New: "\tif ctx.Registers[risc.T0] == 0 {\n\t\teu.remainingCycles = 1\n\t}\n\teu.remainingCycles--\n\tif eu.remainingCycles != 0 {"},
		{Name: "lh in the one-cycle class", File: "risc/risc.go", Old: "\tcase Lh:\n\t\treturn 50", New: "\tcase Lh:\n\t\treturn 1"},
		{Name: "always flush on a taken branch", File: "proc/mvp5/bu.go", Old: "return bu.expectation != pc", New: "return true"},
	},
	"C01": {
		{Name: "reference runner applies memory writes as register writes", File: "risc/runner.go", Old: "\t\tif exe.RegisterChange {", New: "\t\tif !exe.RegisterChange {"},
		{Name: "architectural register write dropped", File: "risc/app.go", Old: "\tctx.Registers[exe.Register] = exe.RegisterValue\n", New: ""},
		{Name: "forwarding stop dropped", File: "proc/mvp6-3/cu.go", Old: "\t\tu.forwarding++\n\t\treturn true, true\n", New: "\t\tu.forwarding++\n\t\treturn true, false\n"},
		{Name: "dispatched instruction stays queued", File: "proc/mvp6-3/cu.go", Old: "\t\t\tu.pendings.Remove(elem)\n", New: ""},
		{Name: "side jobs dropped instead of kept", File: "common/coroutine/coroutine.go", Old: "\t\treturn f(a)\n\t})\n\tif length == 0 {", New: "\t\treturn !f(a)\n\t})\n\tif length == 0 {"},
		{Name: "epilogue forgets RATFlush", File: "proc/mvp6-3/cpu.go", Old: "\tm.ctx.RATCommit()\n\tm.ctx.RATFlush()\n", New: "\tm.ctx.RATCommit()\n"},
		{Name: "transaction style without Commit", File: "proc/mvp6-2/cpu.go", Old: "\tm.ctx.Commit()\n", New: ""},
		{Name: "rename flag without rename writes", File: "proc/mvp6-2/cpu.go", Old: "ctx := risc.NewContext(debug, memoryBytes, false)", New: "ctx := risc.NewContext(debug, memoryBytes, true)"},
		{Name: "runner without memory", File: "risc/runner.go", Old: "exe, err := runner.Run(r.Ctx, r.App.Labels, pc, memory, 0)", New: "exe, err := runner.Run(r.Ctx, r.App.Labels, pc, nil, 0)"},
		{Name: "reference runner ignores ret", File: "risc/runner.go", Old: "\t\tif exe.Return {\n\t\t\treturn nil\n\t\t}\n", New: ""},
		{Name: "decode past ret", File: "proc/mvp6-1/du.go", Old: "\t\t\tu.ret = true\n\t\t\treturn\n", New: "\t\t\tu.ret = true\n"},
		{Name: "memory write applied first", File: "proc/mvp1/cpu.go", Old: "\t\tif exe.RegisterChange {\n\t\t\tm.ctx.WriteRegister(exe)", New: "\t\tif exe.MemoryChange {\n\t\t\tm.ctx.WriteRegister(exe)"},
	},
}

type overlayJob struct {
	kind    string // mutant | seed | refactor | goarch
	name    string
	overlay map[string]string
	goarch  string
	skipped string
}

type overlayResult struct {
	job      overlayJob
	newKeys  []string // not-discharged keys absent from the base run
	goneKeys []string // base not-discharged keys that are gone
	err      string
}

func notDischarged(obs []*Obligation) map[string]bool {
	m := map[string]bool{}
	for _, o := range obs {
		if o.Status != Discharged {
			m[o.Key] = true
		}
	}
	return m
}

func runChild(prop, repo string, job overlayJob) ([]*Obligation, error) {
	exe, err := os.Executable()
	if err != nil {
		return nil, err
	}
	args := []string{"-prop", prop, "-repo", repo, "-selftest-child"}
	var tmp string
	if job.overlay != nil {
		f, err := os.CreateTemp("", "majcheck-overlay-*.json")
		if err != nil {
			return nil, err
		}
		tmp = f.Name()
		json.NewEncoder(f).Encode(job.overlay)
		f.Close()
		defer os.Remove(tmp)
		args = append(args, "-overlay", tmp)
	}
	cmd := exec.Command(exe, args...)
	cmd.Env = os.Environ()
	if job.goarch != "" {
		cmd.Env = append(cmd.Env, "MAJCHECK_GOARCH="+job.goarch)
	}
	var out bytes.Buffer
	cmd.Stdout = &out
	cmd.Stderr = &out
	cmd.Run()
	// the last line that parses as a JSON array is the obligation list
	lines := strings.Split(strings.TrimSpace(out.String()), "\n")
	for i := len(lines) - 1; i >= 0; i-- {
		var obs []*Obligation
		if json.Unmarshal([]byte(lines[i]), &obs) == nil && obs != nil {
			return obs, nil
		}
	}
	return nil, fmt.Errorf("child produced no obligations: %s", clip(out.String(), 300))
}

func applyMutant(repo string, m mutant) (map[string]string, string) {
	path := filepath.Join(repo, m.File)
	b, err := os.ReadFile(path)
	if err != nil {
		return nil, "file missing"
	}
	s := string(b)
	idx := -1
	n := m.Nth
	if n == 0 {
		n = 1
	}
	for i := 0; i < n; i++ {
		j := strings.Index(s[idx+1:], m.Old)
		if j < 0 {
			return nil, "the construct no longer exists in this form"
		}
		idx = idx + 1 + j
	}
	s = s[:idx] + m.New + s[idx+len(m.Old):]
	return map[string]string{path: s}, ""
}

// seedOverlay applies a kept seeded change (a unified diff) to copies of the files it touches.
func seedOverlay(repo, patchFile string) (map[string]string, string) {
	b, err := os.ReadFile(patchFile)
	if err != nil {
		return nil, "patch unreadable"
	}
	var files []string
	for _, l := range strings.Split(string(b), "\n") {
		if strings.HasPrefix(l, "+++ b/") {
			files = append(files, strings.TrimPrefix(l, "+++ b/"))
		}
	}
	dir, err := os.MkdirTemp("", "majcheck-seed-*")
	if err != nil {
		return nil, err.Error()
	}
	defer os.RemoveAll(dir)
	for _, f := range files {
		src, err := os.ReadFile(filepath.Join(repo, f))
		if err != nil {
			return nil, "file missing: " + f
		}
		os.MkdirAll(filepath.Dir(filepath.Join(dir, f)), 0o755)
		os.WriteFile(filepath.Join(dir, f), src, 0o644)
	}
	cmd := exec.Command("patch", "-p1", "-s", "-f", "-d", dir, "-i", patchFile)
	if out, err := cmd.CombinedOutput(); err != nil {
		return nil, "the patch no longer applies: " + clip(string(out), 120)
	}
	ov := map[string]string{}
	for _, f := range files {
		nb, err := os.ReadFile(filepath.Join(dir, f))
		if err != nil {
			return nil, "patched file unreadable"
		}
		ov[filepath.Join(repo, f)] = string(nb)
	}
	return ov, ""
}

// renameOverlay renames every local variable, parameter, named result and
// receiver of the module's non-test code.
func renameOverlay(w *World) map[string]string {
	ov := map[string]string{}
	for _, p := range modulePkgs(w) {
		for _, f := range p.Syntax {
			changed := false
			ast.Inspect(f, func(n ast.Node) bool {
				id, ok := n.(*ast.Ident)
				if !ok || id.Name == "_" {
					return true
				}
				obj := p.TypesInfo.Defs[id]
				if obj == nil {
					obj = p.TypesInfo.Uses[id]
				}
				v, ok := obj.(*types.Var)
				if !ok || v.IsField() || v.Pkg() == nil || v.Parent() == nil || v.Parent() == v.Pkg().Scope() || v.Parent() == types.Universe {
					return true
				}
				id.Name = id.Name + "Rn"
				changed = true
				return true
			})
			if changed {
				var buf bytes.Buffer
				if err := printer.Fprint(&buf, w.Fset, f); err == nil {
					ov[w.Fset.Position(f.Pos()).Filename] = buf.String()
				}
			}
		}
	}
	return ov
}

// shiftOverlay inserts comment and blank lines at the top of every file.
func shiftOverlay(w *World) map[string]string {
	ov := map[string]string{}
	for _, p := range modulePkgs(w) {
		for _, f := range p.Syntax {
			name := w.Fset.Position(f.Pos()).Filename
			b, err := os.ReadFile(name)
			if err != nil {
				continue
			}
			ov[name] = "// inserted by the self-validation: positions shift, behaviour does not\n\n\n" + string(b)
		}
	}
	return ov
}

func thorough(ps *propSpec, r *Run, repo, verifDir string, extra map[string]any) {
	base := notDischarged(r.Obs)
	var jobs []overlayJob
	for _, m := range mutantCatalogue[ps.ID] {
		ov, skip := applyMutant(repo, m)
		jobs = append(jobs, overlayJob{kind: "mutant", name: m.Name, overlay: ov, skipped: skip})
	}
	// kept seeded changes of this property
	if ents, err := os.ReadDir(filepath.Join(verifDir, "seeded")); err == nil {
		for _, e := range ents {
			if !e.IsDir() || !strings.HasPrefix(e.Name(), ps.ID) {
				continue
			}
			meta, _ := os.ReadFile(filepath.Join(verifDir, "seeded", e.Name(), "meta.json"))
			if strings.Contains(string(meta), `"obsolete"`) {
				continue
			}
			ov, skip := seedOverlay(repo, filepath.Join(verifDir, "seeded", e.Name(), "patch.diff"))
			jobs = append(jobs, overlayJob{kind: "seed", name: e.Name(), overlay: ov, skipped: skip})
		}
	}
	jobs = append(jobs, overlayJob{kind: "refactor", name: "every local, parameter and receiver renamed", overlay: renameOverlay(r.W)})
	jobs = append(jobs, overlayJob{kind: "refactor", name: "comment and blank lines at the top of every file", overlay: shiftOverlay(r.W)})
	jobs = append(jobs, overlayJob{kind: "goarch", name: "GOARCH=386", goarch: "386"})

	results := make([]overlayResult, len(jobs))
	sem := make(chan struct{}, 6)
	var wg sync.WaitGroup
	for i, j := range jobs {
		if j.skipped != "" {
			results[i] = overlayResult{job: j}
			continue
		}
		wg.Add(1)
		go func(i int, j overlayJob) {
			defer wg.Done()
			sem <- struct{}{}
			defer func() { <-sem }()
			obs, err := runChild(ps.ID, repo, j)
			res := overlayResult{job: j}
			if err != nil {
				res.err = err.Error()
			} else {
				got := notDischarged(obs)
				for k := range got {
					if !base[k] {
						res.newKeys = append(res.newKeys, k)
					}
				}
				for k := range base {
					if !got[k] {
						res.goneKeys = append(res.goneKeys, k)
					}
				}
				sort.Strings(res.newKeys)
				sort.Strings(res.goneKeys)
			}
			results[i] = res
		}(i, j)
	}
	wg.Wait()
	var report []map[string]any
	fired, silent, skipped := 0, 0, 0
	for _, res := range results {
		row := map[string]any{"kind": res.job.kind, "name": res.job.name}
		switch {
		case res.job.skipped != "":
			skipped++
			row["result"] = "skipped: " + res.job.skipped
		case res.err != "":
			row["result"] = "error: " + res.err
			r.undecided("self-validation", res.job.kind+":"+res.job.name, token.NoPos, "the overlay could not be analysed: %s", res.err)
		case res.job.kind == "mutant" || res.job.kind == "seed":
			if len(res.newKeys) > 0 {
				fired++
				row["result"] = "fired"
				row["new_violations"] = res.newKeys
			} else {
				row["result"] = "MISSED"
				r.undecided("self-validation", res.job.kind+":"+res.job.name, token.NoPos, "a seeded fault that breaks %s was not reported by any rule of the property", ps.ID)
			}
		default:
			if len(res.newKeys) == 0 && len(res.goneKeys) == 0 {
				silent++
				row["result"] = "same verdicts"
			} else {
				row["result"] = "VERDICTS CHANGED"
				row["new_violations"] = res.newKeys
				row["vanished"] = res.goneKeys
				r.undecided("self-validation", res.job.kind+":"+res.job.name, token.NoPos, "a behaviour-preserving variant of the tree changed the verdicts: new %v, vanished %v", res.newKeys, res.goneKeys)
			}
		}
		report = append(report, row)
	}
	extra["self_validation"] = report
	extra["self_validation_summary"] = fmt.Sprintf("%d seeded faults fired, %d behaviour-preserving variants kept the verdicts, %d skipped (construct no longer present)", fired, silent, skipped)
	fmt.Printf("self-validation: %s\n", extra["self_validation_summary"])
}
