package main

// The RV32IM oracle of R02.1 (DESIGN Appendix B): for each supported mnemonic,
// in terms of the assembly operands, the registers read and written and the
// effect. Transcribed from the RISC-V unprivileged specification for the
// subset (plus the pseudo-instructions li mv j ble beqz bnez nop ret); the one
// deliberate deviation: division/remainder by zero is an *error value* (C07
// names it a defined error of this simulator).

import (
	"fmt"
	"go/types"
)

type rvSpec struct {
	reads    []*Term // operand leaves of registers read
	writes   []*Term // operand leaves of registers written
	run      []*Term // accepted alternatives of the Run outcome
	memRead  *Term   // nil = returns nil
	memWrite *Term   // nil = returns nil
}

type specBuilder struct {
	in     *Interp
	execT  types.Type
	execSt *types.Struct
}

func reg(k int) *Term    { return leaf("Reg", fmt.Sprint(k)) }
func imm(k int) *Term    { return leaf("Imm", fmt.Sprint(k)) }
func offImm(k int) *Term { return leaf("OffImm", fmt.Sprint(k)) }
func offReg(k int) *Term { return leaf("OffReg", fmt.Sprint(k)) }
func lbl(k int) *Term    { return leaf("Label", fmt.Sprint(k)) }
func rd(x *Term) *Term   { return &Term{Op: "R", Args: []*Term{x}} }
func i32(v int64) *Term  { return cInt(v, "int32") }

var pPc = &Term{Op: "param", S: "p2"}
var pLabels = &Term{Op: "param", S: "p1"}
var pMemory = &Term{Op: "param", S: "p3"}

func u32(x *Term) *Term { return T("conv", "uint32<int32", x) }
func sh5(x *Term) *Term { return T("and", "uint32", u32(x), cInt(31, "uint32")) }

func (sb *specBuilder) exec(fields map[string]*Term) *Term {
	f := map[string]*Term{}
	h := map[string]string{}
	for i := 0; i < sb.execSt.NumFields(); i++ {
		fv := sb.execSt.Field(i)
		v, ok := fields[fv.Name()]
		if !ok {
			continue
		}
		if eqT(v, sb.in.zeroOf(fv.Type())) {
			continue
		}
		id := fieldID(fv, sb.execT)
		f[id] = v
		h[id] = fv.Name()
	}
	return mkStruct(typeName(sb.execT), f, h)
}

func outRet(vals ...*Term) *Term {
	return T("out", "return", &Term{Op: "tuple", Args: vals}, &Term{Op: "st", Args: []*Term{{Op: "writes"}, {Op: "fx"}}})
}

var tNil = leaf("nil", "")
var tErr = leaf("error", "")

// regWrite is the outcome "rd <- v" through the zero-register filter.
func (sb *specBuilder) regWrite(rdOp *Term, v *Term, more map[string]*Term) *Term {
	zero := cInt(0, "uint64")
	isZ := T("eq", "uint64", rdOp, zero)
	f := map[string]*Term{
		"RegisterChange": cBool(true),
		"Register":       T("ite", "", isZ, zero, rdOp),
		"RegisterValue":  T("ite", "", isZ, i32(0), v),
	}
	for k, x := range more {
		f[k] = x
	}
	return outRet(sb.exec(f), tNil)
}

func (sb *specBuilder) branch(cond *Term, label *Term) *Term {
	look := T("mapget2", "", pLabels, label)
	taken := T("ite", "", T("proj", "1", look),
		outRet(sb.exec(map[string]*Term{"NextPc": T("proj", "0", look), "PcChange": cBool(true)}), tNil),
		outRet(sb.exec(nil), tErr))
	if cond == nil {
		return taken
	}
	return T("ite", "", cond, taken, outRet(sb.exec(nil), tNil))
}

func seqT(xs ...*Term) *Term { return &Term{Op: "seq", Args: xs} }

func addrs(a *Term, n int) *Term {
	var xs []*Term
	for k := 0; k < n; k++ {
		xs = append(xs, T("add", "int32", a, i32(int64(k))))
	}
	return outRet(seqT(xs...))
}

func (sb *specBuilder) spec(mn string) *rvSpec {
	bin := func(op, tn string) *rvSpec {
		return &rvSpec{reads: []*Term{reg(1), reg(2)}, writes: []*Term{reg(0)},
			run: []*Term{sb.regWrite(reg(0), T(op, tn, rd(reg(1)), rd(reg(2))), nil)}}
	}
	binI := func(op, tn string) *rvSpec {
		return &rvSpec{reads: []*Term{reg(1)}, writes: []*Term{reg(0)},
			run: []*Term{sb.regWrite(reg(0), T(op, tn, rd(reg(1)), imm(2)), nil)}}
	}
	one := func(v *Term) *Term { return T("ite", "", v, i32(1), i32(0)) }
	switch mn {
	case "add":
		return bin("add", "int32")
	case "sub":
		return bin("sub", "int32")
	case "and":
		return bin("and", "int32")
	case "or":
		return bin("or", "int32")
	case "xor":
		return bin("xor", "int32")
	case "mul":
		return bin("mul", "int32")
	case "addi":
		return binI("add", "int32")
	case "andi":
		return binI("and", "int32")
	case "ori":
		return binI("or", "int32")
	case "xori":
		return binI("xor", "int32")
	case "sll":
		return &rvSpec{reads: []*Term{reg(1), reg(2)}, writes: []*Term{reg(0)},
			run: []*Term{sb.regWrite(reg(0), T("shl", "int32,uint32", rd(reg(1)), sh5(rd(reg(2)))), nil)}}
	case "slli":
		return &rvSpec{reads: []*Term{reg(1)}, writes: []*Term{reg(0)},
			run: []*Term{sb.regWrite(reg(0), T("shl", "int32,uint32", rd(reg(1)), sh5(imm(2))), nil)}}
	case "sra":
		return &rvSpec{reads: []*Term{reg(1), reg(2)}, writes: []*Term{reg(0)},
			run: []*Term{sb.regWrite(reg(0), T("shr", "int32,uint32", rd(reg(1)), sh5(rd(reg(2)))), nil)}}
	case "srai":
		return &rvSpec{reads: []*Term{reg(1)}, writes: []*Term{reg(0)},
			run: []*Term{sb.regWrite(reg(0), T("shr", "int32,uint32", rd(reg(1)), sh5(imm(2))), nil)}}
	case "srl":
		return &rvSpec{reads: []*Term{reg(1), reg(2)}, writes: []*Term{reg(0)},
			run: []*Term{sb.regWrite(reg(0), T("conv", "int32<uint32", T("shr", "uint32,uint32", u32(rd(reg(1))), sh5(rd(reg(2))))), nil)}}
	case "srli":
		return &rvSpec{reads: []*Term{reg(1)}, writes: []*Term{reg(0)},
			run: []*Term{sb.regWrite(reg(0), T("conv", "int32<uint32", T("shr", "uint32,uint32", u32(rd(reg(1))), sh5(imm(2)))), nil)}}
	case "slt":
		return &rvSpec{reads: []*Term{reg(1), reg(2)}, writes: []*Term{reg(0)},
			run: []*Term{sb.regWrite(reg(0), one(T("lt", "int32", rd(reg(1)), rd(reg(2)))), nil)}}
	case "sltu":
		return &rvSpec{reads: []*Term{reg(1), reg(2)}, writes: []*Term{reg(0)},
			run: []*Term{sb.regWrite(reg(0), one(T("lt", "uint32", u32(rd(reg(1))), u32(rd(reg(2))))), nil)}}
	case "slti":
		return &rvSpec{reads: []*Term{reg(1)}, writes: []*Term{reg(0)},
			run: []*Term{sb.regWrite(reg(0), one(T("lt", "int32", rd(reg(1)), imm(2))), nil)}}
	case "div", "rem":
		op := "div"
		if mn == "rem" {
			op = "rem"
		}
		return &rvSpec{reads: []*Term{reg(1), reg(2)}, writes: []*Term{reg(0)},
			run: []*Term{T("ite", "", T("eq", "int32", rd(reg(2)), i32(0)),
				outRet(sb.exec(nil), tErr),
				sb.regWrite(reg(0), T(op, "int32", rd(reg(1)), rd(reg(2))), nil))}}
	case "lui":
		return &rvSpec{writes: []*Term{reg(0)},
			run: []*Term{sb.regWrite(reg(0), T("shl", "int32,c", imm(1), cInt(12, "int")), nil)}}
	case "auipc":
		return &rvSpec{writes: []*Term{reg(0)},
			run: []*Term{sb.regWrite(reg(0), T("add", "int32", pPc, T("shl", "int32,c", imm(1), cInt(12, "int"))), nil)}}
	case "li":
		return &rvSpec{writes: []*Term{reg(0)}, run: []*Term{sb.regWrite(reg(0), imm(1), nil)}}
	case "mv":
		return &rvSpec{reads: []*Term{reg(1)}, writes: []*Term{reg(0)}, run: []*Term{sb.regWrite(reg(0), rd(reg(1)), nil)}}
	case "beq":
		return &rvSpec{reads: []*Term{reg(0), reg(1)}, run: []*Term{sb.branch(T("eq", "int32", rd(reg(0)), rd(reg(1))), lbl(2))}}
	case "bne":
		return &rvSpec{reads: []*Term{reg(0), reg(1)}, run: []*Term{sb.branch(T("ne", "int32", rd(reg(0)), rd(reg(1))), lbl(2))}}
	case "blt":
		return &rvSpec{reads: []*Term{reg(0), reg(1)}, run: []*Term{sb.branch(T("lt", "int32", rd(reg(0)), rd(reg(1))), lbl(2))}}
	case "bge":
		return &rvSpec{reads: []*Term{reg(0), reg(1)}, run: []*Term{sb.branch(T("ge", "int32", rd(reg(0)), rd(reg(1))), lbl(2))}}
	case "ble":
		return &rvSpec{reads: []*Term{reg(0), reg(1)}, run: []*Term{sb.branch(T("le", "int32", rd(reg(0)), rd(reg(1))), lbl(2))}}
	case "bltu":
		return &rvSpec{reads: []*Term{reg(0), reg(1)}, run: []*Term{sb.branch(T("lt", "uint32", u32(rd(reg(0))), u32(rd(reg(1)))), lbl(2))}}
	case "bgeu":
		return &rvSpec{reads: []*Term{reg(0), reg(1)}, run: []*Term{sb.branch(T("ge", "uint32", u32(rd(reg(0))), u32(rd(reg(1)))), lbl(2))}}
	case "beqz":
		return &rvSpec{reads: []*Term{reg(0)}, run: []*Term{sb.branch(T("eq", "int32", rd(reg(0)), i32(0)), lbl(1))}}
	case "bnez":
		return &rvSpec{reads: []*Term{reg(0)}, run: []*Term{sb.branch(T("ne", "int32", rd(reg(0)), i32(0)), lbl(1))}}
	case "j":
		return &rvSpec{run: []*Term{sb.branch(nil, lbl(0))}}
	case "jal":
		look := T("mapget2", "", pLabels, lbl(1))
		return &rvSpec{writes: []*Term{reg(0)}, run: []*Term{T("ite", "", T("proj", "1", look),
			sb.regWrite(reg(0), T("add", "int32", pPc, i32(4)), map[string]*Term{"NextPc": T("proj", "0", look), "PcChange": cBool(true)}),
			outRet(sb.exec(nil), tErr))}}
	case "jalr":
		tgt := T("add", "int32", rd(reg(1)), imm(2))
		return &rvSpec{reads: []*Term{reg(1)}, writes: []*Term{reg(0)}, run: []*Term{
			sb.regWrite(reg(0), T("add", "int32", pPc, i32(4)), map[string]*Term{"NextPc": tgt, "PcChange": cBool(true)}),
			// clearing bit 0 of the target is accepted, not demanded
			sb.regWrite(reg(0), T("add", "int32", pPc, i32(4)), map[string]*Term{"NextPc": T("and", "int32", tgt, i32(-2)), "PcChange": cBool(true)}),
		}}
	case "nop":
		return &rvSpec{run: []*Term{outRet(sb.exec(nil), tNil)}}
	case "ret":
		return &rvSpec{run: []*Term{outRet(sb.exec(map[string]*Term{"Return": cBool(true)}), tNil)}}
	case "lb", "lh", "lw":
		a := T("add", "int32", rd(offReg(1)), offImm(1))
		m := func(k int64) *Term { return T("elem", "", pMemory, cInt(k, "int")) }
		z8 := cInt(0, "int8")
		var v []*Term
		n := 1
		switch mn {
		case "lb":
			v = []*Term{T("conv", "int32<int8", m(0))}
		case "lh":
			n = 2
			h := &Term{Op: "i32le", Args: []*Term{m(0), m(1), z8, z8}}
			v = []*Term{T("conv", "int32<int16", T("conv", "int16<int32", h))}
		case "lw":
			n = 4
			v = []*Term{{Op: "i32le", Args: []*Term{m(0), m(1), m(2), m(3)}}}
		}
		s := &rvSpec{reads: []*Term{offReg(1)}, writes: []*Term{reg(0)}, memRead: addrs(a, n)}
		for _, x := range v {
			s.run = append(s.run, sb.regWrite(reg(0), x, nil))
		}
		return s
	case "sb", "sh", "sw":
		var base, off *Term
		if mn == "sh" { // sh rs2, imm, rs1 — the grammar this assembler accepts
			base, off = reg(2), imm(1)
		} else {
			base, off = offReg(1), offImm(1)
		}
		a := T("add", "int32", rd(base), off)
		src := rd(reg(0))
		by := &Term{Op: "bytesle", Args: []*Term{src}}
		n := map[string]int{"sb": 1, "sh": 2, "sw": 4}[mn]
		mk := func(first *Term) *Term {
			var kvs []*Term
			for k := 0; k < n; k++ {
				b := T("elem", "", by, cInt(int64(k), "int"))
				if k == 0 && first != nil {
					b = first
				}
				kvs = append(kvs, &Term{Op: "kv", Args: []*Term{T("add", "int32", a, i32(int64(k))), b}})
			}
			return outRet(sb.exec(map[string]*Term{"MemoryChange": cBool(true), "MemoryChanges": T("maplit", "", kvs...)}), tNil)
		}
		s := &rvSpec{reads: []*Term{base, reg(0)}, memWrite: addrs(a, n), run: []*Term{mk(nil)}}
		if mn == "sb" {
			s.run = append(s.run, mk(T("conv", "int8<int32", src)))
		}
		return s
	}
	return nil
}
