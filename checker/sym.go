package main

// E-TERM, part 2: an abstract interpreter from type-checked syntax to terms.
//
// It computes, for one function, a decision tree whose inner nodes are branch
// conditions (terms) and whose leaves are outcomes: returned values, the final
// contents of every written location, and the ordered log of writes through
// slices. Loops with constant trip counts are unrolled by constant propagation;
// other loops are summarised generically as loop(space, init, body-tree) with
// loop-carried variables as bound leaves. No input is ever chosen, no path
// feasibility is decided, no solver is called: the result is a normal form that
// is compared syntactically with a specification term.

import (
	"fmt"
	"go/ast"
	"go/token"
	"go/types"
	"sort"
	"strings"

	"golang.org/x/tools/go/packages"
	"golang.org/x/tools/go/types/typeutil"
)

type flowKind int

const (
	flowFall flowKind = iota
	flowReturn
	flowBreak
	flowContinue
	flowPanic
)

var flowNames = []string{"fall", "return", "break", "continue", "panic"}

type State struct {
	env     map[types.Object]*Term
	heap    map[string]*Term
	heapLoc map[string]*Term
	effects []*Term
}

func newState() *State {
	return &State{env: map[types.Object]*Term{}, heap: map[string]*Term{}, heapLoc: map[string]*Term{}}
}

func (s *State) clone() *State {
	n := &State{env: make(map[types.Object]*Term, len(s.env)), heap: make(map[string]*Term, len(s.heap)), heapLoc: make(map[string]*Term, len(s.heapLoc))}
	for k, v := range s.env {
		n.env[k] = v
	}
	for k, v := range s.heap {
		n.heap[k] = v
	}
	for k, v := range s.heapLoc {
		n.heapLoc[k] = v
	}
	n.effects = append([]*Term{}, s.effects...)
	return n
}

type Tree struct {
	Cond       *Term
	Then, Else *Tree
	St         *State
	Flow       flowKind
	Vals       []*Term
}

func leafTree(st *State, fl flowKind, vals ...*Term) *Tree {
	return &Tree{St: st, Flow: fl, Vals: vals}
}

func (t *Tree) mapLeaves(f func(*Tree) *Tree) *Tree {
	if t.Cond == nil {
		return f(t)
	}
	return &Tree{Cond: t.Cond, Then: t.Then.mapLeaves(f), Else: t.Else.mapLeaves(f)}
}

func (t *Tree) leaves(f func(*Tree)) {
	if t.Cond == nil {
		f(t)
		return
	}
	t.Then.leaves(f)
	t.Else.leaves(f)
}

type symErr struct {
	msg string
	pos token.Pos
}

type frame struct {
	pkg     *packages.Package
	info    *types.Info
	results []*types.Var
	name    string
}

type closureVal struct {
	lit *ast.FuncLit
	fr  *frame
}

type Interp struct {
	w         *World
	depth     int
	loopDepth int
	closures  map[string]*closureVal
	nclos     int
	// custom models keyed by full function name (pkgpath.Func or pkgpath.(Type).Method)
	models map[string]func(in *Interp, fr *frame, call *ast.CallExpr, recv *Term, args []*Term, st *State) ([]*Term, bool)
	// opaque methods keyed by "(*Type).method" regardless of package: the call is
	// recorded as an effect and its results are uninterpreted (used to compare a
	// unit with its reference model without inlining its neighbours)
	opaqueMethods map[string]bool
	// opaque methods known to be pure (no write, no effect): consulting them is not an effect, so the ORDER in
	// which a decision procedure consults them does not matter
	pureOpaque map[string]bool
	// extra packages (reference code) that may be inlined
	extraDecls map[types.Object]*ast.FuncDecl
	extraPkg   map[types.Object]*packages.Package
	steps      int
}

func newInterp(w *World) *Interp {
	return &Interp{w: w, closures: map[string]*closureVal{}, models: map[string]func(*Interp, *frame, *ast.CallExpr, *Term, []*Term, *State) ([]*Term, bool){}}
}

func (in *Interp) fail(pos token.Pos, format string, args ...any) {
	panic(symErr{fmt.Sprintf(format, args...), pos})
}

// fieldID is a rename-stable identity of a struct field: its type plus its
// ordinal among the fields of that type in the struct declaration.
func fieldID(v *types.Var, recv types.Type) string {
	st := structOf(recv)
	if st == nil {
		return v.Name()
	}
	tn := typeName(v.Type())
	// a field that is only ever written (a statistics counter) is not part of the behaviour: it gets
	// its own kind of id and does not shift the ordinals of the other fields of its type
	if writeOnlyFields[v.Origin()] {
		return "wo:" + v.Name()
	}
	k := 0
	for i := 0; i < st.NumFields(); i++ {
		f := st.Field(i)
		if f == v || (f.Name() == v.Name() && f.Pos() == v.Pos()) || (f.Origin() == v.Origin()) {
			return fmt.Sprintf("%s#%d", tn, k)
		}
		if typeName(f.Type()) == tn && !writeOnlyFields[f.Origin()] {
			k++
		}
	}
	return v.Name()
}

// writeOnlyFields: struct fields of the module that non-test code assigns or increments but
// never reads (set by loadWorld).
var writeOnlyFields = map[*types.Var]bool{}

func computeWriteOnlyFields(w *World) {
	written := map[*types.Var]bool{}
	read := map[*types.Var]bool{}
	for _, p := range w.Pkgs {
		if p.Types == nil || !strings.HasPrefix(p.PkgPath, modPath) {
			continue
		}
		info := p.TypesInfo
		for _, f := range p.Syntax {
			// only genuine counters qualify: integer fields modified by ++/--/+=/-= and nothing else;
			// any other write (plain assignment, composite literal) counts as a use
			targets := map[ast.Node]bool{}
			ast.Inspect(f, func(n ast.Node) bool {
				switch x := n.(type) {
				case *ast.AssignStmt:
					if x.Tok == token.ADD_ASSIGN || x.Tok == token.SUB_ASSIGN {
						for _, l := range x.Lhs {
							targets[ast.Unparen(l)] = true
						}
					}
				case *ast.IncDecStmt:
					targets[ast.Unparen(x.X)] = true
				}
				return true
			})
			skip := map[ast.Node]bool{}
			// a read inside a statistics report (a function whose only result is map[string]any) feeds
			// nothing but the report
			var reports [][2]token.Pos
			for _, d := range f.Decls {
				if fd, ok := d.(*ast.FuncDecl); ok && fd.Body != nil && fd.Type.Results != nil && len(fd.Type.Results.List) == 1 {
					if mt, ok := info.TypeOf(fd.Type.Results.List[0].Type).(*types.Map); ok {
						if b, ok := mt.Key().(*types.Basic); ok && b.Kind() == types.String {
							if it, ok := mt.Elem().Underlying().(*types.Interface); ok && it.NumMethods() == 0 {
								reports = append(reports, [2]token.Pos{fd.Body.Pos(), fd.Body.End()})
							}
						}
					}
				}
			}
			inReport := func(p token.Pos) bool {
				for _, r := range reports {
					if r[0] <= p && p < r[1] {
						return true
					}
				}
				return false
			}
			ast.Inspect(f, func(n ast.Node) bool {
				if n != nil && inReport(n.Pos()) {
					return false
				}
				var obj types.Object
				switch x := n.(type) {
				case *ast.SelectorExpr:
					skip[x.Sel] = true
					if s := info.Selections[x]; s != nil && s.Kind() == types.FieldVal {
						obj = s.Obj()
					}
				case *ast.Ident:
					if skip[n] {
						return true
					}
					if o, ok := info.Uses[x].(*types.Var); ok && o.IsField() {
						obj = o
					}
				}
				fv, ok := obj.(*types.Var)
				if !ok {
					return true
				}
				if targets[n] {
					written[fv.Origin()] = true
				} else if _, isSel := n.(*ast.SelectorExpr); isSel {
					read[fv.Origin()] = true
				} else if !targets[n] {
					// an identifier use of a field outside a selector: a composite-literal key is a target; anything else reads
					read[fv.Origin()] = true
				}
				return true
			})
		}
	}
	writeOnlyFields = map[*types.Var]bool{}
	for v := range written {
		if b, ok := v.Type().Underlying().(*types.Basic); ok && b.Info()&types.IsInteger != 0 && !read[v] {
			writeOnlyFields[v] = true
		}
	}
}

func structOf(t types.Type) *types.Struct {
	for i := 0; i < 4 && t != nil; i++ {
		switch u := t.(type) {
		case *types.Pointer:
			t = u.Elem()
			continue
		case *types.Named:
			if s, ok := u.Origin().Underlying().(*types.Struct); ok {
				return s
			}
			return nil
		case *types.Alias:
			t = types.Unalias(u)
			continue
		case *types.Struct:
			return u
		}
		break
	}
	return nil
}

func fullFuncName(f *types.Func) string {
	f = f.Origin()
	sig := f.Type().(*types.Signature)
	pk := ""
	if f.Pkg() != nil {
		pk = f.Pkg().Path()
	}
	if r := sig.Recv(); r != nil {
		t := r.Type()
		ptr := ""
		if p, ok := t.(*types.Pointer); ok {
			t = p.Elem()
			ptr = "*"
		}
		tn := "?"
		if n, ok := t.(*types.Named); ok {
			tn = n.Obj().Name()
		}
		return fmt.Sprintf("%s.(%s%s).%s", pk, ptr, tn, f.Name())
	}
	return pk + "." + f.Name()
}

// ---------------------------------------------------------------------------
// zero values

func (in *Interp) zeroOf(t types.Type) *Term {
	switch u := t.(type) {
	case *types.TypeParam:
		return leaf("zero", typeName(u))
	case *types.Alias:
		return in.zeroOf(types.Unalias(u))
	}
	switch u := t.Underlying().(type) {
	case *types.Basic:
		switch {
		case u.Info()&types.IsBoolean != 0:
			return cBool(false)
		case u.Info()&types.IsInteger != 0:
			return cInt(0, opType(t))
		case u.Info()&types.IsString != 0:
			return &Term{Op: "const", S: `"":string`}
		}
		return leaf("zero", typeName(t))
	case *types.Struct:
		return &Term{Op: "struct", S: typeName(t)}
	case *types.Slice:
		return &Term{Op: "seq", S: ""}
	case *types.Array:
		args := make([]*Term, u.Len())
		for i := range args {
			args[i] = in.zeroOf(u.Elem())
		}
		return &Term{Op: "arr", S: "", Args: args}
	case *types.Map:
		return leaf("nil", "map")
	}
	return leaf("nil", "")
}

func mkStruct(tname string, fields map[string]*Term, hints map[string]string) *Term {
	var keys []string
	for k := range fields {
		keys = append(keys, k)
	}
	sort.Strings(keys)
	var args []*Term
	for _, k := range keys {
		args = append(args, &Term{Op: "fv", S: k, Args: []*Term{fields[k]}, Hint: hints[k]})
	}
	return &Term{Op: "struct", S: tname, Args: args}
}

// ---------------------------------------------------------------------------
// running a function

// FuncTerm interprets the declaration and returns the outcome term. Receiver
// is the leaf "recv", parameters are "p0", "p1", ...
func (in *Interp) FuncTerm(fd *ast.FuncDecl, pkg *packages.Package) (t *Term, err error) {
	defer func() {
		if e := recover(); e != nil {
			if se, ok := e.(symErr); ok {
				err = fmt.Errorf("%s: %s", in.w.pos(se.pos), se.msg)
				return
			}
			panic(e)
		}
	}()
	st := newState()
	fr := &frame{pkg: pkg, info: pkg.TypesInfo, name: fd.Name.Name}
	if fd.Recv != nil && len(fd.Recv.List) == 1 && len(fd.Recv.List[0].Names) == 1 {
		obj := pkg.TypesInfo.Defs[fd.Recv.List[0].Names[0]]
		if obj != nil {
			st.env[obj] = &Term{Op: "recv", Hint: obj.Name(), Obj: obj}
		}
	}
	k := 0
	for _, f := range fd.Type.Params.List {
		if len(f.Names) == 0 {
			k++
			continue
		}
		for _, n := range f.Names {
			if obj := pkg.TypesInfo.Defs[n]; obj != nil {
				st.env[obj] = &Term{Op: "param", S: fmt.Sprintf("p%d", k), Hint: n.Name, Obj: obj}
			}
			k++
		}
	}
	in.bindResults(fr, fd.Type, st)
	tree := in.execBlock(fr, fd.Body.List, st)
	return in.treeTerm(fr, tree), nil
}

func (in *Interp) bindResults(fr *frame, ft *ast.FuncType, st *State) {
	fr.results = nil
	if ft.Results == nil {
		return
	}
	for _, f := range ft.Results.List {
		for _, n := range f.Names {
			if obj, ok := fr.info.Defs[n].(*types.Var); ok && obj != nil {
				fr.results = append(fr.results, obj)
				st.env[obj] = in.zeroOf(obj.Type())
			}
		}
	}
}

// treeTerm converts an outcome tree into a term.
func (in *Interp) treeTerm(fr *frame, t *Tree) *Term {
	if t.Cond != nil {
		return T("ite", "", t.Cond, in.treeTerm(fr, t.Then), in.treeTerm(fr, t.Else))
	}
	return in.leafTerm(fr, t)
}

func (in *Interp) leafTerm(fr *frame, t *Tree) *Term {
	if t.Flow == flowPanic {
		return leaf("panic", "")
	}
	vals := t.Vals
	if t.Flow == flowReturn || t.Flow == flowFall {
		if len(vals) == 0 && len(fr.results) > 0 {
			for _, r := range fr.results {
				vals = append(vals, t.St.env[r])
			}
		}
	}
	return T("out", flowNames[t.Flow], hoistTuple(vals), stateTerm(t.St))
}

func hoistTuple(vals []*Term) *Term {
	return &Term{Op: "tuple", Args: vals}
}

func stateTerm(st *State) *Term {
	var keys []string
	for k := range st.heap {
		keys = append(keys, k)
	}
	sort.Strings(keys)
	var ws []*Term
	for _, k := range keys {
		loc := st.heapLoc[k]
		// a location written back with its own initial content is unchanged
		if eqT(loc, st.heap[k]) {
			continue
		}
		ws = append(ws, &Term{Op: "w", Args: []*Term{loc, st.heap[k]}})
	}
	return &Term{Op: "st", Args: []*Term{{Op: "writes", Args: ws}, {Op: "fx", Args: st.effects}}}
}

// ---------------------------------------------------------------------------
// statements

func (in *Interp) execBlock(fr *frame, stmts []ast.Stmt, st *State) *Tree {
	if len(stmts) == 0 {
		return leafTree(st, flowFall)
	}
	t := in.execStmt(fr, stmts[0], st)
	rest := stmts[1:]
	if len(rest) == 0 {
		return t
	}
	return t.mapLeaves(func(l *Tree) *Tree {
		if l.Flow != flowFall {
			return l
		}
		return in.execBlock(fr, rest, l.St)
	})
}

func (in *Interp) step(pos token.Pos) {
	in.steps++
	if in.steps > 400000 {
		in.fail(pos, "analysis budget exceeded")
	}
}

func (in *Interp) execStmt(fr *frame, s ast.Stmt, st *State) *Tree {
	in.step(s.Pos())
	switch s := s.(type) {
	case *ast.BlockStmt:
		return in.execBlock(fr, s.List, st)
	case *ast.EmptyStmt:
		return leafTree(st, flowFall)
	case *ast.DeclStmt:
		gd, ok := s.Decl.(*ast.GenDecl)
		if !ok || gd.Tok != token.VAR {
			if ok && (gd.Tok == token.TYPE || gd.Tok == token.CONST) {
				return leafTree(st, flowFall)
			}
			in.fail(s.Pos(), "unsupported declaration")
		}
		st = st.clone()
		for _, sp := range gd.Specs {
			vs := sp.(*ast.ValueSpec)
			if len(vs.Values) == 0 {
				for _, n := range vs.Names {
					if obj := fr.info.Defs[n]; obj != nil {
						st.env[obj] = in.zeroOf(obj.Type())
					}
				}
				continue
			}
			if len(vs.Values) != len(vs.Names) {
				in.fail(s.Pos(), "unsupported var declaration with tuple value")
			}
			for i, n := range vs.Names {
				v := in.eval(fr, vs.Values[i], st)
				if obj := fr.info.Defs[n]; obj != nil {
					st.env[obj] = in.convertTo(fr, v, vs.Values[i], obj.Type())
				}
			}
		}
		return leafTree(st, flowFall)
	case *ast.ExprStmt:
		if call, ok := s.X.(*ast.CallExpr); ok {
			t := in.callTree(fr, call, st)
			return t.mapLeaves(func(l *Tree) *Tree {
				if l.Flow == flowPanic {
					return l
				}
				return leafTree(l.St, flowFall)
			})
		}
		in.fail(s.Pos(), "unsupported expression statement")
	case *ast.IncDecStmt:
		one := &ast.BasicLit{Kind: token.INT, Value: "1", ValuePos: s.Pos()}
		op := token.ADD
		if s.Tok == token.DEC {
			op = token.SUB
		}
		cur := in.eval(fr, s.X, st)
		tn := opType(fr.info.TypeOf(s.X))
		_ = one
		var v *Term
		if op == token.ADD {
			v = T("add", tn, cur, cInt(1, tn))
		} else {
			v = T("sub", tn, cur, cInt(1, tn))
		}
		st = st.clone()
		in.assign(fr, s.X, v, st, false)
		return leafTree(st, flowFall)
	case *ast.AssignStmt:
		return in.execAssign(fr, s, st)
	case *ast.ReturnStmt:
		if len(s.Results) == 1 {
			if call, ok := s.Results[0].(*ast.CallExpr); ok && in.isInlineCall(fr, call) {
				t := in.callTree(fr, call, st)
				return t.mapLeaves(func(l *Tree) *Tree {
					if l.Flow == flowPanic {
						return l
					}
					return leafTree(l.St, flowReturn, l.Vals...)
				})
			}
		}
		var vals []*Term
		for _, r := range s.Results {
			vals = append(vals, in.eval(fr, r, st))
		}
		if len(s.Results) == 0 {
			for _, r := range fr.results {
				vals = append(vals, st.env[r])
			}
		}
		return leafTree(st, flowReturn, vals...)
	case *ast.IfStmt:
		if s.Init != nil {
			t := in.execStmt(fr, s.Init, st)
			return t.mapLeaves(func(l *Tree) *Tree {
				if l.Flow != flowFall {
					return l
				}
				return in.mergeFalls(in.execIf(fr, s, l.St))
			})
		}
		return in.mergeFalls(in.execIf(fr, s, st))
	case *ast.ForStmt:
		return in.execFor(fr, s, st)
	case *ast.RangeStmt:
		return in.execRange(fr, s, st)
	case *ast.BranchStmt:
		if s.Label != nil {
			in.fail(s.Pos(), "labelled branch not supported")
		}
		switch s.Tok {
		case token.BREAK:
			return leafTree(st, flowBreak)
		case token.CONTINUE:
			return leafTree(st, flowContinue)
		}
		in.fail(s.Pos(), "unsupported branch %s", s.Tok)
	case *ast.SwitchStmt:
		return in.mergeFalls(in.execSwitch(fr, s, st))
	case *ast.LabeledStmt:
		in.fail(s.Pos(), "labelled statement not supported")
	case *ast.DeferStmt, *ast.GoStmt, *ast.SendStmt, *ast.SelectStmt, *ast.TypeSwitchStmt:
		in.fail(s.Pos(), "unsupported statement %T", s)
	}
	in.fail(s.Pos(), "unsupported statement %T", s)
	return nil
}

// hoistReturn turns `return ite(c,a,b)` (single boolean result or tuple with a
// leading ite of tuples) into a branch so that `return a && b` and the
// equivalent if-chain have one normal form.
func (in *Interp) hoistReturn(st *State, vals []*Term) *Tree {
	for i, v := range vals {
		if v.Op == "ite" {
			a := append(append([]*Term{}, vals[:i]...), v.Args[1])
			a = append(a, vals[i+1:]...)
			b := append(append([]*Term{}, vals[:i]...), v.Args[2])
			b = append(b, vals[i+1:]...)
			return &Tree{Cond: v.Args[0], Then: in.hoistReturn(st, a), Else: in.hoistReturn(st, b)}
		}
	}
	return leafTree(st, flowReturn, vals...)
}

func (in *Interp) execIf(fr *frame, s *ast.IfStmt, st *State) *Tree {
	thenF := func(st *State) *Tree { return in.execBlock(fr, s.Body.List, st) }
	elseF := func(st *State) *Tree {
		if s.Else == nil {
			return leafTree(st, flowFall)
		}
		return in.execStmt(fr, s.Else, st)
	}
	return in.branch(fr, s.Cond, st, thenF, elseF)
}

// branch splits on a condition with short-circuit structure.
func (in *Interp) branch(fr *frame, cond ast.Expr, st *State, thenF, elseF func(*State) *Tree) *Tree {
	cond = ast.Unparen(cond)
	if tv, ok := fr.info.Types[cond]; ok && tv.Value != nil {
		if b, ok := constTerm(tv.Value, tv.Type).constBool(); ok {
			if b {
				return thenF(st)
			}
			return elseF(st)
		}
	}
	switch c := cond.(type) {
	case *ast.BinaryExpr:
		if c.Op == token.LAND {
			return in.branch(fr, c.X, st, func(s1 *State) *Tree { return in.branch(fr, c.Y, s1, thenF, elseF) }, elseF)
		}
		if c.Op == token.LOR {
			return in.branch(fr, c.X, st, thenF, func(s1 *State) *Tree { return in.branch(fr, c.Y, s1, thenF, elseF) })
		}
	case *ast.UnaryExpr:
		if c.Op == token.NOT {
			return in.branch(fr, c.X, st, elseF, thenF)
		}
	case *ast.CallExpr:
		// a call to a module function as a condition may have effects (a cache lookup reorders lines): graft its tree
		if in.isInlineCall(fr, c) {
			t := in.callTree(fr, c, st)
			return t.mapLeaves(func(l *Tree) *Tree {
				if l.Flow == flowPanic || len(l.Vals) != 1 {
					return l
				}
				return in.branchTerm(l.Vals[0], l.St, thenF, elseF)
			})
		}
	}
	ct := in.eval(fr, cond, st)
	return in.branchTerm(ct, st, thenF, elseF)
}

func (in *Interp) branchTerm(ct *Term, st *State, thenF, elseF func(*State) *Tree) *Tree {
	if b, ok := ct.constBool(); ok {
		if b {
			return thenF(st)
		}
		return elseF(st)
	}
	if ct.Op == "not" {
		return in.branchTerm(ct.Args[0], st, elseF, thenF)
	}
	if ct.Op == "ite" {
		// ite(c, a, b) as a condition: split on c first
		return &Tree{Cond: ct.Args[0],
			Then: in.branchTerm(ct.Args[1], st.clone(), thenF, elseF),
			Else: in.branchTerm(ct.Args[2], st.clone(), thenF, elseF)}
	}
	return &Tree{Cond: ct, Then: thenF(st.clone()), Else: elseF(st.clone())}
}

func (in *Interp) execSwitch(fr *frame, s *ast.SwitchStmt, st *State) *Tree {
	if s.Init != nil {
		t := in.execStmt(fr, s.Init, st)
		return t.mapLeaves(func(l *Tree) *Tree {
			if l.Flow != flowFall {
				return l
			}
			s2 := *s
			s2.Init = nil
			return in.execSwitch(fr, &s2, l.St)
		})
	}
	var tag *Term
	var tagT string
	if s.Tag != nil {
		tag = in.eval(fr, s.Tag, st)
		tagT = opType(fr.info.TypeOf(s.Tag))
	}
	var clauses []*ast.CaseClause
	var def *ast.CaseClause
	for _, c := range s.Body.List {
		cc := c.(*ast.CaseClause)
		if cc.List == nil {
			def = cc
		} else {
			clauses = append(clauses, cc)
		}
	}
	finish := func(t *Tree) *Tree {
		return t.mapLeaves(func(l *Tree) *Tree {
			if l.Flow == flowBreak {
				return leafTree(l.St, flowFall)
			}
			return l
		})
	}
	var build func(i int, st *State) *Tree
	build = func(i int, st *State) *Tree {
		if i == len(clauses) {
			if def != nil {
				return finish(in.execBlock(fr, def.Body, st))
			}
			return leafTree(st, flowFall)
		}
		cc := clauses[i]
		body := func(s1 *State) *Tree { return finish(in.execBlock(fr, cc.Body, s1)) }
		var tryExpr func(j int, s1 *State) *Tree
		tryExpr = func(j int, s1 *State) *Tree {
			if j == len(cc.List) {
				return build(i+1, s1)
			}
			if tag == nil {
				return in.branch(fr, cc.List[j], s1, body, func(s2 *State) *Tree { return tryExpr(j+1, s2) })
			}
			ct := T("eq", tagT, tag, in.eval(fr, cc.List[j], s1))
			return in.branchTerm(ct, s1, body, func(s2 *State) *Tree { return tryExpr(j+1, s2) })
		}
		return tryExpr(0, st)
	}
	return build(0, st)
}

// ---------------------------------------------------------------------------
// assignment

func (in *Interp) execAssign(fr *frame, s *ast.AssignStmt, st *State) *Tree {
	if s.Tok != token.ASSIGN && s.Tok != token.DEFINE {
		// compound assignment x op= y
		if len(s.Lhs) != 1 || len(s.Rhs) != 1 {
			in.fail(s.Pos(), "unsupported compound assignment")
		}
		cur := in.eval(fr, s.Lhs[0], st)
		rhs := in.eval(fr, s.Rhs[0], st)
		var op token.Token
		switch s.Tok {
		case token.ADD_ASSIGN:
			op = token.ADD
		case token.SUB_ASSIGN:
			op = token.SUB
		case token.MUL_ASSIGN:
			op = token.MUL
		case token.OR_ASSIGN:
			op = token.OR
		case token.AND_ASSIGN:
			op = token.AND
		case token.XOR_ASSIGN:
			op = token.XOR
		case token.SHL_ASSIGN:
			op = token.SHL
		case token.SHR_ASSIGN:
			op = token.SHR
		case token.QUO_ASSIGN:
			op = token.QUO
		case token.REM_ASSIGN:
			op = token.REM
		default:
			in.fail(s.Pos(), "unsupported compound assignment %s", s.Tok)
		}
		v := in.binop(fr, op, cur, rhs, fr.info.TypeOf(s.Lhs[0]), fr.info.TypeOf(s.Rhs[0]), s.Pos())
		st = st.clone()
		in.assign(fr, s.Lhs[0], v, st, false)
		return leafTree(st, flowFall)
	}
	define := s.Tok == token.DEFINE
	if len(s.Rhs) == 1 && len(s.Lhs) >= 1 {
		rhs := ast.Unparen(s.Rhs[0])
		if call, ok := rhs.(*ast.CallExpr); ok && in.isInlineCall(fr, call) {
			t := in.callTree(fr, call, st)
			return t.mapLeaves(func(l *Tree) *Tree {
				if l.Flow == flowPanic {
					return l
				}
				if len(l.Vals) != len(s.Lhs) {
					in.fail(s.Pos(), "call yields %d values for %d targets", len(l.Vals), len(s.Lhs))
				}
				ns := l.St.clone()
				for i, lhs := range s.Lhs {
					in.assign(fr, lhs, l.Vals[i], ns, define)
				}
				return leafTree(ns, flowFall)
			})
		}
	}
	if len(s.Lhs) == len(s.Rhs) {
		vals := make([]*Term, len(s.Rhs))
		for i, r := range s.Rhs {
			vals[i] = in.eval(fr, r, st)
			if lt := fr.info.TypeOf(s.Lhs[i]); lt != nil {
				vals[i] = in.convertTo(fr, vals[i], r, lt)
			}
		}
		st = st.clone()
		for i, lhs := range s.Lhs {
			in.assign(fr, lhs, vals[i], st, define)
		}
		return leafTree(st, flowFall)
	}
	if len(s.Rhs) == 1 {
		// tuple-valued expression: map lookup with ok, type assertion, call
		v := in.eval2(fr, s.Rhs[0], st, len(s.Lhs))
		st = st.clone()
		for i, lhs := range s.Lhs {
			in.assign(fr, lhs, T("proj", fmt.Sprint(i), v), st, define)
		}
		return leafTree(st, flowFall)
	}
	in.fail(s.Pos(), "unsupported assignment shape")
	return nil
}

// convertTo handles the implicit conversion of untyped constants at
// assignment (the constant already carries the target type via go/types).
func (in *Interp) convertTo(fr *frame, v *Term, e ast.Expr, to types.Type) *Term { return v }

func (in *Interp) assign(fr *frame, lhs ast.Expr, v *Term, st *State, define bool) {
	lhs = ast.Unparen(lhs)
	switch l := lhs.(type) {
	case *ast.Ident:
		if l.Name == "_" {
			return
		}
		var obj types.Object
		if define {
			obj = fr.info.Defs[l]
		}
		if obj == nil {
			obj = fr.info.Uses[l]
		}
		if obj == nil {
			in.fail(l.Pos(), "unresolved identifier %s", l.Name)
		}
		if vr, ok := obj.(*types.Var); ok && vr.Parent() != nil && vr.Pkg() != nil && vr.Parent() == vr.Pkg().Scope() {
			key := "global:" + vr.Pkg().Path() + "." + vr.Name()
			st.heap[key] = v
			st.heapLoc[key] = leaf("global", vr.Pkg().Path()+"."+vr.Name())
			return
		}
		st.env[obj] = v
		return
	case *ast.SelectorExpr:
		sel := fr.info.Selections[l]
		if sel == nil || sel.Kind() != types.FieldVal {
			// package-level variable pkg.Var
			if obj, ok := fr.info.Uses[l.Sel].(*types.Var); ok {
				key := "global:" + obj.Pkg().Path() + "." + obj.Name()
				st.heap[key] = v
				st.heapLoc[key] = leaf("global", obj.Pkg().Path()+"."+obj.Name())
				return
			}
			in.fail(l.Pos(), "unsupported selector assignment")
		}
		fv := sel.Obj().(*types.Var)
		id := fieldID(fv, sel.Recv())
		// field of a local struct variable: functional update
		if x, ok := ast.Unparen(l.X).(*ast.Ident); ok {
			if obj := fr.info.Uses[x]; obj != nil {
				if cur, ok := st.env[obj]; ok && cur.Op == "struct" {
					st.env[obj] = in.structSet(cur, id, fv.Name(), v, fv.Type())
					return
				}
			}
		}
		base := in.eval(fr, l.X, st)
		if base.Op == "ref" && base.Args[0].Op == "struct" {
			in.fail(l.Pos(), "assignment through a pointer to a local composite is not modelled")
		}
		loc := &Term{Op: "fld", S: id, Args: []*Term{base}, Hint: fv.Name(), Obj: fv}
		st.heap[loc.Key()] = v
		st.heapLoc[loc.Key()] = loc
		return
	case *ast.IndexExpr:
		xt := fr.info.TypeOf(l.X)
		idx := in.eval(fr, l.Index, st)
		if _, isMap := xt.Underlying().(*types.Map); isMap {
			cur := in.eval(fr, l.X, st)
			nv := &Term{Op: "mapset", Args: []*Term{cur, idx, v}}
			in.assign(fr, l.X, nv, st, false)
			return
		}
		// element of a local array variable: functional update
		if x, ok := ast.Unparen(l.X).(*ast.Ident); ok {
			if obj := fr.info.Uses[x]; obj != nil {
				if cur, ok := st.env[obj]; ok && cur.Op == "arr" {
					if iv, _, ok := idx.constInt(); ok && int(iv) < len(cur.Args) {
						args := append([]*Term{}, cur.Args...)
						args[iv] = v
						st.env[obj] = &Term{Op: "arr", Args: args}
						return
					}
				}
			}
		}
		base := in.eval(fr, l.X, st)
		st.effects = append(st.effects, &Term{Op: "sliceset", Args: []*Term{base, idx, v}})
		return
	case *ast.StarExpr:
		base := in.eval(fr, l.X, st)
		st.effects = append(st.effects, &Term{Op: "store", Args: []*Term{base, v}})
		return
	}
	in.fail(lhs.Pos(), "unsupported assignment target %T", lhs)
}

func (in *Interp) structSet(cur *Term, id, hint string, v *Term, ft types.Type) *Term {
	fields := map[string]*Term{}
	hints := map[string]string{}
	for _, fv := range cur.Args {
		fields[fv.S] = fv.Args[0]
		hints[fv.S] = fv.Hint
	}
	if eqT(v, in.zeroOf(ft)) {
		delete(fields, id)
	} else {
		fields[id] = v
		hints[id] = hint
	}
	return mkStruct(cur.S, fields, hints)
}

// ---------------------------------------------------------------------------
// expressions

func (in *Interp) eval(fr *frame, e ast.Expr, st *State) *Term {
	in.step(e.Pos())
	if tv, ok := fr.info.Types[e]; ok && tv.Value != nil {
		return constTerm(tv.Value, tv.Type)
	}
	switch e := e.(type) {
	case *ast.ParenExpr:
		return in.eval(fr, e.X, st)
	case *ast.Ident:
		if e.Name == "nil" {
			return leaf("nil", "")
		}
		obj := fr.info.Uses[e]
		if obj == nil {
			obj = fr.info.Defs[e]
		}
		if obj == nil {
			in.fail(e.Pos(), "unresolved identifier %s", e.Name)
		}
		switch o := obj.(type) {
		case *types.Var:
			if v, ok := st.env[o]; ok {
				return v
			}
			if o.Pkg() != nil && o.Parent() == o.Pkg().Scope() {
				key := "global:" + o.Pkg().Path() + "." + o.Name()
				if v, ok := st.heap[key]; ok {
					return v
				}
				return leaf("global", o.Pkg().Path()+"."+o.Name())
			}
			in.fail(e.Pos(), "variable %s has no value in the abstract state", e.Name)
		case *types.Func:
			return leaf("func", fullFuncName(o))
		case *types.Nil:
			return leaf("nil", "")
		}
		in.fail(e.Pos(), "unsupported identifier kind %T", obj)
	case *ast.SelectorExpr:
		if sel := fr.info.Selections[e]; sel != nil {
			switch sel.Kind() {
			case types.FieldVal:
				base := in.eval(fr, e.X, st)
				return in.fieldOf(base, sel, st)
			case types.MethodVal:
				base := in.eval(fr, e.X, st)
				return &Term{Op: "methodval", S: sel.Obj().Name(), Args: []*Term{base}}
			}
			in.fail(e.Pos(), "unsupported selection")
		}
		// qualified identifier
		switch o := fr.info.Uses[e.Sel].(type) {
		case *types.Var:
			key := "global:" + o.Pkg().Path() + "." + o.Name()
			if v, ok := st.heap[key]; ok {
				return v
			}
			return leaf("global", o.Pkg().Path()+"."+o.Name())
		case *types.Func:
			return leaf("func", fullFuncName(o))
		}
		in.fail(e.Pos(), "unsupported qualified identifier")
	case *ast.StarExpr:
		v := in.eval(fr, e.X, st)
		if v.Op == "ref" {
			return v.Args[0]
		}
		if v.Op == "addr" {
			return in.derefAddr(v, st)
		}
		return &Term{Op: "deref", Args: []*Term{v}}
	case *ast.UnaryExpr:
		switch e.Op {
		case token.AND:
			v := in.eval(fr, e.X, st)
			// a pointer to an element or field of something reachable from the
			// heap is resolved when it is dereferenced, against the contents the
			// owner has then (an in-place append moves other elements under it)
			switch x := ast.Unparen(e.X).(type) {
			case *ast.IndexExpr, *ast.SelectorExpr:
				if in.rootedInHeap(fr, x, st) {
					snap := st.clone()
					return &Term{Op: "addr", Args: []*Term{v}, Aux: &addrVal{fr: fr, expr: e.X, env: snap.env}}
				}
			}
			return &Term{Op: "ref", Args: []*Term{v}}
		case token.NOT:
			return T("not", "", in.eval(fr, e.X, st))
		case token.SUB:
			tn := opType(fr.info.TypeOf(e))
			return T("sub", tn, cInt(0, tn), in.eval(fr, e.X, st))
		case token.XOR:
			tn := opType(fr.info.TypeOf(e))
			return T("xor", tn, cInt(-1, tn), in.eval(fr, e.X, st))
		case token.ADD:
			return in.eval(fr, e.X, st)
		}
		in.fail(e.Pos(), "unsupported unary operator %s", e.Op)
	case *ast.BinaryExpr:
		if e.Op == token.LAND {
			return T("ite", "", in.eval(fr, e.X, st), in.eval(fr, e.Y, st), cBool(false))
		}
		if e.Op == token.LOR {
			return T("ite", "", in.eval(fr, e.X, st), cBool(true), in.eval(fr, e.Y, st))
		}
		x, y := in.eval(fr, e.X, st), in.eval(fr, e.Y, st)
		return in.binop(fr, e.Op, x, y, fr.info.TypeOf(e.X), fr.info.TypeOf(e.Y), e.Pos())
	case *ast.CallExpr:
		vals := in.evalCall(fr, e, st)
		if len(vals) == 1 {
			return vals[0]
		}
		return &Term{Op: "tuple", Args: vals}
	case *ast.IndexExpr:
		xt := fr.info.TypeOf(e.X)
		if xt == nil {
			in.fail(e.Pos(), "untyped index expression")
		}
		x := in.eval(fr, e.X, st)
		i := in.eval(fr, e.Index, st)
		if _, isMap := xt.Underlying().(*types.Map); isMap {
			return T("mapget", "", x, i)
		}
		return T("elem", "", x, i)
	case *ast.SliceExpr:
		if e.Slice3 {
			in.fail(e.Pos(), "3-index slice not supported")
		}
		x := in.eval(fr, e.X, st)
		lo := cInt(0, "int")
		if e.Low != nil {
			lo = in.eval(fr, e.Low, st)
		}
		var hi *Term = leaf("end", "")
		if e.High != nil {
			hi = in.eval(fr, e.High, st)
		}
		return mkSlice(x, lo, hi)
	case *ast.CompositeLit:
		return in.evalComposite(fr, e, st)
	case *ast.FuncLit:
		return in.closureTerm(fr, e, st)
	case *ast.TypeAssertExpr:
		return &Term{Op: "assert", S: typeName(fr.info.TypeOf(e.Type)), Args: []*Term{in.eval(fr, e.X, st)}}
	}
	in.fail(e.Pos(), "unsupported expression %T", e)
	return nil
}

func mkSlice(x, lo, hi *Term) *Term {
	if v, _, ok := lo.constInt(); ok && v == 0 && hi.Op == "end" {
		return x
	}
	// slice(x, 0, len(x)) == x
	if v, _, ok := lo.constInt(); ok && v == 0 && hi.Op == "len" && eqT(hi.Args[0], x) {
		return x
	}
	// slicing a literal sequence by constants
	if x.Op == "seq" {
		l, _, lok := lo.constInt()
		if hi.Op == "end" && lok && int(l) <= len(x.Args) {
			return &Term{Op: "seq", S: x.S, Args: x.Args[l:]}
		}
		h, _, hok := hi.constInt()
		if lok && hok && l <= h && int(h) <= len(x.Args) {
			return &Term{Op: "seq", S: x.S, Args: x.Args[l:h]}
		}
	}
	return &Term{Op: "slice", Args: []*Term{x, lo, hi}}
}

// eval2 evaluates the comma-ok forms.
func (in *Interp) eval2(fr *frame, e ast.Expr, st *State, n int) *Term {
	e = ast.Unparen(e)
	switch e := e.(type) {
	case *ast.IndexExpr:
		x := in.eval(fr, e.X, st)
		i := in.eval(fr, e.Index, st)
		return T("mapget2", "", x, i)
	case *ast.TypeAssertExpr:
		return &Term{Op: "assert2", S: typeName(fr.info.TypeOf(e.Type)), Args: []*Term{in.eval(fr, e.X, st)}}
	case *ast.CallExpr:
		vals := in.evalCall(fr, e, st)
		return &Term{Op: "tuple", Args: vals}
	}
	in.fail(e.Pos(), "unsupported tuple-valued expression %T", e)
	return nil
}

func (in *Interp) fieldOf(base *Term, sel *types.Selection, st *State) *Term {
	fv := sel.Obj().(*types.Var)
	if len(sel.Index()) != 1 {
		// promoted field through embedding: not used by the analysed code
		return &Term{Op: "fld", S: fv.Name(), Args: []*Term{base}, Hint: fv.Name(), Obj: fv}
	}
	id := fieldID(fv, sel.Recv())
	if base.Op == "addr" {
		base = in.derefAddr(base, st)
	}
	b := base
	if b.Op == "ref" {
		b = b.Args[0]
	}
	if b.Op == "struct" {
		for _, f := range b.Args {
			if f.S == id {
				return f.Args[0]
			}
		}
		return in.zeroOf(fv.Type())
	}
	loc := T("fld", id, base)
	if loc.Op == "fld" {
		loc.Hint = fv.Name()
		loc.Obj = fv
	}
	if v, ok := st.heap[loc.Key()]; ok {
		return v
	}
	return loc
}

func (in *Interp) binop(fr *frame, op token.Token, x, y *Term, xt, yt types.Type, pos token.Pos) *Term {
	tn := opType(xt)
	if b, ok := xt.Underlying().(*types.Basic); ok && b.Info()&types.IsUntyped != 0 && yt != nil {
		tn = opType(yt)
	}
	switch op {
	case token.ADD:
		return T("add", tn, x, y)
	case token.SUB:
		return T("sub", tn, x, y)
	case token.MUL:
		return T("mul", tn, x, y)
	case token.QUO:
		return T("div", tn, x, y)
	case token.REM:
		return T("rem", tn, x, y)
	case token.AND:
		return T("and", tn, x, y)
	case token.OR:
		return T("or", tn, x, y)
	case token.XOR:
		return T("xor", tn, x, y)
	case token.AND_NOT:
		return T("andnot", tn, x, y)
	case token.SHL, token.SHR:
		// a constant count has no signedness/width question
		ct := opType(yt)
		if v, _, ok := y.constInt(); ok {
			ct = "c"
			y = cInt(v, "int")
		}
		if op == token.SHL {
			return T("shl", opType(xt)+","+ct, x, y)
		}
		return T("shr", opType(xt)+","+ct, x, y)
	case token.EQL:
		return T("eq", tn, x, y)
	case token.NEQ:
		return T("ne", tn, x, y)
	case token.LSS:
		return T("lt", tn, x, y)
	case token.LEQ:
		return T("le", tn, x, y)
	case token.GTR:
		return T("gt", tn, x, y)
	case token.GEQ:
		return T("ge", tn, x, y)
	}
	in.fail(pos, "unsupported binary operator %s", op)
	return nil
}

func (in *Interp) evalComposite(fr *frame, e *ast.CompositeLit, st *State) *Term {
	t := fr.info.TypeOf(e)
	switch u := t.Underlying().(type) {
	case *types.Struct:
		fields := map[string]*Term{}
		hints := map[string]string{}
		for i, el := range e.Elts {
			var fv *types.Var
			var ve ast.Expr
			if kv, ok := el.(*ast.KeyValueExpr); ok {
				name := kv.Key.(*ast.Ident).Name
				for j := 0; j < u.NumFields(); j++ {
					if u.Field(j).Name() == name {
						fv = u.Field(j)
					}
				}
				ve = kv.Value
			} else {
				fv = u.Field(i)
				ve = el
			}
			if fv == nil {
				in.fail(el.Pos(), "unknown field in composite literal")
			}
			v := in.evalElt(fr, ve, fv.Type(), st)
			if eqT(v, in.zeroOf(fv.Type())) {
				continue
			}
			id := fieldID(fv, t)
			fields[id] = v
			hints[id] = fv.Name()
		}
		return mkStruct(typeName(t), fields, hints)
	case *types.Slice:
		var args []*Term
		for _, el := range e.Elts {
			if _, ok := el.(*ast.KeyValueExpr); ok {
				in.fail(el.Pos(), "keyed slice literal not supported")
			}
			args = append(args, in.evalElt(fr, el, u.Elem(), st))
		}
		return &Term{Op: "seq", S: "", Args: args}
	case *types.Array:
		args := make([]*Term, u.Len())
		for i := range args {
			args[i] = in.zeroOf(u.Elem())
		}
		for i, el := range e.Elts {
			if _, ok := el.(*ast.KeyValueExpr); ok {
				in.fail(el.Pos(), "keyed array literal not supported")
			}
			args[i] = in.evalElt(fr, el, u.Elem(), st)
		}
		return &Term{Op: "arr", S: "", Args: args}
	case *types.Map:
		var m *Term = leaf("emptymap", "")
		var kvs []*Term
		for _, el := range e.Elts {
			kv := el.(*ast.KeyValueExpr)
			kvs = append(kvs, &Term{Op: "kv", Args: []*Term{in.evalElt(fr, kv.Key, u.Key(), st), in.evalElt(fr, kv.Value, u.Elem(), st)}})
		}
		if len(kvs) == 0 {
			return m
		}
		return T("maplit", "", kvs...)
	}
	in.fail(e.Pos(), "unsupported composite literal of type %s", t)
	return nil
}

// evalElt evaluates a composite-literal element, which may itself be an
// untyped composite literal {…} whose type is implied.
func (in *Interp) evalElt(fr *frame, e ast.Expr, t types.Type, st *State) *Term {
	return in.eval(fr, e, st)
}

// ---------------------------------------------------------------------------
// calls

// isInlineCall reports whether the call is to a function that will be
// interpreted as a tree (in-module function with a body, or a closure).
func (in *Interp) isInlineCall(fr *frame, call *ast.CallExpr) bool {
	if tv, ok := fr.info.Types[call.Fun]; ok && tv.IsType() {
		return false
	}
	if id, ok := ast.Unparen(call.Fun).(*ast.Ident); ok {
		if _, isB := fr.info.Uses[id].(*types.Builtin); isB {
			return false
		}
	}
	callee := typeutil.Callee(fr.info, call)
	if f, ok := callee.(*types.Func); ok {
		if _, has := in.models[fullFuncName(f)]; has {
			return false
		}
		fd, _ := in.declOf(f)
		return fd != nil && fd.Body != nil
	}
	// closure-valued local
	if id, ok := ast.Unparen(call.Fun).(*ast.Ident); ok {
		if obj := fr.info.Uses[id]; obj != nil {
			return true // decided in callTree (closure or uninterpreted application)
		}
	}
	return false
}

func (in *Interp) declOf(f *types.Func) (*ast.FuncDecl, *packages.Package) {
	f = f.Origin()
	if in.extraDecls != nil {
		if fd, ok := in.extraDecls[f]; ok {
			return fd, in.extraPkg[f]
		}
	}
	if in.w == nil {
		return nil, nil
	}
	return in.w.FuncDecl(f)
}

// evalCall evaluates a call in expression position; in-module callees must be
// free of effects there.
func (in *Interp) evalCall(fr *frame, call *ast.CallExpr, st *State) []*Term {
	t := in.callTree(fr, call, st)
	// all leaves must leave the state untouched
	pure := true
	t.leaves(func(l *Tree) {
		if l.Flow == flowPanic {
			return
		}
		if !sameState(l.St, st) {
			pure = false
		}
	})
	if !pure {
		in.fail(call.Pos(), "call with side effects in expression position is not modelled")
	}
	n := -1
	t.leaves(func(l *Tree) {
		if l.Flow != flowPanic {
			n = len(l.Vals)
		}
	})
	if n < 0 {
		return []*Term{leaf("panic", "")}
	}
	out := make([]*Term, n)
	for i := 0; i < n; i++ {
		out[i] = treeVal(t, i)
	}
	return out
}

func treeVal(t *Tree, i int) *Term {
	if t.Cond != nil {
		return T("ite", "", t.Cond, treeVal(t.Then, i), treeVal(t.Else, i))
	}
	if t.Flow == flowPanic {
		return leaf("panic", "")
	}
	return t.Vals[i]
}

func sameState(a, b *State) bool {
	if a == b {
		return true
	}
	if len(a.heap) != len(b.heap) || len(a.effects) != len(b.effects) {
		return false
	}
	for k, v := range a.heap {
		if w, ok := b.heap[k]; !ok || !eqT(v, w) {
			return false
		}
	}
	for i := range a.effects {
		if !eqT(a.effects[i], b.effects[i]) {
			return false
		}
	}
	return true
}

var ignoredCallPrefixes = []string{
	"fmt.Print", "fmt.Fprint", modPath + "/common/log.",
}

// callTree evaluates a call; leaves carry the result values and the state.
func (in *Interp) callTree(fr *frame, call *ast.CallExpr, st *State) *Tree {
	in.step(call.Pos())
	// conversion
	if tv, ok := fr.info.Types[call.Fun]; ok && tv.IsType() {
		if len(call.Args) != 1 {
			in.fail(call.Pos(), "conversion with %d arguments", len(call.Args))
		}
		v := in.eval(fr, call.Args[0], st)
		from := fr.info.TypeOf(call.Args[0])
		to := tv.Type
		return leafTree(st, flowFall, in.conv(v, from, to))
	}
	fun := ast.Unparen(call.Fun)
	// builtins
	if id, ok := fun.(*ast.Ident); ok {
		if b, isB := fr.info.Uses[id].(*types.Builtin); isB {
			return in.builtin(fr, b.Name(), call, st)
		}
	}
	// generic instantiation f[T](...)
	if ix, ok := fun.(*ast.IndexExpr); ok {
		if tv, ok := fr.info.Types[ix.Index]; ok && tv.IsType() {
			fun = ast.Unparen(ix.X)
		}
	}
	callee := typeutil.Callee(fr.info, call)
	var args []*Term
	evalArgs := func() {
		for _, a := range call.Args {
			args = append(args, in.eval(fr, a, st))
		}
		if call.Ellipsis.IsValid() && len(args) > 0 {
			args[len(args)-1] = &Term{Op: "spread", Args: []*Term{args[len(args)-1]}}
		}
	}
	if f, ok := callee.(*types.Func); ok {
		name := fullFuncName(f)
		for _, p := range ignoredCallPrefixes {
			if strings.HasPrefix(name, p) {
				return leafTree(st, flowFall)
			}
		}
		var recv *Term
		sig := f.Type().(*types.Signature)
		if sig.Recv() != nil {
			if se, ok := fun.(*ast.SelectorExpr); ok {
				recv = in.eval(fr, se.X, st)
			}
		}
		evalArgs()
		if m, ok := in.models[name]; ok {
			vals, handled := m(in, fr, call, recv, args, st)
			if handled {
				return leafTree(st, flowFall, vals...)
			}
		}
		if in.opaqueMethods != nil && sig.Recv() != nil {
			short := name[strings.LastIndex(name, ".(")+1:]
			if in.opaqueMethods[short] {
				all := append([]*Term{recv}, args...)
				ns := st.clone()
				if !in.pureOpaque[short] {
					ns.effects = append(ns.effects, &Term{Op: "callfx", S: short, Args: all})
				}
				v := &Term{Op: "opaque", S: short, Args: all}
				return leafTree(ns, flowFall, in.splitResults(v, sig)...)
			}
		}
		// interface method: uninterpreted, assumed pure
		if sig.Recv() != nil {
			if _, isIface := sig.Recv().Type().Underlying().(*types.Interface); isIface {
				v := &Term{Op: "icall", S: f.Name(), Args: append([]*Term{recv}, args...)}
				return leafTree(st, flowFall, in.splitResults(v, sig)...)
			}
		}
		fd, pkg := in.declOf(f)
		if fd != nil && fd.Body != nil {
			return in.inline(fd, pkg, recv, args, st, call.Pos())
		}
		// library function
		return in.libcall(fr, name, f, call, recv, args, st)
	}
	// function value: closure or uninterpreted
	fv := in.eval(fr, fun, st)
	evalArgs()
	if fv.Op == "closure" {
		cl := fv.Aux.(*closureVal)
		return in.inlineLit(cl, args, st, call.Pos())
	}
	sig, _ := fr.info.TypeOf(call.Fun).Underlying().(*types.Signature)
	v := &Term{Op: "app", Args: append([]*Term{fv}, args...)}
	if sig != nil {
		return leafTree(st, flowFall, in.splitResults(v, sig)...)
	}
	return leafTree(st, flowFall, v)
}

func (in *Interp) splitResults(v *Term, sig *types.Signature) []*Term {
	n := sig.Results().Len()
	if n == 0 {
		return nil
	}
	if n == 1 {
		return []*Term{v}
	}
	out := make([]*Term, n)
	for i := range out {
		out[i] = T("proj", fmt.Sprint(i), v)
	}
	return out
}

func (in *Interp) conv(v *Term, from, to types.Type) *Term {
	ft, tt := opType(from), opType(to)
	if _, ok := intWidth[tt]; ok {
		if _, ok := intWidth[ft]; ok {
			return T("conv", tt+"<"+ft, v)
		}
	}
	if ft == tt {
		return v
	}
	// string(x), []byte(x), named struct conversions: keep as uninterpreted
	if types.Identical(from.Underlying(), to.Underlying()) {
		return v
	}
	return &Term{Op: "conv", S: tt + "<" + ft, Args: []*Term{v}}
}

func (in *Interp) inline(fd *ast.FuncDecl, pkg *packages.Package, recv *Term, args []*Term, st *State, pos token.Pos) *Tree {
	if in.depth > 6 {
		in.fail(pos, "inlining depth exceeded at %s", fd.Name.Name)
	}
	in.depth++
	defer func() { in.depth-- }()
	fr := &frame{pkg: pkg, info: pkg.TypesInfo, name: fd.Name.Name}
	ns := st.clone()
	if fd.Recv != nil && len(fd.Recv.List) == 1 && len(fd.Recv.List[0].Names) == 1 {
		if obj := pkg.TypesInfo.Defs[fd.Recv.List[0].Names[0]]; obj != nil {
			ns.env[obj] = recv
		}
	}
	k := 0
	for _, f := range fd.Type.Params.List {
		names := f.Names
		if len(names) == 0 {
			k++
			continue
		}
		for _, n := range names {
			if obj := pkg.TypesInfo.Defs[n]; obj != nil {
				if _, variadic := f.Type.(*ast.Ellipsis); variadic {
					rest := args[k:]
					if len(rest) == 1 && rest[0].Op == "spread" {
						ns.env[obj] = rest[0].Args[0]
					} else {
						ns.env[obj] = &Term{Op: "seq", Args: rest}
					}
				} else if k < len(args) {
					ns.env[obj] = args[k]
				}
			}
			k++
		}
	}
	in.bindResults(fr, fd.Type, ns)
	t := in.execBlock(fr, fd.Body.List, ns)
	return in.mergeFalls(t.mapLeaves(func(l *Tree) *Tree {
		switch l.Flow {
		case flowPanic:
			return l
		case flowReturn, flowFall:
			vals := l.Vals
			if len(vals) == 0 && len(fr.results) > 0 {
				for _, r := range fr.results {
					vals = append(vals, l.St.env[r])
				}
			}
			return leafTree(l.St, flowFall, vals...)
		}
		in.fail(pos, "break/continue escaping a function")
		return nil
	}))
}

func (in *Interp) inlineLit(cl *closureVal, args []*Term, st *State, pos token.Pos) *Tree {
	if in.depth > 6 {
		in.fail(pos, "inlining depth exceeded in closure")
	}
	in.depth++
	defer func() { in.depth-- }()
	fr := &frame{pkg: cl.fr.pkg, info: cl.fr.info, name: cl.fr.name + ".func"}
	ns := st.clone()
	k := 0
	for _, f := range cl.lit.Type.Params.List {
		for _, n := range f.Names {
			if obj := fr.info.Defs[n]; obj != nil && k < len(args) {
				ns.env[obj] = args[k]
			}
			k++
		}
		if len(f.Names) == 0 {
			k++
		}
	}
	in.bindResults(fr, cl.lit.Type, ns)
	t := in.execBlock(fr, cl.lit.Body.List, ns)
	return t.mapLeaves(func(l *Tree) *Tree {
		switch l.Flow {
		case flowPanic:
			return l
		case flowReturn, flowFall:
			vals := l.Vals
			if len(vals) == 0 && len(fr.results) > 0 {
				for _, r := range fr.results {
					vals = append(vals, l.St.env[r])
				}
			}
			return leafTree(l.St, flowFall, vals...)
		}
		in.fail(pos, "break/continue escaping a closure")
		return nil
	})
}

func (in *Interp) builtin(fr *frame, name string, call *ast.CallExpr, st *State) *Tree {
	var args []*Term
	for i, a := range call.Args {
		if i == 0 && (name == "make" || name == "new") {
			continue
		}
		args = append(args, in.eval(fr, a, st))
	}
	switch name {
	case "len":
		return leafTree(st, flowFall, T("len", "", args[0]))
	case "cap":
		return leafTree(st, flowFall, &Term{Op: "cap", Args: args})
	case "append":
		base := args[0]
		if base.Op == "nil" {
			base = &Term{Op: "seq"}
		}
		var rest []*Term
		if call.Ellipsis.IsValid() {
			rest = []*Term{args[1]}
		} else if len(args) > 1 {
			rest = []*Term{{Op: "seq", Args: args[1:]}}
		}
		return leafTree(st, flowFall, T("cat", "", append([]*Term{base}, rest...)...))
	case "make":
		t := fr.info.TypeOf(call.Args[0])
		switch t.Underlying().(type) {
		case *types.Slice:
			if len(args) >= 1 {
				if v, _, ok := args[0].constInt(); ok && v == 0 {
					return leafTree(st, flowFall, &Term{Op: "seq"})
				}
				return leafTree(st, flowFall, &Term{Op: "zeros", S: typeName(t), Args: []*Term{args[0]}})
			}
		case *types.Map:
			return leafTree(st, flowFall, leaf("emptymap", ""))
		case *types.Chan:
			return leafTree(st, flowFall, &Term{Op: "makechan", Args: args})
		}
		in.fail(call.Pos(), "unsupported make")
	case "new":
		t := fr.info.TypeOf(call.Args[0])
		return leafTree(st, flowFall, &Term{Op: "ref", Args: []*Term{in.zeroOf(t)}})
	case "delete":
		ns := st.clone()
		cur := args[0]
		in.assign(fr, call.Args[0], &Term{Op: "mapdel", Args: []*Term{cur, args[1]}}, ns, false)
		return leafTree(ns, flowFall)
	case "min", "max":
		tn := opType(fr.info.TypeOf(call))
		v := args[0]
		for _, a := range args[1:] {
			if name == "min" {
				v = T("ite", "", T("lt", tn, a, v), a, v)
			} else {
				v = T("ite", "", T("lt", tn, v, a), a, v)
			}
		}
		return leafTree(st, flowFall, v)
	case "panic":
		return leafTree(st, flowPanic)
	case "print", "println":
		return leafTree(st, flowFall)
	}
	in.fail(call.Pos(), "unsupported builtin %s", name)
	return nil
}

// libcall models library functions: pure uninterpreted functions by default
// for a whitelist of packages; a few with dedicated semantics.
func (in *Interp) libcall(fr *frame, name string, f *types.Func, call *ast.CallExpr, recv *Term, args []*Term, st *State) *Tree {
	sig := f.Type().(*types.Signature)
	switch name {
	case "slices.DeleteFunc":
		return in.deleteFunc(fr, call, args, st)
	case "sort.Slice", "sort.SliceStable":
		// sorts a local slice in place: the variable now holds sorted(x, less)
		ns := st.clone()
		if len(call.Args) == 2 {
			if id, ok := ast.Unparen(call.Args[0]).(*ast.Ident); ok {
				if obj := fr.info.Uses[id]; obj != nil {
					ns.env[obj] = &Term{Op: "sorted", Args: []*Term{args[0], args[1]}}
					return leafTree(ns, flowFall)
				}
			}
		}
		in.fail(call.Pos(), "sort.Slice on a non-local slice is not modelled")
	case "slices.Contains":
		return leafTree(st, flowFall, &Term{Op: "contains", Args: args})
	case "fmt.Errorf", "errors.New":
		return leafTree(st, flowFall, &Term{Op: "error", Args: args[:1]})
	case "fmt.Sprintf", "fmt.Sprint":
		return leafTree(st, flowFall, &Term{Op: "sprintf", Args: args})
	}
	pk := ""
	if f.Pkg() != nil {
		pk = f.Pkg().Path()
	}
	switch pk {
	case "strings", "strconv", "unicode", "math", "math/bits":
		all := args
		if recv != nil {
			all = append([]*Term{recv}, args...)
		}
		v := &Term{Op: "lib", S: name, Args: all}
		return leafTree(st, flowFall, in.splitResults(v, sig)...)
	}
	if pk == "container/list" {
		// a mutable library object: the call is recorded as an effect and its
		// results are uninterpreted functions of the call
		all := args
		if recv != nil {
			all = append([]*Term{recv}, args...)
		}
		v := &Term{Op: "lib", S: name, Args: all}
		ns := st.clone()
		if sig.Results().Len() == 0 || strings.Contains(name, "Push") || strings.Contains(name, "Remove") || strings.Contains(name, "Init") || strings.Contains(name, "Move") || strings.Contains(name, "Insert") {
			ns.effects = append(ns.effects, &Term{Op: "libfx", S: name, Args: all})
		}
		return leafTree(ns, flowFall, in.splitResults(v, sig)...)
	}
	in.fail(call.Pos(), "call to %s is not modelled", name)
	return nil
}

// deleteFunc models slices.DeleteFunc(s, del) as the loop
//
//	out := []; for _, e := range s { if !del(e) { out = append(out, e) } }
//
// with the closure inlined, so that captured variables it assigns become
// loop-carried.
func (in *Interp) deleteFunc(fr *frame, call *ast.CallExpr, args []*Term, st *State) *Tree {
	s, fn := args[0], args[1]
	if fn.Op != "closure" {
		return leafTree(st, flowFall, &Term{Op: "deletefunc", Args: args})
	}
	cl := fn.Aux.(*closureVal)
	// carried: the output sequence plus every captured variable assigned in the closure
	carried := in.assignedObjs(cl.fr, cl.lit.Body, st)
	outKey := &types.Var{}
	res := in.genericLoop(fr, st, &Term{Op: "range", Args: []*Term{s}}, carried, []types.Object{}, func(ls *State, depth int) *Tree {
		el := T("elem", "", s, leaf("iter", fmt.Sprint(depth)))
		if _, ok := ls.env[outKey]; !ok {
			ls.env[outKey] = &Term{Op: "seq"}
		}
		t := in.inlineLit(cl, []*Term{el}, ls, call.Pos())
		return t.mapLeaves(func(l *Tree) *Tree {
			if l.Flow == flowPanic {
				return l
			}
			del := l.Vals[0]
			return in.branchTerm(del, l.St, func(s1 *State) *Tree { return leafTree(s1, flowFall) }, func(s1 *State) *Tree {
				s2 := s1.clone()
				s2.env[outKey] = T("cat", "", s2.env[outKey], &Term{Op: "seq", Args: []*Term{el}})
				return leafTree(s2, flowFall)
			})
		})
	}, outKey, call.Pos())
	return res.mapLeaves(func(l *Tree) *Tree {
		if l.Flow != flowFall {
			return l
		}
		return leafTree(l.St, flowFall, l.St.env[outKey])
	})
}

// closureTerm represents a function literal by the normal form of its body
// (parameters as bound leaves carg:k, captured variables by their value at
// creation), so that two closures are equal when their bodies are.
func (in *Interp) closureTerm(fr *frame, e *ast.FuncLit, st *State) *Term {
	cl := &closureVal{lit: e, fr: fr}
	in.nclos++
	if in.depth > 6 {
		return &Term{Op: "closure", S: fmt.Sprintf("opaque%d", in.nclos), Aux: cl}
	}
	var args []*Term
	k := 0
	for _, f := range e.Type.Params.List {
		n := len(f.Names)
		if n == 0 {
			n = 1
		}
		for i := 0; i < n; i++ {
			args = append(args, leaf("carg", fmt.Sprintf("%d.%d", in.depth, k)))
			k++
		}
	}
	var body *Term
	func() {
		defer func() {
			if e := recover(); e != nil {
				if _, ok := e.(symErr); ok {
					return
				}
				panic(e)
			}
		}()
		base := st.clone()
		base.heap = map[string]*Term{}
		base.heapLoc = map[string]*Term{}
		base.effects = nil
		t := in.inlineLit(cl, args, base, e.Pos())
		lfr := &frame{pkg: fr.pkg, info: fr.info, name: fr.name + ".func"}
		body = in.treeTerm(lfr, t)
	}()
	if body == nil {
		return &Term{Op: "closure", S: fmt.Sprintf("opaque%d", in.nclos), Aux: cl}
	}
	return &Term{Op: "closure", Args: []*Term{body}, Aux: cl}
}

type addrVal struct {
	fr   *frame
	expr ast.Expr
	env  map[types.Object]*Term
}

// rootedInHeap reports whether the addressed expression is an element/field of
// something that is not a plain local value (a receiver/parameter field, a map
// or slice reached through one).
func (in *Interp) rootedInHeap(fr *frame, e ast.Expr, st *State) bool {
	for {
		switch x := ast.Unparen(e).(type) {
		case *ast.IndexExpr:
			e = x.X
		case *ast.SelectorExpr:
			if sel := fr.info.Selections[x]; sel != nil && sel.Kind() == types.FieldVal {
				if id, ok := ast.Unparen(x.X).(*ast.Ident); ok {
					if obj := fr.info.Uses[id]; obj != nil {
						if v, ok := st.env[obj]; ok && (v.Op == "recv" || v.Op == "param") {
							return true
						}
					}
				}
				e = x.X
				continue
			}
			return false
		default:
			return false
		}
	}
}

// derefAddr re-evaluates the addressed expression with the local variables it
// was taken with and the heap as it is now.
func (in *Interp) derefAddr(a *Term, st *State) *Term {
	av, ok := a.Aux.(*addrVal)
	if !ok {
		return a.Args[0]
	}
	tmp := st.clone()
	tmp.env = av.env
	return in.eval(av.fr, av.expr, tmp)
}
