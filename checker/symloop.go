package main

// E-TERM part 3 / E-LOOP: joins, loops, canonical decision-tree form.

import (
	"fmt"
	"go/ast"
	"go/token"
	"go/types"
	"sort"
)

// mergeFalls joins sibling leaves that continue with the same flow into one
// leaf whose differing variables become ite terms (phi as ite).
func (in *Interp) mergeFalls(t *Tree) *Tree {
	if t.Cond == nil {
		return t
	}
	a := in.mergeFalls(t.Then)
	b := in.mergeFalls(t.Else)
	if a.Cond == nil && b.Cond == nil && a.Flow == b.Flow && (a.Flow == flowFall || a.Flow == flowContinue || a.Flow == flowBreak) &&
		len(a.Vals) == len(b.Vals) && sameEffects(a.St, b.St) {
		st := &State{env: map[types.Object]*Term{}, heap: map[string]*Term{}, heapLoc: map[string]*Term{}}
		for k, va := range a.St.env {
			vb, ok := b.St.env[k]
			if !ok {
				continue
			}
			if eqT(va, vb) {
				st.env[k] = va
			} else {
				st.env[k] = T("ite", "", t.Cond, va, vb)
			}
		}
		for k, va := range a.St.heap {
			st.heapLoc[k] = a.St.heapLoc[k]
			vb, ok := b.St.heap[k]
			if !ok {
				vb = a.St.heapLoc[k]
			}
			if eqT(va, vb) {
				st.heap[k] = va
			} else {
				st.heap[k] = T("ite", "", t.Cond, va, vb)
			}
		}
		for k, vb := range b.St.heap {
			if _, ok := a.St.heap[k]; ok {
				continue
			}
			st.heapLoc[k] = b.St.heapLoc[k]
			va := b.St.heapLoc[k]
			if eqT(va, vb) {
				st.heap[k] = va
			} else {
				st.heap[k] = T("ite", "", t.Cond, va, vb)
			}
		}
		st.effects = append([]*Term{}, a.St.effects...)
		vals := make([]*Term, len(a.Vals))
		for i := range vals {
			vals[i] = T("ite", "", t.Cond, a.Vals[i], b.Vals[i])
		}
		return leafTree(st, a.Flow, vals...)
	}
	return &Tree{Cond: t.Cond, Then: a, Else: b}
}

func sameEffects(a, b *State) bool {
	if len(a.effects) != len(b.effects) {
		return false
	}
	for i := range a.effects {
		if !eqT(a.effects[i], b.effects[i]) {
			return false
		}
	}
	return true
}

// ---------------------------------------------------------------------------

func (in *Interp) execFor(fr *frame, s *ast.ForStmt, st *State) *Tree {
	if s.Init != nil {
		t := in.execStmt(fr, s.Init, st)
		if t.Cond != nil || t.Flow != flowFall {
			in.fail(s.Pos(), "loop initialiser with control flow")
		}
		st = t.St
	}
	// constant unrolling
	if s.Cond != nil {
		first := in.eval(fr, s.Cond, st)
		if _, isConst := first.constBool(); isConst {
			if t, ok := in.tryUnroll(fr, s, st); ok {
				return t
			}
		}
	}
	body := func(ls *State, depth int) *Tree {
		iter := func(s1 *State) *Tree {
			t := in.execBlock(fr, s.Body.List, s1)
			return t.mapLeaves(func(l *Tree) *Tree {
				if l.Flow == flowFall || l.Flow == flowContinue {
					ns := l.St
					if s.Post != nil {
						pt := in.execStmt(fr, s.Post, ns)
						if pt.Cond != nil || pt.Flow != flowFall {
							in.fail(s.Pos(), "loop post statement with control flow")
						}
						ns = pt.St
					}
					return leafTree(ns, flowContinue)
				}
				return l
			})
		}
		if s.Cond == nil {
			return iter(ls)
		}
		return in.branch(fr, s.Cond, ls, iter, func(s1 *State) *Tree { return leafTree(s1, flowBreak) })
	}
	return in.genericLoop(fr, st, leaf("while", ""), nil, nil, body, nil, s.Pos())
}

// tryUnroll unrolls a loop whose condition folds to a constant at every
// iteration (constant propagation on the induction variables).
func (in *Interp) tryUnroll(fr *frame, s *ast.ForStmt, st *State) (*Tree, bool) {
	cur := st
	for n := 0; n < 300; n++ {
		ct := in.eval(fr, s.Cond, cur)
		b, ok := ct.constBool()
		if !ok {
			if n == 0 {
				return nil, false
			}
			in.fail(s.Pos(), "loop bound became non-constant while unrolling")
		}
		if !b {
			return leafTree(cur, flowFall), true
		}
		t := in.execBlock(fr, s.Body.List, cur.clone())
		t = t.mapLeaves(func(l *Tree) *Tree {
			if l.Flow == flowContinue {
				return leafTree(l.St, flowFall)
			}
			return l
		})
		t = in.mergeFalls(t)
		if t.Cond != nil || t.Flow != flowFall {
			if n == 0 {
				return nil, false
			}
			in.fail(s.Pos(), "unrolled loop body leaves the loop conditionally")
		}
		cur = t.St
		if s.Post != nil {
			pt := in.execStmt(fr, s.Post, cur)
			if pt.Cond != nil || pt.Flow != flowFall {
				in.fail(s.Pos(), "loop post statement with control flow")
			}
			cur = pt.St
		}
	}
	in.fail(s.Pos(), "loop unrolling limit exceeded")
	return nil, false
}

func (in *Interp) execRange(fr *frame, s *ast.RangeStmt, st *State) *Tree {
	xt := fr.info.TypeOf(s.X)
	x := in.eval(fr, s.X, st)
	define := s.Tok == token.DEFINE
	var space *Term
	kind := ""
	switch u := xt.Underlying().(type) {
	case *types.Slice, *types.Array:
		space = &Term{Op: "range", Args: []*Term{x}}
		kind = "seq"
	case *types.Pointer:
		if _, ok := u.Elem().Underlying().(*types.Array); ok {
			space = &Term{Op: "range", Args: []*Term{x}}
			kind = "seq"
		}
	case *types.Map:
		space = &Term{Op: "maprange", Args: []*Term{x}}
		kind = "map"
	case *types.Basic:
		if u.Info()&types.IsInteger != 0 {
			space = &Term{Op: "rangeint", Args: []*Term{x}}
			kind = "int"
		}
	case *types.Chan:
		space = &Term{Op: "chanrange", Args: []*Term{x}}
		kind = "chan"
	}
	if space == nil {
		in.fail(s.Pos(), "unsupported range over %s", xt)
	}
	body := func(ls *State, depth int) *Tree {
		it := leaf("iter", fmt.Sprint(depth))
		ns := ls.clone()
		switch kind {
		case "seq":
			if s.Key != nil {
				in.assign(fr, s.Key, it, ns, define)
			}
			if s.Value != nil {
				in.assign(fr, s.Value, T("elem", "", x, it), ns, define)
			}
		case "map":
			if s.Key != nil {
				in.assign(fr, s.Key, it, ns, define)
			}
			if s.Value != nil {
				in.assign(fr, s.Value, T("mapget", "", x, it), ns, define)
			}
		case "int", "chan":
			if s.Key != nil {
				in.assign(fr, s.Key, it, ns, define)
			}
		}
		t := in.execBlock(fr, s.Body.List, ns)
		return t.mapLeaves(func(l *Tree) *Tree {
			if l.Flow == flowFall {
				return leafTree(l.St, flowContinue)
			}
			return l
		})
	}
	return in.genericLoop(fr, st, space, nil, nil, body, nil, s.Pos())
}

// assignedObjs is kept for deleteFunc's interface; discovery of carried
// variables is done by fixpoint in genericLoop.
func (in *Interp) assignedObjs(fr *frame, body ast.Node, st *State) []types.Object { return nil }

// genericLoop summarises a loop as loop(space, inits, body) where body is the
// decision tree of one iteration over bound leaves lv (carried locals), lh
// (carried heap locations) and iter (the range key).
func (in *Interp) genericLoop(fr *frame, st *State, space *Term, _ []types.Object, _ []types.Object,
	body func(ls *State, depth int) *Tree, extra types.Object, pos token.Pos) *Tree {
	depth := in.loopDepth
	in.loopDepth++
	defer func() { in.loopDepth-- }()

	carriedLoc := map[types.Object]bool{}
	carriedHeap := map[string]bool{}
	if extra != nil {
		carriedLoc[extra] = true
	}
	var t *Tree
	var ls *State
	var order []types.Object
	var hkeys []string
	for round := 0; ; round++ {
		if round > 12 {
			in.fail(pos, "loop summary did not stabilise")
		}
		order = order[:0]
		for o := range carriedLoc {
			order = append(order, o)
		}
		sort.Slice(order, func(i, j int) bool {
			if order[i].Pos() != order[j].Pos() {
				return order[i].Pos() < order[j].Pos()
			}
			return order[i].Name() < order[j].Name()
		})
		hkeys = hkeys[:0]
		for k := range carriedHeap {
			hkeys = append(hkeys, k)
		}
		sort.Strings(hkeys)
		ls = st.clone()
		for i, o := range order {
			ls.env[o] = &Term{Op: "lv", S: fmt.Sprintf("%d.%d", depth, i), Hint: o.Name()}
		}
		for _, k := range hkeys {
			ls.heap[k] = &Term{Op: "lh", S: fmt.Sprintf("%d.", depth) + k}
		}
		ls.effects = nil
		saveN, saveC := in.nclos, len(in.closures)
		_ = saveC
		t = body(ls.clone(), depth)
		t = in.mergeFalls(t)
		changed := false
		t.leaves(func(l *Tree) {
			if l.Flow != flowContinue && l.Flow != flowFall {
				return
			}
			for o, v := range l.St.env {
				if carriedLoc[o] {
					continue
				}
				if old, ok := st.env[o]; ok && !eqT(old, v) {
					carriedLoc[o] = true
					changed = true
				}
			}
			for k, v := range l.St.heap {
				if carriedHeap[k] {
					continue
				}
				old, ok := st.heap[k]
				if !ok {
					old = l.St.heapLoc[k]
				}
				if !eqT(old, v) {
					carriedHeap[k] = true
					if _, ok := st.heapLoc[k]; !ok {
						st.heapLoc[k] = l.St.heapLoc[k]
					}
					changed = true
				}
			}
		})
		if !changed {
			break
		}
		in.nclos = saveN
	}
	// inits
	var inits []*Term
	for _, o := range order {
		v, ok := st.env[o]
		if !ok {
			v = leaf("undef", "")
		}
		inits = append(inits, v)
	}
	for _, k := range hkeys {
		v, ok := st.heap[k]
		if !ok {
			v = st.heapLoc[k]
		}
		inits = append(inits, &Term{Op: "hinit", Args: []*Term{st.heapLoc[k], v}})
	}
	// body term
	exitLoc := map[types.Object]bool{}
	exitHeap := map[string]bool{}
	hasReturn, nret, hasFx := false, 0, false
	var bodyTerm func(t *Tree) *Term
	bodyTerm = func(t *Tree) *Term {
		if t.Cond != nil {
			return T("ite", "", t.Cond, bodyTerm(t.Then), bodyTerm(t.Else))
		}
		if t.Flow == flowPanic {
			return leaf("panic", "")
		}
		var locs []*Term
		for i, o := range order {
			v, ok := t.St.env[o]
			if !ok {
				continue
			}
			if !eqT(v, ls.env[o]) {
				locs = append(locs, &Term{Op: "lset", S: fmt.Sprintf("%d.%d", depth, i), Args: []*Term{v}, Hint: o.Name()})
			}
		}
		if t.Flow == flowBreak || t.Flow == flowReturn {
			// variables changed only on an exit path
			var others []types.Object
			for o, v := range t.St.env {
				if carriedLoc[o] {
					continue
				}
				if old, ok := st.env[o]; ok && !eqT(old, v) {
					others = append(others, o)
				}
			}
			sort.Slice(others, func(i, j int) bool { return others[i].Pos() < others[j].Pos() })
			for _, o := range others {
				exitLoc[o] = true
				locs = append(locs, &Term{Op: "xset", S: fmt.Sprintf("@%d", len(locs)), Args: []*Term{t.St.env[o]}, Hint: o.Name()})
			}
		}
		var hw []*Term
		var ks []string
		for k := range t.St.heap {
			ks = append(ks, k)
		}
		sort.Strings(ks)
		for _, k := range ks {
			v := t.St.heap[k]
			old, ok := ls.heap[k]
			if !ok {
				old = t.St.heapLoc[k]
			}
			if !eqT(old, v) {
				hw = append(hw, &Term{Op: "w", Args: []*Term{t.St.heapLoc[k], v}})
				if !carriedHeap[k] {
					exitHeap[k] = true
					if _, ok := st.heapLoc[k]; !ok {
						st.heapLoc[k] = t.St.heapLoc[k]
					}
				}
			}
		}
		fx := t.St.effects
		if len(fx) > 0 {
			hasFx = true
		}
		vals := t.Vals
		if t.Flow == flowReturn {
			hasReturn = true
			if len(vals) == 0 && len(fr.results) > 0 {
				for _, r := range fr.results {
					vals = append(vals, t.St.env[r])
				}
			}
			nret = len(vals)
		}
		return &Term{Op: "lout", S: flowNames[t.Flow], Args: []*Term{{Op: "tuple", Args: vals}, {Op: "locals", Args: locs}, {Op: "writes", Args: hw}, {Op: "fx", Args: fx}}}
	}
	bt := hoistAll(bodyTerm(t))
	L := &Term{Op: "loop", S: fmt.Sprint(depth), Args: []*Term{space, {Op: "inits", Args: inits}, bt}}
	// after state
	as := st.clone()
	for i, o := range order {
		as.env[o] = &Term{Op: "lexit", S: fmt.Sprintf("v%d", i), Args: []*Term{L}, Hint: o.Name()}
	}
	var xo []types.Object
	for o := range exitLoc {
		xo = append(xo, o)
	}
	sort.Slice(xo, func(i, j int) bool { return xo[i].Pos() < xo[j].Pos() })
	for i, o := range xo {
		as.env[o] = &Term{Op: "lexit", S: fmt.Sprintf("x%d", i), Args: []*Term{L}, Hint: o.Name()}
	}
	for k := range carriedHeap {
		as.heap[k] = &Term{Op: "lexit", S: "h:" + k, Args: []*Term{L}}
	}
	for k := range exitHeap {
		as.heap[k] = &Term{Op: "lexit", S: "h:" + k, Args: []*Term{L}}
	}
	if hasFx {
		as.effects = append(as.effects, &Term{Op: "loopfx", Args: []*Term{L}})
	}
	if !hasReturn {
		return leafTree(as, flowFall)
	}
	var rv []*Term
	for i := 0; i < nret; i++ {
		rv = append(rv, &Term{Op: "lret", S: fmt.Sprint(i), Args: []*Term{L}})
	}
	return &Tree{Cond: &Term{Op: "loopreturns", Args: []*Term{L}}, Then: leafTree(as.clone(), flowReturn, rv...), Else: leafTree(as, flowFall)}
}

// ---------------------------------------------------------------------------
// canonical decision-tree form

// hoistAll lifts every ite that is not under a loop binder to the top, in
// first-occurrence order, specialising each side under the assumption made.
var tooLargeCount int

// hoistAll returns the canonical decision-tree form; a term whose tree would
// be too large becomes a leaf that is equal to nothing (never a silent match).
func hoistAll(t *Term) (out *Term) {
	budget := 20000
	defer func() {
		if e := recover(); e != nil {
			if _, ok := e.(symErr); ok {
				tooLargeCount++
				out = leaf("toolarge", fmt.Sprint(tooLargeCount))
				return
			}
			panic(e)
		}
	}()
	return hoistRec(t, &budget)
}

func hoistRec(t *Term, budget *int) *Term {
	*budget--
	if *budget < 0 {
		panic(symErr{"decision tree too large to canonicalise", 0})
	}
	c := firstIteCond(t)
	if c == nil {
		return t
	}
	a := hoistRec(assume(t, c, true), budget)
	b := hoistRec(assume(t, c, false), budget)
	return T("ite", "", c, a, b)
}

// firstIteCond finds the condition of the first ite in pre-order, skipping the
// inside of loop summaries and the top-level spine of ites whose condition it
// returns first.
func firstIteCond(t *Term) *Term {
	if t.Op == "loop" {
		return nil
	}
	if t.Op == "ite" {
		if c := firstIteCond(t.Args[0]); c != nil {
			return c
		}
		return t.Args[0]
	}
	for _, a := range t.Args {
		if c := firstIteCond(a); c != nil {
			return c
		}
	}
	return nil
}

func assume(t *Term, c *Term, val bool) *Term {
	cs := c.Key()
	return t.subst(func(x *Term) *Term {
		if x.Op == "loop" {
			return x
		}
		if x.Key() == cs {
			return cBool(val)
		}
		return nil
	})
}
