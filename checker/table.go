package main

// E-TABLE: enumerations, switch exhaustiveness, decision-tree equivalence.

import (
	"go/ast"
	"go/constant"
	"go/types"
	"sort"
	"strings"

	"golang.org/x/tools/go/packages"
)

// enumConsts lists the package-level constants of named type tname.
func enumConsts(p *packages.Package, tname string) map[int64]string {
	out := map[int64]string{}
	obj := p.Types.Scope().Lookup(tname)
	if obj == nil {
		return out
	}
	for _, n := range p.Types.Scope().Names() {
		c, ok := p.Types.Scope().Lookup(n).(*types.Const)
		if !ok || !types.Identical(c.Type(), obj.Type()) {
			continue
		}
		if v, ok := constant.Int64Val(c.Val()); ok {
			out[v] = c.Name()
		}
	}
	return out
}

// switchCases returns, for a switch statement over constants, the set of
// constant values that have a case and whether a default exists and panics.
func switchCases(info *types.Info, sw *ast.SwitchStmt) (vals map[int64]bool, hasDefault, defaultPanics bool) {
	vals = map[int64]bool{}
	for _, c := range sw.Body.List {
		cc := c.(*ast.CaseClause)
		if cc.List == nil {
			hasDefault = true
			for _, s := range cc.Body {
				if es, ok := s.(*ast.ExprStmt); ok {
					if call, ok := es.X.(*ast.CallExpr); ok {
						if id, ok := call.Fun.(*ast.Ident); ok && id.Name == "panic" {
							defaultPanics = true
						}
					}
				}
			}
			continue
		}
		for _, e := range cc.List {
			if tv, ok := info.Types[e]; ok && tv.Value != nil && tv.Value.Kind() == constant.Int {
				if v, ok := constant.Int64Val(tv.Value); ok {
					vals[v] = true
				}
			}
		}
	}
	return
}

// atomOf reduces a branch condition to its atom and polarity: "a != b" is the negation of the
// atom "a == b" (so that a tree branching on one and a tree branching on the other are compared
// over the same atom and not over two independent ones).
func atomOf(c *Term) (*Term, bool) {
	neg := false
	for {
		switch c.Op {
		case "ne":
			c = &Term{Op: "eq", S: c.S, Args: c.Args}
			neg = !neg
			continue
		case "not":
			c = c.Args[0]
			neg = !neg
			continue
		case "le":
			// over the integers  k <= x  is  k-1 < x  and  x <= k  is  x < k+1  (away from the ends of the type)
			typ := c.S
			if i := strings.Index(typ, ","); i >= 0 {
				typ = typ[:i]
			}
			if _, isInt := intWidth[typ]; isInt && len(c.Args) == 2 {
				if k, _, ok := c.Args[0].constInt(); ok && k > -1<<30 && k < 1<<30 && (isSignedName(typ) || k > 0) {
					c = &Term{Op: "lt", S: c.S, Args: []*Term{cInt(k-1, typ), c.Args[1]}}
					continue
				}
				if k, _, ok := c.Args[1].constInt(); ok && k > -1<<30 && k < 1<<30 {
					c = &Term{Op: "lt", S: c.S, Args: []*Term{c.Args[0], cInt(k+1, typ)}}
					continue
				}
			}
		}
		return c, neg
	}
}

// atoms collects the distinct branch conditions of a decision tree term.
func atoms(t *Term, set map[string]*Term) {
	if t.Op == "ite" {
		c, _ := atomOf(t.Args[0])
		if _, ok := set[c.Key()]; !ok {
			set[c.Key()] = c
		}
		atoms(t.Args[1], set)
		atoms(t.Args[2], set)
	}
}

func evalTree(t *Term, asg map[string]bool) *Term {
	for t.Op == "ite" {
		c, neg := atomOf(t.Args[0])
		if asg[c.Key()] != neg {
			t = t.Args[1]
		} else {
			t = t.Args[2]
		}
	}
	return t
}

// equivTrees decides whether two hoisted decision trees denote the same
// function of their branch conditions (conditions are treated as independent
// atoms; at most 14 of them). It returns a description of the first
// disagreement.
func equivTrees(a, b *Term) (bool, string) {
	if a.Key() == b.Key() {
		return true, ""
	}
	set := map[string]*Term{}
	atoms(a, set)
	atoms(b, set)
	var keys []string
	for k := range set {
		keys = append(keys, k)
	}
	sort.Strings(keys)
	if len(keys) > 14 {
		return false, "decision trees differ and have more than 14 conditions"
	}
	for m := 0; m < 1<<len(keys); m++ {
		asg := map[string]bool{}
		for i, k := range keys {
			asg[k] = m&(1<<i) != 0
		}
		x, y := evalTree(a, asg), evalTree(b, asg)
		if x.Key() != y.Key() {
			// a leaf may mention a branch condition as a VALUE (return len(l) == 0): under this
			// assignment the condition has a known truth value
			known := func(t *Term) *Term {
				if t.Op != "eq" && t.Op != "ne" && t.Op != "lt" && t.Op != "le" && t.Op != "fld" && t.Op != "app" {
					return nil
				}
				c, neg := atomOf(t)
				if v, ok := asg[c.Key()]; ok {
					if _, isAtom := set[c.Key()]; isAtom {
						return cBool(v != neg)
					}
				}
				return nil
			}
			x, y = x.subst(known), y.subst(known)
		}
		if x.Key() != y.Key() {
			var cs []string
			for _, k := range keys {
				if asg[k] {
					cs = append(cs, set[k].Pretty())
				} else {
					cs = append(cs, "!"+set[k].Pretty())
				}
			}
			return false, "under " + strings.Join(cs, " ∧ ") + ":\n      code: " + x.Pretty() + "\n      spec: " + y.Pretty()
		}
	}
	return true, ""
}
