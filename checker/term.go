package main

// E-TERM, part 1: terms and their normal form.
//
// A Term is a value-numbering style normal form of an expression of the
// analysed program: leaves are semantic (parameters, initial field contents,
// constants, operands of the instruction), operators carry the Go type they
// are applied at (signedness and width decide the meaning of <, >>, conversions).
// Equality of normal forms is syntactic and implies equality of values for all
// inputs (soundness of "equal"); nothing is ever evaluated on inputs.

import (
	"crypto/sha256"
	"fmt"
	"go/constant"
	"go/types"
	"math/big"
	"sort"
	"strings"
)

type Term struct {
	Op   string
	S    string // type annotation or leaf payload; part of identity
	Args []*Term
	Hint string       // display only
	Obj  types.Object // for field/param leaves: the object (not part of identity)
	Aux  any          // closure payload (not part of identity)
	str  string
	key  string
}

func (t *Term) String() string {
	if t == nil {
		return "<nil>"
	}
	if t.str != "" {
		return t.str
	}
	var b strings.Builder
	if len(t.Args) == 0 {
		b.WriteString(t.Op)
		if t.S != "" {
			b.WriteString(":")
			b.WriteString(t.S)
		}
	} else {
		b.WriteString("(")
		b.WriteString(t.Op)
		if t.S != "" {
			b.WriteString(":")
			b.WriteString(t.S)
		}
		for _, a := range t.Args {
			b.WriteString(" ")
			b.WriteString(a.String())
		}
		b.WriteString(")")
	}
	t.str = b.String()
	return t.str
}

// Pretty renders with hints (field names) for diagnostics.
func (t *Term) Pretty() string {
	if t == nil {
		return "<nil>"
	}
	name := t.Op
	if t.Hint != "" {
		name = t.Op + "«" + t.Hint + "»"
	} else if t.S != "" {
		name += ":" + t.S
	}
	if len(t.Args) == 0 {
		return name
	}
	parts := []string{name}
	for _, a := range t.Args {
		parts = append(parts, a.Pretty())
	}
	return "(" + strings.Join(parts, " ") + ")"
}

func eqT(a, b *Term) bool { return a == b || a.Key() == b.Key() }

// Key is the identity of a term: a 128-bit structural hash (terms are DAGs
// with heavy sharing, so their printed form can be exponentially larger).
func (t *Term) Key() string {
	if t.key != "" {
		return t.key
	}
	h := sha256.New()
	h.Write([]byte(t.Op))
	h.Write([]byte{0})
	h.Write([]byte(t.S))
	h.Write([]byte{0})
	for _, a := range t.Args {
		h.Write([]byte(a.Key()))
	}
	t.key = fmt.Sprintf("%x", h.Sum(nil)[:16])
	return t.key
}

func leaf(op, s string) *Term { return &Term{Op: op, S: s} }

func cInt(v int64, typ string) *Term { return &Term{Op: "const", S: fmt.Sprintf("%d:%s", v, typ)} }
func cBool(b bool) *Term {
	if b {
		return &Term{Op: "const", S: "true:bool"}
	}
	return &Term{Op: "const", S: "false:bool"}
}

func (t *Term) isConst() bool { return t.Op == "const" }

func (t *Term) constBool() (bool, bool) {
	if t.Op != "const" {
		return false, false
	}
	switch t.S {
	case "true:bool":
		return true, true
	case "false:bool":
		return false, true
	}
	return false, false
}

// constInt returns the integer value and type name of an integer constant.
func (t *Term) constInt() (int64, string, bool) {
	if t.Op != "const" {
		return 0, "", false
	}
	i := strings.LastIndex(t.S, ":")
	if i < 0 {
		return 0, "", false
	}
	var v int64
	if _, err := fmt.Sscanf(t.S[:i], "%d", &v); err != nil {
		return 0, "", false
	}
	if fmt.Sprintf("%d", v) != t.S[:i] {
		return 0, "", false
	}
	return v, t.S[i+1:], true
}

var commutative = map[string]bool{"add": true, "mul": true, "and": true, "or": true, "xor": true, "eq": true, "ne": true}

var intWidth = map[string]int{"int8": 8, "int16": 16, "int32": 32, "int64": 64, "int": 64, "uint8": 8, "uint16": 16, "uint32": 32, "uint64": 64, "uint": 64, "uintptr": 64}

func isSignedName(t string) bool { return strings.HasPrefix(t, "int") }

// wrap reduces v to the value range of integer type typ (two's complement).
func wrap(v *big.Int, typ string) (int64, bool) {
	w, ok := intWidth[typ]
	if !ok {
		return 0, false
	}
	mod := new(big.Int).Lsh(big.NewInt(1), uint(w))
	r := new(big.Int).Mod(v, mod)
	if isSignedName(typ) {
		half := new(big.Int).Lsh(big.NewInt(1), uint(w-1))
		if r.Cmp(half) >= 0 {
			r.Sub(r, mod)
		}
	} else if w == 64 && !r.IsInt64() {
		return 0, false
	}
	if !r.IsInt64() {
		return 0, false
	}
	return r.Int64(), true
}

// T builds a normalised term.
func T(op, s string, args ...*Term) *Term {
	t := &Term{Op: op, S: s, Args: args}
	return normalise(t)
}

func normalise(t *Term) *Term {
	switch t.Op {
	case "gt": // a > b  ==  b < a
		return T("lt", t.S, t.Args[1], t.Args[0])
	case "ge": // a >= b ==  b <= a
		return T("le", t.S, t.Args[1], t.Args[0])
	case "not":
		a := t.Args[0]
		if b, ok := a.constBool(); ok {
			return cBool(!b)
		}
		switch a.Op {
		case "not":
			return a.Args[0]
		case "eq":
			return T("ne", a.S, a.Args...)
		case "ne":
			return T("eq", a.S, a.Args...)
		case "lt": // !(a<b) == b<=a
			if !strings.HasPrefix(a.S, "float") {
				return T("le", a.S, a.Args[1], a.Args[0])
			}
		case "le":
			if !strings.HasPrefix(a.S, "float") {
				return T("lt", a.S, a.Args[1], a.Args[0])
			}
		case "ite":
			return T("ite", "", a.Args[0], T("not", "", a.Args[1]), T("not", "", a.Args[2]))
		}
	case "ite":
		c, x, y := t.Args[0], t.Args[1], t.Args[2]
		if b, ok := c.constBool(); ok {
			if b {
				return x
			}
			return y
		}
		if eqT(x, y) {
			return x
		}
		if c.Op == "not" {
			return T("ite", t.S, c.Args[0], y, x)
		}
		xb, xok := x.constBool()
		yb, yok := y.constBool()
		if xok && yok {
			if xb && !yb {
				return c
			}
			if !xb && yb {
				return T("not", "", c)
			}
		}
		// ite(c, ite(c, a, b), d) -> ite(c, a, d)
		if x.Op == "ite" && eqT(x.Args[0], c) {
			return T("ite", t.S, c, x.Args[1], y)
		}
		if y.Op == "ite" && eqT(y.Args[0], c) {
			return T("ite", t.S, c, x, y.Args[2])
		}
		// each branch is simplified under the condition that selects it
		if c.Op != "const" {
			ck := c.Key()
			mentions := func(z *Term) bool {
				return z.contains(func(q *Term) bool { return q.Op != "loop" && q.Key() == ck })
			}
			if mentions(x) || mentions(y) {
				nx, ny := assume(x, c, true), assume(y, c, false)
				if !eqT(nx, x) || !eqT(ny, y) {
					return T("ite", t.S, c, nx, ny)
				}
			}
		}
	case "proj":
		a := t.Args[0]
		var idx int
		fmt.Sscanf(t.S, "%d", &idx)
		if a.Op == "tuple" && idx < len(a.Args) {
			return a.Args[idx]
		}
		if a.Op == "ite" {
			return T("ite", "", a.Args[0], T("proj", t.S, a.Args[1]), T("proj", t.S, a.Args[2]))
		}
	case "fld":
		a := t.Args[0]
		if a.Op == "ref" {
			a = a.Args[0]
			t = &Term{Op: "fld", S: t.S, Args: []*Term{a}, Hint: t.Hint, Obj: t.Obj}
		}
		if a.Op == "struct" {
			// S of struct = type; args are fieldval(name, v)
			for _, fv := range a.Args {
				if fv.S == t.S {
					return fv.Args[0]
				}
			}
			// absent field: its zero value, from the type recorded in the field id ("<type>#k")
			if i := strings.LastIndex(t.S, "#"); i > 0 {
				tn := t.S[:i]
				if tn == "bool" {
					return cBool(false)
				}
				if _, isInt := intWidth[tn]; isInt {
					return cInt(0, tn)
				}
			}
		}
		if a.Op == "ite" {
			return T("ite", "", a.Args[0], (&Term{Op: "fld", S: t.S, Args: []*Term{a.Args[1]}, Hint: t.Hint, Obj: t.Obj}).renorm(), (&Term{Op: "fld", S: t.S, Args: []*Term{a.Args[2]}, Hint: t.Hint, Obj: t.Obj}).renorm())
		}
	case "conv":
		// S = "to<from"
		parts := strings.SplitN(t.S, "<", 2)
		if len(parts) == 2 {
			to, from := parts[0], parts[1]
			if to == from {
				return t.Args[0]
			}
			if v, _, ok := t.Args[0].constInt(); ok {
				if r, ok := wrap(big.NewInt(v), to); ok {
					return cInt(r, to)
				}
			}
		}
	case "len":
		a := t.Args[0]
		switch a.Op {
		case "seq":
			return cInt(int64(len(a.Args)), "int")
		case "cat":
			var sum *Term
			for _, p := range a.Args {
				l := T("len", "", p)
				if sum == nil {
					sum = l
				} else {
					sum = T("add", "int", sum, l)
				}
			}
			if sum != nil {
				return sum
			}
		case "zeros":
			return a.Args[0]
		case "emptymap":
			return cInt(0, "int")
		}
	case "cat":
		// flatten, drop empty sequences, merge adjacent literal sequences
		var out []*Term
		for _, a := range t.Args {
			if a.Op == "cat" {
				out = append(out, a.Args...)
			} else if a.Op == "seq" && len(a.Args) == 0 {
				continue
			} else {
				out = append(out, a)
			}
		}
		var merged []*Term
		for _, a := range out {
			if n := len(merged); n > 0 && merged[n-1].Op == "seq" && a.Op == "seq" {
				merged[n-1] = &Term{Op: "seq", S: a.S, Args: append(append([]*Term{}, merged[n-1].Args...), a.Args...)}
			} else {
				merged = append(merged, a)
			}
		}
		if len(merged) == 0 {
			return &Term{Op: "seq", S: t.S}
		}
		if len(merged) == 1 {
			return merged[0]
		}
		return &Term{Op: "cat", S: t.S, Args: merged}
	case "elem":
		a, i := t.Args[0], t.Args[1]
		if iv, _, ok := i.constInt(); ok {
			if a.Op == "seq" && int(iv) < len(a.Args) && iv >= 0 {
				return a.Args[iv]
			}
			if a.Op == "cat" && len(a.Args) > 0 && a.Args[0].Op == "seq" && int(iv) < len(a.Args[0].Args) && iv >= 0 {
				return a.Args[0].Args[iv]
			}
			if a.Op == "arr" && int(iv) < len(a.Args) && iv >= 0 {
				return a.Args[iv]
			}
		}
	case "mapget":
		m, k := t.Args[0], t.Args[1]
		if m.Op == "mapset" && eqT(m.Args[1], k) {
			return m.Args[2]
		}
	case "mapget2": // (value, ok) form
		m, k := t.Args[0], t.Args[1]
		if m.Op == "mapset" && eqT(m.Args[1], k) {
			return T("tuple", "", m.Args[2], cBool(true))
		}
	}
	if (t.Op == "eq" || t.Op == "ne") && len(t.Args) == 2 {
		a, b := t.Args[0], t.Args[1]
		if eqT(a, b) {
			return cBool(t.Op == "eq")
		}
		for i := 0; i < 2; i++ {
			p, q := t.Args[i], t.Args[1-i]
			if p.Op == "ite" && (q.Op == "nil" || q.Op == "const") {
				return T("ite", "", p.Args[0], T(t.Op, t.S, p.Args[1], q), T(t.Op, t.S, p.Args[2], q))
			}
		}
	}
	// arithmetic on constants, identities
	if w, isInt := intWidth[t.S]; isInt && len(t.Args) == 2 {
		_ = w
		a, b := t.Args[0], t.Args[1]
		av, _, aok := a.constInt()
		bv, _, bok := b.constInt()
		if aok && bok {
			x, y := big.NewInt(av), big.NewInt(bv)
			var r *big.Int
			switch t.Op {
			case "add":
				r = new(big.Int).Add(x, y)
			case "sub":
				r = new(big.Int).Sub(x, y)
			case "mul":
				r = new(big.Int).Mul(x, y)
			case "and":
				r = new(big.Int).And(x, y)
			case "or":
				r = new(big.Int).Or(x, y)
			case "xor":
				r = new(big.Int).Xor(x, y)
			case "eq":
				return cBool(av == bv)
			case "ne":
				return cBool(av != bv)
			case "lt":
				return cBool(av < bv)
			case "le":
				return cBool(av <= bv)
			}
			if r != nil {
				if v, ok := wrap(r, t.S); ok {
					return cInt(v, t.S)
				}
			}
		}
		switch t.Op {
		case "add":
			if aok && av == 0 {
				return b
			}
			if bok && bv == 0 {
				return a
			}
		case "sub":
			if bok && bv == 0 {
				return a
			}
		}
	}
	if (t.Op == "shl" || t.Op == "shr") && len(t.Args) == 2 {
		// S = "<operand type>,<count type>"
		parts := strings.SplitN(t.S, ",", 2)
		a, b := t.Args[0], t.Args[1]
		av, _, aok := a.constInt()
		bv, _, bok := b.constInt()
		if aok && bok && bv >= 0 && bv < 64 {
			var r *big.Int
			if t.Op == "shl" {
				r = new(big.Int).Lsh(big.NewInt(av), uint(bv))
			} else {
				r = new(big.Int).Rsh(big.NewInt(av), uint(bv))
			}
			if v, ok := wrap(r, parts[0]); ok {
				return cInt(v, parts[0])
			}
		}
	}
	if t.Op == "and" && t.S == "bool" || t.Op == "or" && t.S == "bool" {
		// never built: && and || become ite
	}
	if commutative[t.Op] && len(t.Args) == 2 {
		if t.Args[0].Key() > t.Args[1].Key() {
			t = &Term{Op: t.Op, S: t.S, Args: []*Term{t.Args[1], t.Args[0]}, Hint: t.Hint}
		}
	}
	if t.Op == "set" || t.Op == "maplit" { // unordered collection
		args := append([]*Term{}, t.Args...)
		sort.Slice(args, func(i, j int) bool { return args[i].Key() < args[j].Key() })
		t = &Term{Op: t.Op, S: t.S, Args: args}
	}
	return t
}

func (t *Term) renorm() *Term { return normalise(t) }

// subst replaces leaves/terms by f (top-down, first match wins),
// renormalising; shared subterms are rewritten once.
func (t *Term) subst(f func(*Term) *Term) *Term {
	memo := map[*Term]*Term{}
	var rec func(t *Term) *Term
	rec = func(t *Term) *Term {
		if r, ok := memo[t]; ok {
			return r
		}
		var out *Term
		if r := f(t); r != nil {
			out = r
		} else if len(t.Args) == 0 {
			out = t
		} else {
			changed := false
			args := make([]*Term, len(t.Args))
			for i, a := range t.Args {
				args[i] = rec(a)
				if args[i] != a {
					changed = true
				}
			}
			if !changed {
				out = t
			} else {
				out = normalise(&Term{Op: t.Op, S: t.S, Args: args, Hint: t.Hint, Obj: t.Obj, Aux: t.Aux})
			}
		}
		memo[t] = out
		return out
	}
	return rec(t)
}

// walk visits every distinct subterm once.
func (t *Term) walk(f func(*Term)) {
	seen := map[*Term]bool{}
	var rec func(t *Term)
	rec = func(t *Term) {
		if seen[t] {
			return
		}
		seen[t] = true
		f(t)
		for _, a := range t.Args {
			rec(a)
		}
	}
	rec(t)
}

func (t *Term) contains(pred func(*Term) bool) bool {
	found := false
	t.walk(func(x *Term) {
		if pred(x) {
			found = true
		}
	})
	return found
}

// typeName renders a type canonically: package qualifiers dropped, type
// parameters by index.
func typeName(t types.Type) string {
	if t == nil {
		return "?"
	}
	switch u := t.(type) {
	case *types.TypeParam:
		return fmt.Sprintf("$%d", u.Index())
	case *types.Basic:
		switch u.Kind() {
		case types.UntypedInt:
			return "int"
		case types.UntypedBool:
			return "bool"
		case types.UntypedRune:
			return "int32"
		case types.UntypedString:
			return "string"
		case types.UntypedNil:
			return "nil"
		}
		if u.Kind() == types.Uint8 {
			return "uint8"
		}
		if u.Kind() == types.Int32 {
			return "int32"
		}
		return u.Name()
	case *types.Pointer:
		return "*" + typeName(u.Elem())
	case *types.Slice:
		return "[]" + typeName(u.Elem())
	case *types.Array:
		return fmt.Sprintf("[%d]%s", u.Len(), typeName(u.Elem()))
	case *types.Map:
		return "map[" + typeName(u.Key()) + "]" + typeName(u.Elem())
	case *types.Named:
		s := u.Obj().Name()
		if ta := u.TypeArgs(); ta != nil && ta.Len() > 0 {
			var parts []string
			for i := 0; i < ta.Len(); i++ {
				parts = append(parts, typeName(ta.At(i)))
			}
			s += "[" + strings.Join(parts, ",") + "]"
		}
		return s
	case *types.Alias:
		return typeName(types.Unalias(u))
	case *types.Chan:
		return "chan " + typeName(u.Elem())
	case *types.Signature:
		return "func"
	case *types.Struct:
		return "struct"
	case *types.Interface:
		return "interface"
	case *types.Tuple:
		var parts []string
		for i := 0; i < u.Len(); i++ {
			parts = append(parts, typeName(u.At(i).Type()))
		}
		return "(" + strings.Join(parts, ",") + ")"
	}
	return t.String()
}

// opType is the type annotation of an arithmetic/comparison operator: the
// underlying basic type of the operands (named integer types compare like
// their underlying type).
func opType(t types.Type) string {
	if t == nil {
		return "?"
	}
	if tp, ok := t.(*types.TypeParam); ok {
		return fmt.Sprintf("$%d", tp.Index())
	}
	u := t.Underlying()
	if b, ok := u.(*types.Basic); ok {
		return typeName(b)
	}
	return typeName(t)
}

func constTerm(v constant.Value, t types.Type) *Term {
	tn := opType(t)
	switch v.Kind() {
	case constant.Bool:
		return cBool(constant.BoolVal(v))
	case constant.Int:
		if i, ok := constant.Int64Val(v); ok {
			return cInt(i, tn)
		}
		return &Term{Op: "const", S: v.ExactString() + ":" + tn}
	case constant.String:
		return &Term{Op: "const", S: fmt.Sprintf("%q:string", constant.StringVal(v))}
	}
	return &Term{Op: "const", S: v.ExactString() + ":" + tn}
}
