package main

// Role resolution for the twelve microarchitecture variants (DESIGN Appendix
// C). Anchors are found by role — through types and call structure — names
// are hints only.

import (
	"go/ast"
	"go/token"
	"go/types"
	"sort"
	"strings"

	"golang.org/x/tools/go/packages"
	"golang.org/x/tools/go/types/typeutil"
)

type fieldRole struct {
	name   string
	obj    *types.Var
	kind   string // "simplebus", "bufferedbus", "unit", "units" (slice), "ctx", "other"
	unitT  *types.Named
	isBus  bool
	isUnit bool
	roles  map[string]bool
}

type variant struct {
	name     string // mvp6-1
	rel      string // proc/mvp6-1
	pkg      *packages.Package
	info     *types.Info
	cpu      *types.Named
	cpuSt    *types.Struct
	run      *ast.FuncDecl
	fields   []*fieldRole
	flush    *ast.FuncDecl // pipeline flush
	isEmpty  *ast.FuncDecl // completion predicate
	problems []string
}

var variantCache = map[*World][]*variant{}

func isCompType(t types.Type, name string) bool {
	if p, ok := t.(*types.Pointer); ok {
		t = p.Elem()
	}
	n, ok := t.(*types.Named)
	if !ok {
		return false
	}
	return n.Obj().Pkg() != nil && n.Obj().Pkg().Path() == modPath+"/proc/comp" && n.Obj().Name() == name
}

func namedOf(t types.Type) *types.Named {
	for {
		switch u := t.(type) {
		case *types.Pointer:
			t = u.Elem()
		case *types.Slice:
			t = u.Elem()
		case *types.Named:
			return u
		case *types.Alias:
			t = types.Unalias(u)
		default:
			return nil
		}
	}
}

// hasMethodNamed looks a method up (case-insensitively) in the method set of
// *n, including methods promoted from embedded fields (the coroutine-based
// units get Cycle from the embedded co.Coroutine).
func hasMethodNamed(n *types.Named, names ...string) *types.Func {
	ms := types.NewMethodSet(types.NewPointer(n))
	for i := 0; i < ms.Len(); i++ {
		f, ok := ms.At(i).Obj().(*types.Func)
		if !ok {
			continue
		}
		for _, want := range names {
			if strings.EqualFold(f.Name(), want) {
				return f
			}
		}
	}
	return nil
}

// unitRoles classifies a pipeline unit type by what its methods reach:
// "exec" reaches InstructionRunner.Run, "write" reaches an architectural
// writer of risc.Context.
func (w *World) unitRoles(v *variant, n *types.Named) map[string]bool {
	roles := map[string]bool{}
	for i := 0; i < n.NumMethods(); i++ {
		fd, pk := w.FuncDecl(n.Method(i))
		if fd == nil || fd.Body == nil {
			continue
		}
		if w.reaches(pk.TypesInfo, fd.Body, func(f *types.Func) bool {
			sig := f.Type().(*types.Signature)
			return f.Name() == "Run" && sig.Recv() != nil && typeName(sig.Recv().Type()) == "InstructionRunner"
		}) {
			roles["exec"] = true
		}
		if w.reaches(pk.TypesInfo, fd.Body, func(f *types.Func) bool { return isArchWriter(f) }) {
			roles["write"] = true
		}
	}
	return roles
}

var archWriters = map[string]bool{"WriteRegister": true, "TransactionWriteRegister": true, "TransactionRATWrite": true, "WriteMemory": true}

func isArchWriter(f *types.Func) bool {
	sig := f.Type().(*types.Signature)
	return sig.Recv() != nil && typeName(sig.Recv().Type()) == "*Context" && archWriters[f.Name()]
}

func variants(w *World) []*variant {
	if v, ok := variantCache[w]; ok {
		return v
	}
	var out []*variant
	for _, name := range variantNames {
		v := &variant{name: name, rel: "proc/" + name, pkg: w.Pkg("proc/" + name)}
		out = append(out, v)
		if v.pkg == nil {
			v.problems = append(v.problems, "package not loaded")
			continue
		}
		v.info = v.pkg.TypesInfo
		// the CPU type: the named struct type with a method Run(risc.Application) (int, error)
		scope := v.pkg.Types.Scope()
		for _, n := range scope.Names() {
			tn, ok := scope.Lookup(n).(*types.TypeName)
			if !ok {
				continue
			}
			named, ok := tn.Type().(*types.Named)
			if !ok {
				continue
			}
			for i := 0; i < named.NumMethods(); i++ {
				m := named.Method(i)
				sig := m.Type().(*types.Signature)
				if m.Name() == "Run" && sig.Params().Len() == 1 && sig.Results().Len() == 2 &&
					typeName(sig.Params().At(0).Type()) == "Application" && typeName(sig.Results().At(0).Type()) == "int" {
					v.cpu = named
					v.run, _ = w.FuncDecl(m)
				}
			}
		}
		if v.cpu == nil || v.run == nil {
			v.problems = append(v.problems, "no type with Run(risc.Application) (int, error)")
			continue
		}
		v.cpuSt, _ = v.cpu.Underlying().(*types.Struct)
		if v.cpuSt == nil {
			v.problems = append(v.problems, "CPU is not a struct")
			continue
		}
		for i := 0; i < v.cpuSt.NumFields(); i++ {
			f := v.cpuSt.Field(i)
			fr := &fieldRole{name: f.Name(), obj: f, kind: "other"}
			switch {
			case isCompType(f.Type(), "SimpleBus"):
				fr.kind, fr.isBus = "simplebus", true
			case isCompType(f.Type(), "BufferedBus"):
				fr.kind, fr.isBus = "bufferedbus", true
			case typeName(f.Type()) == "*Context":
				fr.kind = "ctx"
			default:
				if n := namedOf(f.Type()); n != nil && n.Obj().Pkg() == v.pkg.Types {
					if _, isStruct := n.Underlying().(*types.Struct); isStruct && hasMethodNamed(n, "cycle") != nil {
						fr.unitT = n
						fr.isUnit = true
						fr.kind = "unit"
						if _, isSlice := f.Type().(*types.Slice); isSlice {
							fr.kind = "units"
						}
						fr.roles = w.unitRoles(v, n)
					}
				}
			}
			v.fields = append(v.fields, fr)
		}
		// flush / completion predicate by role
		for i := 0; i < v.cpu.NumMethods(); i++ {
			m := v.cpu.Method(i)
			fd, _ := w.FuncDecl(m)
			if fd == nil || fd.Body == nil || fd == v.run {
				continue
			}
			sig := m.Type().(*types.Signature)
			nClean, nIsEmpty := 0, 0
			ast.Inspect(fd.Body, func(n ast.Node) bool {
				call, ok := n.(*ast.CallExpr)
				if !ok {
					return true
				}
				sel, ok := call.Fun.(*ast.SelectorExpr)
				if !ok {
					return true
				}
				if v.busFieldOf(sel.X) != nil {
					switch sel.Sel.Name {
					case "Clean", "Flush":
						nClean++
					case "IsEmpty":
						nIsEmpty++
					}
				}
				return true
			})
			if nClean >= 2 && sig.Results().Len() == 0 {
				v.flush = fd
			}
			if nIsEmpty >= 2 && sig.Results().Len() == 1 && typeName(sig.Results().At(0).Type()) == "bool" {
				v.isEmpty = fd
			}
		}
	}
	variantCache[w] = out
	return out
}

// busFieldOf returns the CPU bus field denoted by m.<field>.
func (v *variant) busFieldOf(e ast.Expr) *fieldRole {
	f := v.cpuFieldOf(e)
	if f != nil && f.isBus {
		return f
	}
	return nil
}

// cpuFieldOf resolves recv.<field> on the CPU struct.
func (v *variant) cpuFieldOf(e ast.Expr) *fieldRole {
	sel, ok := ast.Unparen(e).(*ast.SelectorExpr)
	if !ok {
		return nil
	}
	s := v.info.Selections[sel]
	if s == nil || s.Kind() != types.FieldVal {
		return nil
	}
	for _, f := range v.fields {
		if f.obj == s.Obj() {
			return f
		}
	}
	return nil
}

func (v *variant) fieldsOf(pred func(*fieldRole) bool) []*fieldRole {
	var out []*fieldRole
	for _, f := range v.fields {
		if pred(f) {
			out = append(out, f)
		}
	}
	return out
}

// pipelined variants have buses.
func (v *variant) pipelined() bool {
	return len(v.fieldsOf(func(f *fieldRole) bool { return f.isBus })) > 0
}

// mainLoop is the first top-level `for` of Run.
func (v *variant) mainLoop() *ast.ForStmt {
	if v.run == nil {
		return nil
	}
	for _, s := range v.run.Body.List {
		if f, ok := s.(*ast.ForStmt); ok {
			return f
		}
		if l, ok := s.(*ast.LabeledStmt); ok {
			if f, ok := l.Stmt.(*ast.ForStmt); ok {
				return f
			}
		}
	}
	return nil
}

// calleesIn lists the static callees (module functions) called inside n.
// coroutineBindings maps a struct field of type co.Coroutine to the functions
// installed into it with co.New(f) (the entry points of the hand-written
// coroutines); calling Cycle on the field runs them.
var coBindings = map[*World]map[*types.Var][]*types.Func{}

func (w *World) coroutineBindings() map[*types.Var][]*types.Func {
	if b, ok := coBindings[w]; ok {
		return b
	}
	b := map[*types.Var][]*types.Func{}
	coBindings[w] = b
	for path, p := range w.Pkgs {
		if !strings.HasPrefix(path, modPath) {
			continue
		}
		info := p.TypesInfo
		for _, f := range p.Syntax {
			ast.Inspect(f, func(n ast.Node) bool {
				as, ok := n.(*ast.AssignStmt)
				if !ok || len(as.Lhs) != 1 || len(as.Rhs) != 1 {
					return true
				}
				sel, ok := as.Lhs[0].(*ast.SelectorExpr)
				if !ok {
					return true
				}
				s := info.Selections[sel]
				if s == nil || s.Kind() != types.FieldVal {
					return true
				}
				call, ok := as.Rhs[0].(*ast.CallExpr)
				if !ok {
					return true
				}
				cf, ok := typeutil.Callee(info, call).(*types.Func)
				if !ok || cf.Pkg() == nil || cf.Pkg().Path() != modPath+"/common/coroutine" || cf.Name() != "New" {
					return true
				}
				for _, a := range call.Args {
					if ms, ok := ast.Unparen(a).(*ast.SelectorExpr); ok {
						if sel2 := info.Selections[ms]; sel2 != nil && sel2.Kind() == types.MethodVal {
							b[s.Obj().(*types.Var)] = append(b[s.Obj().(*types.Var)], sel2.Obj().(*types.Func))
						}
					}
				}
				return true
			})
		}
	}
	return b
}

// coroutineTargets resolves a call of a co.Coroutine method (Cycle, …) to the
// entry functions bound to the coroutine field it is invoked on.
func (w *World) coroutineTargets(info *types.Info, call *ast.CallExpr) []*types.Func {
	sel, ok := call.Fun.(*ast.SelectorExpr)
	if !ok {
		return nil
	}
	s := info.Selections[sel]
	if s == nil || s.Kind() != types.MethodVal {
		return nil
	}
	mf, ok := s.Obj().(*types.Func)
	if !ok || mf.Pkg() == nil || mf.Pkg().Path() != modPath+"/common/coroutine" || mf.Name() != "Cycle" {
		return nil // only Cycle runs the coroutine; Checkpoint/Reset/Append only install continuations
	}
	b := w.coroutineBindings()
	if len(s.Index()) > 1 {
		// promoted through an embedded field of the receiver's struct
		st := structOf(s.Recv())
		if st != nil && s.Index()[0] < st.NumFields() {
			return b[st.Field(s.Index()[0])]
		}
		return nil
	}
	if inner, ok := ast.Unparen(sel.X).(*ast.SelectorExpr); ok {
		if is := info.Selections[inner]; is != nil && is.Kind() == types.FieldVal {
			return b[is.Obj().(*types.Var)]
		}
	}
	return nil
}

var calleeWorld *World

func calleesIn(info *types.Info, n ast.Node) []*types.Func {
	var out []*types.Func
	ast.Inspect(n, func(m ast.Node) bool {
		switch x := m.(type) {
		case *ast.CallExpr:
			if f, ok := typeutil.Callee(info, x).(*types.Func); ok {
				out = append(out, f)
			}
			if calleeWorld != nil {
				out = append(out, calleeWorld.coroutineTargets(info, x)...)
			}
		case *ast.SelectorExpr:
			// method values (u.prepareRun passed as a continuation)
			if s := info.Selections[x]; s != nil && s.Kind() == types.MethodVal {
				if f, ok := s.Obj().(*types.Func); ok {
					out = append(out, f)
				}
			}
		case *ast.Ident:
			if f, ok := info.Uses[x].(*types.Func); ok {
				out = append(out, f)
			}
		}
		return true
	})
	return out
}

// reaches reports whether a call to a function satisfying pred is reachable
// from node n through static calls into module functions (depth-bounded).
func (w *World) reaches(info *types.Info, n ast.Node, pred func(*types.Func) bool) bool {
	calleeWorld = w
	seen := map[*types.Func]bool{}
	var rec func(info *types.Info, n ast.Node, depth int) bool
	rec = func(info *types.Info, n ast.Node, depth int) bool {
		for _, f := range calleesIn(info, n) {
			f = f.Origin()
			if pred(f) {
				return true
			}
			if seen[f] || depth > 8 {
				continue
			}
			seen[f] = true
			if fd, pk := w.FuncDecl(f); fd != nil && fd.Body != nil {
				if rec(pk.TypesInfo, fd.Body, depth+1) {
					return true
				}
			}
		}
		return false
	}
	return rec(info, n, 0)
}

func posLess(a, b token.Pos) bool { return a < b }

func sortedKeys[V any](m map[string]V) []string {
	var ks []string
	for k := range m {
		ks = append(ks, k)
	}
	sort.Strings(ks)
	return ks
}
