#!/bin/bash
# usage: confirm_seed.sh <seed-dir>   (contains patch.diff, demo_test.go, meta.json)
# Confirms in a scratch worktree of /repo HEAD that the seeded change compiles, passes the pinned
# suite, and that the demonstration fails with the change and passes without it. Removes the worktree.
set -u
export GOFLAGS=-mod=mod GOPROXY=off GOSUMDB=off GOTOOLCHAIN=local
SEED=$(readlink -f "$1"); NAME=$(basename "$SEED")
WT=${CS_ROOT:-/tmp/cs}/$NAME; rm -rf "$WT"; mkdir -p ${CS_ROOT:-/tmp/cs}
git -C /repo worktree prune
git -C /repo worktree add -q --detach "$WT" HEAD || exit 2
RES="$SEED/confirm.json"
fail() { echo "{\"confirmed\": false, \"reason\": \"$1\"}" > "$RES"; git -C /repo worktree remove --force "$WT"; echo "NOT CONFIRMED $NAME: $1"; exit 1; }
( cd "$WT" && git apply "$SEED/patch.diff" ) || fail "patch does not apply to HEAD"
( cd "$WT" && go build ./... ) || fail "does not compile"
PLACE=$(grep -m1 -o 'place in: *[^ ]*' "$SEED/demo_test.go" | sed 's/place in: *//; s#/$##')
[ -z "$PLACE" ] && fail "demo has no 'place in:' comment"
cp "$SEED/demo_test.go" "$WT/$PLACE/zz_seeded_demo_test.go"
( cd "$WT/$PLACE" && go test -vet=off -count=1 -run 'TestSeededDemo$' . > "$SEED/demo_with_change.log" 2>&1 ) && fail "demo passes WITH the change"
grep -q -- "--- FAIL: TestSeededDemo" "$SEED/demo_with_change.log" || fail "demo did not run to a test failure with the change (see demo_with_change.log)"
rm "$WT/$PLACE/zz_seeded_demo_test.go"
( cd "$WT" && go test -vet=off -count=1 -timeout 180m ./... > "$SEED/suite_with_change.log" 2>&1 )
BAD=$(grep -E "^--- FAIL|^FAIL|^panic" "$SEED/suite_with_change.log" | grep -v -E "TestSbLb|TestShLh|TestSwLw|^FAIL$|^FAIL[[:space:]]+github.com/teivah/majorana/risc" | head -5)
[ -n "$BAD" ] && fail "suite fails with the change: $(echo $BAD | tr '"' "'" | head -c 300)"
( cd "$WT" && git checkout -q -- . )
cp "$SEED/demo_test.go" "$WT/$PLACE/zz_seeded_demo_test.go"
( cd "$WT/$PLACE" && go test -vet=off -count=1 -run 'TestSeededDemo$' . > "$SEED/demo_without_change.log" 2>&1 ) || fail "demo fails WITHOUT the change"
echo "{\"confirmed\": true, \"head\": \"$(git -C /repo rev-parse --short HEAD)\", \"ran\": [\"git apply patch.diff; go build ./...\", \"go test -run TestSeededDemo (with change): FAIL\", \"go test ./... (with change): only the 3 known risc failures\", \"go test -run TestSeededDemo (unchanged): PASS\"]}" > "$RES"
git -C /repo worktree remove --force "$WT"
echo "CONFIRMED $NAME"
