#!/usr/bin/env python3
"""Regenerates /verif/MANIFEST.json from the table below (kept next to the checker so that the
claims, levels and not_applicable reasons are edited in one place)."""
import json, os, sys
HERE = os.path.dirname(os.path.dirname(os.path.abspath(__file__)))
ENV = "GOFLAGS=-mod=mod GOPROXY=off GOSUMDB=off GOTOOLCHAIN=local GOWORK=off"
claims = json.load(open(os.path.join(HERE, "tools", "claims.json")))
checks = []
for c in claims["claimed"]:
    pid = c["id"]
    checks.append({
        "property_id": pid,
        "quick_cmd": f"./bin/majcheck -prop {pid} -tier quick",
        "thorough_cmd": f"./bin/majcheck -prop {pid} -tier thorough",
        "evidence_file": f"/verif/evidence/{pid}.json",
        "replay_cmd_template": "./bin/majcheck -explain {path}",
        "engine": "majcheck",
        "level_claimed": {"category": c["level"], "text": c["text"], "design_ref": c.get("design_ref", "DESIGN.md section 4, " + pid)},
        "level_note": c["note"],
        "technique": c["technique"],
    })
m = {
    "version": 1,
    "setup_cmd": f"cd /verif/checker && {ENV} go build -o /verif/bin/majcheck . ",
    "hooks": {
        "guard": "verif",
        "enable": "none: the checker reads /repo's sources; nothing in /repo is instrumented and no build tag is used",
        "baseline_off_cmd": "cd /repo && GOFLAGS=-mod=mod go test -json -vet=off -count=1 -timeout 25m ./...",
        "source_commits": [],
        "add_only": True,
    },
    "engines": [{
        "name": "majcheck",
        "path": "/verif/checker",
        "serves_properties": [c["id"] for c in claims["claimed"]],
        "kind_free_text": "repository-specific static analyser (go/packages + go/types + go/ssa, x/tools v0.29.0): term normal forms (E-TERM), control-flow/dominance rules (E-PATH), effect and who-may-write sets (E-EFFECT), enumeration tables (E-TABLE), map-order classification (E-ORDER), trap discharge (E-BOUNDS), loop summaries (E-LOOP), pairing (E-PAIR), cost model (E-COST)",
    }],
    "checks": checks,
    "notes": claims["notes"],
    "not_applicable": claims["not_applicable"],
}
json.dump(m, open(os.path.join(HERE, "MANIFEST.json"), "w"), indent=1)
print("wrote MANIFEST.json with", len(checks), "checks,", len(m["not_applicable"]), "not applicable")
