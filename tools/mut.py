#!/usr/bin/env python3
"""Development helper: run one property check on an in-memory overlay of /repo in which
FILE has OLD replaced by NEW (first occurrence, or the N-th with @N). Nothing is written under /repo.
usage: mut.py PROP FILE OLD NEW [@N]"""
import json, subprocess, sys, tempfile, os
prop, f, old, new = sys.argv[1:5]
nth = int(sys.argv[5][1:]) if len(sys.argv) > 5 else 1
path = os.path.join('/repo', f)
s = open(path).read()
idx = -1
for _ in range(nth):
    idx = s.find(old, idx + 1)
    if idx < 0:
        print("OLD not found"); sys.exit(2)
s = s[:idx] + new + s[idx + len(old):]
with tempfile.NamedTemporaryFile('w', suffix='.json', delete=False) as t:
    json.dump({path: s}, t)
os.makedirs('/tmp/vt', exist_ok=True)
r = subprocess.run(['/verif/bin/majcheck', '-prop', prop, '-overlay', t.name, '-verif', '/tmp/vt'], capture_output=True, text=True)
os.unlink(t.name)
out = r.stdout + r.stderr
lines = [l[:600] for l in out.splitlines() if not l.startswith('      full')]
print("\n".join(lines[:40]))
print("exit", r.returncode)
