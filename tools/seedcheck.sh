#!/bin/bash
# usage: seedcheck.sh <seed-dir> [props...] — runs the static checks on a scratch worktree of /repo HEAD with the seed
# applied and prints only the violations that the unchanged HEAD does not have.
SEED=$(readlink -f "$1"); shift
WT=/tmp/sc_$$; git -C /repo worktree add -q --detach $WT HEAD || exit 2
PROPS="$@"; [ -z "$PROPS" ] && PROPS=$(python3 -c "import json;print(' '.join(c['id'] for c in json.load(open('/verif/tools/claims.json'))['claimed']))")
mkdir -p /tmp/vt_base /tmp/vt
for p in $PROPS; do /verif/bin/majcheck -prop $p -repo $WT -verif /tmp/vt_base 2>&1 | grep "^  rule=" | sed 's/ at [^ ]*:[0-9]*:.*//' | sort > /tmp/sc_base_$p.txt; done
( cd $WT && git apply "$SEED/patch.diff" ) || { echo "PATCH DOES NOT APPLY"; git -C /repo worktree remove --force $WT; exit 3; }
TOTAL=0
for p in $PROPS; do
  /verif/bin/majcheck -prop $p -repo $WT -verif /tmp/vt 2>&1 | grep "^  rule=" > /tmp/sc_new_$p.txt
  new=$(sed 's/ at [^ ]*:[0-9]*:.*//' /tmp/sc_new_$p.txt | sort | comm -13 /tmp/sc_base_$p.txt - )
  if [ -n "$new" ]; then n=$(echo "$new" | wc -l); TOTAL=$((TOTAL+n)); echo "$p: $n new"; echo "$new" | cut -c1-200 | head -3; fi
done
echo "TOTAL new violations: $TOTAL"
git -C /repo worktree remove --force $WT
