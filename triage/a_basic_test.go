package tri

import (
	"fmt"
	"testing"
	"time"

	"github.com/teivah/majorana/proc/comp"
	mvp1 "github.com/teivah/majorana/proc/mvp1"
	mvp3 "github.com/teivah/majorana/proc/mvp3"
	mvp4 "github.com/teivah/majorana/proc/mvp4"
	mvp6_0 "github.com/teivah/majorana/proc/mvp6-0"
	mvp6_2 "github.com/teivah/majorana/proc/mvp6-2"
	mvp6_3 "github.com/teivah/majorana/proc/mvp6-3"
	mvp7_0 "github.com/teivah/majorana/proc/mvp7-0"
	"github.com/teivah/majorana/risc"
)

type vm interface {
	Run(risc.Application) (int, error)
	Context() *risc.Context
}

func run(t *testing.T, name string, v vm, src string, setup func(*risc.Context)) (regs map[risc.RegisterType]int32, mem []int8, ok bool) {
	app, err := risc.Parse(src)
	if err != nil {
		t.Logf("%s: parse error %v", name, err)
		return nil, nil, false
	}
	if setup != nil {
		setup(v.Context())
	}
	done := make(chan struct{})
	var cyc int
	var rerr error
	var pan any
	go func() {
		defer close(done)
		defer func() { pan = recover() }()
		cyc, rerr = v.Run(app)
	}()
	select {
	case <-done:
	case <-time.After(5 * time.Second):
		t.Logf("%s: HANG (5s)", name)
		return nil, nil, false
	}
	if pan != nil {
		t.Logf("%s: PANIC %v", name, pan)
		return nil, nil, false
	}
	t.Logf("%s: cycles=%d err=%v regs=%v", name, cyc, rerr, v.Context().Registers)
	return v.Context().Registers, v.Context().Memory, true
}

func ref(t *testing.T, src string, mem int, setup func(*risc.Context)) {
	run(t, "REF(mvp1)", mvp1.NewCPU(false, mem), src, setup)
}

func TestParserPanic(t *testing.T) {
	for _, s := range []string{"lw t0, 4(", "lw t0, (", "sw t0, 0(t1"} {
		func() {
			defer func() {
				if r := recover(); r != nil {
					t.Logf("Parse(%q) PANIC: %v", s, r)
				}
			}()
			_, err := risc.Parse(s)
			t.Logf("Parse(%q) err=%v", s, err)
		}()
	}
}

func TestNegativeMvp4(t *testing.T) {
	src := "addi t0, zero, -5\naddi t1, t0, 1\nnop\nnop\nnop\nnop\nret"
	ref(t, src, 64, nil)
	run(t, "mvp1", mvp1.NewCPU(false, 64), src, nil)
	run(t, "mvp4", mvp4.NewCPU(false, 64), src, nil)
}

func TestRetDrainMvp4(t *testing.T) {
	src := "li t1, 7\nsw t1, 0(zero)\naddi t0, zero, 5\nret"
	ref(t, src, 64, nil)
	run(t, "mvp4", mvp4.NewCPU(false, 64), src, nil)
}

func TestRetLoad6(t *testing.T) {
	src := "lw t0, 0(zero)\nret"
	setup := func(c *risc.Context) { c.Memory[0] = 9 }
	ref(t, src, 64, setup)
	run(t, "mvp6_0", mvp6_0.NewCPU(false, 64, 2, 2), src, setup)
	run(t, "mvp6_3", mvp6_3.NewCPU(false, 64, 2, 2), src, setup)
	run(t, "mvp7_0", mvp7_0.NewCPU(false, 64, 2), src, setup)
}

func TestStoreThenLoadHang(t *testing.T) {
	src := "li t1, 7\nsw t1, 0(zero)\nnop\nnop\nnop\nlw t0, 0(zero)\nnop\nnop\nnop\nnop\nnop\nret"
	ref(t, src, 256, nil)
	run(t, "mvp6_0", mvp6_0.NewCPU(false, 256, 2, 2), src, nil)
}

func TestRATRollbackZero(t *testing.T) {
	c := risc.NewContext(false, 16, true)
	c.Registers[risc.T0] = 11
	c.InitRAT()
	c.TransactionRATWrite(risc.Execution{Register: risc.T0, RegisterValue: 7}, 5)
	c.RATRollback(3)
	c.RATFlush()
	t.Logf("after rollback(3) of write seq5: T0=%d (want 11)", c.Registers[risc.T0])

	r := comp.NewRAT[int, int](4)
	r.Write(1, 10)
	r.Write(1, 20)
	v, ok := r.Find(1, func(v int) bool { return v <= 10 })
	t.Logf("Find older: %v %v (want 10 true)", v, ok)
}

func TestPushLineVictim(t *testing.T) {
	c := comp.NewLRUCache(4, 8)
	c.PushLine(0, []int8{1, 1, 1, 1})
	c.PushLine(4, []int8{2, 2, 2, 2})
	ev := c.PushLine(8, []int8{3, 3, 3, 3})
	t.Logf("evicted=%v (want [1 1 1 1])", ev)
}

func TestEvictLostMvp3(t *testing.T) {
	// write to 17 distinct lines (64B each) after loading them, then ret
	src := "li t1, 7\n"
	for i := 0; i < 18; i++ {
		src += fmt.Sprintf("lw t2, %d(zero)\nsw t1, %d(zero)\n", i*64, i*64)
	}
	src += "ret"
	ref(t, src, 2048, nil)
	_, mem, ok := run(t, "mvp3", mvp3.NewCPU(false, 2048), src, nil)
	if ok {
		for i := 0; i < 18; i++ {
			if mem[i*64] != 7 {
				t.Logf("mvp3: line %d lost (mem=%d)", i, mem[i*64])
			}
		}
	}
}

func TestShadowStore62(t *testing.T) {
	// line 64.. cached by first lw; then slow branch operand; shadow store hits cache
	src := "lw t3, 64(zero)\nlw t0, 128(zero)\nbeqz t0, end\nsw t1, 64(zero)\nnop\nend:\nret"
	setup := func(c *risc.Context) { c.Registers[risc.T1] = 99 }
	ref(t, src, 256, setup)
	_, mem, ok := run(t, "mvp6_2", mvp6_2.NewCPU(false, 256, 2, 2), src, setup)
	if ok {
		t.Logf("mvp6_2 mem[64]=%d (want 0)", mem[64])
	}
	_, mem, ok = run(t, "mvp7_0", mvp7_0.NewCPU(false, 256, 2), src, setup)
	if ok {
		t.Logf("mvp7_0 mem[64]=%d (want 0)", mem[64])
	}
}
