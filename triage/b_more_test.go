package tri

import (
	"testing"

	mvp1 "github.com/teivah/majorana/proc/mvp1"
	mvp3 "github.com/teivah/majorana/proc/mvp3"
	mvp4 "github.com/teivah/majorana/proc/mvp4"
	mvp5 "github.com/teivah/majorana/proc/mvp5"
	mvp6_0 "github.com/teivah/majorana/proc/mvp6-0"
	mvp6_1 "github.com/teivah/majorana/proc/mvp6-1"
	mvp6_3 "github.com/teivah/majorana/proc/mvp6-3"
	mvp8_0 "github.com/teivah/majorana/proc/mvp8-0"
	"github.com/teivah/majorana/risc"
)

func TestShadowJal(t *testing.T) {
	src := "beqz zero, end\njal ra, end\nnop\nend:\nnop\nnop\nnop\nret"
	ref(t, src, 64, nil)
	run(t, "mvp4", mvp4.NewCPU(false, 64), src, nil)
	run(t, "mvp6_3", mvp6_3.NewCPU(false, 64, 2, 2), src, nil)
}

func TestBltu(t *testing.T) {
	src := "li t0, 1\nli t1, 2\nnop\nnop\nnop\nbltu t0, t1, end\nli t2, 9\nnop\nnop\nend:\nnop\nret"
	ref(t, src, 64, nil)
	run(t, "mvp4", mvp4.NewCPU(false, 64), src, nil)
	run(t, "mvp5", mvp5.NewCPU(false, 64), src, nil)
	run(t, "mvp6_0", mvp6_0.NewCPU(false, 64, 2, 2), src, nil)
}

func TestLhConsumer(t *testing.T) {
	src := "lh t0, 0(zero)\nadd t1, t0, t0\nnop\nnop\nnop\nnop\nnop\nnop\nnop\nnop\nret"
	setup := func(c *risc.Context) { c.Memory[0] = 3 }
	ref(t, src, 64, setup)
	run(t, "mvp6_0", mvp6_0.NewCPU(false, 64, 2, 2), src, setup)
	run(t, "mvp4", mvp4.NewCPU(false, 64), src, setup)
}

func TestOverlapLinesMvp3(t *testing.T) {
	// line A=[100,164) then line B=[64,128); store 110 -> hits B (MRU); touch 150 -> A to front; read 110 -> stale A
	src := "li t1, 7\nlb t2, 100(zero)\nlb t2, 64(zero)\nsb t1, 110(zero)\nlb t2, 150(zero)\nlb t3, 110(zero)\nret"
	ref(t, src, 256, nil)
	run(t, "mvp3", mvp3.NewCPU(false, 256), src, nil)
}

func TestReuseApp(t *testing.T) {
	src := "addi t1, zero, 2\naddi t2, t1, 5\nnop\nnop\nnop\nret"
	app, _ := risc.Parse(src)
	a := mvp6_1.NewCPU(false, 64, 2, 2)
	_, err := a.Run(app)
	t.Logf("6_1 first: err=%v regs=%v", err, a.Context().Registers)
	b := mvp1.NewCPU(false, 64)
	b.Context().Registers[risc.T1] = 0
	// second machine: change nothing, but re-use app
	_, err = b.Run(app)
	t.Logf("mvp1 reuse: err=%v regs=%v", err, b.Context().Registers)
	// now an app where t1 differs in second machine: use initial register instead of addi
	src2 := "addi t1, a0, 2\naddi t2, t1, 5\nnop\nnop\nnop\nret"
	app2, _ := risc.Parse(src2)
	a2 := mvp6_1.NewCPU(false, 64, 2, 2)
	a2.Context().Registers[risc.A0] = 10
	_, _ = a2.Run(app2)
	t.Logf("6_1 first (a0=10): regs=%v", a2.Context().Registers)
	b2 := mvp1.NewCPU(false, 64)
	b2.Context().Registers[risc.A0] = 20
	_, _ = b2.Run(app2)
	t.Logf("mvp1 reuse (a0=20): regs=%v (want T1=22 T2=27)", b2.Context().Registers)
}

func TestShadowLoadThenHang(t *testing.T) {
	src := "lw t0, 128(zero)\nbeqz t0, end\nlw t2, 64(zero)\nnop\nend:\nnop\nlw t3, 64(zero)\nnop\nnop\nnop\nnop\nnop\nnop\nret"
	ref(t, src, 256, nil)
	run(t, "mvp6_0", mvp6_0.NewCPU(false, 256, 2, 2), src, nil)
	run(t, "mvp6_3", mvp6_3.NewCPU(false, 256, 2, 2), src, nil)
}

func TestRemZeroAndShift(t *testing.T) {
	run(t, "rem0 mvp1", mvp1.NewCPU(false, 64), "rem t0, t1, zero\nret", nil)
	run(t, "sra neg mvp1", mvp1.NewCPU(false, 64), "li t1, -1\nsra t0, t1, t1\nret", nil)
	run(t, "srli 33 mvp1", mvp1.NewCPU(false, 64), "li t1, 8\nsrli t0, t1, 33\nret", nil)
	run(t, "sltu mvp1", mvp1.NewCPU(false, 64), "li t1, -1\nli t2, 1\nsltu t0, t2, t1\nret", nil)
}

func TestMvp8Simple(t *testing.T) {
	src := "li t1, 7\nsw t1, 0(zero)\nlw t0, 0(zero)\nnop\nnop\nnop\nnop\nnop\nnop\nnop\nnop\nnop\nnop\nret"
	ref(t, src, 256, nil)
	_, mem, ok := run(t, "mvp8", mvp8_0.NewCPU(false, 256, 2), src, nil)
	if ok {
		t.Logf("mem[0]=%d", mem[0])
	}
}
