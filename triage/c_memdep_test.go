package tri

import (
	"testing"

	mvp6_1 "github.com/teivah/majorana/proc/mvp6-1"
	mvp6_3 "github.com/teivah/majorana/proc/mvp6-3"
	mvp7_0 "github.com/teivah/majorana/proc/mvp7-0"
	mvp7_1 "github.com/teivah/majorana/proc/mvp7-1"
	mvp8_0 "github.com/teivah/majorana/proc/mvp8-0"
	"github.com/teivah/majorana/risc"
)

func TestMemDep(t *testing.T) {
	// warm line 0 and line 64; then slow-ish producer feeding a store, followed by independent load of same address
	src := "lw t5, 0(zero)\nlw t6, 128(zero)\nnop\nnop\nnop\nnop\nlw t1, 64(zero)\nsw t1, 0(zero)\nlw t0, 0(zero)\nadd t2, t0, zero\nnop\nnop\nnop\nnop\nnop\nnop\nnop\nnop\nnop\nnop\nbeqz zero, end\nnop\nend:\nnop\nnop\nret"
	setup := func(c *risc.Context) { c.Memory[64] = 42 }
	ref(t, src, 256, setup)
	run(t, "mvp6_1", mvp6_1.NewCPU(false, 256, 3, 3), src, setup)
	run(t, "mvp6_3", mvp6_3.NewCPU(false, 256, 4, 4), src, setup)
	run(t, "mvp7_0", mvp7_0.NewCPU(false, 256, 3), src, setup)
	run(t, "mvp7_1", mvp7_1.NewCPU(false, 256, 4), src, setup)
	run(t, "mvp8_0", mvp8_0.NewCPU(false, 256, 3), src, setup)
}

func TestShadowJal2(t *testing.T) {
	src := "lw t0, 0(zero)\nbeqz t0, end\njal ra, foo\nnop\nfoo:\nnop\nend:\nnop\nnop\nnop\nnop\nret"
	ref(t, src, 256, nil)
	run(t, "mvp6_1", mvp6_1.NewCPU(false, 256, 2, 2), src, nil)
	run(t, "mvp6_3", mvp6_3.NewCPU(false, 256, 2, 2), src, nil)
	run(t, "mvp7_0", mvp7_0.NewCPU(false, 256, 2), src, nil)
}
