package tri

import (
	"fmt"
	"testing"

	mvp6_0 "github.com/teivah/majorana/proc/mvp6-0"
	mvp6_3 "github.com/teivah/majorana/proc/mvp6-3"
	mvp7_0 "github.com/teivah/majorana/proc/mvp7-0"
	"github.com/teivah/majorana/risc"
)

func TestNondetForward(t *testing.T) {
	src := "nop\nnop\nnop\nnop\nli t0, 1\nli t0, 2\nadd t1, t0, zero\nnop\nnop\nnop\nnop\nnop\nnop\nbeqz zero, end\nnop\nend:\nnop\nnop\nret"
	seen := map[string]int{}
	for i := 0; i < 200; i++ {
		app, _ := risc.Parse(src)
		v := mvp6_3.NewCPU(false, 64, 3, 3)
		c, err := v.Run(app)
		seen[fmt.Sprintf("cycles=%d err=%v T0=%d T1=%d", c, err, v.Context().Registers[risc.T0], v.Context().Registers[risc.T1])]++
	}
	t.Logf("6_3 outcomes: %v", seen)
	seen = map[string]int{}
	for i := 0; i < 200; i++ {
		app, _ := risc.Parse(src)
		v := mvp7_0.NewCPU(false, 64, 3)
		c, err := v.Run(app)
		seen[fmt.Sprintf("cycles=%d err=%v T0=%d T1=%d", c, err, v.Context().Registers[risc.T0], v.Context().Registers[risc.T1])]++
	}
	t.Logf("7_0 outcomes: %v", seen)
}

func TestOlderLoadKilled60(t *testing.T) {
	src := "lw t0, 0(zero)\nbeqz zero, end\nnop\nend:\nnop\nnop\nnop\nnop\nnop\nnop\nnop\nnop\nadd t1, t0, zero\nnop\nnop\nnop\nbeqz zero, end2\nnop\nend2:\nnop\nret"
	setup := func(c *risc.Context) { c.Memory[0] = 9 }
	ref(t, src, 64, setup)
	run(t, "mvp6_0", mvp6_0.NewCPU(false, 64, 2, 2), src, setup)
}
