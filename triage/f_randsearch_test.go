package tri

import (
	"fmt"
	"math/rand"
	"strings"
	"testing"
	"time"

	mvp7_0 "github.com/teivah/majorana/proc/mvp7-0"
	mvp7_1 "github.com/teivah/majorana/proc/mvp7-1"
	mvp8_0 "github.com/teivah/majorana/proc/mvp8-0"
	"github.com/teivah/majorana/risc"
)

func genProg(r *rand.Rand) string {
	var b strings.Builder
	regs := []string{"t0", "t1", "t2", "t3"}
	n := 6 + r.Intn(14)
	lbl := 0
	for i := 0; i < n; i++ {
		switch r.Intn(7) {
		case 0, 1:
			fmt.Fprintf(&b, "lw %s, %d(zero)\n", regs[r.Intn(4)], 64*r.Intn(3)+4*r.Intn(2))
		case 2:
			fmt.Fprintf(&b, "sw %s, %d(zero)\n", regs[r.Intn(4)], 64*r.Intn(3)+4*r.Intn(2))
		case 3:
			fmt.Fprintf(&b, "addi %s, %s, %d\n", regs[r.Intn(4)], regs[r.Intn(4)], r.Intn(3))
		case 4:
			fmt.Fprintf(&b, "nop\n")
		case 5, 6:
			// forward branch over 1-3 instrs
			k := 1 + r.Intn(3)
			fmt.Fprintf(&b, "beqz %s, L%d\n", regs[r.Intn(4)], lbl)
			for j := 0; j < k; j++ {
				if r.Intn(2) == 0 {
					fmt.Fprintf(&b, "lw %s, %d(zero)\n", regs[r.Intn(4)], 64*r.Intn(3))
				} else {
					fmt.Fprintf(&b, "sw %s, %d(zero)\n", regs[r.Intn(4)], 64*r.Intn(3))
				}
			}
			fmt.Fprintf(&b, "L%d:\n", lbl)
			lbl++
		}
	}
	b.WriteString(strings.Repeat("nop\n", 6) + "ret")
	return b.String()
}

func TestFuzzPanics(t *testing.T) {
	r := rand.New(rand.NewSource(1))
	seen := map[string]string{}
	deadline := time.Now().Add(40 * time.Second)
	iters := 0
	for time.Now().Before(deadline) {
		iters++
		src := genProg(r)
		for _, mk := range []func() (string, vm){
			func() (string, vm) { n := 2 + r.Intn(3); return fmt.Sprintf("7_0/%d", n), mvp7_0.NewCPU(false, 256, n) },
			func() (string, vm) { n := 2 + r.Intn(3); return fmt.Sprintf("7_1/%d", n), mvp7_1.NewCPU(false, 256, n) },
			func() (string, vm) { n := 2 + r.Intn(3); return fmt.Sprintf("8_0/%d", n), mvp8_0.NewCPU(false, 256, n) },
		} {
			name, v := mk()
			app, err := risc.Parse(src)
			if err != nil {
				t.Fatal(err)
			}
			done := make(chan any, 1)
			go func() {
				defer func() { done <- recover() }()
				v.Run(app)
			}()
			select {
			case p := <-done:
				if p != nil {
					key := fmt.Sprint(p)
					if len(key) > 60 {
						key = key[:60]
					}
					if _, ok := seen[key]; !ok {
						seen[key] = name + "\n" + src
					}
				}
			case <-time.After(2 * time.Second):
				if _, ok := seen["HANG"]; !ok {
					seen["HANG"] = name + "\n" + src
				}
			}
		}
	}
	t.Logf("iters=%d", iters)
	for k, v := range seen {
		t.Logf("=== %s\n%s", k, v)
	}
}
