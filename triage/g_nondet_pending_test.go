package tri

import (
	"fmt"
	"testing"
	"time"

	mvp6_0 "github.com/teivah/majorana/proc/mvp6-0"
	mvp6_3 "github.com/teivah/majorana/proc/mvp6-3"
	"github.com/teivah/majorana/risc"
)

func TestNondetPendingRange(t *testing.T) {
	src := "li t1, 7\nsw t1, 0(zero)\nnop\nnop\nnop\nlw t0, 0(zero)\nadd t2, t0, zero\n" +
		"nop\nnop\nnop\nnop\nnop\nbeqz zero, end\nnop\nend:\nnop\nnop\nret"
	for _, name := range []string{"6_0", "6_3"} {
		seen := map[string]int{}
		for i := 0; i < 24; i++ {
			app, _ := risc.Parse(src)
			var v vm
			if name == "6_0" {
				v = mvp6_0.NewCPU(false, 256, 2, 2)
			} else {
				v = mvp6_3.NewCPU(false, 256, 2, 2)
			}
			done := make(chan string, 1)
			go func() {
				c, err := v.Run(app)
				r := v.Context().Registers
				_, has := r[risc.T0]
				done <- fmt.Sprintf("cycles=%d err=%v T0=%d(has=%v) T2=%d mem0=%d", c, err, r[risc.T0], has, r[risc.T2], v.Context().Memory[0])
			}()
			select {
			case s := <-done:
				seen[s]++
			case <-time.After(500 * time.Millisecond):
				seen["HANG"]++
			}
		}
		t.Logf("%s outcomes: %v", name, seen)
	}
}
