module tri

go 1.22.1

require github.com/teivah/majorana v0.0.0
require github.com/stretchr/testify v1.9.0

replace github.com/teivah/majorana => /repo
