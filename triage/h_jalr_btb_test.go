package tri

import (
	"testing"

	mvp5 "github.com/teivah/majorana/proc/mvp5"
	mvp6_0 "github.com/teivah/majorana/proc/mvp6-0"
	mvp6_3 "github.com/teivah/majorana/proc/mvp6-3"
	mvp7_0 "github.com/teivah/majorana/proc/mvp7-0"
	"github.com/teivah/majorana/risc"
)

// A "function" at label f returns through jalr zero, a1, 0. It is called twice with
// different return addresses in a1, so the same jalr pc has two different targets.
func TestJalrBTB(t *testing.T) {
	src := `li a1, 12
j f
nop
li t0, 1
li a1, 28
j f
nop
li t1, 2
nop
ret
f:
addi t2, t2, 1
jalr zero, a1, 0
nop
nop
`
	// pcs: 0 li a1,12 ; 4 j f ; 8 nop ; 12 li t0,1 ; 16 li a1,28 ; 20 j f ; 24 nop ; 28 li t1,2 ; 32 nop ; 36 ret ; f=40 addi ; 44 jalr
	ref(t, src, 64, nil)
	run(t, "mvp5", mvp5.NewCPU(false, 64), src, nil)
	run(t, "mvp6_0", mvp6_0.NewCPU(false, 64, 2, 2), src, nil)
	run(t, "mvp6_3", mvp6_3.NewCPU(false, 64, 2, 2), src, nil)
	run(t, "mvp7_0", mvp7_0.NewCPU(false, 64, 2), src, nil)
	_ = risc.Zero
}
