package tri

import (
	"runtime/debug"
	"testing"

	mvp7_0 "github.com/teivah/majorana/proc/mvp7-0"
	mvp8_0 "github.com/teivah/majorana/proc/mvp8-0"
	"github.com/teivah/majorana/risc"
)

const progReadNeg = `sw t2, 64(zero)
beqz t0, L1
L1:
addi t1, t0, 2
sw t3, 132(zero)
addi t2, t2, 2
lw t3, 68(zero)
lw t2, 64(zero)
beqz t3, L2
lw t3, 128(zero)
L2:
ret`

const progInvalid = `lw t1, 64(zero)
beqz t3, L2
sw t2, 64(zero)
L2:
lw t2, 68(zero)
lw t0, 64(zero)
beqz t2, L3
lw t0, 128(zero)
L3:
ret`

func TestStacks(t *testing.T) {
	for _, c := range []struct {
		name string
		v    vm
		src  string
	}{{"7.0/3", mvp7_0.NewCPU(false, 256, 3), progReadNeg}, {"8.0/3", mvp8_0.NewCPU(false, 256, 3), progInvalid}} {
		app, _ := risc.Parse(c.src)
		func() {
			defer func() {
				if p := recover(); p != nil {
					t.Logf("%s: panic %v\n%s", c.name, p, debug.Stack())
				}
			}()
			c.v.Run(app)
		}()
	}
}

// MVP-7.1, 3 cores: the execute unit's pre-step panics "invalid state" when it has to
// abandon a wrong-path instruction whose cache controller still has pending snoop messages.
const progInvalid71 = `lw t1, 64(zero)
beqz t1, L0
sw t2, 128(zero)
L0:
lw t1, 4(zero)
sw t3, 128(zero)
lw t0, 128(zero)
ret`
