package tri

import (
	"fmt"
	"math/rand"
	"strings"
	"testing"
	"time"

	mvp7_0 "github.com/teivah/majorana/proc/mvp7-0"
	mvp7_1 "github.com/teivah/majorana/proc/mvp7-1"
	mvp8_0 "github.com/teivah/majorana/proc/mvp8-0"
	"github.com/teivah/majorana/risc"
)

func mk(kind string, n int) vm {
	switch kind {
	case "7_0":
		return mvp7_0.NewCPU(false, 256, n)
	case "7_1":
		return mvp7_1.NewCPU(false, 256, n)
	}
	return mvp8_0.NewCPU(false, 256, n)
}

func outcome(kind string, n int, src string) string {
	app, err := risc.Parse(src)
	if err != nil {
		return "parse"
	}
	v := mk(kind, n)
	done := make(chan any, 1)
	go func() {
		defer func() { done <- recover() }()
		v.Run(app)
	}()
	select {
	case p := <-done:
		if p != nil {
			k := fmt.Sprint(p)
			if len(k) > 60 {
				k = k[:60]
			}
			return k
		}
		return "ok"
	case <-time.After(1500 * time.Millisecond):
		return "HANG"
	}
}

func minimise(kind string, n int, src, want string) string {
	lines := strings.Split(src, "\n")
	for changed := true; changed; {
		changed = false
		for i := 0; i < len(lines); i++ {
			if lines[i] == "ret" {
				continue
			}
			cand := append(append([]string{}, lines[:i]...), lines[i+1:]...)
			// stable: 3 of 3
			ok := true
			for k := 0; k < 3; k++ {
				if outcome(kind, n, strings.Join(cand, "\n")) != want {
					ok = false
					break
				}
			}
			if ok {
				lines = cand
				changed = true
				i--
			}
		}
	}
	return strings.Join(lines, "\n")
}

func TestMinimise(t *testing.T) {
	r := rand.New(rand.NewSource(1))
	found := map[string]bool{}
	deadline := time.Now().Add(150 * time.Second)
	for time.Now().Before(deadline) && len(found) < 3 {
		src := genProg(r)
		for _, kind := range []string{"7_0", "7_1", "8_0"} {
			n := 2 + r.Intn(3)
			o := outcome(kind, n, src)
			if o == "ok" || o == "parse" || found[o] {
				continue
			}
			// must be stable
			if outcome(kind, n, src) != o {
				continue
			}
			found[o] = true
			m := minimise(kind, n, src, o)
			t.Logf("=== %s on %s/%d cores, minimised:\n%s", o, kind, n, m)
			// does it depend on the variant / number of cores?
			for _, k2 := range []string{"7_0", "7_1", "8_0"} {
				for n2 := 1; n2 <= 4; n2++ {
					t.Logf("    %s/%d -> %s", k2, n2, outcome(k2, n2, m))
				}
			}
		}
	}
}
