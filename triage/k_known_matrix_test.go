package tri

// Matrix of demonstrations for the known findings: every program is run on every
// variant and parallelism and compared with the sequential reference (MVP-1).
// Run by hand (see README); prints one line per (finding, variant, parallelism).

import (
	"fmt"
	"reflect"
	"testing"
	"time"

	mvp1 "github.com/teivah/majorana/proc/mvp1"
	mvp2 "github.com/teivah/majorana/proc/mvp2"
	mvp3 "github.com/teivah/majorana/proc/mvp3"
	mvp4 "github.com/teivah/majorana/proc/mvp4"
	mvp5 "github.com/teivah/majorana/proc/mvp5"
	mvp6_0 "github.com/teivah/majorana/proc/mvp6-0"
	mvp6_1 "github.com/teivah/majorana/proc/mvp6-1"
	mvp6_2 "github.com/teivah/majorana/proc/mvp6-2"
	mvp6_3 "github.com/teivah/majorana/proc/mvp6-3"
	mvp7_0 "github.com/teivah/majorana/proc/mvp7-0"
	mvp7_1 "github.com/teivah/majorana/proc/mvp7-1"
	mvp8_0 "github.com/teivah/majorana/proc/mvp8-0"
	"github.com/teivah/majorana/risc"
)

var allVariants = []string{"mvp1", "mvp2", "mvp3", "mvp4", "mvp5", "mvp6-0", "mvp6-1", "mvp6-2", "mvp6-3", "mvp7-0", "mvp7-1", "mvp8-0"}

func mkVariant(name string, mem, par int) vm {
	switch name {
	case "mvp1":
		return mvp1.NewCPU(false, mem)
	case "mvp2":
		return mvp2.NewCPU(false, mem)
	case "mvp3":
		return mvp3.NewCPU(false, mem)
	case "mvp4":
		return mvp4.NewCPU(false, mem)
	case "mvp5":
		return mvp5.NewCPU(false, mem)
	case "mvp6-0":
		return mvp6_0.NewCPU(false, mem, par, par)
	case "mvp6-1":
		return mvp6_1.NewCPU(false, mem, par, par)
	case "mvp6-2":
		return mvp6_2.NewCPU(false, mem, par, par)
	case "mvp6-3":
		return mvp6_3.NewCPU(false, mem, par, par)
	case "mvp7-0":
		return mvp7_0.NewCPU(false, mem, par)
	case "mvp7-1":
		return mvp7_1.NewCPU(false, mem, par)
	case "mvp8-0":
		return mvp8_0.NewCPU(false, mem, par)
	}
	return nil
}

type result struct {
	regs map[risc.RegisterType]int32
	mem  []int8
	out  string // ok, hang, panic: ..., error: ...
}

func runOne(name string, memBytes, par int, src string, setup func(*risc.Context)) result {
	app, err := risc.Parse(src)
	if err != nil {
		return result{out: "parse: " + err.Error()}
	}
	v := mkVariant(name, memBytes, par)
	if setup != nil {
		setup(v.Context())
	}
	type rr struct {
		p   any
		err error
	}
	done := make(chan rr, 1)
	go func() {
		var e error
		defer func() { done <- rr{recover(), e} }()
		_, e = v.Run(app)
	}()
	select {
	case x := <-done:
		if x.p != nil {
			return result{out: fmt.Sprint("panic: ", x.p)}
		}
		if x.err != nil {
			return result{out: "error: " + x.err.Error()}
		}
		regs := map[risc.RegisterType]int32{}
		for k, val := range v.Context().Registers {
			if val != 0 {
				regs[k] = val
			}
		}
		return result{regs: regs, mem: append([]int8{}, v.Context().Memory...), out: "ok"}
	case <-time.After(3 * time.Second):
		return result{out: "hang"}
	}
}

type demo struct {
	finding string
	src     string
	mem     int
	setup   func(*risc.Context)
	only    []string // variants the finding is about (empty = all pipelined)
}

var demos = []demo{
	{finding: "R09.1 ret does not drain (sw; addi; ret)", src: "li t1, 7\nsw t1, 0(zero)\naddi t0, zero, 5\nret", mem: 64},
	{finding: "R09.1 ret does not drain (lw; ret)", src: "lw t0, 0(zero)\nret", mem: 64, setup: func(c *risc.Context) { c.Memory[0] = 9 }},
	{finding: "R03.4 flush kills older in-flight work (lw t0; beqz zero)", src: "lw t0, 0(zero)\nbeqz zero, end\nnop\nnop\nend:\nnop\nnop\nnop\nnop\nnop\nnop\nnop\nret", mem: 64, setup: func(c *risc.Context) { c.Memory[0] = 9 }},
	{finding: "R03.7 shadow store hits the cache (slow branch)", src: "lw t3, 64(zero)\nlw t0, 128(zero)\nbeqz t0, end\nsw t1, 64(zero)\nnop\nend:\nret", mem: 256, setup: func(c *risc.Context) { c.Registers[risc.T1] = 99 }},
	{finding: "R01.6 instructions after ret are decoded and executed", src: "li t0, 1\nnop\nnop\nnop\nret\naddi t2, zero, 5\nnop\nnop", mem: 64},
	{finding: "(dropped R03.9) jalr through the BTB — fails only because the instruction after ret executes (R01.6)", src: "li a1, 12\nj f\nnop\nli t0, 1\nli a1, 28\nj f\nnop\nli t1, 2\nnop\nret\nf:\naddi t2, t2, 1\njalr zero, a1, 0\nnop\nnop\n", mem: 64},
	{finding: "R03.10 flush of an instruction with pending snoop messages panics", src: progInvalid, mem: 256},
	{finding: "R07.4b read of a Modified line recorded in the read table", src: progReadNeg, mem: 256},
	{finding: "R04.8 forwarding with two writers in flight", src: "li t0, 1\nli t0, 2\nadd t1, t0, zero\nnop\nnop\nnop\nnop\nnop\nret", mem: 64},
	{finding: "R10.1 load overtakes older store", src: "lw t1, 64(zero)\nsw t1, 0(zero)\nlw t0, 0(zero)\nnop\nnop\nnop\nnop\nnop\nnop\nnop\nnop\nret", mem: 256, setup: func(c *risc.Context) { c.Memory[64] = 42 }},
	{finding: "R10.1b store then line fetch (sw; nops; lw)", src: "li t1, 7\nsw t1, 0(zero)\nnop\nnop\nnop\nlw t0, 0(zero)\nnop\nnop\nnop\nnop\nnop\nret", mem: 256},
	{finding: "R05.2 dirty victim lost on eviction (load+store to 18 lines)", src: evictProg(18), mem: 2048},
	{finding: "R05.3 overlapping unaligned lines", src: "li t1, 7\nlb t2, 100(zero)\nlb t2, 64(zero)\nsb t1, 110(zero)\nlb t2, 150(zero)\nlb t3, 110(zero)\nnop\nnop\nnop\nnop\nret", mem: 256},
}

func TestKnownMatrix(t *testing.T) {
	for _, d := range demos {
		ref := runOne("mvp1", d.mem, 1, d.src, d.setup)
		t.Logf("=== %s   reference: %s regs=%v", d.finding, ref.out, ref.regs)
		for _, name := range allVariants[2:] {
			pars := []int{1}
			if name >= "mvp6" {
				pars = []int{1, 2, 3, 4}
			}
			line := ""
			for _, p := range pars {
				r := runOne(name, d.mem, p, d.src, d.setup)
				verdict := "same"
				if r.out != "ok" {
					verdict = r.out
				} else if !reflect.DeepEqual(r.regs, ref.regs) {
					verdict = fmt.Sprintf("REGS %v", r.regs)
				} else if !reflect.DeepEqual(r.mem, ref.mem) {
					verdict = "MEM differs"
				}
				line += fmt.Sprintf(" [%d: %s]", p, verdict)
			}
			t.Logf("    %-7s%s", name, line)
		}
	}
}

func evictProg(n int) string {
	src := "li t1, 7\n"
	for i := 0; i < n; i++ {
		src += fmt.Sprintf("lw t2, %d(zero)\nsw t1, %d(zero)\n", i*64, i*64)
	}
	return src + "nop\nnop\nnop\nnop\nnop\nnop\nret"
}
