package tri

// Demonstration for the MVP-1/2 epilogue defect (repaired by a fix: commit): after falling off
// the end, `if Registers[Ra] != 0 { pc = Ra; Ra = 0; goto loop }` jumped to a label placed
// BEFORE `var pc int32`, so the program restarted at 0; a program that executes `jal ra, x`
// and then runs past its last instruction never returned.

import "testing"

func TestEpilogueHang(t *testing.T) {
	src := "jal ra, end\nend:\nnop"
	for _, name := range []string{"mvp1", "mvp2", "mvp3"} {
		r := runOne(name, 64, 1, src, nil)
		t.Logf("%s: %s %v", name, r.out, r.regs)
	}
}
