package tri

// Demonstration for the MVP-4/MVP-5 decode bound defect (repaired by a fix: commit): a taken
// branch to a label placed after the last instruction redirected the fetch unit to
// pc == 4*len(Instructions); the decode unit indexed app.Instructions without the bound test
// that MVP-6.0 and later have, and the run panicked with "index out of range".

import "testing"

func TestBranchToEndLabel(t *testing.T) {
	src := "beqz zero, end\nnop\nend:"
	for _, name := range allVariants {
		r := runOne(name, 64, 1, src, nil)
		t.Logf("%s: %s", name, r.out)
		if r.out != "ok" {
			t.Errorf("%s: %s", name, r.out)
		}
	}
}
