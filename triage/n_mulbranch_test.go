package tri

import (
	"testing"

	"github.com/teivah/majorana/risc"
)

// Demonstration for the forwarding-chain defect (repaired by a fix: commit): an instruction that
// is both the consumer of one forward (addi -> mv, register t0) and the producer of the next
// (mv -> bnez, register t1) had its single ForwardRegister field overwritten with the register it
// PRODUCES when the second forward was wired; the execute unit then installed the received value
// under the wrong register and the instruction read the stale t0 from the register file.
// `li t0,1; loop: addi t0,t0,-1; mv t1,t0; bnez t1,loop` ended with t0 = -1 on MVP-6.1 … 8.0.
func TestMulBranch(t *testing.T) {
	srcs := []string{
		"li t0, 2\nli t2, 1\nloop:\naddi t0, t0, -1\nmul t1, t0, t2\nbnez t1, loop",
		"li t0, 2\nli t2, 0\nloop:\naddi t0, t0, -1\nadd t1, t0, t2\nbnez t1, loop",
		"li t0, 2\nloop:\naddi t0, t0, -1\nmv t1, t0\nbnez t1, loop",
		"li t0, 2\nnop\nloop:\naddi t0, t0, -1\nmv t1, t0\nbnez t1, loop",
		"li t0, 2\nloop:\naddi t0, t0, -1\nnop\nmv t1, t0\nbnez t1, loop",
		"li t0, 2\nloop:\naddi t0, t0, -1\nmv t1, t0\nnop\nbnez t1, loop",
		"li t0, 3\nloop:\naddi t0, t0, -1\nmv t1, t0\nbnez t1, loop",
		"li t0, 1\nloop:\naddi t0, t0, -1\nmv t1, t0\nbnez t1, loop",
	}
	for si, src := range srcs {
		for _, name := range allVariants {
			for par := 1; par <= 3; par++ {
				r := runOne(name, 64, par, src, nil)
				if r.out != "ok" || r.regs[risc.T0] != 0 {
					t.Errorf("src %d %s par=%d: %s t0=%d t1=%d", si, name, par, r.out, r.regs[risc.T0], r.regs[risc.T1])
				}
			}
		}
	}
}
