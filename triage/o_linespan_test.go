package tri

// Demonstration for the known finding C07/R07.12 (MVP-7.0, 7.1, 8.0): the coherent data path
// selects ONE cache line per access from the first byte address; a word or halfword access that
// spans two 64-byte lines is well formed (MVP-1 … 6.3 run it) but panics here:
//   lw t0, 62(zero)                 -> "value presence should have been checked first"
//   li t1,7 ; sw t1, 62(zero)       -> "index out of range [64] with length 64"

import (
	"strings"
	"testing"
)

func TestLineSpanningAccess(t *testing.T) {
	srcs := []string{"lw t0, 62(zero)", "li t1, 7\nsw t1, 62(zero)", "lh t0, 63(zero)"}
	for _, src := range srcs {
		for _, name := range allVariants {
			for par := 1; par <= 3; par++ {
				r := runOne(name, 256, par, src, nil)
				coherent := strings.HasPrefix(name, "mvp7") || strings.HasPrefix(name, "mvp8")
				if coherent && !strings.HasPrefix(r.out, "panic") {
					t.Errorf("%s par=%d %q: expected the known panic, got %s", name, par, src, r.out)
				}
				if !coherent && r.out != "ok" {
					t.Errorf("%s par=%d %q: %s", name, par, src, r.out)
				}
			}
		}
	}
}
