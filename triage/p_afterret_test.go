package tri

import (
	"strings"
	"testing"
)

func TestAfterRet(t *testing.T) {
	for k := 0; k <= 8; k++ {
		src := strings.Repeat("nop\n", k) + "ret\naddi t2, zero, 5\nnop\nnop"
		line := ""
		for _, name := range allVariants[5:] {
			for _, p := range []int{2, 3} {
				r := runOne(name, 64, p, src, nil)
				if r.out != "ok" || len(r.regs) != 0 {
					line += " " + name + "/" + string(rune('0'+p))
				}
			}
		}
		t.Logf("k=%d: executes past ret on:%s", k, line)
	}
}
