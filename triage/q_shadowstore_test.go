package tri

import (
	"fmt"
	"math/rand"
	"strings"
	"testing"

	"github.com/teivah/majorana/risc"
)

// Programs whose ONLY stores are in the shadow of always-taken branches: memory must stay all zero.
func TestShadowStoreSearch(t *testing.T) {
	r := rand.New(rand.NewSource(7))
	found := map[string]string{}
	for iter := 0; iter < 400 && len(found) < 3; iter++ {
		var b strings.Builder
		n := 1 + r.Intn(3)
		for i := 0; i < n; i++ {
			for k := r.Intn(4); k > 0; k-- {
				switch r.Intn(3) {
				case 0:
					fmt.Fprintf(&b, "lw t3, %d(zero)\n", 64*r.Intn(3))
				case 1:
					b.WriteString("nop\n")
				case 2:
					fmt.Fprintf(&b, "addi t4, t4, 1\n")
				}
			}
			fmt.Fprintf(&b, "lw t0, %d(zero)\nbeqz t0, L%d\n", 64*(1+r.Intn(2)), i)
			for k := 1 + r.Intn(2); k > 0; k-- {
				fmt.Fprintf(&b, "sw t1, %d(zero)\n", 64*r.Intn(3))
			}
			fmt.Fprintf(&b, "L%d:\n", i)
		}
		b.WriteString("nop\nnop\nnop\nnop\nnop\nnop\nret")
		src := b.String()
		setup := func(c *risc.Context) { c.Registers[risc.T1] = 99 }
		for _, name := range []string{"mvp7-0", "mvp7-1", "mvp8-0"} {
			if _, ok := found[name]; ok {
				continue
			}
			for p := 2; p <= 4; p++ {
				res := runOne(name, 256, p, src, setup)
				if res.out != "ok" {
					continue
				}
				bad := false
				for _, m := range res.mem {
					if m != 0 {
						bad = true
					}
				}
				if bad {
					found[name] = fmt.Sprintf("%d cores:\n%s", p, src)
					break
				}
			}
		}
	}
	for k, v := range found {
		t.Logf("=== %s: a wrong-path store reached memory, %s", k, v)
	}
}
