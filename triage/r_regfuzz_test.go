package tri

// Exploration (not a check): register-only random programs (ALU ops, forward branches of every
// kind, counted backward loops, jal/jalr calls), every variant and parallelism 1..3 compared with
// MVP-1. Used to look for divergence classes that no static rule reports yet.

import (
	"fmt"
	"math/rand"
	"os"
	"sort"
	"strings"
	"testing"
	"time"

	"github.com/teivah/majorana/risc"
)

func genRegProg(r *rand.Rand) string {
	var b strings.Builder
	regs := []string{"t0", "t1", "t2", "t3", "t4"}
	rr := func() string { return regs[r.Intn(len(regs))] }
	lbl := 0
	alu := func() {
		switch r.Intn(12) {
		case 0:
			fmt.Fprintf(&b, "add %s, %s, %s\n", rr(), rr(), rr())
		case 1:
			fmt.Fprintf(&b, "sub %s, %s, %s\n", rr(), rr(), rr())
		case 2:
			fmt.Fprintf(&b, "addi %s, %s, %d\n", rr(), rr(), r.Intn(7)-3)
		case 3:
			fmt.Fprintf(&b, "mul %s, %s, %s\n", rr(), rr(), rr())
		case 4:
			fmt.Fprintf(&b, "mv %s, %s\n", rr(), rr())
		case 5:
			fmt.Fprintf(&b, "li %s, %d\n", rr(), r.Intn(9)-4)
		case 6:
			fmt.Fprintf(&b, "xor %s, %s, %s\n", rr(), rr(), rr())
		case 7:
			fmt.Fprintf(&b, "slt %s, %s, %s\n", rr(), rr(), rr())
		case 8:
			fmt.Fprintf(&b, "slli %s, %s, %d\n", rr(), rr(), r.Intn(4))
		case 9:
			fmt.Fprintf(&b, "andi %s, %s, %d\n", rr(), rr(), r.Intn(8))
		case 10:
			fmt.Fprintf(&b, "sltu %s, %s, %s\n", rr(), rr(), rr())
		case 11:
			fmt.Fprintf(&b, "nop\n")
		}
	}
	n := 4 + r.Intn(12)
	for i := 0; i < n; i++ {
		switch r.Intn(9) {
		default:
			alu()
		case 8:
			// call: jal links in t6, the callee returns with jalr
			fmt.Fprintf(&b, "jal t6, F%d\n", lbl)
			alu()
			fmt.Fprintf(&b, "j L%d\nF%d:\n", lbl, lbl)
			k := 1 + r.Intn(2)
			for j := 0; j < k; j++ {
				alu()
			}
			fmt.Fprintf(&b, "jalr zero, t6, 0\nL%d:\n", lbl)
			lbl++
		case 5:
			k := 1 + r.Intn(3)
			ops := []string{"beq %s, %s, L%d", "bne %s, %s, L%d", "blt %s, %s, L%d", "bge %s, %s, L%d", "bltu %s, %s, L%d", "bgeu %s, %s, L%d"}
			if r.Intn(3) == 0 {
				fmt.Fprintf(&b, []string{"beqz %s, L%d\n", "bnez %s, L%d\n"}[r.Intn(2)], rr(), lbl)
			} else {
				fmt.Fprintf(&b, ops[r.Intn(len(ops))]+"\n", rr(), rr(), lbl)
			}
			for j := 0; j < k; j++ {
				alu()
			}
			fmt.Fprintf(&b, "L%d:\n", lbl)
			lbl++
		case 6:
			// counted loop on a dedicated register
			fmt.Fprintf(&b, "li t5, %d\nL%d:\n", 1+r.Intn(3), lbl)
			k := 1 + r.Intn(3)
			for j := 0; j < k; j++ {
				alu()
			}
			fmt.Fprintf(&b, "addi t5, t5, -1\nbnez t5, L%d\n", lbl)
			lbl++
		case 7:
			fmt.Fprintf(&b, "j L%d\n", lbl)
			alu()
			fmt.Fprintf(&b, "L%d:\n", lbl)
			lbl++
		}
	}
	if r.Intn(2) == 0 {
		b.WriteString(strings.Repeat("nop\n", 6) + "ret")
	}
	return strings.TrimRight(b.String(), "\n")
}

func TestRegFuzz(t *testing.T) {
	secs := 30
	if s := os.Getenv("FUZZ_SECS"); s != "" {
		fmt.Sscan(s, &secs)
	}
	seed := int64(7)
	if s := os.Getenv("FUZZ_SEED"); s != "" {
		fmt.Sscan(s, &seed)
	}
	r := rand.New(rand.NewSource(seed))
	type div struct{ src, detail string }
	classes := map[string]div{}
	count := map[string]int{}
	deadline := time.Now().Add(time.Duration(secs) * time.Second)
	iters := 0
	for time.Now().Before(deadline) {
		iters++
		src := genRegProg(r)
		ref := runOne("mvp1", 64, 1, src, nil)
		if ref.out != "ok" {
			continue
		}
		for _, name := range allVariants[1:] {
			for par := 1; par <= 3; par++ {
				if par > 1 && !strings.HasPrefix(name, "mvp6") && !strings.HasPrefix(name, "mvp7") && !strings.HasPrefix(name, "mvp8") {
					continue
				}
				got := runOne(name, 64, par, src, nil)
				bad := got.out != "ok"
				detail := got.out
				if !bad {
					for _, k := range []risc.RegisterType{risc.T0, risc.T1, risc.T2, risc.T3, risc.T4, risc.T5} {
						if got.regs[k] != ref.regs[k] {
							bad = true
							detail = fmt.Sprintf("%v: %d want %d", k, got.regs[k], ref.regs[k])
							break
						}
					}
				}
				if bad {
					key := name
					if got.out != "ok" {
						key += " " + got.out
					}
					count[key]++
					if d, ok := classes[key]; !ok || len(src) < len(d.src) {
						classes[key] = div{src, fmt.Sprintf("par=%d %s", par, detail)}
					}
				}
			}
		}
	}
	t.Logf("iters=%d", iters)
	var keys []string
	for k := range classes {
		keys = append(keys, k)
	}
	sort.Strings(keys)
	for _, k := range keys {
		t.Logf("=== %s (%d) %s\n%s", k, count[k], classes[k].detail, classes[k].src)
	}
}
