package tri

// Exploration (not a check): (A) programs with word loads AND stores at line-aligned addresses
// (no eviction, no unaligned first touch) on the in-order variants MVP-2..5; (B) programs with
// loads only (memory preset) on every variant and parallelism 1..3. Compared with MVP-1.

import (
	"fmt"
	"math/rand"
	"os"
	"sort"
	"strings"
	"testing"
	"time"

	"github.com/teivah/majorana/risc"
)

func genMemProg(r *rand.Rand, stores bool) string {
	var b strings.Builder
	regs := []string{"t0", "t1", "t2", "t3"}
	rr := func() string { return regs[r.Intn(len(regs))] }
	addr := func() int { return 64*r.Intn(4) + 4*r.Intn(3) }
	lbl := 0
	op := func() {
		switch r.Intn(8) {
		case 0, 1:
			fmt.Fprintf(&b, "lw %s, %d(zero)\n", rr(), addr())
		case 2:
			if stores {
				fmt.Fprintf(&b, "sw %s, %d(zero)\n", rr(), addr())
			} else {
				fmt.Fprintf(&b, "lb %s, %d(zero)\n", rr(), addr())
			}
		case 3:
			fmt.Fprintf(&b, "addi %s, %s, %d\n", rr(), rr(), r.Intn(5)-2)
		case 4:
			fmt.Fprintf(&b, "add %s, %s, %s\n", rr(), rr(), rr())
		case 5:
			fmt.Fprintf(&b, "mv %s, %s\n", rr(), rr())
		case 6:
			fmt.Fprintf(&b, "li %s, %d\n", rr(), r.Intn(7)-3)
		case 7:
			fmt.Fprintf(&b, "nop\n")
		}
	}
	n := 4 + r.Intn(12)
	for i := 0; i < n; i++ {
		switch r.Intn(7) {
		default:
			op()
		case 5:
			k := 1 + r.Intn(3)
			fmt.Fprintf(&b, []string{"beqz %s, L%d\n", "bnez %s, L%d\n"}[r.Intn(2)], rr(), lbl)
			for j := 0; j < k; j++ {
				op()
			}
			fmt.Fprintf(&b, "L%d:\n", lbl)
			lbl++
		case 6:
			fmt.Fprintf(&b, "li t5, %d\nL%d:\n", 1+r.Intn(3), lbl)
			k := 1 + r.Intn(3)
			for j := 0; j < k; j++ {
				op()
			}
			fmt.Fprintf(&b, "addi t5, t5, -1\nbnez t5, L%d\n", lbl)
			lbl++
		}
	}
	if r.Intn(2) == 0 {
		b.WriteString(strings.Repeat("nop\n", 6) + "ret")
	}
	return strings.TrimRight(b.String(), "\n")
}

func TestMemFuzz(t *testing.T) {
	secs := 30
	if s := os.Getenv("FUZZ_SECS"); s != "" {
		fmt.Sscan(s, &secs)
	}
	seed := int64(11)
	if s := os.Getenv("FUZZ_SEED"); s != "" {
		fmt.Sscan(s, &seed)
	}
	r := rand.New(rand.NewSource(seed))
	type div struct{ src, detail string }
	classes := map[string]div{}
	count := map[string]int{}
	setup := func(c *risc.Context) {
		for i := range c.Memory {
			c.Memory[i] = int8(i%7 - 3)
		}
	}
	deadline := time.Now().Add(time.Duration(secs) * time.Second)
	iters := 0
	for time.Now().Before(deadline) {
		iters++
		stores := iters%2 == 0
		src := genMemProg(r, stores)
		ref := runOne("mvp1", 512, 1, src, setup)
		if ref.out != "ok" {
			continue
		}
		names := allVariants[1:]
		if stores {
			names = []string{"mvp2", "mvp3", "mvp4", "mvp5"}
		}
		for _, name := range names {
			for par := 1; par <= 3; par++ {
				if par > 1 && !strings.HasPrefix(name, "mvp6") && !strings.HasPrefix(name, "mvp7") && !strings.HasPrefix(name, "mvp8") {
					continue
				}
				got := runOne(name, 512, par, src, setup)
				bad := got.out != "ok"
				detail := got.out
				if !bad {
					for _, k := range []risc.RegisterType{risc.T0, risc.T1, risc.T2, risc.T3, risc.T5} {
						if got.regs[k] != ref.regs[k] {
							bad = true
							detail = fmt.Sprintf("%v: %d want %d", k, got.regs[k], ref.regs[k])
							break
						}
					}
					if !bad {
						for i := range ref.mem {
							if ref.mem[i] != got.mem[i] {
								bad = true
								detail = fmt.Sprintf("mem[%d]: %d want %d", i, got.mem[i], ref.mem[i])
								break
							}
						}
					}
				}
				if bad {
					key := fmt.Sprintf("%s stores=%v", name, stores)
					if got.out != "ok" {
						key += " " + got.out
					}
					count[key]++
					if d, ok := classes[key]; !ok || len(src) < len(d.src) {
						classes[key] = div{src, fmt.Sprintf("par=%d %s", par, detail)}
					}
				}
			}
		}
	}
	t.Logf("iters=%d", iters)
	var keys []string
	for k := range classes {
		keys = append(keys, k)
	}
	sort.Strings(keys)
	for _, k := range keys {
		t.Logf("=== %s (%d) %s\n%s", k, count[k], classes[k].detail, classes[k].src)
	}
}
