package tri

// Exploration (not a check): straight-line programs (no branches) with word/byte stores to lines
// that are never loaded and loads from other lines, all at line-aligned addresses (so that the
// known classes R03.7, R10.1, R05.3 cannot apply): every variant, 1..3 units, registers and final
// memory compared with MVP-1.

import (
	"fmt"
	"math/rand"
	"os"
	"sort"
	"strings"
	"testing"
	"time"

	"github.com/teivah/majorana/risc"
)

func genStoreProg(r *rand.Rand) string {
	var b strings.Builder
	regs := []string{"t0", "t1", "t2", "t3"}
	rr := func() string { return regs[r.Intn(len(regs))] }
	n := 4 + r.Intn(14)
	for i := 0; i < n; i++ {
		switch r.Intn(9) {
		case 0, 1:
			fmt.Fprintf(&b, "sw %s, %d(zero)\n", rr(), 64*r.Intn(4))
		case 2:
			fmt.Fprintf(&b, "sb %s, %d(zero)\n", rr(), 64*r.Intn(4))
		case 3:
			fmt.Fprintf(&b, "lw %s, %d(zero)\n", rr(), 256+64*r.Intn(4))
		case 4:
			fmt.Fprintf(&b, "addi %s, %s, %d\n", rr(), rr(), r.Intn(7)-3)
		case 5:
			fmt.Fprintf(&b, "add %s, %s, %s\n", rr(), rr(), rr())
		case 6:
			fmt.Fprintf(&b, "li %s, %d\n", rr(), r.Intn(100)-50)
		case 7:
			fmt.Fprintf(&b, "mv %s, %s\n", rr(), rr())
		case 8:
			fmt.Fprintf(&b, "nop\n")
		}
	}
	if r.Intn(2) == 0 {
		b.WriteString(strings.Repeat("nop\n", 6) + "ret")
	}
	return strings.TrimRight(b.String(), "\n")
}

func TestStoreFuzz(t *testing.T) {
	secs := 30
	if s := os.Getenv("FUZZ_SECS"); s != "" {
		fmt.Sscan(s, &secs)
	}
	r := rand.New(rand.NewSource(23))
	type div struct{ src, detail string }
	classes := map[string]div{}
	count := map[string]int{}
	setup := func(c *risc.Context) {
		for i := range c.Memory {
			c.Memory[i] = int8(i%7 - 3)
		}
	}
	deadline := time.Now().Add(time.Duration(secs) * time.Second)
	iters := 0
	for time.Now().Before(deadline) {
		iters++
		src := genStoreProg(r)
		ref := runOne("mvp1", 1024, 1, src, setup)
		if ref.out != "ok" {
			continue
		}
		for _, name := range allVariants[1:] {
			for par := 1; par <= 3; par++ {
				if par > 1 && !strings.HasPrefix(name, "mvp6") && !strings.HasPrefix(name, "mvp7") && !strings.HasPrefix(name, "mvp8") {
					continue
				}
				got := runOne(name, 1024, par, src, setup)
				bad := got.out != "ok"
				detail := got.out
				if !bad {
					for _, k := range []risc.RegisterType{risc.T0, risc.T1, risc.T2, risc.T3} {
						if got.regs[k] != ref.regs[k] {
							bad = true
							detail = fmt.Sprintf("%v: %d want %d", k, got.regs[k], ref.regs[k])
							break
						}
					}
					if !bad {
						for i := range ref.mem {
							if ref.mem[i] != got.mem[i] {
								bad = true
								detail = fmt.Sprintf("mem[%d]: %d want %d", i, got.mem[i], ref.mem[i])
								break
							}
						}
					}
				}
				if bad {
					key := name
					if got.out != "ok" {
						key += " " + got.out
					}
					count[key]++
					if d, ok := classes[key]; !ok || len(src) < len(d.src) {
						classes[key] = div{src, fmt.Sprintf("par=%d %s", par, detail)}
					}
				}
			}
		}
	}
	t.Logf("iters=%d", iters)
	var keys []string
	for k := range classes {
		keys = append(keys, k)
	}
	sort.Strings(keys)
	for _, k := range keys {
		t.Logf("=== %s (%d) %s\n%s", k, count[k], classes[k].detail, classes[k].src)
	}
}
