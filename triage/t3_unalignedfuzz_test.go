package tri

// Exploration (not a check): loads-only programs with unaligned and line-spanning addresses on
// MVP-2 … 6.3 (the coherent variants are excluded: known finding R07.12), compared with MVP-1.
// Found the pending-fetch key defect (R07.18).

import (
	"fmt"
	"math/rand"
	"strings"
	"testing"
	"time"

	"github.com/teivah/majorana/risc"
)

func TestStraddleFuzz(t *testing.T) {
	r := rand.New(rand.NewSource(5))
	setup := func(c *risc.Context) {
		for i := range c.Memory {
			c.Memory[i] = int8(i%7 - 3)
		}
	}
	seen := map[string]string{}
	cnt := map[string]int{}
	deadline := time.Now().Add(40 * time.Second)
	iters := 0
	for time.Now().Before(deadline) {
		iters++
		var b strings.Builder
		n := 2 + r.Intn(6)
		for i := 0; i < n; i++ {
			reg := []string{"t0", "t1", "t2"}[r.Intn(3)]
			off := []int{0, 4, 60, 61, 62, 63, 64}[r.Intn(7)]
			op := []string{"lw", "lb", "lh"}[r.Intn(3)]
			fmt.Fprintf(&b, "%s %s, %d(zero)\n", op, reg, 64*r.Intn(3)+off)
		}
		src := strings.TrimRight(b.String(), "\n")
		ref := runOne("mvp1", 512, 1, src, setup)
		if ref.out != "ok" {
			continue
		}
		for _, name := range []string{"mvp2", "mvp3", "mvp4", "mvp5", "mvp6-0", "mvp6-1", "mvp6-2", "mvp6-3"} {
			for par := 1; par <= 3; par++ {
				if par > 1 && !strings.HasPrefix(name, "mvp6") {
					continue
				}
				got := runOne(name, 512, par, src, setup)
				bad := got.out != "ok"
				if !bad {
					for _, k := range []risc.RegisterType{risc.T0, risc.T1, risc.T2} {
						if got.regs[k] != ref.regs[k] {
							bad = true
						}
					}
				}
				if bad {
					key := name + " " + got.out
					cnt[key]++
					if old, ok := seen[key]; !ok || len(src) < len(old) {
						seen[key] = src
					}
				}
			}
		}
	}
	t.Logf("iters=%d", iters)
	for k, v := range seen {
		t.Logf("=== %s (%d)\n%s", k, cnt[k], v)
	}
}
