package tri

import (
	"fmt"
	"strings"
	"testing"

	"github.com/teivah/majorana/risc"
)

func TestNondetSearch(t *testing.T) {
	for _, name := range []string{"mvp6-3", "mvp7-0", "mvp7-1", "mvp8-0"} {
		for k := 0; k <= 5; k++ {
			for p := 2; p <= 4; p++ {
				src := strings.Repeat("nop\n", k) + "li t0, 1\nli t0, 2\nadd t1, t0, zero\nnop\nnop\nnop\nnop\nret"
				seen := map[string]int{}
				for i := 0; i < 60; i++ {
					r := runOne(name, 64, p, src, nil)
					seen[fmt.Sprintf("%s T0=%d T1=%d", r.out, r.regs[risc.T0], r.regs[risc.T1])]++
				}
				if len(seen) > 1 {
					t.Logf("VARIATION %s/%d k=%d: %v", name, p, k, seen)
				}
			}
		}
	}
}
