package tri

// Demonstration for the out-of-order WAW defect of the rename table (repaired by a fix: commit):
// the transaction RAT kept the values of a register in COMPLETION order and treated the last
// written one as the newest. With two or more execute units a slow older writer (a load that
// misses) completes after a younger fast writer of the same register; the final commit and every
// later tag-bounded read then used the OLDER instruction's value.
//   lw t2, 196(zero) ; addi t2, t3, -1      ended with t2 = mem[196] on MVP-6.3 … 8.0 (2+ units)

import (
	"testing"

	"github.com/teivah/majorana/risc"
)

func TestWawOutOfOrderCompletion(t *testing.T) {
	srcs := []string{
		"lw t2, 196(zero)\naddi t2, t3, -1",
		"lw t2, 196(zero)\naddi t2, t3, -1\nnop\nnop\nnop\nnop\nnop\nnop\nret",
		"lw t2, 196(zero)\nli t2, 5\nadd t1, t2, zero",
		"lw t2, 196(zero)\nli t2, 5\nnop\nnop\nnop\nadd t1, t2, zero",
	}
	setup := func(c *risc.Context) { c.Memory[196] = 77 }
	for si, src := range srcs {
		ref := runOne("mvp1", 512, 1, src, setup)
		for _, name := range allVariants[1:] {
			for par := 1; par <= 3; par++ {
				r := runOne(name, 512, par, src, setup)
				if r.out != "ok" || r.regs[risc.T2] != ref.regs[risc.T2] || r.regs[risc.T1] != ref.regs[risc.T1] {
					t.Errorf("src %d %s par=%d: %s t2=%d (want %d) t1=%d (want %d)", si, name, par, r.out, r.regs[risc.T2], ref.regs[risc.T2], r.regs[risc.T1], ref.regs[risc.T1])
				}
			}
		}
	}
}
