package tri

// Demonstration for the stale forwarding window (repaired by a fix: commit): the control unit of
// MVP-7.1 and MVP-8.0 returns early from its step while the MSI state copy is refreshed, and did
// so without rotating the set of instructions "pushed in the previous cycle". The next step then
// wired a forward to a producer that had ALREADY executed; the consumer waited for ever:
// this loads-only program never returned on MVP-8.0 with 2 cores.

import "testing"

func TestStaleForwardWindow(t *testing.T) {
	src := "lb t3, 72(zero)\nadd t3, t0, t0\nlw t0, 132(zero)\nlw t1, 128(zero)\nnop\nlb t0, 0(zero)\nli t5, 3\nL0:\naddi t5, t5, -1\nbnez t5, L0"
	for _, name := range []string{"mvp7-0", "mvp7-1", "mvp8-0"} {
		for par := 1; par <= 4; par++ {
			r := runOne(name, 512, par, src, nil)
			if r.out != "ok" {
				t.Errorf("%s par=%d: %s", name, par, r.out)
			}
		}
	}
}
