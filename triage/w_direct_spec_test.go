package tri

// Demonstration for the known finding C03/R03.15 (MVP-6.1, 3+ execute units): results are written
// to the register file directly, and an instruction is dispatched while an older conditional branch
// that was dispatched with a forwarded operand still waits for it in its execute unit. The shadow
// `mv t0, t3` of the taken branch completes and is written before the branch resolves:
//   li t3,-2 ; lb t2,200(zero) ; bnez t2,L1 ; mv t0,t3 ; L1:      ends with t0 = -2 (mem[200] != 0)
// Holding dispatch while a conditional branch is unresolved repairs it but changes every pinned
// MVP-6.1 cycle count, so it is recorded, not repaired.

import (
	"testing"

	"github.com/teivah/majorana/risc"
)

func TestDirectWritesPastUnresolvedBranch(t *testing.T) {
	src := "li t3, -2\nlb t2, 200(zero)\nbnez t2, L1\nmv t0, t3\nL1:"
	setup := func(c *risc.Context) { c.Memory[200] = 1 }
	for _, name := range allVariants {
		for par := 1; par <= 4; par++ {
			r := runOne(name, 512, par, src, setup)
			known := name == "mvp6-1" && par >= 3
			if known && (r.out != "ok" || r.regs[risc.T0] != -2) {
				t.Errorf("%s par=%d: expected the known wrong-path write t0=-2, got %s t0=%d", name, par, r.out, r.regs[risc.T0])
			}
			if !known && (r.out != "ok" || r.regs[risc.T0] != 0) {
				t.Errorf("%s par=%d: %s t0=%d", name, par, r.out, r.regs[risc.T0])
			}
		}
	}
}
