package tri

// Demonstration for the known finding C03/R03.16 (MVP-6.2 … 8.0, 3+ execute units): a conditional
// branch in the SHADOW of an older, still unresolved conditional branch resolves first and commits
// the whole speculative register state, wrong-path writes included; the later rollback of the older
// branch cannot undo it.
//   li t1,2 ; lw t2,128(zero) ; bnez t2,L1 ; li t1,-1 ; mv t1,t3 ; L1: beqz t1,L2 ; nop ; L2:
// with mem[128] != 0 must end with t1 = 2; MVP-6.2 ends with -1 and MVP-6.3 … 8.0 with 0.
// Holding a conditional branch while an older one is unresolved repairs MVP-6.3 … 8.0 but changes
// pinned cycle counts, so it is recorded, not repaired.

import (
	"strings"
	"testing"

	"github.com/teivah/majorana/risc"
)

func TestNestedConditionalBranches(t *testing.T) {
	src := "li t1, 2\nlw t2, 128(zero)\nbnez t2, L1\nli t1, -1\nmv t1, t3\nL1:\nbeqz t1, L2\nnop\nL2:"
	setup := func(c *risc.Context) { c.Memory[128] = 1 }
	for _, name := range allVariants {
		for par := 1; par <= 4; par++ {
			r := runOne(name, 512, par, src, setup)
			known := par >= 3 && (name == "mvp6-1" || name == "mvp6-2" || name == "mvp6-3" || strings.HasPrefix(name, "mvp7") || strings.HasPrefix(name, "mvp8"))
			if known && (r.out != "ok" || r.regs[risc.T1] == 2) {
				t.Errorf("%s par=%d: expected the known wrong-path value, got %s t1=%d", name, par, r.out, r.regs[risc.T1])
			}
			if !known && (r.out != "ok" || r.regs[risc.T1] != 2) {
				t.Errorf("%s par=%d: %s t1=%d", name, par, r.out, r.regs[risc.T1])
			}
		}
	}
}
