package tri

// Demonstration for the L3 line lock leaked by a flush (repaired by a fix: commit): on MVP-8.0 a
// read that misses L3 takes the L3 line mutex and releases it one L3 access later, in a later
// coroutine step. A pipeline flush in between reset the coroutine and never released the mutex;
// the next access to that line spun on TryLock for ever:
//   lw t0,0(zero) ; bnez t0,L0 ; add t1,t3,t2 ; L0: lb t2,128(zero)      (mem[0] != 0, 3 cores)
// The wrong-path copy of `lb t2,128(zero)` is in flight when the branch resolves.

import (
	"testing"

	"github.com/teivah/majorana/risc"
)

func TestL3LockReleasedByFlush(t *testing.T) {
	src := "lw t0, 0(zero)\nbnez t0, L0\nadd t1, t3, t2\nL0:\nlb t2, 128(zero)"
	setup := func(c *risc.Context) { c.Memory[0] = 1 }
	for _, name := range allVariants {
		for par := 1; par <= 4; par++ {
			if r := runOne(name, 512, par, src, setup); r.out != "ok" {
				t.Errorf("%s par=%d: %s", name, par, r.out)
			}
		}
	}
}
