package tri

// Demonstration for the single-slot transaction table of MVP-6.2 (repaired by a fix: commit): the
// table kept ONE uncommitted write per register. A wrong-path write replaced the correct-path
// uncommitted write of the same register; the rollback dropped the wrong-path entry and the
// correct-path value was lost:
//   li t1,2 ; lw t2,128(zero) ; bnez t2,L1 ; li t1,-1 ; L1: nop     ended with t1 = 0 (3+ units)
// MVP-6.1 fails the same program for the known reason R03.15 and is skipped here.

import (
	"testing"

	"github.com/teivah/majorana/risc"
)

func TestTransactionOverwrite(t *testing.T) {
	srcs := []string{
		"li t1, 2\nlw t2, 128(zero)\nbnez t2, L1\nli t1, -1\nL1:\nnop",
		"li t1, 2\nnop\nnop\nnop\nnop\nlw t2, 128(zero)\nbnez t2, L1\nli t1, -1\nnop\nnop\nL1:\nnop",
		"li t1, 2\nlw t2, 128(zero)\nbnez t2, L1\nli t1, -1\nli t3, 4\nL1:\nnop",
	}
	setup := func(c *risc.Context) { c.Memory[128] = 1 }
	for si, src := range srcs {
		for _, name := range allVariants {
			for par := 1; par <= 4; par++ {
				r := runOne(name, 512, par, src, setup)
				if name == "mvp6-1" {
					continue
				}
				if r.out != "ok" || r.regs[risc.T1] != 2 || r.regs[risc.T3] != 0 {
					t.Errorf("src %d %s par=%d: %s t1=%d t3=%d", si, name, par, r.out, r.regs[risc.T1], r.regs[risc.T3])
				}
			}
		}
	}
}
