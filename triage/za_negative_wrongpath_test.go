package tri

// Demonstration for the known finding C03/R03.17 (MVP-7.0, 7.1, 8.0): a load in the shadow of a
// taken branch is issued before the branch resolves; with a negative address the line is selected
// with a truncating remainder (-5 -> line 0), the byte is not in that line and the run panics
// "value presence should have been checked first", although the program is well formed (the load
// is never executed architecturally; MVP-1 … 6.3 run it).

import (
	"strings"
	"testing"

	"github.com/teivah/majorana/risc"
)

func TestNegativeAddressOnTheWrongPath(t *testing.T) {
	srcs := map[string]string{
		"mvp7-0": "li t1, -5\nlw t0, 0(zero)\nbnez t0, L\nlb t2, 0(t1)\nL:\nnop",
		"mvp7-1": "li t1, -5\nlw t0, 0(zero)\nbnez t0, L\nlb t2, 0(t1)\nL:\nnop",
		"mvp8-0": "li t1, -5\nlw t0, 128(zero)\nlw t0, 0(zero)\nbnez t0, L\nlw t2, 0(t1)\nL:\nnop",
	}
	setup := func(c *risc.Context) { c.Memory[0] = 1 }
	for name, src := range srcs {
		if r := runOne("mvp1", 512, 1, src, setup); r.out != "ok" {
			t.Fatalf("mvp1: %s", r.out)
		}
		r := runOne(name, 512, 3, src, setup)
		if !strings.HasPrefix(r.out, "panic") {
			t.Errorf("%s: expected the known panic, got %s", name, r.out)
		}
	}
}
