package tri

// Demonstration for the missing lower bound of the line fetch (repaired by a fix: commit): the
// line fetch and the line write-back guarded the memory image against addresses past its end but
// not against negative ones. A load in the shadow of a slow taken branch with a negative address
// panicked "index out of range [-5]" on MVP-6.1 … 6.3 with 4 units (the program is well formed:
// the load is never executed architecturally).

import (
	"strings"
	"testing"

	"github.com/teivah/majorana/risc"
)

func TestNegativeLineFetch(t *testing.T) {
	srcs := []string{
		"li t1, -5\nlw t3, 64(zero)\nlw t0, 0(t3)\nbnez t0, L\nlb t2, 0(t1)\nL:\nnop",
		"li t1, -200\nlw t3, 64(zero)\nlw t4, 128(t3)\nlw t0, 0(t4)\nbnez t0, L\nlw t2, 0(t1)\nL:\nnop",
	}
	setup := func(c *risc.Context) { c.Memory[0] = 1 }
	for _, src := range srcs {
		for _, name := range allVariants {
			if strings.HasPrefix(name, "mvp7") || strings.HasPrefix(name, "mvp8") {
				continue // known finding R03.17
			}
			for par := 1; par <= 4; par++ {
				if r := runOne(name, 512, par, src, setup); r.out != "ok" {
					t.Errorf("%s par=%d: %s", name, par, r.out)
				}
			}
		}
	}
}
