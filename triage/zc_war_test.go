package tri

// Demonstration for the write-after-read defect of MVP-6.3 and MVP-7.0 (repaired by a fix: commit):
// these variants rename registers, so a younger writer of a register may complete before an older
// reader executes, but their execute units read registers with the tag 0 ("latest value") instead
// of the reader's own sequence tag:
//   lw t1,0(zero) ; add t2,t0,t1 ; li t0,5       ended with t2 = 5 + mem[0] (3+ units)

import (
	"testing"

	"github.com/teivah/majorana/risc"
)

func TestWriteAfterRead(t *testing.T) {
	srcs := []string{
		"lw t1, 0(zero)\nadd t2, t0, t1\nli t0, 5",
		"lw t1, 0(zero)\nadd t2, t0, t1\nli t0, 5\nbnez zero, L\nnop\nL:\nnop",
		"lw t1, 0(zero)\nsw t0, 64(t1)\nli t0, 5",
	}
	setup := func(c *risc.Context) { c.Memory[0] = 1 }
	for si, src := range srcs {
		ref := runOne("mvp1", 512, 1, src, setup)
		for _, name := range allVariants {
			for par := 1; par <= 4; par++ {
				r := runOne(name, 512, par, src, setup)
				if r.out != "ok" || r.regs[risc.T2] != ref.regs[risc.T2] || r.mem[65] != ref.mem[65] {
					t.Errorf("src %d %s par=%d: %s t2=%d want %d mem[65]=%d want %d", si, name, par, r.out, r.regs[risc.T2], ref.regs[risc.T2], r.mem[65], ref.mem[65])
				}
			}
		}
	}
}
