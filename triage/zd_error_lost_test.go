package tri

// Demonstration for the error lost in the final drain (repaired by a fix: commit): on MVP-7.0, 7.1
// and 8.0 the drain that follows the main loop steps the execute units and discards the result, so
// an ISA-defined error raised there (here: division by zero) is replaced by a normal return:
//   lw t0,0(zero) ; div t1,zero,t0 ; ret          with mem[0] = 0, 3+ cores

import (
	"strings"
	"testing"
)

func TestErrorInTheFinalDrain(t *testing.T) {
	srcs := []string{"lw t0, 0(zero)\ndiv t1, zero, t0\nret", "lw t0, 0(zero)\ndiv t1, zero, t0"}
	for _, src := range srcs {
		for _, name := range allVariants {
			for par := 1; par <= 4; par++ {
				r := runOne(name, 512, par, src, nil)
				if !strings.HasPrefix(r.out, "error") {
					t.Errorf("%s par=%d %q: %s", name, par, src, r.out)
				}
			}
		}
	}
}
