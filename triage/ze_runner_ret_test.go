package tri

// Demonstration for the reference runner ignoring ret (repaired by a fix: commit): risc.Runner
// applied an execution with Return set like any other and went on with the next instruction, while
// all twelve variants end the run:    li t0,1 ; ret ; li t0,2     ended with t0 = 2 under risc.Runner.

import (
	"testing"

	"github.com/teivah/majorana/risc"
)

func TestRunnerStopsAtRet(t *testing.T) {
	src := "li t0, 1\nret\nli t0, 2"
	app, err := risc.Parse(src)
	if err != nil {
		t.Fatal(err)
	}
	rn := risc.NewRunner(app, 64)
	if err := rn.Run(); err != nil {
		t.Fatal(err)
	}
	if got := rn.Ctx.Registers[risc.T0]; got != 1 {
		t.Errorf("risc.Runner: t0 = %d, want 1", got)
	}
	for _, name := range allVariants {
		if r := runOne(name, 64, 2, src, nil); r.out != "ok" || r.regs[risc.T0] != 1 {
			t.Errorf("%s: %s t0=%d", name, r.out, r.regs[risc.T0])
		}
	}
}
