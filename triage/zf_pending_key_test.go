package tri

// Demonstration for the pending-fetch key defect of MVP-6.0 … 6.3 (repaired by a fix: commit): the
// L3 probe registers a pending line fetch under the first MISSING byte of an access, while the
// execute unit completes the fetch (and removes the entry) under the FIRST byte. For an access whose
// leading bytes are resident the two differ, the entry stays for ever and a later load in its range
// never returns. Loads only, any number of units:
//   lh t1,0(zero) ; lw t0,61(zero) ; lw t1,60(zero) ; lh t0,126(zero)

import "testing"

func TestPendingFetchKey(t *testing.T) {
	src := "lh t1, 0(zero)\nlw t0, 61(zero)\nlw t1, 60(zero)\nlh t0, 126(zero)"
	for _, name := range []string{"mvp3", "mvp4", "mvp5", "mvp6-0", "mvp6-1", "mvp6-2", "mvp6-3"} {
		for par := 1; par <= 3; par++ {
			if r := runOne(name, 512, par, src, nil); r.out != "ok" {
				t.Errorf("%s par=%d: %s", name, par, r.out)
			}
		}
	}
}
