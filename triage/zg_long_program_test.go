package tri

// Demonstration for the program-order tag defect (repaired by a fix: commit; rule R03.29/R04.19):
// the tag of an in-flight instruction was `pc + epoch*1000` (risc.Context.SequenceID), the epoch
// being bumped at every redirect of the fetch unit. The stride is a constant, the pc was not
// bounded by it: in a long program an instruction fetched AFTER a backward jump (younger, new
// epoch, small pc) got a SMALLER tag than an older in-flight instruction of the previous epoch
// with a large pc. Everything that orders by tag — the rename table, the write-unit filter, the
// rollback of a branch — then took the younger for the older.
//
// The program: jump over a pad of nops to `far`; there a slow load is followed by a write of t1
// that depends on it and a jump back to `near`, where a younger instruction writes t1 again.
// Sequentially t1 = 2. Before the repair MVP-6.3, 7.0, 7.1 and 8.0 ended with t1 = 1 (the older
// write sorted after the younger one in the rename table) for a pad of 600 instructions.

import (
	"strings"
	"testing"

	"github.com/teivah/majorana/risc"
)

func longProgram(pad int) string {
	var b strings.Builder
	b.WriteString("j far\nnear:\naddi t1, zero, 2\naddi t2, t1, 5\nret\n")
	for i := 0; i < pad; i++ {
		b.WriteString("nop\n")
	}
	b.WriteString("far:\nlw t0, 0(zero)\naddi t1, t0, 1\naddi t3, t1, 1\nj near\n")
	return b.String()
}

func TestLongProgramTagCollision(t *testing.T) {
	for _, pad := range []int{260, 600, 1200} {
		src := longProgram(pad)
		for _, name := range []string{"mvp1", "mvp6-0", "mvp6-1", "mvp6-2", "mvp6-3", "mvp7-0", "mvp7-1", "mvp8-0"} {
			for par := 1; par <= 4; par++ {
				r := runOne(name, 512, par, src, nil)
				if r.out != "ok" || r.regs[risc.T1] != 2 || r.regs[risc.T2] != 7 || r.regs[risc.T3] != 2 {
					t.Errorf("pad=%d %s par=%d: %s t1=%d t2=%d t3=%d (want 2, 7, 2)", pad, name, par, r.out, r.regs[risc.T1], r.regs[risc.T2], r.regs[risc.T3])
				}
			}
		}
	}
}
