package tri

// Demonstration (known finding R03.30): an instruction on the wrong path of a taken branch that
// produces an ISA error (division by zero) makes the whole run fail: the execute unit hands the
// error to Run, which returns it in the very step, before the older branch has resolved and
// squashed the instruction. Sequentially the division is never executed.
//
//   lw t1,0(zero) ; beqz t1,end ; div t2,t3,t0 ; addi t4,zero,1 ; end: addi t5,zero,9 ; ret
//
// with mem[0] = 0 (branch taken) and t0 = 0. The test asserts the defect as it stands: MVP-6.0
// from 2 units, MVP-6.1 … 8.0 with 3 units return "division by zero"; MVP-1, 4, 5 end with t5 = 9.

import (
	"testing"

	"github.com/teivah/majorana/risc"
)

func TestSpeculativeError(t *testing.T) {
	src := "lw t1, 0(zero)\nbeqz t1, end\ndiv t2, t3, t0\naddi t4, zero, 1\nend:\naddi t5, zero, 9\nret"
	for _, name := range []string{"mvp1", "mvp4", "mvp5"} {
		if r := runOne(name, 512, 1, src, nil); r.out != "ok" || r.regs[risc.T5] != 9 {
			t.Errorf("%s: %s %v", name, r.out, r.regs)
		}
	}
	for _, name := range []string{"mvp6-0", "mvp6-1", "mvp6-2", "mvp6-3", "mvp7-0", "mvp7-1", "mvp8-0"} {
		r := runOne(name, 512, 3, src, nil)
		if r.out == "ok" {
			t.Errorf("%s par=3: the wrong-path error no longer fails the run: remove the known finding R03.30 for this variant", name)
		} else {
			t.Logf("%s par=3: %s (known finding R03.30)", name, r.out)
		}
	}
}
