package tri

// Demonstration (known finding R04.23): on the renaming variants the renamed register writes are
// folded into the committed table — ONE value per register — whenever a conditional branch
// resolves (RATCommit at a not-taken branch, RATRollback at a taken one), whatever older
// instructions are still waiting in an execute unit. An older instruction that has not read its
// operand yet (it waits for another, forwarded operand) then reads the value committed by a
// YOUNGER instruction: a write-after-read dependence is broken by the commit.
//
//   lw t1,0(zero) ; add t2,t1,t0 ; addi t0,zero,9 ; addi s4,s4,1 ; bne s2,s3,end ; … ; end: ret
//
// with t0 = 5 and mem[0] = 100 in the initial state: sequentially t2 = 105. The test asserts
// the defect as it stands: MVP-6.3, 7.0, 7.1, 8.0 with 3 units end with t2 = 109.

import (
	"testing"

	"github.com/teivah/majorana/risc"
)

func TestCommitBeforeOlderReader(t *testing.T) {
	src := "lw t1, 0(zero)\nadd t2, t1, t0\naddi t0, zero, 9\naddi s4, s4, 1\nbne s2, s3, end\naddi s5, zero, 1\nend:\nret"
	setup := func(c *risc.Context) { c.Memory[0] = 100; c.Registers[risc.T0] = 5 }
	for _, name := range []string{"mvp1", "mvp6-1", "mvp6-2"} {
		if r := runOne(name, 512, 3, src, setup); r.out != "ok" || r.regs[risc.T2] != 105 {
			t.Errorf("%s: %s t2=%d (want 105)", name, r.out, r.regs[risc.T2])
		}
	}
	// branch not taken: RATCommit; branch taken (s2 = 1): RATRollback, which folds the writes older than the branch
	taken := func(c *risc.Context) { setup(c); c.Registers[risc.S2] = 1 }
	for _, name := range []string{"mvp6-3", "mvp7-0", "mvp7-1", "mvp8-0"} {
		for kind, st := range map[string]func(*risc.Context){"RATCommit": setup, "RATRollback": taken} {
			r := runOne(name, 512, 3, src, st)
			if r.out == "ok" && r.regs[risc.T2] == 105 {
				t.Errorf("%s (%s): the older reader now gets its operand: remove the known finding R04.23", name, kind)
			} else {
				t.Logf("%s par=3 (%s): %s t2=%d, want 105 (known finding R04.23)", name, kind, r.out, r.regs[risc.T2])
			}
		}
	}
}
